(* Corr/C05Judge.v — verdict functions of the C05 correspondence (construction and conversion).
   Values are Z (integers stand for themselves, other floats are opaque tokens), add = Z.add,
   veqb = Z.eqb. *)
From Coq Require Import ZArith List Bool.
From Verif Require Import Py Shape COO GCXS Judge SArr Convert ScipyConv.
Import ListNotations.
Open Scope Z_scope.

Definition fmtZ := fmt.
Definition reprZ := repr Z.

Definition gcxs_eqb (a b : gcxs Z) : bool :=
  zl_eqb (g_shape a) (g_shape b) && zl_eqb (g_caxes a) (g_caxes b) && zl_eqb (g_data a) (g_data b)
  && zl_eqb (g_indices a) (g_indices b) && zl_eqb (g_indptr a) (g_indptr b) && (g_fill a =? g_fill b).

Definition item_eqb (a b : idx * Z) : bool := zl_eqb (fst a) (fst b) && (snd a =? snd b).

Definition sarr_eqb (a b : sarr) : bool :=
  match a, b with
  | SCoo x, SCoo y => coo_eqb x y
  | SGcxs x, SGcxs y => gcxs_eqb x y
  | SDok s1 i1 f1, SDok s2 i2 f2 => zl_eqb s1 s2 && list_eqb item_eqb i1 i2 && (f1 =? f2)
  | SDense x, SDense y => zl_eqb (d_shape x) (d_shape y) && zl_eqb (d_flat x) (d_flat y)
  | _, _ => false
  end.

(* the harness reports dict items sorted by key *)
Definition sort_items (sh : shape) (it : list (idx * Z)) : list (idx * Z) :=
  map snd (stable_sort (combine (map (fun kv => ravel sh (fst kv)) it) it)).

Definition sarr_of_repr (r : reprZ) : sarr :=
  match r with
  | RCoo c => SCoo c
  | RGcxs g => SGcxs g
  | RDok sh it f => SDok sh (sort_items sh it) f
  | RDense d _ => SDense d
  end.

Definition repr_of_sarr (a : sarr) (fill : Z) : option reprZ :=
  match a with
  | SCoo c => Some (RCoo c)
  | SGcxs g => Some (RGcxs g)
  | SDok sh it f => Some (RDok sh it f)
  | SDense d => Some (RDense d fill)
  | _ => None
  end.

Definition is_exc (a : sarr) : bool := match a with SExc _ => true | _ => false end.
Definition is2d (sh : shape) : bool := match sh with [_; _] => true | _ => false end.

Definition fill_okb (a : sarr) (fill : Z) : bool :=
  match sarr_fill a with Some f => f =? fill | None => true end.

(* comparison of one implementation result with the model's and with the original dense meaning:
   0 ok | 1 representation differs from the model's (meaning intact) | 2 shape/fill/element changed
   | 3 not in canonical form *)
(* dense meaning against the row-major values of the original (when the case carries them: large
   arrays are compared through the raw representation, which the model is proved to give the right
   meaning, and through NumPy on the harness side) *)
Definition meaning_okb (o : sarr) (sh : shape) (flat : option (list Z)) : bool :=
  match flat with
  | Some fl => sarr_same_dense o sh fl
  | None => opt_eqb zl_eqb (sarr_shape o) (Some sh)
  end.

Definition compare_result (m : reprZ) (o : sarr) (sh : shape) (fill : Z) (flat : option (list Z)) : Z :=
  if negb (meaning_okb o sh flat && fill_okb o fill) then 2
  else if negb (sarr_wfb o) then 3
  else if negb (sarr_eqb (sarr_of_repr m) o) then 1 else 0.

Definition spec_only (o : sarr) (sh : shape) (fill : Z) (flat : option (list Z)) : Z :=
  if negb (meaning_okb o sh flat && fill_okb o fill) then 2
  else if negb (sarr_wfb o) then 3 else 0.

(* ------------------------------------------------------------------ conversion chains *)
(* initial canonical COO; executed hops with a flag "through scipy.sparse" (then the hop also
   requires ndim = 2 and fill 0); the implementation's result after each hop (the run stops at the
   first exception); row-major dense values of the initial array *)
Definition chain_case := (coo Z * list (fmtZ * bool) * list sarr * option (list Z))%type.

(* verdict of hop number i (from 1): 10 * i + code, code =
   1 representation | 2 value | 3 canonical form | 4 exception on a valid hop |
   5 exception on a valid hop that the model reproduces (clause zero_dim_from_iter) |
   6 invalid hop accepted | 7 malformed case *)
Fixpoint judge_hops (i : Z) (sh : shape) (fill : Z) (flat : option (list Z)) (st : option reprZ)
         (hops : list (fmtZ * bool)) (outs : list sarr) : Z :=
  match hops, outs with
  | [], [] => 0
  | (f, sc) :: hr, o :: orest =>
    match st with
    | None => 10 * i + 7
    | Some r =>
      let valid := hop_okb sh f && (negb sc || (is2d sh && (fill =? 0))) in
      let code :=
        if negb valid then (if is_exc o then 0 else 6)
        else match convert Z.eqb Z.add f r with
             | Raise _ => if is_exc o then 5 else spec_only o sh fill flat
             | Ok m => if is_exc o then 4 else
                       match o with SHang | SOther | SScalar _ => 4 | _ => compare_result m o sh fill flat end
             end in
      if negb (code =? 0) then 10 * i + code
      else if is_exc o then (if is_nil orest && is_nil hr then 0 else 10 * i + 7)
      else judge_hops (i + 1) sh fill flat (repr_of_sarr o fill) hr orest
    end
  | _, _ => 10 * i + 7
  end.

Definition judge_chain (c : chain_case) : Z :=
  let '(c0, hops, outs, flat) := c in
  if negb (canonicalb c0) then 7
  else judge_hops 1 (c_shape c0) (c_fill c0) flat (Some (RCoo c0)) hops outs.

(* branch tags of a chain (for the coverage histogram): ndim * 100 + number of hops *)
Definition tag_chain (c : chain_case) : Z :=
  let '(c0, hops, _, _) := c in Z.of_nat (length (c_shape c0)) * 100 + Z.of_nat (length hops).

(* ------------------------------------------------------------------ construction *)
Definition dup_vals (es : list (idx * Z)) (ix : idx) : list Z :=
  map snd (filter (fun kv => idx_eqb (fst kv) ix) es).

(* the Spec: every element is the sum of the values given for its index, the fill when none is *)
Definition spec_flat (sh : shape) (es : list (idx * Z)) (fill : Z) : list Z :=
  map (fun ix => match dup_vals es ix with [] => fill | v :: r => fold_left Z.add r v end) (all_indices sh).

Inductive mk_case :=
| MkCoords (sorted hasdup prune : bool) (sh : shape) (coords : list idx) (data : list Z) (fill : Z) (out : sarr)
| MkIter (sh : shape) (items : list (idx * Z)) (fill : Z) (f : fmtZ) (out : sarr)
| MkDense (d : dense Z) (fill : Z) (f : fmtZ) (out : sarr)
| MkScipyCoo (sh : shape) (coords : list idx) (data : list Z) (f : fmtZ) (out : sarr)
| MkScipyCs (axis : Z) (sh : shape) (data indices indptr : list Z) (f : fmtZ) (out : sarr).

Definition is_value (o : sarr) : bool :=
  match o with SCoo _ | SGcxs _ | SDok _ _ _ | SDense _ => true | _ => false end.

(* 0 ok | 1 representation | 2 value | 3 canonical form | 4 exception on valid input |
   5 exception the model reproduces (clause zero_dim_from_iter) | 6 malformed input accepted *)
Definition judge_model_vs (m : res reprZ) (valid : bool) (o : sarr) (sh : shape) (fill : Z) (flat : list Z) : Z :=
  let flat := Some flat in
  if negb valid then (if is_exc o then 0 else 6)
  else match m with
       | Raise _ => if is_exc o then 5 else if is_value o then spec_only o sh fill flat else 4
       | Ok r => if negb (is_value o) then 4 else compare_result r o sh fill flat
       end.

Definition coo_res (c : res (coo Z)) : res reprZ := bind c (fun x => Ok (RCoo x)).

Definition judge_make (c : mk_case) : Z :=
  match c with
  | MkCoords s h p sh coords data fill o =>
    let valid := forallb (in_rangeb sh) coords && (length data =? length coords)%nat in
    judge_model_vs (coo_res (coo_make_checked Z.eqb Z.add s h p sh coords data fill)) valid o sh fill
                   (spec_flat sh (combine coords data) fill)
  | MkIter sh items fill f o =>
    let valid := forallb (fun kv => in_rangeb sh (fst kv)) items && hop_okb sh f in
    judge_model_vs (bind (from_iter_pairs Z.eqb Z.add sh items fill) (fun x => convert Z.eqb Z.add f (RCoo x)))
                   valid o sh fill (spec_flat sh items fill)
  | MkDense d fill f o =>
    let valid := (length (d_flat d) =? length (all_indices (d_shape d)))%nat && hop_okb (d_shape d) f in
    judge_model_vs (convert Z.eqb Z.add f (RDense d fill)) valid o (d_shape d) fill (d_flat d)
  | MkScipyCoo sh coords data f o =>
    let valid := forallb (in_rangeb sh) coords && (length data =? length coords)%nat && hop_okb sh f in
    judge_model_vs (bind (coo_make_checked Z.eqb Z.add false true false sh coords data 0)
                         (fun x => convert Z.eqb Z.add f (RCoo x)))
                   valid o sh 0 (spec_flat sh (combine coords data) 0)
  | MkScipyCs axis sh data indices indptr f o =>
    (* a csr (axis 0) / csc (axis 1) matrix, canonical or not (unsorted, duplicated indices): the result
       is the compressed / COO / DOK form of the canonical COO that sums the duplicates *)
    let rows := row_numbers indptr in
    let coords := map (fun rc => if axis =? 0 then [fst rc; snd rc] else [snd rc; fst rc]) (combine rows indices) in
    let valid := forallb (in_rangeb sh) coords && (length data =? length coords)%nat
                 && (length indices =? length data)%nat && hop_okb sh f in
    (* same orientation (csr -> compressed axis 0, csc -> 1): also the scipy model of Model/ScipyConv.v
       (has_canonical_format, sum_duplicates, _canonical_scipy's condition) against real scipy *)
    let m := mkSCS (axis =? 1) sh data indices indptr in
    let same := match f with
                | FGcxs (Some [a]) => a =? axis
                | FCsr => axis =? 0
                | FCsc => axis =? 1
                | _ => false end in
    if same && sc_structb m && negb (sarr_eqb (SGcxs (gcxs_from_scipy Z.eqb Z.add 0 m)) o) then 1
    else
    judge_model_vs (bind (coo_make_checked Z.eqb Z.add false true false sh coords data 0)
                         (fun x => convert Z.eqb Z.add f (RCoo x)))
                   valid o sh 0 (spec_flat sh (combine coords data) 0)
  end.

(* ------------------------------------------------------------------ kernels *)
Inductive k_case :=
| KUnravel (n : Z) (sh : shape) (out : list Z)
| KRavel (arr : idx) (sh : shape) (out : Z)
| KUncompress (indptr : list Z) (out : list Z)
| KConvert (n : Z) (old_shape rsh : shape) (sao : list Z) (sh : shape) (new_ord : list Z)
           (new_rsh new_cshape : shape) (out_linear : Z) (out_coords : list Z)
| KArgsortStable (keys : list Z) (out : list Z)
| KBincountCumsum (rows : list Z) (m : Z) (out : list Z)
| KArgmin (l : list Z) (out : Z)
| KInvPerm (ord : list Z) (out : list Z)
| KStrided (n : Z) (sh : shape) (out : list Z)
| KFromCoo (c : coo Z) (ca : list Z) (data indices indptr : list Z)
| KTranspose (g : gcxs Z) (new_ca : list Z) (data indices indptr : list Z)
| KLinearLoc (sh : shape) (coords : list idx) (out : list Z).

Definition positions (n : nat) : list Z := map Z.of_nat (seq 0 n).

(* 0 ok | 1 kernel and model transcription disagree | 2 the Spec (Shape.ravel/unravel) disagrees too *)
Definition judge_kernel (c : k_case) : Z :=
  match c with
  | KUnravel n sh out =>
    if zl_eqb (unravel_k n sh) out then (if zl_eqb (unravel sh n) out then 0 else 2) else 1
  | KRavel arr sh out =>
    if ravel_k arr sh =? out then (if ravel sh arr =? out then 0 else 2) else 1
  | KUncompress indptr out => if zl_eqb (row_numbers indptr) out then 0 else 1
  | KConvert n osh rsh sao sh nord nrsh ncsh ol oc =>
    let r := convert_coord n osh rsh sao sh nord nrsh ncsh in
    if (fst r =? ol) && zl_eqb (snd r) oc then 0 else 1
  | KArgsortStable keys out =>
    if zl_eqb (map snd (stable_sort (combine keys (positions (length keys))))) out then 0 else 1
  | KBincountCumsum rows m out => if zl_eqb (indptr_of rows m) out then 0 else 1
  | KArgmin l out => if argmin l =? out then 0 else 1
  | KInvPerm ord out => if zl_eqb (inv_perm ord) out then 0 else 1
  | KStrided n sh out =>
    if zl_eqb (unravel_strided sh n) out then (if zl_eqb (unravel sh n) out then 0 else 2) else 1
  | KFromCoo c ca d i p =>
    let g := gcxs_from_coo c ca in
    if zl_eqb (g_data g) d && zl_eqb (g_indices g) i && zl_eqb (g_indptr g) p then 0 else 1
  | KTranspose g ca d i p =>
    let h := gcxs_transpose_same g ca in
    if zl_eqb (g_data h) d && zl_eqb (g_indices h) i && zl_eqb (g_indptr h) p then 0
    else (* the arrays differ from the model's: do they still mean the same array? *)
      let o := SGcxs (mkGCXS (g_shape g) ca d i p (g_fill g)) in
      if opt_eqb zl_eqb (sarr_flat o) (sarr_flat (SGcxs g)) then 1 else 2
  | KLinearLoc sh coords out => if zl_eqb (map (ravel sh) coords) out then 0 else 1
  end.

(* ------------------------------------------------------------------ representation independence *)
(* expected dense result (NumPy on the densified operand) and the results obtained with the operand
   held in each representation: k = 1-based position of the first result whose shape or elements
   differ *)
Definition indep_case := (dense Z * list sarr)%type.

Definition judge_indep (c : indep_case) : Z :=
  let '(d, outs) := c in
  let fix go (i : Z) (l : list sarr) :=
    match l with
    | [] => 0
    | o :: r => if sarr_same_dense o (d_shape d) (d_flat d) then go (i + 1) r else i
    end in go 1 outs.
