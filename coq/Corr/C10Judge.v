(* Corr/C10Judge.v — verdict functions of the C10 correspondence (searching, sorting, sets).
   Every case carries the model input, the operation with its parameters and what the
   implementation returned; the judge evaluates the MODEL (Model/SortSearch.v) and the SPEC
   (Spec/NpSort.v, on the densified input) and compares both with the implementation. *)
From Coq Require Import ZArith List Bool.
From Verif Require Import Py Shape COO GCXS Judge SArr NpSort SortSearch.
Import ListNotations.
Open Scope Z_scope.

(* ------------------------------------------------------------------ kernel level *)

(* (group coords, sort coords, data, fill, sort_axis_len, descending, returned (result_indices, data)) *)
Definition sortk_case := (list Z * list Z * list Z * Z * Z * bool * option (list Z * list Z))%type.

(* 0 ok | 1 the kernel's output differs from the model's | 3 the kernel raised / hung *)
Definition judge_sortk (c : sortk_case) : Z :=
  let '(gc, sc, data, fill, len, desc, out) := c in
  match out with
  | None => 3
  | Some (ri, d) =>
    let '(_, ri', d') := sort_coo gc sc data fill len desc in
    if zl_eqb ri ri' && zl_eqb d d' then 0 else 1
  end.

(* (reduce coords, index coords, data, reduce_size, fill, max mode, returned (result_indices, result_data)) *)
Definition minmaxk_case := (list Z * list Z * list Z * Z * Z * bool * option (list Z * list Z))%type.

Definition judge_minmaxk (c : minmaxk_case) : Z :=
  let '(rc, ic, data, rsize, fill, maxm, out) := c in
  match out with
  | None => 3
  | Some (ri, rd) =>
    let '(ri', rd') := minmax_args rc ic data rsize fill maxm in
    if zl_eqb ri ri' && zl_eqb rd rd' then 0 else 1
  end.

(* ------------------------------------------------------------------ API level *)

Inductive c10op :=
| OpSort (axis : Z) (desc : bool)
| OpArg (maxm : bool) (axis : option Z) (keepdims : bool)
| OpUniqueValues
| OpUniqueCounts
| OpNonzero
| OpArgwhere
| OpWhere
| OpSortArgwhere (axis : Z) (desc : bool)    (* argwhere(sort(x, axis, descending)): an order-dependent
                                                observer of the raw sort result *)
| OpT.                                       (* x.T: an observer of the transposition memo that sort and
                                                argmax/argmin share on a cache-enabled operand *)

(* what the implementation returned *)
Inductive c10res :=
| RArr (a : sarr)                       (* an array, a scalar, an exception, a hang *)
| RList (l : list Z)                    (* 1-d ndarray *)
| RPair (a b : list Z)                  (* (values, counts) *)
| RCols (c : list (list Z))             (* tuple of 1-d index arrays *)
| RIdx (l : list idx).                  (* (n, ndim) index array *)

Definition api_case := (coo Z * c10op * c10res)%type.

Inductive outcome :=
| OArr (sh : shape) (flat : list Z)
| OList (l : list Z)
| OPair (a b : list Z)
| OCols (c : list (list Z))
| OIdx (l : list idx)
| OExc (e : exc).

Definition of_dense (r : res (dense Z)) : outcome :=
  match r with Ok d => OArr (d_shape d) (d_flat d) | Raise e => OExc e end.

(* NumPy on the densified input.  For nonzero/argwhere/where a non-zero fill value is a documented
   rejection of the sparse functions (check_zero_fill_value): ValueError is what is expected. *)
Definition spec_out (x : coo Z) (op : c10op) : outcome :=
  let d := todense x in
  match op with
  | OpSort axis desc => of_dense (np_sort_axis d axis desc)
  | OpArg maxm axis kd => of_dense (np_argbest_axis maxm d axis kd)
  | OpUniqueValues => OList (np_unique_values d)
  | OpUniqueCounts => let '(a, b) := np_unique_counts_arr d in OPair a b
  | OpNonzero | OpWhere => if c_fill x =? 0 then OCols (np_nonzero d) else OExc ValueError
  | OpArgwhere => if c_fill x =? 0 then OIdx (np_argwhere d) else OExc ValueError
  | OpSortArgwhere axis desc =>
    match np_sort_axis d axis desc with
    | Ok d' => if c_fill x =? 0 then OIdx (np_argwhere d') else OExc ValueError
    | Raise e => OExc e
    end
  | OpT => let sh := rev (c_shape x) in OArr sh (map (fun ix => dget d (rev ix)) (all_indices sh))
  end.

Inductive mout :=
| MArr (r : res (coo Z))
| MList (l : list Z)
| MPair (a b : list Z)
| MCols (r : res (list (list Z)))
| MIdx (r : res (list idx)).

Definition model_out (x : coo Z) (op : c10op) : mout :=
  match op with
  | OpSort axis desc => MArr (ss_sort x axis desc)
  | OpArg maxm axis kd => MArr (ss_argminmax maxm x axis kd)
  | OpUniqueValues => MList (ss_unique_values x)
  | OpUniqueCounts => let '(a, b) := ss_unique_counts x in MPair a b
  | OpNonzero => MCols (ss_nonzero x)
  | OpWhere => MCols (ss_where1 x)
  | OpArgwhere => MIdx (ss_argwhere x)
  | OpSortArgwhere axis desc => MIdx (y <- ss_sort x axis desc ;; ss_argwhere y)
  | OpT => MArr (Ok (ss_transpose x (rev (iota (length (c_shape x))))))
  end.

Definition axis_oob (x : coo Z) (op : c10op) : bool :=
  let nd := Z.of_nat (length (c_shape x)) in
  match op with
  | OpSort a _ | OpArg _ (Some a) _ | OpSortArgwhere a _ => negb ((- nd <=? a) && (a <? nd))
  | _ => false
  end.

Definition agrees_spec (x : coo Z) (op : c10op) (r : c10res) : bool :=
  match spec_out x op, r with
  | OArr sh fl, RArr a => match a with SExc _ | SHang | SOther => false | _ => sarr_same_dense a sh fl end
  | OExc e, RArr (SExc e') => exc_eqb e e' || (axis_oob x op && exc_eqb e' IndexError)
  | OList l, RList l' => zl_eqb l l'
  | OPair a b, RPair a' b' => zl_eqb a a' && zl_eqb b b'
  | OCols c, RCols c' => zll_eqb c c'
  | OIdx l, RIdx l' => zll_eqb l l'
  | _, _ => false
  end.

Definition agrees_model (x : coo Z) (op : c10op) (r : c10res) : bool :=
  match model_out x op, r with
  | MArr (Ok c), RArr (SCoo c') => coo_eqb c c'
  | MArr (Raise e), RArr (SExc e') => exc_eqb e e'
  | MList l, RList l' => zl_eqb l l'
  | MPair a b, RPair a' b' => zl_eqb a a' && zl_eqb b b'
  | MCols (Ok c), RCols c' => zll_eqb c c'
  | MCols (Raise e), RArr (SExc e') => exc_eqb e e'
  | MIdx (Ok l), RIdx l' => zll_eqb l l'
  | MIdx (Raise e), RArr (SExc e') => exc_eqb e e'
  | _, _ => false
  end.

Definition res_wf (r : c10res) : bool := match r with RArr a => sarr_wfb a | _ => true end.

(* verdict (no domain clause is left: every input is an ordinary input):
   0    implementation = model = Spec
   1    implementation = Spec but its representation differs from the model's (model not faithful)
   2    implementation differs from the Spec
   3    implementation's result is not in canonical form *)
Definition judge_api (c : api_case) : Z :=
  let '(x, op, r) := c in
  let s := agrees_spec x op r in
  let m := agrees_model x op r in
  if negb (res_wf r) then 3
  else if s then (if m then 0 else 1)
  else 2.
