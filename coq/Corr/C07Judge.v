(* Corr/C07Judge.v — verdict functions of the C07 correspondence (operation x fill matrix, coercion probes).
   The expectation for a case is computed by RUNNING THE MODEL: the required policy of the operation
   (Model/FillRules.v:required), the generated guards on the paths of its generated table row
   (Gen/S_fill.v:sites, through run_guards, i.e. through the generated loop bodies), and for the probes the
   generated __array__ / _get_fill_value / _to_scalar fragments. *)
From Coq Require Import ZArith List Bool String.
From Verif Require Import Py PyExt PyFill S_fill FillRules Judge.
Import ListNotations.
Open Scope Z_scope.
Open Scope string_scope.

(* outcome classes reported by the harness *)
Definition O_RIGHT := 0.        (* equals NumPy on the densified operands at every position *)
Definition O_VALUEERROR := 1.
Definition O_RUNTIMEERROR := 2.
Definition O_OTHER := 3.        (* any other exception *)
Definition O_WRONG := 4.        (* a result that differs from NumPy: silently wrong *)
Definition O_HANG := 5.
Definition O_UNSUPPORTED := 6.  (* the operation fails in the same format/dtype with a zero fill too *)

(* (operation key in the generated table, recipe kind (1 = one-argument where), fill tokens of the sparse
   operands in call order, outcome class) *)
Definition matrix_case := (string * Z * list Z * Z)%type.

Inductive expect := MustRaise | MayReturn.

(* bind the operand names of the policy to the fills of the case: a single (list / starred) name takes
   all of them, several names take one each *)
Definition bind_ops (ops : list string) (toks : list Z) : env :=
  match ops with
  | [o] => [(o, map VInt toks)]
  | _ => combine ops (map (fun t => [VInt t]) toks)
  end.

Definition raises_ve (r : res pyv) : bool := match r with Raise ValueError => true | _ => false end.

Definition run_paths (s : site) (ops : list string) (relevant : path -> bool) (toks : list Z) : expect :=
  let rho := bind_ops ops toks in
  let ps := filter (fun p => path_returns p && relevant p) (s_paths s) in
  if negb (is_nil ps) && forallb (fun p => raises_ve (run_guards rho (p_guards p))) ps
  then MustRaise else MayReturn.

Definition model_expect (pol : policy) (kind : Z) (s : site) (toks : list Z) : expect :=
  match pol with
  | ZeroOnly ops | ZeroOnlyLoose ops => run_paths s ops (fun _ => true) toks
  | ZeroOnlyWhen c ops => if (kind =? 1)%Z then run_paths s ops (fun p => mem c (p_conds p)) toks else MayReturn
  | Consistent a => run_paths s [a] (fun _ => true) toks
  | PreservesOrZeroOnly ops => run_paths s ops (fun _ => true) toks
  | Preserves _ | Computes | NoArrayResult | CallerGuarded => MayReturn
  end.

(* 0 ok | 1 no policy / no table row | 2 SILENTLY WRONG | 3 the model's guards demand ValueError, the
   implementation returned a correct result | 4 other exception | 5 hang | 7 RuntimeError inside an operation *)
Definition judge_matrix (c : matrix_case) : Z :=
  let '(op, kind, toks, out) := c in
  if (out =? O_UNSUPPORTED)%Z then 0 else
  match policy_of op, find_site sites op with
  | Some pol, Some s =>
      if (out =? O_HANG)%Z then 5 else
      if (out =? O_WRONG)%Z then 2 else
      match model_expect pol kind s toks with
      | MustRaise =>
          if (out =? O_VALUEERROR)%Z then 0 else if (out =? O_RIGHT)%Z then 3
          else if (out =? O_RUNTIMEERROR)%Z then 7 else 4
      | MayReturn =>
          if (out =? O_RIGHT)%Z || (out =? O_VALUEERROR)%Z then 0
          else if (out =? O_RUNTIMEERROR)%Z then 7 else 4
      end
  | _, _ => 1
  end.

(* branch tag of a case (for the coverage histogram): 0 must-raise, 1 may-return, 2 unknown operation *)
Definition tag_matrix (c : matrix_case) : Z :=
  let '(op, kind, toks, out) := c in
  match policy_of op, find_site sites op with
  | Some pol, Some s => match model_expect pol kind s toks with MustRaise => 0 | MayReturn => 1 end
  | _, _ => 2
  end.

(* verdict and branch tag in one pass: 4 * verdict + tag + 1 (never 0, so run_judge reports every case) *)
Definition judge_matrix_tagged (c : matrix_case) : Z := 4 * judge_matrix c + tag_matrix c + 1.

(* probes: (kind, AUTO_DENSIFY, func(fills, ndarrays) constant?, result shape, ndarray shape, size of the array,
   outcome class, result is dense?)
   kind 0: implicit coercion through __array__;  1: NumPy function without sparse counterpart (TypeError, or the
   coercion rule);  2: element-wise call mixing sparse and dense operands (or none: stays sparse);
   3: scalar conversion float(x) / int(x) / bool(x) *)
Definition probe_case := (Z * bool * bool * list Z * list Z * Z * Z * bool)%type.

(* 0 ok | 11 coercion not refused | 12 auto-densify result wrong | 13 dense-mix rule | 14 scalar rule
   | 15 silently wrong | 16 maybe_densify rule | 5 hang *)
Definition judge_probe (c : probe_case) : Z :=
  let '(kind, auto, const, shape, nshape, size, out, dense) := c in
  if (out =? O_UNSUPPORTED)%Z then 0 else
  if (out =? O_HANG)%Z then 5 else
  if (kind =? 0)%Z then
    match array_coerce auto (VInt 0) with
    | Raise RuntimeError => if (out =? O_RUNTIMEERROR)%Z then 0 else 11
    | r => if is_dense_result r && (out =? O_RIGHT)%Z && dense then 0 else 12
    end
  else if (kind =? 1)%Z then
    if (out =? O_WRONG)%Z then 15
    else if (out =? O_RIGHT)%Z && negb auto then 11 else 0
  else if (kind =? 2)%Z then
    match dense_mix const shape nshape with
    | MixSparse => if (out =? O_RIGHT)%Z && negb dense then 0 else if (out =? O_WRONG)%Z then 15 else 13
    | MixDense => if (out =? O_RIGHT)%Z && dense then 0 else if (out =? O_WRONG)%Z then 15 else 13
    | MixValueError => if (out =? O_VALUEERROR)%Z then 0 else 13
    | MixOther => 13
    end
  else if (kind =? 3)%Z then
    match to_scalar size shape with
    | Raise ValueError => if (out =? O_VALUEERROR)%Z then 0 else 14
    | r => if is_dense_result r && (out =? O_RIGHT)%Z then 0 else if (out =? O_WRONG)%Z then 15 else 14
    end
  else if (kind =? 4)%Z then
    (* x.maybe_densify(max_size, min_density): size = x.size, shape = [max_size], const = (x.density < min_density) *)
    match maybe_densify_coo size (hd 0 shape) const, maybe_densify_gcxs size (hd 0 shape) const with
    | Raise ValueError, Raise ValueError => if (out =? O_VALUEERROR)%Z then 0 else 16
    | r, r' => if is_dense_result r && is_dense_result r' && (out =? O_RIGHT)%Z && dense then 0
               else if (out =? O_WRONG)%Z then 15 else 16
    end
  else 1.

(* kernel-level correspondence of the guards themselves: (kind: 0 check_zero_fill_value | 1 check_consistent_fill_value
   | 2 check_fill_value;  accept mode for kind 2: 0 default | 1 scalar | 2 list;  operands: Some fill token, None = an
   operand without fill_value (ndarray);  accept values;  outcome: 0 returned | 1 ValueError | 3 other exception) *)
Definition guard_case := (Z * Z * list (option Z) * list Z * Z)%type.

Definition opv (o : option Z) : pyv := match o with Some t => VInt t | None => VNone end.

Definition judge_guard (c : guard_case) : Z :=
  let '(kind, amode, ops, acc, out) := c in
  let r :=
    if (kind =? 0)%Z then check_zero_fill_value (map opv ops)
    else if (kind =? 1)%Z then check_consistent_fill_value (map opv ops)
    else check_fill_value (opv (hd None ops))
           (if (amode =? 0)%Z then VNone else if (amode =? 1)%Z then VInt (hd 0 acc) else VTuple (map VInt acc)) in
  let m := match r with Ok _ => 0 | Raise ValueError => 1 | Raise _ => 3 end in
  if (m =? out)%Z then 0 else 21.
