(* Corr/C08Judge.v — verdict functions of the C08 correspondence (shape manipulation).
   A case is (input array as a canonical COO literal, operation + arguments, what the
   implementation returned as an `sarr`).  The judge runs the MODEL (Model/ShapeOps.v over the
   generated fragments) and the SPEC (Spec/NpShapeOps.v on the dense meaning of the input) and
   compares the implementation with both. *)
From Coq Require Import ZArith List Bool.
From Verif Require Import Py Shape COO GCXS Judge SArr G_shapeops ShapeOps NpShapeOps.
Import ListNotations.
Open Scope Z_scope.

Inductive c08op :=
| OTranspose (axes : option (list Z))
| OT
| OMT
| OSwap (a b : Z)
| OMove (s d : axarg)
| OReshape (new : list Z)
| OFlatten
| OSqueeze (a : axarg)
| OExpand (a : Z)
| OFlip (a : axarg)
| ORoll (s : shiftarg) (a : axarg)
| OPad (pw : padw) (cv : option Z)
| OBroadcast (target : list Z)
| OBroadcastArrays (other : list Z).

Definition c08_case := (coo Z * c08op * sarr)%type.

(* ------------------------------------------------------------------ the model *)

Definition run_model (x : coo Z) (o : c08op) : res (coo Z) :=
  match o with
  | OTranspose axes => coo_transpose x axes
  | OT => coo_T x
  | OMT => coo_mT x
  | OSwap a b => coo_swapaxes x a b
  | OMove s d => coo_moveaxis x s d
  | OReshape new => coo_reshape x new
  | OFlatten => coo_flatten x
  | OSqueeze a => coo_squeeze x a
  | OExpand a => coo_expand_dims x a
  | OFlip a => coo_flip x a
  | ORoll s a => coo_roll x s a
  | OPad pw cv => coo_pad Z.eqb x pw (match cv with Some c => c | None => 0 end)
  | OBroadcast t => coo_broadcast_to x t
  | OBroadcastArrays other =>
    match np_broadcast_shapes [c_shape x; other] with
    | Some t => coo_broadcast_to x t
    | None => Raise ValueError
    end
  end.

(* ------------------------------------------------------------------ the spec *)

Definition np_axes (nd : Z) (l : list Z) : res (list Z) := mapM (np_normalize_axis nd) l.

Definition spec_transpose (sh : shape) (f : idx -> Z) (perm : list Z) : res (shape * (idx -> Z)) :=
  if is_perm (slen sh) perm then Ok (np_transpose_shape sh perm, np_transpose perm f) else Raise ValueError.

Definition zsum (l : list Z) : Z := fold_right Z.add 0 l.

Definition run_spec (sh : shape) (fill : Z) (f : idx -> Z) (o : c08op) : res (shape * (idx -> Z)) :=
  let nd := slen sh in
  match o with
  | OTranspose None | OT => spec_transpose sh f (rev (zrange nd))
  | OTranspose (Some l) => l' <- np_axes nd l ;; spec_transpose sh f l'
  | OMT => if nd <? 2 then Raise ValueError else spec_transpose sh f (swap_perm nd (nd - 2) (nd - 1))
  | OSwap a b => a' <- np_normalize_axis nd a ;; b' <- np_normalize_axis nd b ;;
                 spec_transpose sh f (swap_perm nd a' b')
  | OMove s d =>
    src <- np_axes nd (ax_list s) ;; dst <- np_axes nd (ax_list d) ;;
    if negb (length src =? length dst)%nat || sdup src || sdup dst then Raise ValueError
    else spec_transpose sh f (np_moveaxis_perm nd src dst)
  | OReshape new => t <- np_reshape_target sh new ;; Ok (t, np_reshape sh t f)
  | OFlatten => Ok ([size sh], np_reshape sh [size sh] f)
  | OSqueeze a =>
    removed <- match a with
               | AxNone => Ok (filter (fun k => sget sh k 0 =? 1) (zrange nd))
               | _ => np_axes nd (ax_list a)
               end ;;
    if sdup removed || negb (forallb (fun k => sget sh k 0 =? 1) removed) then Raise ValueError
    else Ok (np_squeeze_shape sh removed, np_squeeze sh removed f)
  | OExpand a => a' <- np_normalize_axis (nd + 1) a ;;
                 Ok (np_expand_dims_shape sh a', np_expand_dims a' f)
  | OFlip a =>
    axes <- match a with AxNone => Ok (zrange nd) | _ => np_axes nd (ax_list a) end ;;
    if sdup axes then Raise ValueError else Ok (sh, np_flip sh axes f)
  | ORoll s a =>
    let sl := match s with ShInt z => [z] | ShTup l => l end in
    match a with
    | AxNone => Ok (sh, np_roll_flat sh (zsum sl) f)
    | _ =>
      axes <- np_axes nd (ax_list a) ;;
      let m := length sl in let k := length axes in
      if (m =? k)%nat then Ok (sh, np_roll sh (combine sl axes) f)
      else if (m =? 1)%nat then Ok (sh, np_roll sh (combine (repeat (hd 0 sl) k) axes) f)
      else if (k =? 1)%nat then Ok (sh, np_roll sh (combine sl (repeat (hd 0 axes) m)) f)
      else Raise ValueError
    end
  | OPad pw cv =>
    if negb ((match cv with Some c => c | None => 0 end) =? fill) then Raise ValueError
    else
      prs <- pad_pairs (length sh) pw ;;
      if padw_neg pw then Raise ValueError
      else Ok (np_pad_shape sh prs, np_pad sh prs fill f)
  | OBroadcast t =>
    if np_broadcast_ok sh t then Ok (t, np_broadcast_to sh t f) else Raise ValueError
  | OBroadcastArrays other =>
    match np_broadcast_shapes [sh; other] with
    | Some t => Ok (t, np_broadcast_to sh t f)
    | None => Raise ValueError
    end
  end.

(* ------------------------------------------------------------------ the proved domain *)

(* 0 = inside the domain on which `model = spec` is proved; otherwise the number of the first
   failed NAMED clause (tools/props/c08.py maps the numbers to the clause names) *)
Definition all_in_range (nd : Z) (l : list Z) : bool := forallb (fun a => (- nd <=? a) && (a <? nd)) l.
Definition norm_list (nd : Z) (l : list Z) : list Z := map (fun a => a mod nd) l.

Definition dom_clause (x : coo Z) (o : c08op) : Z :=
  let sh := c_shape x in let nd := slen sh in
  match o with
  | ORoll s a =>
    let sl := match s with ShInt z => [z] | ShTup l => l end in
    match a with
    | AxNone => if negb (length sl =? 1)%nat then 21 else 0
    | _ =>
      let k := length (ax_list a) in
      if negb (all_in_range nd (ax_list a)) then 0
      else if negb (length sl =? 1)%nat && (k =? 1)%nat then 21
      else 0
    end
  | _ => 0
  end.

(* ------------------------------------------------------------------ comparisons *)

Definition sarr_coo (a : sarr) : option (coo Z) :=
  match a with
  | SCoo c => Some c
  | SGcxs g => Some (gcxs_as_coo g)
  | SDok sh it f => Some (dok_as_coo sh it f)
  | _ => None
  end.

(* index tuples on which dense meanings are compared: all of them for small results, otherwise
   (huge logical sizes) the stored positions of both sides *)
Definition probe_indices (sh : shape) (extra : list idx) : list idx :=
  if size sh <=? 20000 then all_indices sh else extra.

Definition is_reject (a : sarr) : bool :=
  match a with SExc ValueError | SExc IndexError => true | _ => false end.

(* implementation vs Spec: same shape, same fill, same elements / both reject *)
Definition agrees_spec (x : coo Z) (o : c08op) (out : sarr) (extra : list idx) : bool :=
  match run_spec (c_shape x) (c_fill x) (den x) o with
  | Raise _ => is_reject out
  | Ok (sh', g) =>
    match sarr_coo out with
    | None => false
    | Some c =>
      zl_eqb (c_shape c) sh' && (c_fill c =? c_fill x) &&
      forallb (fun ix => den c ix =? g ix) (probe_indices sh' (c_coords c ++ extra))
    end
  end.

(* implementation vs model: exact representation for COO results, dense meaning otherwise,
   exception class when the model raises *)
Definition agrees_model (x : coo Z) (o : c08op) (out : sarr) : bool :=
  match run_model x o with
  | Raise e => match out with SExc e' => exc_eqb e e' | _ => false end
  | Ok m =>
    match out with
    | SCoo c => coo_eqb c m
    | _ =>
      match sarr_coo out with
      | None => false
      | Some c => zl_eqb (c_shape c) (c_shape m) && (c_fill c =? c_fill m) &&
                  forallb (fun ix => den c ix =? den m ix)
                          (probe_indices (c_shape m) (c_coords c ++ c_coords m))
      end
    end
  end.

(* model vs spec (what the theorems state), evaluated on the case *)
Definition model_agrees_spec (x : coo Z) (o : c08op) : bool :=
  match run_model x o with
  | Raise _ => match run_spec (c_shape x) (c_fill x) (den x) o with Raise _ => true | Ok _ => false end
  | Ok m => agrees_spec x o (SCoo m) [] && canonicalb m && (prunedb Z.eqb m || negb (prunedb Z.eqb x))
  end.

(* verdict:
   0  agreement with model and Spec (or: outside the domain, agreement with the Spec)
   1  the result is not in canonical / well-formed form
   2  in the domain: equals the Spec, differs from the model's representation   (representation)
   3  in the domain: differs from the Spec                                        (value)
   4  in the domain: MODEL differs from the Spec although the implementation agrees with the Spec
      (the model or the harness is wrong — never expected)
   5  outside the domain, agrees with the Spec but not with the model           (representation)
   100 + k  outside the domain (failed clause k): differs from the Spec           (value) *)
Definition judge_c08 (c : c08_case) : Z :=
  let '(x, o, out) := c in
  let k := dom_clause x o in
  let extra := match run_model x o with Ok m => c_coords m | _ => [] end in
  let okS := agrees_spec x o out extra in
  let okM := agrees_model x o out in
  if negb (sarr_wfb out) then 1
  else if k =? 0 then
    if okS && okM then (if model_agrees_spec x o then 0 else 4)
    else if okS then (if model_agrees_spec x o then 2 else 4)
    else 3
  else
    if okS then (if okM then 0 else 5) else 100 + k.

(* branch tag for coverage: 0 model Ok & result differs from input order (sorted) ; 1 model Ok ;
   2 model raises *)
Definition tag_c08 (c : c08_case) : Z :=
  let '(x, o, _) := c in
  match run_model x o with
  | Raise _ => 2
  | Ok m => if zll_eqb (c_coords m) (c_coords x) then 1 else 0
  end.

(* Spec vs NumPy itself: `out` is what NumPy returned on the densified input (SDense) or that it
   raised.  0 = the Spec says the same. *)
Definition judge_spec_np (c : c08_case) : Z :=
  let '(x, o, out) := c in
  match run_spec (c_shape x) (c_fill x) (den x) o with
  | Raise _ => if is_reject out then 0 else 1
  | Ok (sh', g) =>
    match out with
    | SDense d => if zl_eqb (d_shape d) sh' && zl_eqb (d_flat d) (map g (all_indices sh')) then 0 else 2
    | _ => 3
    end
  end.
