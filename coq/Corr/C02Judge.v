(* Corr/C02Judge.v — verdict functions of the C02 correspondence. *)
From Coq Require Import ZArith List Bool.
From Verif Require Import Py PyExt G_slicing PySlice Slicing Judge.
Import ListNotations.
Open Scope Z_scope.

(* one slice case: (start, stop, step, dim, implementation's normalised slice (or None if it
   raised), implementation's selected positions x[sl] on x = arange(dim) (or None if it raised)) *)
Definition slice_case := (option Z * option Z * option Z * Z * option (Z * Z * Z) * option (list Z))%type.

Definition norm_triple (r : res pyv) : option (Z * Z * Z) :=
  match r with Ok (VSlice (VInt s) (VInt e) (VInt st)) => Some (s, e, st) | _ => None end.

Definition triple_eqb (x y : Z * Z * Z) : bool :=
  let '(a, b, c) := x in let '(d, e, f) := y in (a =? d) && (b =? e) && (c =? f).

(* 0 ok | 1 generated model <> implementation's normalize_index (translator/model unfaithful)
   | 2 implementation selects other elements than Python/NumPy *)
Definition judge_slice (c : slice_case) : Z :=
  let '(a, b, st, dim, inorm, isel) := c in
  let m := normalize_slice (VSlice (oz a) (oz b) (oz st)) dim in
  let step0 := match st with Some 0 => true | _ => false end in
  if negb step0 && negb (opt_eqb triple_eqb (norm_triple m) inorm) then 1
  else if opt_eqb zl_eqb (slice_selects a b st dim) isel then 0
  else 2.
