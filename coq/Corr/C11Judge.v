(* Corr/C11Judge.v — verdict functions of the C11 correspondence.

   judge_hist: one call history on a cache-enabled COO (and on the objects it returned), run by the
   implementation on a cache-enabled array and on a twin without caching.  The judge instantiates
   Model/Cache.v (with the generated protocols and maxlen) at symbolic values (kind, shape, fill is
   zero) and compares, per call: exception class / result shape (codes 1,2 cached; 6,8 uncached),
   which earlier call returned the identical object (3 cached; 7 uncached), the keys left in every
   object's deques and its _csr/_csc attributes (4), and — the property itself — that the cached
   call's value equals the uncached twin's (5).

   judge_snap: operand snapshots before/after one public operation (codes 1..). *)
From Coq Require Import ZArith List Bool String.
From Verif Require Import Py S_cache Cache Judge.
Import ListNotations.
Open Scope Z_scope.

(* ------------------------------------------------------------------ symbolic values *)
Record sval := { v_kind : Z;            (* 0 COO, 1 csr_matrix, 2 csc_matrix *)
                 v_shape : list Z;
                 v_fill : Z }.                 (* the fill value (integer-valued in the campaign) *)

Definition W := list Z.
Definition AT := option (list Z).        (* axes argument of transpose; None = default *)
Definition AR := (list Z * bool)%type.   (* shape argument of reshape, and whether order is "C"/None *)

Fixpoint range_nat (n : nat) : list Z :=
  match n with O => [] | S k => range_nat k ++ [Z.of_nat k] end.

Definition zprod (l : list Z) : Z := fold_left Z.mul l 1.

Fixpoint map_opt {A B} (f : A -> option B) (l : list A) : option (list B) :=
  match l with
  | [] => Some []
  | x :: r => match f x, map_opt f r with Some y, Some q => Some (y :: q) | _, _ => None end
  end.

Fixpoint has_dup (l : list Z) : bool :=
  match l with [] => false | x :: r => existsb (Z.eqb x) r || has_dup r end.

(* _utils.normalize_axis on one integer *)
Definition norm_axis (nd a : Z) : option Z :=
  let a' := if a <? 0 then a + nd else a in
  if (a' >=? nd) || (a' <? 0) then None else Some a'.

Definition env1 (name : string) (val : W) : env W :=
  fun s => if String.eqb s name then val else [].

(* COO.transpose up to the cache lookup *)
Definition pre_t (v : sval) (a : AT) : pre (env W) :=
  let nd := Z.of_nat (List.length (v_shape v)) in
  let axes0 := match a with None => rev (range_nat (List.length (v_shape v))) | Some l => l end in
  match map_opt (norm_axis nd) axes0 with
  | None => PRaise ValueError
  | Some axes =>
    if has_dup axes then PRaise ValueError
    else if negb (Z.of_nat (List.length axes) =? nd) then PRaise ValueError
    else if zl_eqb axes (range_nat (List.length (v_shape v))) then PSelf
    else PGo (env1 "axes" axes)
  end.

Definition g_t (v : sval) (k : list W) : sval :=
  match k with
  | [axes] => {| v_kind := 0; v_shape := map (fun a => nth (Z.to_nat a) (v_shape v) 0) axes; v_fill := v_fill v |}
  | _ => v
  end.

(* COO.reshape up to the cache lookup *)
Definition pre_r (v : sval) (a : AR) : pre (env W) :=
  let '(shape, order_ok) := a in
  if negb order_ok then PRaise NotImplementedError
  else if zl_eqb (v_shape v) shape then PSelf
  else
    let size := zprod (v_shape v) in
    let inferred : res (list Z) :=
      if existsb (Z.eqb (-1)) shape then
        let p := zprod (filter (fun d => negb (d =? -1)) shape) in
        (* known = product of the given extents; ValueError if known == 0 or size % known != 0 *)
        if (1 <? Z.of_nat (List.length (filter (Z.eqb (-1)) shape))) || (p =? 0) || negb (size mod p =? 0)
        then Raise ValueError
        else let extra := size / p in Ok (map (fun d => if d =? -1 then extra else d) shape)
      else Ok shape in
    match inferred with
    | Raise e => PRaise e
    | Ok sh => if negb (size =? zprod sh) then PRaise ValueError else PGo (env1 "shape" sh)
    end.

Definition g_r (v : sval) (k : list W) : sval :=
  match k with
  | [sh] => {| v_kind := 0; v_shape := sh; v_fill := v_fill v |}
  | _ => v
  end.

Definition guard_m (v : sval) : option exc := if v_fill v =? 0 then None else Some ValueError.
(* COO(x, fill_value=f) *)
Definition refill (v : sval) (f : Z) : sval := {| v_kind := v_kind v; v_shape := v_shape v; v_fill := f |}.
Definition mk_csr (v : sval) : res sval :=      (* a scipy matrix has no fill value: built from coords/data only *)
  if Nat.eqb (List.length (v_shape v)) 2 then Ok {| v_kind := 1; v_shape := v_shape v; v_fill := 0 |}
  else Raise ValueError.
Definition csr2csc (m : sval) : sval := {| v_kind := 2; v_shape := v_shape m; v_fill := v_fill m |}.
Definition csc2csr (m : sval) : sval := {| v_kind := 1; v_shape := v_shape m; v_fill := v_fill m |}.

(* the instance meets the hypothesis of Props.C11.cache_transparent about the oracle functions *)
Lemma judge_mk_csr_refill : forall v f, mk_csr (refill v f) = mk_csr v.
Proof. intros v f. reflexivity. Qed.

Definition jrun := coo_run sval W AT AR Z zl_eqb cache_cap pre_t g_t pre_r g_r guard_m mk_csr csr2csc csc2csr refill.

(* ------------------------------------------------------------------ cases *)
(* one call: target (-1 = the root, i = what call i returned), kind (0 transpose, 1 reshape, 2 tocsr,
   3 tocsc, 4 COO(t) [argument None] / COO(t, fill_value=f) [argument Some [f]],
   5 t.copy() / t.copy(deep=False), 6 astype(copy=False) / asformat("coo")), argument, flag (reshape: order is C/None), visible (false: a call made internally by dot) *)
Definition hop := (Z * Z * option (list Z) * bool * bool)%type.
(* what the implementation showed for a call: status (0 ok, 1 ValueError, 2 NotImplementedError,
   3 OverflowError, 9 other, -1 not executed because its target call had raised), result shape,
   identity (index of the first visible call that returned the identical object, -1 = the root),
   value id (equal ids = equal shape/fill/coords/data or equal csr/csc arrays) *)
Definition obs := (Z * list Z * Z * Z)%type.
(* state of an object at the end: which object (first visible call returning it, -1 root), whether it
   caches (_cache is not None), transpose keys, reshape keys (oldest first), has _csr, has _csc *)
Definition fin := (Z * bool * list (list Z) * list (list Z) * bool * bool)%type.

Definition hist_case :=
  (list Z * Z * list hop * list obs * list obs * list fin * list (Z * Z))%type.

Definition dec_target (t : Z) : target := if t <? 0 then TRoot else TOut (Z.to_nat t).

Definition dec_op (h : hop) : target * op AT AR Z :=
  let '(t, k, a, fl, _) := h in
  (dec_target t,
   if k =? 0 then OpT a
   else if k =? 1 then OpR (match a with Some l => l | None => [] end, fl)
   else if k =? 2 then OpCsr
   else if k =? 3 then OpCsc
   else if k =? 4 then OpCopy (match a with Some (f :: _) => Some f | _ => None end)
   else if k =? 5 then OpPickle else OpSame).

Definition exc_code (e : exc) : Z :=
  match e with
  | ValueError => 1 | NotImplementedError => 2 | OverflowError => 3 | _ => 9
  end.

Definition visible (h : hop) : bool := let '(_, _, _, _, vis) := h in vis.

(* index of the first visible call among the first (i+1) whose output is the object id *)
Fixpoint first_vis (ops : list hop) (outs : list out) (id : nat) (j : Z) : Z :=
  match ops, outs with
  | h :: ro, o :: rs =>
    match o with
    | OObj id' => if visible h && Nat.eqb id id' then j else first_vis ro rs id (j + 1)
    | _ => first_vis ro rs id (j + 1)
    end
  | _, _ => -2
  end.

Definition ident_of (ops : list hop) (outs : list out) (id : nat) : Z :=
  if Nat.eqb id 0 then -1 else first_vis ops outs id 0.

(* compare the model's outputs with the observations; cs/cshape/cid are the codes to return *)
Fixpoint check_obs (vs : list sval) (all_ops : list hop) (all_outs : list out)
         (ops : list hop) (outs : list out) (os : list obs) (cs cshape cid : Z) : Z :=
  match ops, outs, os with
  | [], [], [] => 0
  | h :: ro, o :: rs, (st, shp, idn, _) :: rb =>
    let rest := check_obs vs all_ops all_outs ro rs rb cs cshape cid in
    if negb (visible h) then rest
    else match o with
         | ORaise e => if st =? exc_code e then rest else cs
         | OSkip => if st =? -1 then rest else cs
         | OObj id =>
           if negb (st =? 0) then cs
           else match nth_error vs id with
                | None => cs
                | Some v => if negb (zl_eqb (v_shape v) shp) then cshape
                            else if negb (idn =? ident_of all_ops all_outs id) then cid
                            else rest
                end
         end
  | _, _, _ => 10
  end.

Fixpoint check_vids (ops : list hop) (oc ou : list obs) : bool :=
  match ops, oc, ou with
  | [], [], [] => true
  | h :: r, (sc, _, _, vc) :: rc, (su, _, _, vu) :: ru =>
    (negb (visible h) || ((sc =? su) && (vc =? vu))) && check_vids r rc ru
  | _, _, _ => false
  end.

Definition id_of_vis (outs : list out) (i : Z) : option nat :=
  if i <? 0 then Some 0%nat
  else match nth_error outs (Z.to_nat i) with Some (OObj id) => Some id | _ => None end.

Definition check_fin (s : st sval (list W) (list W)) (f : fin) : bool :=
  let '(i, cached, tk, rk, hcsr, hcsc) := f in
  match id_of_vis (outs s) i with
  | None => false
  | Some id =>
    let c := deqs s (cell s id) in
    let a := attr s id in
    Bool.eqb (flag s id) cached
    && (negb cached || (list_eqb (list_eqb zl_eqb) (map fst (d_tr c)) (map (fun k => [k]) tk)
                        && list_eqb (list_eqb zl_eqb) (map fst (d_rs c)) (map (fun k => [k]) rk)))
    && Bool.eqb (match a_csr a with Some _ => true | None => false end) hcsr
    && Bool.eqb (match a_csc a with Some _ => true | None => false end) hcsc
  end.

Definition judge_hist (c : hist_case) : Z :=
  let '(rshape, fill, ops, oc, ou, fins, dots) := c in
  let root := {| v_kind := 0; v_shape := rshape; v_fill := fill |} in
  let h := map dec_op ops in
  let sc := jrun h (init sval _ _ true root) in
  let su := jrun h (init sval _ _ false root) in
  (* the property itself first: cached and uncached twin agree call by call *)
  if negb (check_vids ops oc ou && forallb (fun p => fst p =? snd p) dots) then 5 else
  let r1 := check_obs (vals sc) ops (outs sc) ops (outs sc) oc 1 2 3 in
  if negb (r1 =? 0) then r1 else
  let r2 := check_obs (vals su) ops (outs su) ops (outs su) ou 6 8 7 in
  if negb (r2 =? 0) then r2 else
  if negb (forallb (check_fin sc) fins) then 4 else 0.

(* branch tag of a history: hits + 100 * evictions-capable appends (misses) — for the coverage histogram *)
Definition count_ids (outs : list out) : Z :=
  Z.of_nat (List.length (filter (fun o => match o with OObj _ => true | _ => false end) outs)).

Definition tag_hist (c : hist_case) : Z :=
  let '(rshape, fill, ops, oc, ou, fins, dots) := c in
  let root := {| v_kind := 0; v_shape := rshape; v_fill := fill |} in
  let sc := jrun (map dec_op ops) (init sval _ _ true root) in
  (* objects returned minus objects created = calls answered by an existing object *)
  count_ids (outs sc) - (Z.of_nat (List.length (vals sc)) - 1).

(* ------------------------------------------------------------------ operand snapshots *)
(* one operand before and after: digest ids of (shape, dtype, fill, flags) and of each buffer *)
Definition snap := (Z * list Z)%type.
(* (snapshots before, snapshots after, a twin's result value id, the result value id) *)
Definition snap_case := (list snap * list snap)%type.

Definition snap_eqb (a b : snap) : bool := (fst a =? fst b) && zl_eqb (snd a) (snd b).

(* 0 ok | 1 an operand's metadata changed | 2 an operand's buffer bytes changed | 3 operand count changed *)
Fixpoint judge_snaps (b a : list snap) : Z :=
  match b, a with
  | [], [] => 0
  | x :: rb, y :: ra =>
    if negb (fst x =? fst y) then 1
    else if negb (zl_eqb (snd x) (snd y)) then 2
    else judge_snaps rb ra
  | _, _ => 3
  end.

Definition judge_snap (c : snap_case) : Z := judge_snaps (fst c) (snd c).
