(* Corr/C14Judge.v — verdict functions of the C14 correspondence (tools/props/c14.py).
   Every judge takes the input array, as observed by the harness on the implementation's object, and the
   implementation's concrete outcome; it evaluates Model/Npz.v on the input and returns 0 when implementation,
   model and property agree, otherwise a small code (see [classify]).  Element values and fills are integer
   tokens (the little-endian bytes of the element), so floats are never compared as floats. *)
From Coq Require Import ZArith List Bool String.
From Verif Require Import Py Shape COO S_npz Npz Crc32 NpzP Judge.
Import ListNotations.
Open Scope Z_scope.

(* (class 0 COO | 1 GCXS | 2 CSR | 3 CSC, shape, compressed_axes, coords as nnz index tuples, indices, indptr,
    data tokens, fill token, dtype code) *)
Definition jarr := (Z * list Z * option (list Z) * list (list Z) * list Z * list Z * list Z * Z * Z)%type.

Definition to_arr (j : jarr) : arr Z :=
  let '(k, sh, ax, coords, ind, ptr, data, fill, _) := j in
  if k =? 0 then ACoo (mkCOO sh coords data fill)
  else AGcxs (if k =? 1 then KGCXS else if k =? 2 then KCSR else KCSC) (mkGCXS sh ax data ind ptr fill).

Definition dtype_of (j : jarr) : Z := let '(_, _, _, _, _, _, _, _, d) := j in d.

Definition arr_eqb (a b : arr Z) : bool :=
  match a, b with
  | ACoo c, ACoo d =>
    zl_eqb (c_shape c) (c_shape d) && zll_eqb (c_coords c) (c_coords d) && zl_eqb (c_data c) (c_data d)
    && (c_fill c =? c_fill d)
  | AGcxs k g, AGcxs k' g' =>
    klass_eqb k k' && zl_eqb (g_shape g) (g_shape g') && opt_eqb zl_eqb (g_axes g) (g_axes g')
    && zl_eqb (g_data g) (g_data g') && zl_eqb (g_indices g) (g_indices g') && zl_eqb (g_indptr g) (g_indptr g')
    && (g_fill g =? g_fill g')
  | _, _ => false
  end.

(* implementation outcome: (0, Some array) returned | (c, None) raised: 1 ValueError 2 RuntimeError 3 TypeError
   4 IndexError 9 any other exception | 100 hang | 101 crash of the worker *)
Definition outcome := (Z * option jarr)%type.

Definition exc_code (e : exc) : Z :=
  match e with ValueError => 1 | RuntimeError => 2 | TypeError => 3 | IndexError => 4 | _ => 9 end.

(* does the implementation's outcome equal the model's prediction? *)
Definition agrees (m : res (arr Z)) (o : outcome) : bool :=
  match m, o with
  | Ok y, (0, Some j) => arr_eqb (to_arr j) y
  | Raise e, (c, None) => c =? exc_code e
  | _, _ => false
  end.

(* does the implementation's outcome satisfy the property: the expected array [want] (the input itself; for the npz
   round trip of a CSR / CSC its plain-GCXS image) comes back, with the same dtype *)
Definition holds_as (want : arr Z) (x : jarr) (o : outcome) : bool :=
  match o with
  | (0, Some j) => arr_eqb (to_arr j) want && (dtype_of j =? dtype_of x)
  | _ => false
  end.

(* verdict codes
     0   property holds and the model predicts it
     2   property holds on the implementation but the model predicts a failure (model stale: no failing input)
     3   property fails on the implementation inside the proved domain (new failing input)
     6   the implementation hung or crashed
     7   same array but another dtype
     9   the harness produced an input outside the model's well-formedness (harness error)
     10+c  property fails outside the domain, clause c, exactly as the model predicts (known defect class)
     20+c  property fails outside the domain, clause c, but not in the way the model predicts
   no clause is left (all former findings were repaired in /repo): 10+c / 20+c cannot occur *)
Definition classify_as (want : arr Z) (x : jarr) (wfx : bool) (clause : option Z) (m : res (arr Z)) (o : outcome) : Z :=
  if negb wfx then 9
  else if (fst o =? 100) || (fst o =? 101) then 6
  else if holds_as want x o then (if agrees m o then 0 else 2)
  else match o with
       | (0, Some j) => if arr_eqb (to_arr j) want then 7 else
                          match clause with None => 3 | Some c => if agrees m o then 10 + c else 20 + c end
       | _ => match clause with None => 3 | Some c => if agrees m o then 10 + c else 20 + c end
       end.

Definition classify (x : jarr) := classify_as (to_arr x) x.

(* ---- save_npz / load_npz: no domain clause is left; a CSR / CSC must come back as the plain GCXS of the same fields *)
Definition judge_npz (c : jarr * outcome) : Z :=
  let '(j, o) := c in
  let x := to_arr j in
  classify_as (as_saved Z x) j (wf Z x) None (ms <- save_members Z x ;; load_members Z ms) o.

(* ---- files from which members were removed (rewritten archives).  [dropped] = codes of the removed members:
   0 data 1 shape 2 fill_value 3 coords 4 indices 5 indptr 6 compressed_axes.  The property: the load raises.
   Codes: 0 raises as the model predicts | 2 raises although the model predicts an array | 3 loads an array *)
Definition member_name (a : Z) : string :=
  if a =? 0 then s_data else if a =? 1 then s_shape else if a =? 2 then s_fill else if a =? 3 then s_coords
  else if a =? 4 then s_indices else if a =? 5 then s_indptr else s_axes.

Definition judge_missing (c : jarr * list Z * outcome) : Z :=
  let '(j, dropped, o) := c in
  let x := to_arr j in
  let keep n := negb (existsb (fun a => String.eqb n (member_name a)) dropped) in
  if negb (wf Z x) then 9
  else match save_members Z x with
       | Raise _ => 9
       | Ok ms =>
         let m := load_members Z (restrict Z keep ms) in
         if (fst o =? 100) || (fst o =? 101) then 6
         else match o with
              | (0, Some _) => 3
              | _ => match m with Raise _ => 0 | Ok _ => 2 end
              end
       end.

(* ---- pickle *)
Definition judge_pickle (c : jarr * outcome) : Z :=
  let '(j, o) := c in
  let x := to_arr j in
  classify j (wf Z x) None (pickle_roundtrip_of Z x) o.

(* ---- copy: value, and which ndarray attributes are shared.  Attribute codes: 0 coords 1 data 2 indices 3 indptr *)
Definition attr_name (a : Z) : string :=
  if a =? 0 then s_coords else if a =? 1 then s_data else if a =? 2 then s_indices else s_indptr.

Definition slot_eqb (a b : option (slot Z)) : bool :=
  match a, b with
  | Some (Ref i), Some (Ref j) => i =? j
  | _, _ => false
  end.

(* code 4: the copy shares / does not share a buffer contrary to the model; 5: the model cannot copy *)
Definition judge_copy (c : jarr * bool * outcome * list (Z * bool)) : Z :=
  let '(j, deep, o, shared) := c in
  let x := to_arr j in
  match dict_of Z x with
  | None => 9
  | Some d =>
    let '(h, ob) := alloc_obj Z (mkHeap 0 []) d in
    match copy_obj Z deep (class_of x) h ob with
    | None => 5
    | Some (h1, o1) =>
      let v := classify j (wf Z x) None (obj_arr Z (class_of x) h1 o1) o in
      if negb (v =? 0) then v
      else if forallb (fun ab : Z * bool =>
                         Bool.eqb (slot_eqb (assoc (attr_name (fst ab)) o1) (assoc (attr_name (fst ab)) ob)) (snd ab))
                      shared then 0 else 4
    end
  end.

(* ---- Numba (COO only): dt = (bits, signed) of the coordinate dtype; construct = false: identity function
   (unbox + box), true: COO(coords, data, shape) inside the compiled function (fill must be the zero token) *)
Definition judge_numba (c : jarr * (Z * bool) * bool * outcome) : Z :=
  let '(j, dt, construct, o) := c in
  match to_arr j with
  | ACoo co =>
    let okin := forallb (fun d => 0 <=? d) (c_shape co) && canonicalb co in
    if construct then
      classify j (okin && (c_fill co =? 0)) None (nb_construct Z 0 dt co) o
    else
      classify j okin None (nb_roundtrip Z dt co) o
  | _ => 9
  end.

(* ---- damaged files.  One case = one saved file and the outcomes of loading a batch of its damaged variants:
   0 an exception | 1 an array equal to what the intact file gives | 2 a different array | 3 hang or crash.
   The model: the bytes are [Unreadable] or an [Archive false _] (load raises, whatever the member reads would
   return), or still an [Archive true] of the saved members (load gives the round-trip image back).
   Codes: 5 some variant loaded as a different array; 6 hang / crash; 8 the model does not reproduce the
   implementation's outcome. *)
Definition judge_fault (c : jarr * list Z) : Z :=
  let '(j, outs) := c in
  let x := to_arr j in
  let raises (f : file Z) := match load_file Z f with Raise _ => true | Ok _ => false end in
  let intact_same :=
      match save_members Z x with
      | Ok ms => match load_file Z (Archive true ms) with Ok y => arr_eqb y (as_saved Z x) | Raise _ => false end
      | Raise _ => false
      end in
  if negb (wf Z x) then 9
  else if existsb (fun o => o =? 3) outs then 6
  else if existsb (fun o => o =? 2) outs then 5
  else if existsb (fun o => o =? 0) outs && negb (raises Unreadable && raises (Archive false [])) then 8
  else if existsb (fun o => o =? 1) outs && negb intact_same then 8
  else 0.

(* ---- CRC-32: the Gallina function against zlib.crc32 / the CRC recorded in a real archive.  1 = differs *)
Definition judge_crc (c : list Z * Z) : Z :=
  let '(msg, z) := c in if crc32 msg =? z then 0 else 1.

(* ---- archives in which one integer member was replaced (rewritten archives): member code as in judge_missing.
   The model is run on the saved members with that member replaced; 0 = the implementation's outcome is the model's
   (same exception class / same array), 1 = it is not, 3 = an n-d GCXS archive with an index pointer of the wrong length
   was loaded as an array *)
Fixpoint replace_member (n : string) (f : field Z) (ms : members Z) : members Z :=
  match ms with
  | [] => []
  | (n', f') :: r => if String.eqb n n' then (n, f) :: r else (n', f') :: replace_member n f r
  end.

Definition judge_replaced (c : jarr * Z * list Z * outcome) : Z :=
  let '(j, code, l, o) := c in
  let x := to_arr j in
  if negb (wf Z x) then 9
  else match save_members Z x with
       | Raise _ => 9
       | Ok ms =>
         let m := load_members Z (replace_member (member_name code) (FInts l) ms) in
         let bad_indptr :=
             match x with
             | AGcxs _ g => match g_axes g with
                            | Some ca => (code =? 5) && negb (len l =? compressed_rows (g_shape g) ca + 1)
                            | None => false end
             | _ => false end in
         if (fst o =? 100) || (fst o =? 101) then 6
         else if bad_indptr && (fst o =? 0) then 3
         else if agrees m o then 0 else 1
       end.
