(* Corr/SArr.v — a common literal type for what the implementation returns (used by the
   correspondence judges of all array-valued properties), with its dense meaning and the
   canonical-form predicates of Model/COO.v and Model/GCXS.v.  Values are Z: integers stand for
   themselves, other floats are opaque tokens (2^70 + bit pattern) produced by the harness. *)
From Coq Require Import ZArith List Bool.
From Verif Require Import Py Shape COO GCXS Judge.
Import ListNotations.
Open Scope Z_scope.

Inductive sarr :=
| SCoo (c : coo Z)
| SGcxs (g : gcxs Z)
| SDok (sh : shape) (items : list (idx * Z)) (fill : Z)     (* dict items sorted by key *)
| SDense (d : dense Z)
| SScalar (z : Z)
| SExc (e : exc)
| SHang
| SOther.                                                    (* tuple / unsupported object *)

Definition sarr_shape (a : sarr) : option shape :=
  match a with
  | SCoo c => Some (c_shape c) | SGcxs g => Some (g_shape g) | SDok sh _ _ => Some sh
  | SDense d => Some (d_shape d) | SScalar _ => Some [] | _ => None end.

Definition sarr_fill (a : sarr) : option Z :=
  match a with
  | SCoo c => Some (c_fill c) | SGcxs g => Some (g_fill g) | SDok _ _ f => Some f | _ => None end.

Definition dok_as_coo (sh : shape) (items : list (idx * Z)) (fill : Z) : coo Z :=
  mkCOO sh (map fst items) (map snd items) fill.

(* row-major flat dense meaning *)
Definition sarr_flat (a : sarr) : option (list Z) :=
  match a with
  | SCoo c => Some (d_flat (todense c))
  | SGcxs g => Some (d_flat (todense (gcxs_as_coo g)))
  | SDok sh it f => Some (d_flat (todense (dok_as_coo sh it f)))
  | SDense d => Some (d_flat d)
  | SScalar z => Some [z]
  | _ => None end.

(* canonical / self-consistent form as property C06 states it *)
Definition sarr_wfb (a : sarr) : bool :=
  match a with
  | SCoo c => canonicalb c && forallb (fun d => 0 <=? d) (c_shape c)
              && forallb (fun t => (length t =? length (c_shape c))%nat) (c_coords c)
  | SGcxs g => gcxs_wfb g
  | SDok sh it _ => forallb (fun kv => in_rangeb sh (fst kv)) it
  | SDense d => (length (d_flat d) =? length (all_indices (d_shape d)))%nat
  | _ => true end.

Definition sarr_prunedb (a : sarr) : bool :=
  match a with
  | SCoo c => prunedb Z.eqb c
  | SGcxs g => forallb (fun v => negb (v =? g_fill g)) (g_data g)
  | SDok _ it f => forallb (fun kv => negb (snd kv =? f)) it
  | _ => true end.

Definition sarr_nnz (a : sarr) : option Z :=
  match a with
  | SCoo c => Some (Z.of_nat (length (c_data c)))
  | SGcxs g => Some (Z.of_nat (length (g_data g)))
  | SDok _ it _ => Some (Z.of_nat (length it))
  | _ => None end.

Definition sarr_is_sparse (a : sarr) : bool :=
  match a with SCoo _ | SGcxs _ | SDok _ _ _ => true | _ => false end.

Definition sarr_exc (a : sarr) : option exc := match a with SExc e => Some e | _ => None end.

(* same shape and same dense values *)
Definition sarr_same_dense (a : sarr) (sh : shape) (flat : list Z) : bool :=
  opt_eqb zl_eqb (sarr_shape a) (Some sh) && opt_eqb zl_eqb (sarr_flat a) (Some flat).

Definition coo_eqb (a b : coo Z) : bool :=
  zl_eqb (c_shape a) (c_shape b) && zll_eqb (c_coords a) (c_coords b)
  && zl_eqb (c_data a) (c_data b) && (c_fill a =? c_fill b).
