(* Corr/C13Judge.v — verdict functions of the C13 correspondence: one case is one execution of the
   real code under tools/sched.py (a coarse schedule), compared with the model's run of the same
   schedule under the configuration generated from the source, and with the sequential values. *)
From Coq Require Import ZArith List Bool.
From Verif Require Import Py S_threads Threads Judge.
Import ListNotations.
Open Scope Z_scope.

(* (sequential values: key -> digest,  calls made before the threads start,  thread programs,
    the schedule the real scheduler followed,  the implementation's outcome per thread and call
    (digest >= 0 | -1 RuntimeError "deque mutated during iteration" | -2 any other exception),
    operands' bytes unchanged) *)
Definition sched_case :=
  (list (Z * Z) * list call * list (list call) * list nat * list (list Z) * bool)%type.

Definition table_f (tbl : list (Z * Z)) (k : Z) : Z :=
  match alookup k tbl with Some v => v | None => -99 end.

Definition res_code (r : res Z) : Z :=
  match r with Ok v => v | Raise RuntimeError => -1 | Raise _ => -2 end.

Definition zll_eq := list_eqb (list_eqb Z.eqb).

Definition final_state (c : sched_case) : state :=
  let '(tbl, setup, progs, sched, _, _) := c in
  let f := table_f tbl in
  let conv := fun k (_ : Z) => f k in
  let st0 := drain src_config f conv (init [] [setup]) in
  let st1 := (fst st0, map (fun p => mkThread PIdle p []) progs) in
  drain src_config f conv (run_coarse src_config f conv sched st1).

Definition model_outcomes (c : sched_case) : list (list Z) :=
  map (map (fun cr => res_code (snd cr))) (outputs (final_state c)).

Definition spec_outcomes (c : sched_case) : list (list Z) :=
  let '(tbl, _, progs, _, _, _) := c in map (map (fun cl => table_f tbl (ckey cl))) progs.

(* every deviation of the implementation from the sequential values is the deque race on a
   transpose/reshape of a cache-enabled array whose lookup loop iterates the deque itself *)
Fixpoint only_d13 (progs : list (list call)) (spec impl : list (list Z)) : bool :=
  let fix row (p : list call) (s i : list Z) : bool :=
    match p, s, i with
    | [], [], [] => true
    | cl :: p', a :: s', b :: i' =>
      ((a =? b) || ((b =? -1) && match cl with CCache st _ _ => negb (snap src_config st) | _ => false end))
      && row p' s' i'
    | _, _, _ => false
    end in
  match progs, spec, impl with
  | [], [], [] => true
  | p :: ps, s :: ss, i :: is_ => row p s i && only_d13 ps ss is_
  | _, _, _ => false
  end.

(* 0 ok
   1 implementation = sequential values, but the model predicted something else (model unfaithful)
   2 implementation differs from the sequential values in a way the model does not predict
   3 implementation differs from the sequential values exactly as the model predicts: the deque race
     (only possible when the generated configuration says a lookup loop iterates the deque itself)
   4 an operand's bytes changed
   5 implementation deviates only by deque-race RuntimeErrors but not where the model predicts *)
Definition judge_sched (c : sched_case) : Z :=
  let '(_, _, progs, _, impl, same) := c in
  let spec := spec_outcomes c in
  let model := model_outcomes c in
  if negb same then 4
  else if zll_eq impl spec then (if zll_eq model impl then 0 else 1)
  else if zll_eq model impl then (if only_d13 progs spec impl then 3 else 2)
  else if only_d13 progs spec impl then 5 else 2.

(* branch tags (bit set): 1 the model run contains a RuntimeError; 2 two threads both created the
   deque of one cache name (one insertion lost); 4 a memo key was computed and stored more than once;
   8 an attribute was computed and stored more than once; 16 some lookup hit the cache *)
Fixpoint count_key (k : Z) (l : list (Z * Z)) : nat :=
  match l with [] => O | (k', _) :: r => Nat.add (if Z.eqb k k' then 1%nat else 0%nat) (count_key k r) end.
Definition has_dup (l : list (Z * Z)) : bool := existsb (fun kv => Nat.ltb 1 (count_key (fst kv) l)) l.
Fixpoint count_name (k : Z) (l : list (Z * nat)) : nat :=
  match l with [] => O | (k', _) :: r => Nat.add (if Z.eqb k k' then 1%nat else 0%nat) (count_name k r) end.

Definition tag_sched (c : sched_case) : Z :=
  let st := final_state c in
  let sh := fst st in
  let '(_, setup, progs, _, _, _) := c in
  (if forallb (fun cr => negb (is_runtime_error (snd cr))) (all_outputs st) then 0 else 1)
  + (if existsb (fun p => Nat.ltb 1 (count_name (fst p) (dd sh))) (dd sh) then 2 else 0)
  + (if has_dup (memo sh) then 4 else 0)
  + (if has_dup (attrs sh) then 8 else 0)
  + (if Z.ltb (fold_left (fun n d => n + dstate d) (heap sh) 0)
              (Z.of_nat (length (filter (fun cl => match cl with CCache _ _ _ => true | _ => false end)
                                        (setup ++ concat progs))))
     then 16 else 0)
  + 32.
