(* Corr/C12Judge.v — verdict function of the C12 correspondence.

   One case = one history run on the implementation: the DOK's shape and fill, the dict after
   construction, then for every operation (assignment or read) what the implementation did
   (raised / completed / the value read) and the dict after it (sorted items), and finally
   todense(), asformat("coo") and nnz.

   Every step is judged from the IMPLEMENTATION's own previous dict S:
     model :  Model.DOK.setitem / getitem applied to S          (what the code is modelled to do)
     spec  :  Spec.NpAssign.np_setitem / np_getitem applied to abs S   (what NumPy does)
   so the verdict of a step does not depend on earlier defects, and if every step agrees with
   the model then the final dict is the model's [run] of the whole history.

   Verdict code: 0 = agreement everywhere; otherwise  step * 1000 + clause * 10 + kind  of one
   failing step (1-based; number of operations + 1 = the final observations): the first one that
   is not a plain clause-tagged "implementation <> Spec" if there is one, else the first, where
     kind   1  implementation <> model, but = Spec                      (model not faithful)
            2  implementation <> Spec (a failing input), = model or out-of-domain raise
            (3  unused: when implementation and model both raise, the exception CLASS is not
               compared — either NumPy accepts the operation, which is then already a kind-2
               verdict, or NumPy rejects it too and the operation is outside the property)
            4  a read changed the dict
            5  implementation <> Spec and <> model
            6  the dict after construction is not empty
            7  Spec/NpAssign.v <> what the real NumPy shadow array did at this step (the Spec or
               the harness is wrong; says nothing about the implementation)
     clause 0 none (inside the proved domain); the open clauses are listed at set_clause *)
From Coq Require Import ZArith List Bool.
From Verif Require Import Py PyExt G_slicing G_dok PySlice Shape Slicing COO NpIndex CooIndex Convert DokGetitem
     NpAssign DOK DOKExt Judge.
Import ListNotations.
Open Scope Z_scope.

Definition arr_of (sh flat : list Z) : arr Z := arr_of_flat sh flat.

(* an assignment of a RAW value (cast to the DOK's dtype by __setitem__), a read, or the round trip
   d = DOK.from_coo(d.asformat("coo")) *)
Inductive jop := JSet (k : key) (raw : rawval) | JGet (k : key) | JRound.
(* what the implementation did: completed / raised (class code) / returned a value *)
Inductive jout := JOk | JExc (e : Z) | JVal (sh flat : list Z).

Definition jstate := list (list Z * Z).
(* operation, what the implementation did, its dict afterwards, what NumPy did on the shadow array *)
Definition jstep := (jop * jout * jstate * jout)%type.
(* final observations: todense (flat) / coo (coords, data) — None if it raised —, nnz, and the
   NumPy shadow array (flat) *)
Definition jfinal := (option (list Z) * option (list (list Z) * list Z) * Z * list Z)%type.
Definition hist_case := (dtype * list Z * Z * jstate * list jstep * jfinal)%type.

Definition exc_code (e : exc) : Z :=
  match e with
  | ValueError => 1 | IndexError => 2 | TypeError => 3 | NotImplementedError => 4
  | ZeroDivisionError => 5 | RuntimeError => 6 | OverflowError => 7 | OtherError => 9
  end.

Definition kv_eqb (a b : list Z * Z) : bool := idx_eqb (fst a) (fst b) && (snd a =? snd b).
Definition state_eqb : jstate -> jstate -> bool := list_eqb kv_eqb.

(* the dict st means exactly the array a: keys in range and strictly increasing (hence distinct),
   no stored fill (so nnz = number of non-fill elements), and every element reads as in a *)
Definition state_means (sh : list Z) (fill : Z) (st : jstate) (a : idx -> Z) : bool :=
  forallb (in_rangeb sh) (map fst st) && sorted_strict (map fst st)
  && forallb (fun kv => negb (snd kv =? fill)) st
  && forallb (fun ix => abs fill st ix =? a ix) (all_indices sh).

Definition keys_ok (sh : list Z) (st : jstate) : bool :=
  forallb (in_rangeb sh) (map fst st) && sorted_strict (map fst st).

Definition has_newaxis (k : key) : bool :=
  match k with KIndex ix => negb (index_no_newaxis ix) | _ => false end.

(* the clauses still open (everything else NumPy accepts is inside the proved domain):
     7  a single n-d boolean array as key        14  integer-list / mask key with a value of ndim > 1
     15 a 0-d view as target with a one-element array value
     16 a one-element array assigned to one element of a BOOLEAN DOK (NumPy takes its truth value)
     11 a NumPy integer scalar that does not fit a signed dtype (NumPy raises: outside the property)
     12 None in an assignment key (judged against the model only)   13 index array in a basic key *)
Definition set_clause (dt : dtype) (sh : list Z) (k : key) (raw : rawval) (v : arr Z) : Z :=
  if negb (npint_fits dt (key_adv k) raw) then 11
  else if negb (np_value_id dt sh k (a_shape v)) then 16 else
  match k with
  | KBasic _ => 0
  | KFancy _ => if negb (fancy_value_clause v) then 14 else 0
  | KMask _ => match sh with [_] => if negb (fancy_value_clause v) then 14 else 0 | _ => 7 end
  | KIndex ix =>
    if negb (index_no_newaxis ix) then 12
    else if negb (index_no_arrays ix) then 13
    else if negb (view0d_clause sh ix v) then 15 else 0
  end.

Definition get_clause (sh : list Z) (k : key) : Z :=
  match k with
  | KMask _ => match sh with [_] => 0 | _ => 7 end
  | _ => 0
  end.

(* reads go through the REAL path model (Model/DokGetitem.v: COO.from_iter, the COO indexing
   kernels with cut-over schedule kf, DOK.from_coo) *)
Definition index_of_key (sh : list Z) (k : key) : option index :=
  match k with
  | KBasic es => Some (map (fun e => match e with KInt i => IInt i | KSlice a b c => ISlice a b c end) es)
  | KFancy ls => Some (map IArr ls)
  | KMask m => match sh with [_] => Some [IBArr m] | _ => None end
  | KIndex ix => Some ix
  end.

Definition flat_of_dres (r : dres Z) : list Z * list Z :=
  match r with
  | DScalar v => ([], [v])
  | DArr sh items fill => (sh, map (abs fill items) (all_indices sh))
  end.

(* a zero step is outside the domain of the COO indexing model (and NumPy rejects it): such reads
   are judged with the meaning-level model of Model/DOK.v, which raises ValueError like range() *)
Definition index_zero_step (ix : index) : bool := negb (index_no_zero_step ix).

Definition model_read (kf : nat -> nat) (sh : list Z) (fill : Z) (st : jstate) (k : key)
  : res (list Z * list Z) :=
  match index_of_key sh k with
  | Some ix =>
    if index_zero_step ix then getitem sh fill st k
    else r <- real_getitem kf sh fill st ix ;; Ok (flat_of_dres r)
  | None => getitem sh fill st k
  end.

Definition verdict (agree_spec agree_model both_raise : bool) (cl : Z) : Z :=
  if agree_spec then
    (if agree_model then 0 else cl * 10 + 1)
  else if agree_model || both_raise then cl * 10 + 2 else cl * 10 + 5.

Definition res_pair_eqb (a b : list Z * list Z) : bool := zl_eqb (fst a) (fst b) && zl_eqb (snd a) (snd b).

Definition judge_step (dt : dtype) (sh : list Z) (fill : Z) (prev : jstate) (s : jstep) : Z :=
  let '(op, out, after, _) := s in
  match op with
  | JSet k raw =>
    match dok_cast dt raw, np_cast dt (key_adv k) raw with
    | Some mc, Some sc =>
      (* the model: np.asarray(value, dtype) first, then the key *)
      let m := match mc with
               | Ok (vsh, vflat) => setitem Z.eqb sh fill prev k (arr_of vsh vflat)
               | Raise e => Raise e
               end in
      (* the Spec: NumPy's conversion, then NumPy's assignment; None = NumPy raises *)
      let sp := match sc with
                | Ok v0 => let v' := np_value dt sh k v0 in
                           np_setitem sh (abs fill prev) k (arr_of (fst v') (snd v'))
                | Raise _ => None
                end in
      let v := match sc with Ok (vsh, vflat) => arr_of vsh vflat | Raise _ => arr_of [] [0] end in
      let cl := set_clause dt sh k raw v in
      let agree_model :=
        match m, out with
        | Ok st', JOk => state_eqb st' after
        | Raise _, JExc _ => state_eqb prev after
        | _, _ => false
        end in
      let both_raise := match m, out with Raise _, JExc _ => true | _, _ => false end in
      let agree_spec :=
        if has_newaxis k then true     (* the property's assignment keys are newaxis-free *)
        else match sp with
             | Some a' => match out with JOk => state_means sh fill after a' | _ => false end
             | None => true            (* NumPy rejects the assignment: outside the property *)
             end in
      verdict agree_spec agree_model both_raise cl
    | _, _ => 0                        (* a float whose truncation does not fit: not described *)
    end
  | JGet k =>
    let m1 := model_read (fun _ => 0%nat) sh fill prev k in
    let m2 := model_read (fun _ => 7%nat) sh fill prev k in
    let sp := np_getitem sh (abs fill prev) k in
    let cl := get_clause sh k in
    if negb (state_eqb prev after) then cl * 10 + 4 else
    let agree1 (m : res (list Z * list Z)) :=
      match m, out with
      | Ok r, JVal s f => res_pair_eqb r (s, f)
      | Raise _, JExc _ => true
      | _, _ => false
      end in
    let agree_model := agree1 m1 && agree1 m2 in
    let both_raise := match m1, out with Raise _, JExc _ => true | _, _ => false end in
    let agree_spec :=
      match sp with
      | Some r => match out with JVal s f => res_pair_eqb r (s, f) | _ => false end
      | None => true
      end in
    verdict agree_spec agree_model both_raise cl
  | JRound =>
    (* asformat("coo") then DOK.from_coo: the dict must come back as the model says (the same
       dict for a well-formed one) and mean the same array *)
    let m := roundtrip sh fill prev in
    let agree_model := match out with JOk => state_eqb m after | _ => state_eqb prev after end in
    let agree_spec :=
      if keys_ok sh prev
      then match out with JOk => state_means sh fill after (abs fill prev) | _ => false end
      else true in
    verdict agree_spec agree_model false 0
  end.

Definition judge_final (sh : list Z) (fill : Z) (st : jstate) (f : jfinal) : Z :=
  let '(td, co, n, _) := f in
  if negb (keys_ok sh st) then 0        (* a corrupted dict was already reported at its step *)
  else
    let spec_flat := np_flat sh (abs fill st) in
    let v_td := match td with
                | Some flat => if negb (zl_eqb flat spec_flat) then 2
                               else if negb (zl_eqb flat (todense sh fill st)) then 1 else 0
                | None => 2
                end in
    let v_co := match co with
                | Some (coords, data) =>
                  let c := mkCOO sh coords data fill in
                  if negb (canonicalb c && prunedb Z.eqb c
                           && forallb (fun ix => den c ix =? abs fill st ix) (all_indices sh)) then 2
                  else if negb (zll_eqb coords (map fst st) && zl_eqb data (map snd st)) then 1 else 0
                | None => 2
                end in
    let v_n := if n =? nnz st then 0 else 2 in
    if negb (v_td =? 0) then v_td else if negb (v_co =? 0) then v_co else v_n.

(* ---- the Spec against real NumPy: replay the history on the Spec alone ---- *)
Definition materialise (sh : list Z) (a : idx -> Z) : idx -> Z :=
  let l := np_flat sh a in fun ix => nth (Z.to_nat (ravel sh ix)) l 0.

Definition spec_step (dt : dtype) (sh : list Z) (a : idx -> Z) (s : jstep) : bool * (idx -> Z) :=
  let '(op, _, _, npout) := s in
  match op with
  | JSet k raw =>
    match np_cast dt (key_adv k) raw with
    | Some (Ok v0) =>
      match (let v' := np_value dt sh k v0 in np_setitem sh a k (arr_of (fst v') (snd v'))), npout with
      | Some a', JOk => (true, materialise sh a')
      | None, JExc _ => (true, a)
      | _, _ => (false, a)
      end
    | Some (Raise _) => (match npout with JExc _ => true | _ => false end, a)   (* NumPy may report an invalid key first *)
    | None => (true, a)
    end
  | JGet k =>
    match np_getitem sh a k, npout with
    | Some (rs, rf), JVal s f => (zl_eqb rs s && zl_eqb rf f, a)
    | None, JExc _ => (true, a)
    | _, _ => (false, a)
    end
  | JRound => (true, a)
  end.

Definition judge_spec (c : hist_case) : Z :=
  let '(dt, sh, fill, _, steps, fin) := c in
  let '(_, _, _, npflat) := fin in
  let fix go (i : Z) (a : idx -> Z) (l : list jstep) : Z :=
    match l with
    | [] => if zl_eqb (np_flat sh a) npflat then 0 else i * 1000 + 7
    | s :: r => let '(ok, a') := spec_step dt sh a s in if ok then go (i + 1) a' r else i * 1000 + 7
    end in
  go 1 (materialise sh (np_full fill)) steps.

(* all non-zero step verdicts of a history, each as step * 1000 + clause * 10 + kind.  Steps are
   judged independently (each from the implementation's own previous dict), so judging goes on
   after a failing step. *)
Definition hist_codes (c : hist_case) : list Z :=
  let '(dt, sh, fill, s0, steps, fin) := c in
  let fix go (i : Z) (prev : jstate) (l : list jstep) : list Z :=
    match l with
    | [] => let v := judge_final sh fill prev fin in if v =? 0 then [] else [i * 1000 + v]
    | s :: r =>
      let v := judge_step dt sh fill prev s in
      let rest := go (i + 1) (snd (fst s)) r in
      if v =? 0 then rest else (i * 1000 + v) :: rest
    end in
  go 1 s0 steps.

(* a verdict that is NOT the plain "implementation <> Spec under a named clause" *)
Definition untagged (code : Z) : bool :=
  let rest := code mod 1000 in
  negb ((rest mod 10 =? 2) && negb (rest / 10 =? 0)).

(* the verdict of a history: Spec-vs-NumPy trouble first; then the first untagged disagreement
   (so that a known clause never hides another disagreement of the same history); then the first
   clause-tagged one *)
Definition judge_hist (c : hist_case) : Z :=
  let vs := judge_spec c in
  if negb (vs =? 0) then vs else
  let '(dt, sh, fill, s0, steps, fin) := c in
  if negb (state_eqb s0 []) then 1000 + 6 else
  let codes := hist_codes c in
  match filter untagged codes with
  | u :: _ => u
  | [] => match codes with t :: _ => t | [] => 0 end
  end.
