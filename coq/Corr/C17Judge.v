(* Corr/C17Judge.v — verdict functions of the C17 correspondence (evaluated by vm_compute on generated cases). *)
From Coq Require Import ZArith List String Bool.
From Verif Require Import Dispatch S_dispatch Judge.
Import ListNotations.
Open Scope string_scope.
Open Scope Z_scope.

(* outcome kinds observed on the implementation *)
Definition K_SPARSE := 0.   Definition K_NDARRAY := 1.  Definition K_SCALAR := 2.  Definition K_TUPLE := 3.
Definition K_NONE := 4.     Definition K_TYPEERROR := 10. Definition K_ATTRERROR := 11. Definition K_VALUEERROR := 12.
Definition K_NOTIMPL := 13. Definition K_RUNTIME := 14.  Definition K_OTHEREXC := 19. Definition K_HANG := 20.
Definition K_NEP18_TYPEERROR := 21.    (* TypeError "no implementation found for ..." raised by NumPy *)
Definition K_UFUNC_TYPEERROR := 22.    (* TypeError "operand type(s) all returned NotImplemented ..." *)
Definition K_DENSIFIED := 30.          (* returned normally, not sparse, todense()/maybe_densify() was called *)

Definition is_exc (k : Z) : bool := (10 <=? k) && (k <=? 29).
Definition is_typeerror (k : Z) : bool := (k =? K_TYPEERROR) || (k =? K_NEP18_TYPEERROR) || (k =? K_UFUNC_TYPEERROR).

Definition with_unary (unary : bool) (s : spelling) : spelling :=
  match s with NumpyFunction n _ => NumpyFunction n unary | _ => s end.

Definition spelling_eqb (a b : spelling) : bool :=
  match a, b with
  | Method x, Method y | Attr x, Attr y | Namespace x, Namespace y | ArrayNamespace x, ArrayNamespace y => String.eqb x y
  | NumpyFunction x _, NumpyFunction y _ => String.eqb x y
  | Ufunc u m, Ufunc u' m' => String.eqb u u' && String.eqb m m'
  | Operator o SideL, Operator o' SideL | Operator o SideR, Operator o' SideR => String.eqb o o'
  | ArrayCoercion, ArrayCoercion => true
  | _, _ => false
  end.

Definition R (cls : string) (s : spelling) : leaf := resolve tables false FUEL cls s.

(* ---------------- part 1: all spellings of one operation on one input.
   (class, operation label, unary?, [(spelling, outcome id, outcome kind)])
   outcome ids name the equivalence classes of the canonical results computed by the harness. *)
Definition agree_case := (string * string * bool * list (spelling * (Z * Z) * Z))%type.

(* does the observed kind contradict an error / stub leaf predicted by the model? *)
Definition leaf_kind_ok (l : leaf) (k : Z) : bool :=
  match l with
  | LfTypeError => is_typeerror k
  | LfNotCallable => is_typeerror k
  | LfAttributeError => k =? K_ATTRERROR
  | LfStub _ => k =? K_NONE
  | _ => negb ((k =? K_NEP18_TYPEERROR) || (k =? K_UFUNC_TYPEERROR))   (* NumPy found no implementation although the model did *)
  end.

Definition is_stub (l : leaf) : bool := match l with LfStub _ => true | _ => false end.

Definition has_coerced (l : leaf) : bool := match l with LfCoerced _ => true | _ => false end.

(* outcome ids come in pairs: (full, content).  `content` identifies shape, dtype, fill value, nnz, coordinates and
   stored data after conversion to COO; `full` additionally the array type and its compressed axes. *)
Fixpoint pairs_code (cls op : string) (l : list (leaf * (Z * Z) * Z)) : Z :=
  match l with
  | [] => 0
  | (lf, (idf, idc), k) :: r =>
      let c := fold_left (fun acc e =>
                 let '(lf', (idf', idc'), k') := e in
                 if negb (acc =? 0) then acc
                 else if idf =? idf' then 0
                 else if leaf_eqb lf lf' then 1                                   (* same computation, different outcome *)
                 else if is_stub lf || is_stub lf' then 3                           (* an abstract stub (returns None) is reached *)
                 else if has_coerced lf || has_coerced lf' then 4                   (* a wrapper converts its receiver first *)
                 else if is_exc k && is_exc k' then 5                              (* both raise, different class *)
                 else if (is_exc k && is_error_leaf lf) || (is_exc k' && is_error_leaf lf') then 10   (* the method / attribute does not exist on this format *)
                 else if negb (idc =? idc') then 12                                (* two code paths, different CONTENT (values or stored pattern) *)
                 else if negb (clause_single_algorithm cls op) then 2              (* two code paths, same content, other array type *)
                 else 6) r 0 in
      if c =? 0 then pairs_code cls op r else c
  end.

(* 0 ok | 9 a spelling is not in the generated class | 7 observed kind contradicts the model's leaf
   | 1 same leaf, different outcome | 11 the same where the class's wrapper fails wrapper_names_ok | 8 the method spelling is sparse and another spelling is not
   | 3 stub | 4 coercing wrapper | 5 exception classes differ | 10 method missing on the format
   | 12 two code paths give different content (values, nnz, coordinates) | 2 two code paths, same content, other array type | 6 other *)
Definition judge_agree (c : agree_case) : Z :=
  let '(cls, op, unary, obs) := c in
  match assoc op op_classes with
  | None => 9
  | Some ss =>
      if negb (forallb (fun o => existsb (spelling_eqb (fst (fst o))) ss) obs) then 9
      else
        let lo := map (fun o => (R cls (with_unary unary (fst (fst o))), snd (fst o), snd o)) obs in
        if negb (forallb (fun e => leaf_kind_ok (fst (fst e)) (snd e)) lo) then 7
        else
          let pc := pairs_code cls op lo in
          (* a namespace wrapper of this class that accepts a parameter it neither forwards nor documents as dropped *)
          let wrapper_bad := existsb (fun o => match fst (fst o) with
                                               | Namespace n => match assoc n namespace with
                                                                | Some (NsWrapper w) =>
                                                                    match method_sig tables cls (target_name w) with
                                                                    | Some msig => negb (wrapper_names_ok msig w)
                                                                    | None => false end
                                                                | _ => false end
                                               | _ => false end) obs in
          if (pc =? 1) && wrapper_bad then 11
          else if pc =? 1 then 1
          else
            let method_sparse := existsb (fun o => match fst (fst o) with Method _ | Attr _ => snd o =? K_SPARSE | _ => false end) obs in
            if method_sparse && negb (forallb (fun o => (snd o =? K_SPARSE) || is_exc (snd o)) obs) then 8
            else pc
  end.

(* ---------------- part 2/3: one call shape of a wrapper against the method.
   (class, wrapper, extra positionals, wrapper keywords, the method keywords the harness used,
    same outcome?, kind of the wrapper/NumPy spelling, kind of the method spelling, via NumPy?) *)
Definition shape_case := (string * string * Z * list string * list string * bool * Z * Z * bool)%type.

Fixpoint find_wrapper (n : string) (l : list wrapper) : option wrapper :=
  match l with [] => None | w :: r => if String.eqb (w_name w) n then Some w else find_wrapper n r end.

Definition rename_names (msig : list param) (w : wrapper) (kws : list string) : option (list string) :=
  match name_fwd msig (w_fwd w) with
  | Some nf => Some (map fst (rename unit nf (map (fun k => (k, tt)) kws)))
  | None => None
  end.

Definition slist_eqb := list_eqb String.eqb.

(* 0 ok | 9 unknown wrapper / class without the method | 1 the harness' renaming differs from the model's
   | 2 the model says the call does not bind but the implementation accepted it
   | 3 wrapper_ok, both bind, outcomes differ
   | 5 rejected positional that the method accepts | 6 rejected keyword that the method accepts *)
Definition judge_shape (c : shape_case) : Z :=
  let '(cls, wn, npos, kws, mkws, same, wk, mk, via_np) := c in
  match find_wrapper wn wrappers with
  | None => 9
  | Some w =>
      match method_sig tables cls (target_name w) with
      | None => if is_exc wk && is_exc mk then 0 else 9
      | Some msig =>
          let n := Z.to_nat npos in
          let wb := bind_shape (w_sig w) (S n) kws in
          let mb := bind_shape msig n mkws in
          if negb via_np && negb (match rename_names msig w kws with Some l => slist_eqb l mkws | None => false end) then 1
          else if negb wb && negb (is_typeerror wk) then 2
          else if wb && mb && wrapper_ok msig w && negb same then 3
          else if negb wb && mb && negb (is_exc mk) then (if 0 <? npos then 5 else 6)
          else 0
      end
  end.

(* ---------------- part 4: sweep over NumPy's public callables, sub-namespaces (linalg, fft, emath, ma, char) included.
   (class, public (dotted) name, one argument and no keywords?, observed kind,
    does the result equal NumPy's on the densified operands?  — only computed for the sub-namespace cases) *)
Definition sweep_case := (string * string * bool * Z * bool)%type.

(* 0 ok | 2 silently densified
   | 1 the extracted dispatch rule says "not implemented" (name absent from the sparse namespace reached through the SAME
       sub-module path, and from the type) but the call did not raise TypeError: some other function answered
   | 3 NumPy found no implementation although the model resolves the name
   | 4 the model resolves the name, the call returned, and the value differs from NumPy's on the dense operands *)
Definition judge_sweep (c : sweep_case) : Z :=
  let '(cls, n, unary, k, np_ok) := c in
  if k =? K_DENSIFIED then 2
  else
    match assoc n numpy_names with
    | Some (NpFunction _ _) =>
        let l := R cls (NumpyFunction n unary) in
        match l with
        | LfTypeError => if is_typeerror k then 0 else 1
        | _ => if k =? K_NEP18_TYPEERROR then 3 else if negb np_ok then 4 else 0
        end
    | Some (NpUfunc _ _) =>
        let l := R cls (Ufunc n "__call__") in
        match l with
        | LfTypeError => if is_typeerror k then 0 else 1
        | _ => if k =? K_UFUNC_TYPEERROR then 3 else if negb np_ok then 4 else 0
        end
    | _ => 0
    end.

(* ---------------- part 5: non-commutative operand order — ufunc.outer / ufunc.reduce / reflected calls against the
   broadcasting spellings and NumPy's result on the densified operands.
   (class, ufunc public name, ufunc method, [(outcome id, outcome kind, equals NumPy's dense result?)]) *)
Definition order_case := (string * string * string * list (Z * Z * bool))%type.

(* 0 ok | 7 observed kind contradicts the model's leaf | 1 the spellings disagree
   | 2 they agree with each other but not with NumPy on the densified operands *)
Definition judge_order (c : order_case) : Z :=
  let '(cls, u, m, obs) := c in
  (* m = "product": a product family (matmul, dot, tensordot, kron, outer) named by its namespace function u *)
  let l := if String.eqb m "product" then LfFunc u else R cls (Ufunc u m) in
  match obs with
  | [] => 0
  | (id0, k0, _) :: r =>
      if negb (leaf_kind_ok l k0) then 7
      else if negb (forallb (fun o => fst (fst o) =? id0) r) then 1
      else if negb (String.eqb m "reduce") && negb (forallb (fun o => snd o) obs) then 2   (* the VALUE of a reduction is C03's subject *)
      else 0
  end.
