(* Model/Dispatch.v — C17: call paths as data.

   Part A  Python's call protocol on explicit signatures (positional / keyword binding, defaults,
           TypeError), the namespace wrappers as forwarding maps, and the boolean [wrapper_ok].
   Part B  The dispatch tables' types (filled in by Gen/S_dispatch.v from the AST of /repo and the
           installed NumPy) and [resolve]: an interpreter of
             - SparseArray.__array_function__  (NEP-18; the extracted step list),
             - SparseArray.__array_ufunc__     (NEP-13; the extracted branch table),
             - numpy.lib.mixins.NDArrayOperatorsMixin (operator table) and class-level overrides,
             - the thin wrappers of the sparse namespace, x.__array_namespace__(),
           that maps a spelling to the leaf computation it ends in.
   Definitions only; proofs are in Proofs/DispatchP.v. *)
From Coq Require Import ZArith List String Bool.
Import ListNotations.
Open Scope string_scope.
Open Scope Z_scope.

(* ------------------------------------------------------------------ Part A: signatures *)

(* default values / constants appearing in signatures and forwarding maps *)
Inductive lit :=
| LNone | LBool (b : bool) | LInt (z : Z) | LFloat (z : Z)   (* LFloat z: a float literal with integral value z, e.g. 0.0 *)
| LStr (s : string) | LName (s : string) | LOpaque (s : string).

Definition lit_eqb (a b : lit) : bool :=
  match a, b with
  | LNone, LNone => true
  | LBool x, LBool y => Bool.eqb x y
  | LInt x, LInt y => Z.eqb x y
  | LFloat x, LFloat y => Z.eqb x y
  | LStr x, LStr y => String.eqb x y
  | LName x, LName y => String.eqb x y
  | LOpaque x, LOpaque y => String.eqb x y
  | _, _ => false
  end.

(* Python's ==-equality of literals where it is coarser than identity: 0 == 0.0 *)
Definition lit_equiv (a b : lit) : bool :=
  match a, b with
  | LInt x, LFloat y | LFloat x, LInt y => Z.eqb x y
  | _, _ => lit_eqb a b
  end.

Inductive pkind := PosOnly | PosOrKw | KwOnly.
Record param := mkParam { p_name : string; p_kind : pkind; p_default : option lit }.

Definition is_posonly (p : param) : bool := match p_kind p with PosOnly => true | _ => false end.
Definition is_kwonly (p : param) : bool := match p_kind p with KwOnly => true | _ => false end.

Inductive perr := PTypeError | PAttributeError | POther.
Inductive pres (A : Type) := POk (a : A) | PRaise (e : perr).
Arguments POk {A} a.
Arguments PRaise {A} e.

Fixpoint assoc {A} (k : string) (l : list (string * A)) : option A :=
  match l with
  | [] => None
  | (k', v) :: r => if String.eqb k k' then Some v else assoc k r
  end.

Definition mem (k : string) (l : list string) : bool := existsb (String.eqb k) l.

Fixpoint nodupb (l : list string) : bool :=
  match l with [] => true | k :: r => negb (mem k r) && nodupb r end.

Definition find_param (s : list param) (k : string) : option param :=
  find (fun p => String.eqb (p_name p) k) s.

(* may the parameter named k be passed by keyword? *)
Definition kw_ok (s : list param) (k : string) : bool :=
  match find_param s k with Some p => negb (is_posonly p) | None => false end.

Fixpoint mapM {A B} (f : A -> option B) (l : list A) : option (list B) :=
  match l with
  | [] => Some []
  | a :: r => match f a, mapM f r with Some b, Some r' => Some (b :: r') | _, _ => None end
  end.

(* ---------------- wrappers: namespace functions that only forward to a method of their first argument *)
Inductive fkey := KPos | KKw (k : string).
Inductive fsrc := FParam (p : string) | FConst (l : lit).
Inductive wtarget := WMethod (m : string) | WProperty (a : string) | WDunder (m : string).
Record wrapper := mkWrapper {
  w_name : string; w_module : string; w_sig : list param; w_recv : string;
  w_coerce : bool;            (* receiver is converted with asCOO(...) first *)
  w_np_fallback : bool;       (* decorated with _support_numpy *)
  w_target : wtarget; w_fwd : list (fkey * fsrc) }.

Definition target_name (w : wrapper) : string :=
  match w_target w with WMethod m | WProperty m | WDunder m => m end.

(* positional arguments are assigned to the positional-capable parameters in order; too many is an error *)
Fixpoint zipn {A} (s : list param) (l : list A) : option (list (string * A)) :=
  match l, s with
  | [], _ => Some []
  | v :: r, p :: s' =>
      if is_kwonly p then None
      else match zipn s' r with Some z => Some ((p_name p, v) :: z) | None => None end
  | _ :: _, [] => None
  end.

Section Calls.
  Variable V : Type.                 (* Python values *)
  Variable inj : lit -> V.           (* meaning of a literal *)

  Definition assign_pos (s : list param) (pos : list V) : option (list (string * V)) := zipn s pos.

  (* value of parameter p given the explicitly passed arguments *)
  Definition pval (given : list (string * V)) (p : param) : option V :=
    match assoc (p_name p) given with
    | Some v => Some v
    | None => match p_default p with Some d => Some (inj d) | None => None end
    end.

  (* fill in defaults; a required parameter without argument is a TypeError.  The environment lists the
     parameters in signature order. *)
  Definition fill (s : list param) (given : list (string * V)) : pres (list (string * V)) :=
    match mapM (fun p => match pval given p with Some v => Some (p_name p, v) | None => None end) s with
    | Some env => POk env
    | None => PRaise PTypeError
    end.

  (* CPython's argument binding for signatures without *args/**kwargs *)
  Definition bind (s : list param) (pos : list V) (kws : list (string * V)) : pres (list (string * V)) :=
    match assign_pos s pos with
    | None => PRaise PTypeError                                    (* too many positional arguments *)
    | Some pk =>
        if negb (forallb (kw_ok s) (map fst kws)) then PRaise PTypeError      (* unexpected keyword / positional-only by keyword *)
        else if negb (nodupb (map fst (pk ++ kws)%list)) then PRaise PTypeError     (* multiple values for an argument *)
        else fill s (pk ++ kws)%list
    end.


  Definition src_val (env : list (string * V)) (s : fsrc) : option V :=
    match s with FParam p => assoc p env | FConst l => Some (inj l) end.

  Definition is_kpos (e : fkey * fsrc) : bool := match fst e with KPos => true | KKw _ => false end.
  Definition fkey_name (e : fkey * fsrc) : string := match fst e with KKw k => k | KPos => "" end.

  (* the positional and keyword arguments of the forwarded call, evaluated in the wrapper's environment *)
  Definition fwd_pos (env : list (string * V)) (fwd : list (fkey * fsrc)) : option (list V) :=
    mapM (fun e => src_val env (snd e)) (filter is_kpos fwd).
  Definition fwd_kws (env : list (string * V)) (fwd : list (fkey * fsrc)) : option (list (string * V)) :=
    mapM (fun e => match src_val env (snd e) with Some v => Some (fkey_name e, v) | None => None end)
         (filter (fun e => negb (is_kpos e)) fwd).

  Variable R : Type.                                   (* results *)
  Variable body : string -> V -> list (string * V) -> pres R.
     (* body m recv env: the method's own code run on the receiver with the bound parameters *)

  (* x.m( *pos, **kws ) for a method with signature msig (self excluded) *)
  Definition call_method (msig : list param) (m : string) (recv : V) (pos : list V) (kws : list (string * V)) : pres R :=
    match bind msig pos kws with
    | POk env => body m recv env
    | PRaise e => PRaise e
    end.

  (* sparse.w( *pos, **kws ) for a wrapper delegating to a method of its receiver *)
  Definition call_wrapper (msig : list param) (w : wrapper) (pos : list V) (kws : list (string * V)) : pres R :=
    match bind (w_sig w) pos kws with
    | PRaise e => PRaise e
    | POk env =>
        match assoc (w_recv w) env, fwd_pos env (w_fwd w), fwd_kws env (w_fwd w) with
        | Some recv, Some tpos, Some tkws => call_method msig (target_name w) recv tpos tkws
        | _, _, _ => PRaise POther                 (* a forwarding expression names no parameter: NameError *)
        end
    end.

  (* ---------------- the renaming of explicitly passed arguments *)
  (* forwarding map with the positional entries named after the target's positional parameters, in order,
     followed by the keyword entries (the order in which CPython binds them) *)
  Definition name_fwd (msig : list param) (fwd : list (fkey * fsrc)) : option (list (string * fsrc)) :=
    match zipn msig (map snd (filter is_kpos fwd)) with
    | Some z => Some (z ++ map (fun e => (fkey_name e, snd e)) (filter (fun e => negb (is_kpos e)) fwd))%list
    | None => None
    end.

  (* the target keyword a wrapper parameter is forwarded to *)
  Fixpoint fwd_key (nf : list (string * fsrc)) (p : string) : option string :=
    match nf with
    | [] => None
    | (k, FParam p') :: r => if String.eqb p p' then Some k else fwd_key r p
    | (_, FConst _) :: r => fwd_key r p
    end.

  Definition rename (nf : list (string * fsrc)) (given : list (string * V)) : list (string * V) :=
    flat_map (fun kv => match fwd_key nf (fst kv) with Some k => [(k, snd kv)] | None => [] end) given.
End Calls.

(* ---------------- wrapper_ok: the forwarding map is the identity up to the documented renames *)

(* (wrapper, wrapper parameter, target parameter): Array-API / NumPy-1 names kept by the namespace function *)
Definition documented_renames : list (string * string * string) :=
  [("std", "correction", "ddof"); ("var", "correction", "ddof");
   ("clip", "a_min", "min"); ("clip", "a_max", "max")].

(* (wrapper, parameter) accepted for Array-API compatibility and documented as ignored *)
Definition documented_drops : list (string * string) := [("reshape", "copy")].

Definition rename_ok (wn p k : string) : bool :=
  String.eqb p k ||
  existsb (fun t => let '(a, b, c) := t in String.eqb a wn && String.eqb b p && String.eqb c k) documented_renames.

Definition drop_ok (wn p : string) : bool :=
  existsb (fun t => String.eqb (fst t) wn && String.eqb (snd t) p) documented_drops.

Definition default_compat (dw dm : option lit) : bool :=
  match dw, dm with
  | None, None => true
  | Some a, Some b => lit_equiv a b
  | _, _ => false
  end.

Definition src_param (s : fsrc) : option string := match s with FParam p => Some p | FConst _ => None end.

Definition all_params (nf : list (string * fsrc)) : option (list string) := mapM (fun e => src_param (snd e)) nf.

(* structural conditions under which calling the wrapper is calling the method with renamed keywords *)
Definition wrapper_struct_ok (msig : list param) (w : wrapper) : bool :=
  match name_fwd msig (w_fwd w) with
  | None => false
  | Some nf =>
      match all_params nf with
      | None => false                                             (* a constant is forwarded *)
      | Some ps =>
          nodupb (map p_name (w_sig w)) && nodupb (map p_name msig)
          && nodupb (map fst nf) && nodupb ps
          && negb (mem (w_recv w) ps)
          && match w_sig w with p0 :: _ => String.eqb (p_name p0) (w_recv w) && negb (is_kwonly p0) | [] => false end
          && forallb (kw_ok msig) (map fst nf)
          && forallb (fun e => match src_param (snd e), find_param (w_sig w) (match src_param (snd e) with Some p => p | None => "" end),
                                     find_param msig (fst e) with
                               | Some _, Some pw, Some pm => default_compat (p_default pw) (p_default pm)
                               | _, _, _ => false end) nf
          (* parameters that are not forwarded must be optional *)
          && forallb (fun p => String.eqb (p_name p) (w_recv w) || mem (p_name p) ps
                               || match p_default p with Some _ => true | None => false end) (w_sig w)
      end
  end.

Definition wrapper_names_ok (msig : list param) (w : wrapper) : bool :=
  match name_fwd msig (w_fwd w) with
  | None => false
  | Some nf =>
      forallb (fun e => match src_param (snd e) with
                        | Some p => rename_ok (w_name w) p (fst e)
                                    || match find_param (w_sig w) p with Some pw => is_posonly pw | None => false end
                        | None => false end) nf
      && forallb (fun p => String.eqb (p_name p) (w_recv w)
                           || match fwd_key nf (p_name p) with Some _ => true | None => drop_ok (w_name w) (p_name p) end)
                 (w_sig w)
  end.

Definition wrapper_ok (msig : list param) (w : wrapper) : bool :=
  negb (w_coerce w) && wrapper_struct_ok msig w && wrapper_names_ok msig w.

(* ------------------------------------------------------------------ Part B: dispatch tables *)

Inductive mbody :=
| BOwn                                                   (* own algorithm: a leaf *)
| BStub                                                  (* only a docstring: returns None *)
| BUfuncMethod (u m : string) (fwd : list (fkey * fsrc)) (* return np.u.m(self, k=v, ...) *)
| BArrayUfunc (u m : string) (prelude : bool)            (* ...; return self.__array_ufunc__(np.u, "m", self, ...) *)
| BNamespaceFn (f : string) (swap guard : bool)          (* from .._common import f; return f(self, other) / f(other, self) *)
| BNumpyCall (f : string)                                (* return np.f(self) *)
| BMixinBinary (u : string) (reflected : bool)           (* numpy.lib.mixins: ufunc(self, other) / ufunc(other, self) *)
| BMixinUnary (u : string)
| BMixinInplace (u : string).

Inductive attr :=
| AMethod (defcls : string) (sig : option (list param)) (b : mbody)
| AProperty (defcls : string) (b : mbody)
| AClassAttr (defcls : string).

Inductive ns_entry :=
| NsUfunc (u : string)            (* re-export of the NumPy ufunc whose __name__ is u *)
| NsNumpyOther (n : string)       (* other NumPy object (dtype, constant, finfo ...) *)
| NsWrapper (w : wrapper)
| NsOpaque (module : string)      (* function with its own algorithm *)
| NsClass | NsOther.

Inductive af_step := AfNamespace | AfType | AfProperty | AfNoneNotImplemented | AfCall.
Inductive au_action := AuElemwise | AuReduce.
(* operand bookkeeping of the "outer" branch: the loop walks reversed(inputs)?  the transformed list is reversed
   back?  cum_ndim is incremented after the append? *)
Record outer_facts := mkOuter { o_loop_reversed : bool; o_reversed_back : bool; o_cum_after_append : bool }.
Record au_table := mkAu {
  au_out_guard : bool; au_gufunc_to_function : bool; au_outer_rewrite : option string;
  au_branches : list (string * au_action); au_default_notimplemented : bool;
  au_outer_order : option outer_facts }.

Inductive np_kind :=
| NpUfunc (name : string) (gufunc : bool)
| NpFunction (name : string) (submodules : list string)     (* NEP-18 dispatched: func.__name__, func.__module__.split('.')[1:] *)
| NpType | NpNoDispatch | NpConst.

Record dtables := mkTables {
  t_namespace : list (string * ns_entry);
  t_attrs : list (string * list (string * attr));
  t_instance_attrs : list (string * list string);
  t_af : list af_step;
  t_au : au_table;
  t_array_guard : bool;
  t_array_namespace : string;
  t_numpy : list (string * np_kind) }.

(* own body of a method that duplicates a ufunc path (COO.isnan next to elemwise(np.isnan, x)) *)
Inductive dup_body :=
| DupCtor (cls : string) (kws : list (string * lit))    (* return COO(..., k=v, ...) *)
| DupDelegate (conv m : string)                          (* return self.tocoo().m().asformat(...) *)
| DupOther.

(* the constructor call of such a body must ask for pruning: the ufunc path returns a pruned array, so a body that
   keeps stored values equal to the fill value yields another representation (nnz, coords, density) *)
Definition dup_body_prunes (b : dup_body) : bool :=
  match b with
  | DupCtor _ kws => match assoc "prune" kws with Some (LBool true) => true | _ => false end
  | DupDelegate _ _ => true          (* inherits the representation of the COO method *)
  | DupOther => false
  end.

Inductive side := SideL | SideR.

Inductive spelling :=
| Method (m : string)                        (* x.m(...) *)
| Attr (a : string)                          (* x.a *)
| Namespace (n : string)                     (* sparse.n(x, ...) *)
| ArrayNamespace (n : string)                (* x.__array_namespace__().n(x, ...) *)
| NumpyFunction (n : string) (unary : bool)  (* np.n(x, ...); unary = exactly one argument and no keywords *)
| Ufunc (u m : string)                       (* np.u.m(...) for a public ufunc name u, m = __call__ | reduce | outer | ... *)
| Operator (op : string) (s : side)          (* x op y (SideL) / y op x (SideR) *)
| ArrayCoercion.                             (* np.asarray(x) and every non-dispatched path into x.__array__ *)

(* where a spelling ends *)
Inductive leaf :=
| LfBody (cls m : string)             (* the own algorithm of method m as defined in class cls *)
| LfStub (m : string)                 (* an abstract stub: returns None *)
| LfProp (cls a : string)             (* own code of a property *)
| LfInstAttr (a : string)             (* instance attribute *)
| LfElemwise (u : string)             (* elemwise(np.u, inputs..., kwargs...) *)
| LfOuter (u : string)                (* elemwise on operands reshaped for an outer product *)
| LfReduce (u : string)               (* self.reduce(np.u, kwargs...) *)
| LfFunc (f : string)                 (* a function of the sparse namespace with its own algorithm *)
| LfConst (n : string)                (* a non-callable / class / NumPy object *)
| LfCoerced (l : leaf)                (* the same after asCOO(receiver) *)
| LfTypeError                         (* every protocol declined: NumPy raises TypeError *)
| LfAttributeError
| LfRuntimeError                      (* __array__ with AUTO_DENSIFY unset *)
| LfDensify                           (* __array__ returns the dense array *)
| LfNotCallable                       (* calling a property object / None: TypeError *)
| LfOutOfFuel.

Fixpoint leaf_eqb (a b : leaf) : bool :=
  match a, b with
  | LfBody c m, LfBody c' m' | LfProp c m, LfProp c' m' => String.eqb c c' && String.eqb m m'
  | LfStub m, LfStub m' | LfInstAttr m, LfInstAttr m' | LfElemwise m, LfElemwise m' | LfOuter m, LfOuter m'
  | LfReduce m, LfReduce m' | LfFunc m, LfFunc m' | LfConst m, LfConst m' => String.eqb m m'
  | LfCoerced x, LfCoerced y => leaf_eqb x y
  | LfTypeError, LfTypeError | LfAttributeError, LfAttributeError | LfRuntimeError, LfRuntimeError
  | LfDensify, LfDensify | LfNotCallable, LfNotCallable | LfOutOfFuel, LfOutOfFuel => true
  | _, _ => false
  end.

Definition is_error_leaf (l : leaf) : bool :=
  match l with LfTypeError | LfAttributeError | LfRuntimeError | LfNotCallable => true | _ => false end.

Definition dunder (op : string) (s : side) : string :=
  match s with SideL => "__" ++ op ++ "__" | SideR => "__r" ++ op ++ "__" end.

Section Resolve.
  Variable T : dtables.
  Variable auto_densify : bool.      (* SPARSE_AUTO_DENSIFY *)

  Definition attr_lookup (cls name : string) : option attr :=
    match assoc cls (t_attrs T) with Some l => assoc name l | None => None end.
  Definition inst_has (cls name : string) : bool :=
    match assoc cls (t_instance_attrs T) with Some l => mem name l | None => false end.

  (* SparseArray.__array_ufunc__(ufunc, method, ...) for a NON-gufunc: the extracted branch table *)
  Definition au_dispatch (u m : string) : leaf :=
    let au := t_au T in
    let m' := if String.eqb m "outer" then match au_outer_rewrite au with Some r => r | None => m end else m in
    match assoc m' (au_branches au) with
    | Some AuElemwise => if String.eqb m "outer" then LfOuter u else LfElemwise u
    | Some AuReduce => LfReduce u
    | None => if au_default_notimplemented au then LfTypeError else LfOutOfFuel
    end.

  (* state of __array_function__: what `sparse_func` currently holds *)
  Inductive af_found := FoundNothing | FoundAttr (a : attr).

  Fixpoint resolve (fuel : nat) (cls : string) (s : spelling) {struct fuel} : leaf :=
    match fuel with
    | O => LfOutOfFuel
    | S fuel =>
      let method_of (name : string) (a : attr) : leaf :=
        match a with
        | AClassAttr _ => LfNotCallable
        | AProperty d b =>
            match b with
            | BArrayUfunc u m _ => au_dispatch u m          (* direct call of self.__array_ufunc__ with a plain function *)
            | BStub => LfStub name
            | _ => LfProp d name
            end
        | AMethod d _ b =>
            match b with
            | BOwn => LfBody d name
            | BStub => LfStub name
            | BUfuncMethod u m _ => resolve fuel cls (Ufunc u m)
            | BArrayUfunc u m _ => au_dispatch u m
            | BNamespaceFn f _ _ => resolve fuel cls (Namespace f)
            | BNumpyCall f => match assoc f (t_numpy T) with
                              | Some (NpUfunc _ _) => resolve fuel cls (Ufunc f "__call__")
                              | Some (NpFunction _ _) => resolve fuel cls (NumpyFunction f true)
                              | _ => LfOutOfFuel end
            | BMixinBinary u _ | BMixinUnary u | BMixinInplace u => resolve fuel cls (Ufunc u "__call__")
            end
        end in
      match s with
      | Method m =>
          match attr_lookup cls m with
          | Some a => method_of m a
          | None => LfAttributeError
          end
      | Attr a =>
          match attr_lookup cls a with
          | Some (AProperty d b) => method_of a (AProperty d b)
          | Some (AMethod d _ _) => LfConst a                 (* a bound method object *)
          | Some (AClassAttr _) => LfConst a
          | None => if inst_has cls a then LfInstAttr a else LfAttributeError
          end
      | Operator op sd => resolve fuel cls (Method (dunder op sd))
      | Namespace n =>
          match assoc n (t_namespace T) with
          | None => LfAttributeError
          | Some (NsUfunc u) => resolve fuel cls (Ufunc u "__call__")
          | Some (NsNumpyOther x) => LfConst x
          | Some (NsOpaque _) => LfFunc n
          | Some NsClass | Some NsOther => LfConst n
          | Some (NsWrapper w) =>
              let inner (c : string) :=
                match w_target w with
                | WMethod m | WDunder m => resolve fuel c (Method m)
                | WProperty a => resolve fuel c (Attr a)
                end in
              if w_coerce w then (if String.eqb cls "COO" then inner "COO" else LfCoerced (inner "COO")) else inner cls
          end
      | ArrayNamespace n =>
          if String.eqb (t_array_namespace T) "sparse" then resolve fuel cls (Namespace n) else LfOutOfFuel
      | Ufunc u m =>
          (* u is a public NumPy name or a ufunc __name__; NumPy calls x.__array_ufunc__(ufunc, m, ...) *)
          match assoc u (t_numpy T) with
          | Some (NpUfunc name true) =>
              if au_gufunc_to_function (t_au T) then
                (* self.__array_function__(ufunc, ...): lookup by ufunc.__name__, never unary-shortcut *)
                match assoc name (t_namespace T) with
                | Some _ => resolve fuel cls (Namespace name)
                | None => match attr_lookup cls name with
                          | Some a => method_of name a
                          | None => LfTypeError end
                end
              else au_dispatch name m
          | Some (NpUfunc name false) => au_dispatch name m
          | _ => au_dispatch u m
          end
      | NumpyFunction n unary =>
          match assoc n (t_numpy T) with
          | Some (NpFunction name subs) =>
              (* the extracted step list of __array_function__ *)
              (fix run (steps : list af_step) (found : af_found) : leaf :=
                 match steps with
                 | [] => LfStub name                         (* falls off the end: returns None *)
                 | AfNamespace :: r =>
                     match subs with
                     | [] => match assoc name (t_namespace T) with
                             | Some _ => resolve fuel cls (Namespace name)
                             | None => run r found end
                     | _ :: _ => run r found                 (* getattr(sparse, <submodule>) fails *)
                     end
                 | AfType :: r =>
                     run r (match attr_lookup cls name with Some a => FoundAttr a | None => found end)
                 | AfProperty :: r =>
                     let noncallable := match found with
                                        | FoundNothing => true
                                        | FoundAttr (AMethod _ _ _) => false
                                        | FoundAttr _ => true end in
                     if noncallable && unary then
                       match resolve fuel cls (Attr name) with
                       | LfAttributeError => run r found
                       | l => l end
                     else run r found
                 | AfNoneNotImplemented :: r =>
                     match found with FoundNothing => LfTypeError | _ => run r found end
                 | AfCall :: _ =>
                     match found with
                     | FoundNothing => LfNotCallable
                     | FoundAttr (AMethod d sg b) => method_of name (AMethod d sg b)
                     | FoundAttr _ => LfNotCallable
                     end
                 end) (t_af T) FoundNothing
          | Some (NpUfunc _ _) => resolve fuel cls (Ufunc n "__call__")
          | Some NpNoDispatch => resolve fuel cls ArrayCoercion
          | _ => LfOutOfFuel
          end
      | ArrayCoercion =>
          if t_array_guard T then (if auto_densify then LfDensify else LfRuntimeError) else LfDensify
      end
    end.
End Resolve.

Definition FUEL : nat := 12%nat.

(* the three concrete array classes *)
Definition classes : list string := ["COO"; "GCXS"; "DOK"].

(* is the method-level spelling of an operation available on the class at all? *)
Definition supported (T : dtables) (cls : string) (ss : list spelling) : bool :=
  forallb (fun s => negb (is_error_leaf (resolve T false FUEL cls s))) ss.

Definition all_same_leaf (T : dtables) (cls : string) (ss : list spelling) : bool :=
  match ss with
  | [] => true
  | s0 :: r => forallb (fun s => leaf_eqb (resolve T false FUEL cls s0) (resolve T false FUEL cls s)) r
  end.

(* ---------------- domain clauses of spellings_agree (each one excluded by a refutation witness) *)

(* D-C17-a: operations for which the library has TWO algorithms (the class's own method body and the
   generic elemwise/ufunc path); their agreement is checked by correspondence only *)
Definition two_algorithm_ops : list (string * string) :=
  [("COO", "isnan"); ("COO", "isinf"); ("GCXS", "isnan"); ("GCXS", "isinf"); ("DOK", "isnan"); ("DOK", "isinf");
   ("COO", "matrix_transpose"); ("GCXS", "matrix_transpose")].

(* (D-C17-b, "DOK inherits the abstract stubs isnan/isinf of SparseArray, which return None", was repaired in
   /repo by commit ea90286; its clause is gone: a stub reached by any spelling is again a failure of
   spellings_agree_partial.) *)

(* (D-C17-c, "sparse.clip converts its receiver with asCOO first", and the undocumented drop of `out` by the same
   wrapper were repaired in /repo by 6f38899 and f87860e; the clause is gone: a coercing wrapper is again a failure
   of wrappers_faithful / spellings_agree_partial.) *)

Definition in_pairs (c o : string) (l : list (string * string)) : bool :=
  existsb (fun t => String.eqb (fst t) c && String.eqb (snd t) o) l.

Definition clause_single_algorithm (cls op : string) : bool := negb (in_pairs cls op two_algorithm_ops).

(* does a call with npos positional arguments and the given keyword names bind to the signature? *)
Definition bind_shape (s : list param) (npos : nat) (kws : list string) : bool :=
  match bind unit (fun _ => tt) s (repeat tt npos) (map (fun k => (k, tt)) kws) with
  | POk _ => true
  | PRaise _ => false
  end.

(* signature of the method (self excluded) / of a property access, as seen from class cls *)
Definition method_sig (T : dtables) (cls m : string) : option (list param) :=
  match attr_lookup T cls m with
  | Some (AMethod _ (Some sg) _) => Some sg
  | Some (AProperty _ _) => Some []
  | _ => None
  end.

(* operand order of the binary operator methods: __op__ passes (self, other), __rop__ passes (other, self) *)
Definition binary_stems : list string :=
  ["add"; "sub"; "mul"; "matmul"; "truediv"; "floordiv"; "mod"; "pow"; "lshift"; "rshift"; "and"; "xor"; "or"].

Definition body_order_ok (reflected : bool) (a : option attr) : bool :=
  match a with
  | Some (AMethod _ _ (BMixinBinary _ r)) => Bool.eqb r reflected
  | Some (AMethod _ _ (BNamespaceFn _ sw _)) => Bool.eqb sw reflected
  | _ => false
  end.

Definition operand_order_ok (T : dtables) (cls : string) : bool :=
  forallb (fun st => body_order_ok false (attr_lookup T cls (dunder st SideL))
                     && body_order_ok true (attr_lookup T cls (dunder st SideR))) binary_stems.

(* ---------------- operand order of ufunc.outer (NEP-13 method "outer")
   An input is (its identity, its ndim); the branch hands to elemwise a list of (identity, number of trailing
   None axes appended by  inp[(Ellipsis,) + (None,) * cum_ndim] ). *)
Section Outer.
  Variable A : Type.

  Fixpoint outer_walk (cum_after : bool) (l : list (A * Z)) (cum : Z) : list (A * Z) :=
    match l with
    | [] => []
    | (a, nd) :: r => (a, if cum_after then cum else cum + nd) :: outer_walk cum_after r (cum + nd)
    end.

  (* what the extracted branch does *)
  Definition outer_inputs (o : outer_facts) (l : list (A * Z)) : list (A * Z) :=
    let l1 := if o_loop_reversed o then rev l else l in
    let t := outer_walk (o_cum_after_append o) l1 0 in
    if o_reversed_back o then rev t else t.

  Fixpoint zsum (l : list Z) : Z := match l with [] => 0 | x :: r => x + zsum r end.

  (* NumPy's ufunc.outer: operands in CALL order, each followed by as many new axes as the operands to its
     right have axes in total  (A.outer(a, b)[i.., j..] = op(a[i..], b[j..])) *)
  Fixpoint np_outer_spec (l : list (A * Z)) : list (A * Z) :=
    match l with
    | [] => []
    | (a, nd) :: r => (a, zsum (map snd r)) :: np_outer_spec r
    end.
End Outer.
