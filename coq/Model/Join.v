(* Model/Join.v — the joiners of pydata/sparse as the code runs them (definitions only):
     _coo/common.py:        concatenate, stack  (+ the part of COO.__init__ they rely on)
     _compressed/common.py: concatenate, stack  (change_compressed_axes, indptr splicing loop)
     _common.py:            dispatch by format (all-GCXS -> GCXS joiner, otherwise COO joiner)
   Everything the code decides by a constructor flag, a guard or scalar arithmetic is a
   PARAMETER here; Gen/S_join.v (site extractor) and Gen/G_join.v (fragment translator) supply
   the values the source has now, and the instances at the end of the file (`*_src`) are what
   the C09 theorems talk about.
   Not modelled: index dtypes (can_store / astype: unbounded Z here, see C15), the conversion of
   DOK/GCXS members to COO (C05), dtype promotion of data. *)
From Coq Require Import ZArith List Bool Sorting.Sorted.
From Verif Require Import Py PyExt Shape COO GCXS Convert NpJoin G_join S_join.
Import ListNotations.
Open Scope Z_scope.

(* the arguments a producer passes to COO(...) *)
Record ctor_flags := mkFlags {
  fl_sorted : Z -> bool;            (* functions of the normalised axis *)
  fl_has_duplicates : Z -> bool;
  fl_prune : Z -> bool;
  fl_fill : fill_src
}.

Section Join.
  Variable V : Type.
  Variable veqb : V -> V -> bool.     (* _utils.equivalent *)
  Variable vzero : V.                 (* _zero_of_dtype *)
  Variable vadd : V -> V -> V.        (* only used by COO._sum_duplicates *)

  (* ---------------------------------------------------------------- COO.__init__ *)

  Definition fill_of (s : fill_src) (input_fill : V) : V :=
    match s with FillAbsent => vzero | FillFirstArray | FillInput => input_fill end.

  (* _sort_indices: np.argsort(linear, kind="mergesort") — a stable sort by linear location *)
  Fixpoint insert_by (key : idx -> Z) (e : idx * V) (l : list (idx * V)) : list (idx * V) :=
    match l with
    | [] => [e]
    | y :: r => if key (fst e) <=? key (fst y) then e :: l else y :: insert_by key e r
    end.
  Definition sort_by (key : idx -> Z) (l : list (idx * V)) : list (idx * V) :=
    fold_right (insert_by key) [] l.

  (* _sum_duplicates: runs of equal linear location collapse to their first coordinate, data summed *)
  Fixpoint sum_dups (key : idx -> Z) (l : list (idx * V)) : list (idx * V) :=
    match l with
    | [] => []
    | e :: r => match sum_dups key r with
                | [] => [e]
                | y :: r' => if key (fst e) =? key (fst y)
                             then (fst e, vadd (snd e) (snd y)) :: r' else e :: y :: r'
                end
    end.

  (* COO(coords, data, shape, has_duplicates=, sorted=, prune=, fill_value=): linear_loc
     (np.ravel_multi_index) raises ValueError on an out-of-range coordinate, and is evaluated
     only when the array is sorted or de-duplicated by the constructor *)
  Definition coo_ctor (sorted has_dup prune : bool) (fill : V) (sh : shape)
             (coords : list idx) (data : list V) : res (coo V) :=
    let es := combine coords data in
    if (negb sorted || has_dup) && negb (forallb (in_rangeb sh) coords) then Raise ValueError
    else
      let es1 := if sorted then es else sort_by (ravel sh) es in
      let es2 := if has_dup then sum_dups (ravel sh) es1 else es1 in
      let es3 := if prune then filter (fun kv => negb (veqb (snd kv) fill)) es2 else es2 in
      Ok (mkCOO sh (map fst es3) (map snd es3) fill).

  (* ---------------------------------------------------------------- shared pieces *)

  (* axis = normalize_axis(axis, <ndim expression>) with the generated normalisation *)
  Definition norm_axis (ndim_expr : pyv -> res pyv) (axis ndim : Z) : res Z :=
    n <- ndim_expr (VInt ndim) ;;
    r <- g_join_normalize_axis (VInt axis) n ;;
    match r with VInt a => Ok a | _ => Raise TypeError end.

  (* check_consistent_fill_value (list non-empty): every fill equivalent to the first *)
  Definition fills_consistent (a : coo V) (arrs : list (coo V)) : bool :=
    forallb (fun x => veqb (c_fill a) (c_fill x)) arrs.

  Definition ndim_of (x : coo V) : Z := Z.of_nat (length (c_shape x)).

  (* ---------------------------------------------------------------- COO concatenate *)

  (* the assert: every member has the first member's extents off the join axis *)
  Definition same_off_axis (k : nat) (s1 s2 : shape) : bool :=
    (length s1 =? length s2)%nat && idx_eqb (del k s1) (del k s2).

  (* coords/data concatenated, then the loop
       dim = 0; for x in arrays: (if dim: coords[axis, nnz : nnz + x.nnz] += dim); dim += x.shape[axis]; nnz += x.nnz *)
  Fixpoint concat_parts (k : nat) (dim : Z) (arrs : list (coo V)) : list idx * list V :=
    match arrs with
    | [] => ([], [])
    | x :: r =>
      let cs := if dim =? 0 then c_coords x else map (upd k (fun c => c + dim)) (c_coords x) in
      let '(cr, dr) := concat_parts k (dim + nth k (c_shape x) 0) r in
      (cs ++ cr, c_data x ++ dr)
    end.

  Definition coo_concatenate (fl : ctor_flags) (ndim_expr : pyv -> res pyv) (checks_fill : bool) (mexc : exc)
             (axis : Z) (arrs : list (coo V)) : res (coo V) :=
    match arrs with
    | [] => Raise ValueError                         (* "At least one array required." *)
    | a :: _ =>
      if checks_fill && negb (fills_consistent a arrs) then Raise ValueError else
      ax <- norm_axis ndim_expr axis (ndim_of a) ;;
      let k := Z.to_nat ax in
      if negb (forallb (fun x => same_off_axis k (c_shape a) (c_shape x)) arrs)
      then Raise mexc                                (* ndim / off-axis extents differ *)
      else
        let sh := upd k (fun _ => zsum (map (fun x => nth k (c_shape x) 0) arrs)) (c_shape a) in
        let '(cs, ds) := concat_parts k 0 arrs in
        coo_ctor (fl_sorted fl ax) (fl_has_duplicates fl ax) (fl_prune fl ax)
                 (fill_of (fl_fill fl) (c_fill a)) sh cs ds
    end.

  (* x.flatten() = x.reshape((-1,)): coordinates become linear locations (C08) *)
  Definition coo_flatten (x : coo V) : coo V :=
    mkCOO [size (c_shape x)] (map (fun c => [ravel (c_shape x) c]) (c_coords x)) (c_data x) (c_fill x).

  (* `if axis is None: axis = 0; arrays = [x.flatten() for x in arrays]` *)
  Definition coo_concatenate_opt fl ndim_expr checks_fill mexc (axis : option Z) (arrs : list (coo V)) :=
    match axis with
    | Some a => coo_concatenate fl ndim_expr checks_fill mexc a arrs
    | None => coo_concatenate fl ndim_expr checks_fill mexc 0 (map coo_flatten arrs)
    end.

  (* ---------------------------------------------------------------- COO stack *)

  (* new[nnz : nnz + x.nnz] = dim for dim, x in enumerate(arrays); coords.insert(axis, new) *)
  Fixpoint stack_parts (k : nat) (j : Z) (arrs : list (coo V)) : list idx * list V :=
    match arrs with
    | [] => ([], [])
    | x :: r =>
      let '(cr, dr) := stack_parts k (j + 1) r in
      (map (ins k j) (c_coords x) ++ cr, c_data x ++ dr)
    end.

  Definition coo_stack (fl : ctor_flags) (ndim_expr : pyv -> res pyv) (checks_fill : bool) (mexc : exc)
             (axis : Z) (arrs : list (coo V)) : res (coo V) :=
    match arrs with
    | [] => Raise ValueError
    | a :: _ =>
      if checks_fill && negb (fills_consistent a arrs) then Raise ValueError else
      if negb (forallb (fun x => idx_eqb (c_shape a) (c_shape x)) arrs)
      then Raise mexc                                (* if len({x.shape for x in arrays}) != 1 *)
      else
        ax <- norm_axis ndim_expr axis (ndim_of a) ;;
        let k := Z.to_nat ax in
        let sh := ins k (Z.of_nat (length arrs)) (c_shape a) in
        let '(cs, ds) := stack_parts k 0 arrs in
        coo_ctor (fl_sorted fl ax) (fl_has_duplicates fl ax) (fl_prune fl ax)
                 (fill_of (fl_fill fl) (c_fill a)) sh cs ds
    end.

  (* ---------------------------------------------------------------- GCXS joiners *)

  (* indptr[p:] += d *)
  Definition add_from (p : nat) (d : Z) (l : list Z) : list Z :=
    firstn p l ++ map (Z.add d) (skipn p l).

  (* a member as the loop sees it: (its indptr, its nnz).
       ptr_len = len(indptr_0); nnz = nnz_0
       for i in range(1, n): indptr[ptr_len:] += nnz; nnz = nnz_i; ptr_len += len(indptr_i) - 1 *)
  Fixpoint splice_loop (rest : list (list Z * Z)) (ptr_len : nat) (nnz : Z) (indptr : list Z) : list Z :=
    match rest with
    | [] => indptr
    | (ip, n) :: r => splice_loop r (ptr_len + (length ip - 1)) n (add_from ptr_len nnz indptr)
    end.

  (* indptr = np.concatenate([indptr_0] + [indptr_i[1:] for i >= 1]), then the loop *)
  Definition splice (members : list (list Z * Z)) : list Z :=
    match members with
    | [] => []
    | (ip0, n0) :: r => splice_loop r (length ip0) n0 (ip0 ++ flat_map (fun m => tl (fst m)) r)
    end.

  (* what the loop is meant to compute: member j's pointers shifted by the nnz of members < j *)
  Fixpoint splice_pref (off : Z) (rest : list (list Z * Z)) : list Z :=
    match rest with
    | [] => []
    | (ip, n) :: r => map (Z.add off) (tl ip) ++ splice_pref (off + n) r
    end.
  Definition splice_spec (members : list (list Z * Z)) : list Z :=
    match members with
    | [] => []
    | (ip0, n0) :: r => ip0 ++ splice_pref n0 r
    end.

  (* a valid index pointer for nnz stored entries: starts at 0, never decreases, ends at nnz
     (the indptr conjuncts of GCXS.gcxs_wfb, see Proofs/JoinP.v: indptr_ok_wfb) *)
  Definition indptr_ok (ip : list Z) (nnz : Z) : Prop :=
    hd (-1) ip = 0 /\ Sorted.StronglySorted Z.le ip /\ last ip (-1) = nnz.

  (* needed = max(total_nnz, indptr.shape[0] - 1): what the pointer's dtype is widened for
     (`if not can_store(indptr.dtype, needed): indptr = indptr.astype(np.min_scalar_type(needed))`);
     the widths themselves are not modelled (C15), the bound is: see JoinP.indptr_needed_bounds *)
  Definition indptr_needed (needed_expr : pyv -> pyv -> res pyv) (members : list (list Z * Z)) : res Z :=
    r <- needed_expr (VInt (zsum (map snd members))) (VInt (Z.of_nat (length (splice members)))) ;;
    match r with VInt z => Ok z | _ => Raise TypeError end.

  (* GCXS.change_compressed_axes((axis,)) is Model/Convert.v's transcription of `_transpose`
     (gcxs_change_axes, property C05: change_axes_den / change_axes_wf) *)
  Definition change_compressed_axes (ca : list Z) (g : gcxs V) : gcxs V := gcxs_change_axes g ca.

  Definition gnnz (g : gcxs V) : Z := Z.of_nat (length (g_data g)).

  (* members already compressed along (axis,): splice *)
  Definition gcxs_join_core (sh : shape) (ax : Z) (fill : V) (arrs : list (gcxs V)) : gcxs V :=
    mkGCXS sh [ax] (flat_map (@g_data V) arrs) (flat_map (@g_indices V) arrs)
           (splice (map (fun g => (g_indptr g, gnnz g)) arrs)) fill.

  Definition gcxs_concatenate (fsrc : fill_src) (ndim_expr : pyv -> res pyv) (checks_fill : bool) (mexc : exc)
             (axis : Z) (caxes : option (list Z)) (arrs : list (gcxs V)) : res (gcxs V) :=
    match arrs with
    | [] => Raise ValueError
    | a :: _ =>
      if checks_fill && negb (forallb (fun x => veqb (g_fill a) (g_fill x)) arrs) then Raise ValueError else
      ax <- norm_axis ndim_expr axis (Z.of_nat (length (g_shape a))) ;;
      let k := Z.to_nat ax in
      if negb (forallb (fun x => same_off_axis k (g_shape a) (g_shape x)) arrs) then Raise mexc else
      let sh := upd k (fun _ => zsum (map (fun x => nth k (g_shape x) 0) arrs)) (g_shape a) in
      let ca := match caxes with Some c => c | None => [ax] end in
      let ms := map (change_compressed_axes [ax]) arrs in
      Ok (change_compressed_axes ca (gcxs_join_core sh ax (fill_of fsrc (g_fill a)) ms))
    end.

  (* axis=None: `axis = 0; arrays = [x.flatten() for x in arrays]`, then the 1-d members go through the COO
     joiner (`arrays[0].ndim == 1`: arrays = [arr.tocoo() ...]; coo_concat(arrays, axis=axis)).  By meaning:
     flatten and tocoo commute, so this is the COO joiner's axis=None on the members' COO forms. *)
  Definition gcxs_concatenate_none (coo_join_none : list (coo V) -> res (coo V)) (arrs : list (gcxs V)) : res (coo V) :=
    coo_join_none (map (gcxs_tocoo veqb vadd) arrs).

  (* arrays[i].reshape(shape with a 1 inserted at axis).change_compressed_axes((axis,)), by its meaning:
     the member's entries with a 0 inserted at the new axis, compressed along it (GCXS.reshape's kernel
     itself — `_transpose` onto a different shape — is not transcribed; its result is compared case by
     case by the correspondence) *)
  Definition coo_expand (k : nat) (c : coo V) : coo V :=
    mkCOO (ins k 1 (c_shape c)) (map (ins k 0) (c_coords c)) (c_data c) (c_fill c).
  Definition gcxs_expand (k : nat) (g : gcxs V) : coo V := coo_expand k (gcxs_tocoo veqb vadd g).

  Definition gcxs_stack (fsrc : fill_src) (ndim_expr : pyv -> res pyv) (checks_fill : bool) (mexc : exc)
             (axis : Z) (caxes : option (list Z)) (arrs : list (gcxs V)) : res (gcxs V) :=
    match arrs with
    | [] => Raise ValueError
    | a :: _ =>
      if checks_fill && negb (forallb (fun x => veqb (g_fill a) (g_fill x)) arrs) then Raise ValueError else
      ax <- norm_axis ndim_expr axis (Z.of_nat (length (g_shape a))) ;;
      let k := Z.to_nat ax in
      if negb (forallb (fun x => idx_eqb (g_shape a) (g_shape x)) arrs) then Raise mexc else
      let sh := ins k (Z.of_nat (length arrs)) (g_shape a) in
      let ca := match caxes with Some c => c | None => [ax] end in
      let ms := map (fun g => gcxs_from_coo (gcxs_expand k g) [ax]) arrs in
      Ok (change_compressed_axes ca (gcxs_join_core sh ax (fill_of fsrc (g_fill a)) ms))
    end.
End Join.

(* ------------------------------------------------------------------ instances for the source as it is now *)
Definition concat_flags : ctor_flags :=
  mkFlags site_concatenate_sorted site_concatenate_has_duplicates site_concatenate_prune site_concatenate_fill.
Definition stack_flags : ctor_flags :=
  mkFlags site_stack_sorted site_stack_has_duplicates site_stack_prune site_stack_fill.

Section Instances.
  Variable V : Type.
  Variable veqb : V -> V -> bool.
  Variable vzero : V.
  Variable vadd : V -> V -> V.

  Definition coo_concatenate_src : option Z -> list (coo V) -> res (coo V) :=
    coo_concatenate_opt V veqb vzero vadd concat_flags site_concatenate_axis_ndim
                        site_concatenate_checks_consistent_fill site_concatenate_mismatch_exc.
  Definition coo_stack_src : Z -> list (coo V) -> res (coo V) :=
    coo_stack V veqb vzero vadd stack_flags site_stack_axis_ndim site_stack_checks_consistent_fill
              site_stack_mismatch_exc.
  Definition gcxs_concatenate_src : Z -> option (list Z) -> list (gcxs V) -> res (gcxs V) :=
    gcxs_concatenate V veqb vzero site_gcxs_concatenate_fill site_gcxs_concatenate_axis_ndim
                     site_gcxs_concatenate_checks_consistent_fill site_gcxs_concatenate_mismatch_exc.
  Definition gcxs_concatenate_none_src : list (gcxs V) -> res (coo V) :=
    gcxs_concatenate_none V veqb vadd (coo_concatenate_src None).
  Definition gcxs_stack_src : Z -> option (list Z) -> list (gcxs V) -> res (gcxs V) :=
    gcxs_stack V veqb vzero vadd site_gcxs_stack_fill site_gcxs_stack_axis_ndim
               site_gcxs_stack_checks_consistent_fill site_gcxs_stack_mismatch_exc.
End Instances.
