(* Model/Cache.v — the per-array memo of sparse.COO as the code implements it
   (sparse/numba_backend/_coo/core.py: enable_caching, transpose, reshape, tocsr, tocsc).

   self._cache = defaultdict(lambda: deque(maxlen=N))      one deque per operation name
   lookup:   for k, value in tuple(self._cache[name]): if k == key: return value
             (a snapshot of the deque, or the deque itself: same entries, oldest first; first match wins)
   store:    self._cache[name].append((key, result))      drops the oldest entry beyond maxlen
   identity short-cuts and argument errors happen BEFORE the lookup;
   tocsr/tocsc memoise in the attributes _csr/_csc.

   Two models:
   * [memo_*]: one deque in isolation (the statement of DESIGN §4: run_cached f ops vs run_uncached f ops);
   * [run]: the whole family of objects derived from one root array.  Every result of a
     cache-enabled array is itself cache-enabled (cache=self._cache is not None) and carries its
     own deques, and a cache hit returns the *identical* object, whose own cache persists.  So the
     state is an append-only heap of objects; a history is a list of (target, operation) where the
     target is the root or the object returned by an earlier call.  Object ids make the model
     predict which calls return the identical object (observable with `is`).

   The shape of the protocol (maxlen, key expressions, what is stored, how keys are compared) is
   NOT written here: it is the record [proto], whose values are regenerated from the Python AST
   by tools/sitegen/alias.py into Gen/S_cache.v on every run.  No proofs in this file. *)
From Coq Require Import ZArith List Bool String.
From Verif Require Import Py S_cache.
Import ListNotations.

(* ------------------------------------------------------------------ the deque *)
Section Deque.
  Context {K V : Type}.
  Variable keqb : K -> K -> bool.

  (* oldest entry first = iteration order of collections.deque *)
  Definition deque := list (K * V).

  (* for k', value in d: if k' == k: return value *)
  Fixpoint dq_lookup (d : deque) (k : K) : option V :=
    match d with
    | [] => None
    | (k', v) :: r => if keqb k' k then Some v else dq_lookup r k
    end.

  (* deque(maxlen=cap).append(e): append on the right, drop from the left beyond cap
     (maxlen=0 keeps nothing) *)
  Definition dq_append (cap : nat) (d : deque) (e : K * V) : deque :=
    let d' := d ++ [e] in skipn (List.length d' - cap) d'.
End Deque.

(* result of the part of a method that runs before the cache is consulted *)
Inductive pre (E : Type) :=
| PRaise (e : exc)         (* argument error *)
| PSelf                    (* identity short-cut: `return self` *)
| PGo (env : E).           (* normalised locals with which lookup / compute / store run *)
Arguments PRaise {E} e.
Arguments PSelf {E}.
Arguments PGo {E} env.

(* ------------------------------------------------------------------ one memo in isolation *)
Section Memo.
  Variables (A E K V : Type).
  Variable keqb : K -> K -> bool.
  Variable cap : nat.
  Variable m_pre : A -> pre E.
  Variables (lkey skey : E -> K).   (* key expression at the lookup / at the store *)
  Variable f : E -> V.              (* the computation being memoised *)

  Inductive mout := MRaise (e : exc) | MSelf | MVal (v : V).

  Definition memo_call_cached (d : deque) (a : A) : mout * deque :=
    match m_pre a with
    | PRaise e => (MRaise e, d)
    | PSelf => (MSelf, d)
    | PGo env =>
      match dq_lookup keqb d (lkey env) with
      | Some v => (MVal v, d)
      | None => let v := f env in (MVal v, dq_append cap d (skey env, v))
      end
    end.

  Definition memo_call_uncached (a : A) : mout :=
    match m_pre a with
    | PRaise e => MRaise e
    | PSelf => MSelf
    | PGo env => MVal (f env)
    end.

  Fixpoint memo_run_cached (d : deque) (ops : list A) : list mout * deque :=
    match ops with
    | [] => ([], d)
    | a :: r => let '(o, d1) := memo_call_cached d a in
                let '(os, d2) := memo_run_cached d1 r in (o :: os, d2)
    end.

  Definition memo_run_uncached (ops : list A) : list mout := map memo_call_uncached ops.
End Memo.
Arguments MRaise {V} e.
Arguments MSelf {V}.
Arguments MVal {V} v.

(* ------------------------------------------------------------------ the protocol shape (generated) *)
(* What tools/sitegen/alias.py reads off the AST of one memoised method.  Variables are the
   method's local names after the pre-phase. *)
Record proto := {
  p_slot_lookup : string;            (* self._cache[<this>] iterated by the lookup loop *)
  p_slot_store : string;             (* self._cache[<this>] appended to *)
  p_lookup_key : list string;        (* names making up the key expression compared at lookup *)
  p_store_key : list string;         (* names making up the key expression stored *)
  p_result_deps : list string;       (* pre-phase names (other than self) the stored result depends on *)
  p_cmp_eq : bool;                   (* the lookup test is  <entry key> == <key expression> *)
  p_returns_entry_value : bool;      (* a hit returns the value component of the matching entry *)
  p_stores_result : bool;            (* the appended pair is (key expression, result) and `result` is what is returned *)
  p_key_stable : bool;               (* no name of the key expression is re-bound between lookup and store *)
  p_shortcuts_first : bool;          (* every `return self` / raise of the pre-phase precedes the lookup *)
  p_guarded_alike : bool             (* lookup and store are both guarded by `self._cache is not None` *)
}.

Fixpoint str_mem (s : string) (l : list string) : bool :=
  match l with [] => false | x :: r => String.eqb s x || str_mem s r end.

Fixpoint strs_eqb (a b : list string) : bool :=
  match a, b with
  | [], [] => true
  | x :: r, y :: q => String.eqb x y && strs_eqb r q
  | _, _ => false
  end.

(* the static conditions under which the protocol is a transparent memo *)
Definition proto_ok (p : proto) : bool :=
  String.eqb (p_slot_lookup p) (p_slot_store p)
  && strs_eqb (p_lookup_key p) (p_store_key p)
  && forallb (fun v => str_mem v (p_lookup_key p)) (p_result_deps p)   (* key determines result *)
  && p_cmp_eq p && p_returns_entry_value p && p_stores_result p
  && p_key_stable p && p_shortcuts_first p && p_guarded_alike p.

(* the attribute memo of tocsr / tocsc *)
Record attr_proto := {
  a_memo_attr : string;              (* attribute returned when present and assigned on a miss *)
  a_alt_attr : string;               (* the other format's attribute, converted when present *)
  a_same_compute : bool;             (* cached and uncached branch evaluate the same expression *)
  a_guard_first : bool               (* check_zero_fill_value(self) precedes everything *)
}.

Definition attr_proto_ok (p q : attr_proto) : bool :=
  String.eqb (a_memo_attr p) (a_alt_attr q) && String.eqb (a_memo_attr q) (a_alt_attr p)
  && negb (String.eqb (a_memo_attr p) (a_memo_attr q))
  && a_same_compute p && a_same_compute q && a_guard_first p && a_guard_first q.

(* the protocols as the source has them now (Gen/S_cache.v) *)
Definition transpose_proto : proto := {|
  p_slot_lookup := transpose_slot_lookup; p_slot_store := transpose_slot_store;
  p_lookup_key := transpose_lookup_key; p_store_key := transpose_store_key;
  p_result_deps := transpose_result_deps; p_cmp_eq := transpose_cmp_eq;
  p_returns_entry_value := transpose_returns_entry_value; p_stores_result := transpose_stores_result;
  p_key_stable := transpose_key_stable; p_shortcuts_first := transpose_shortcuts_first;
  p_guarded_alike := transpose_guarded_alike |}.

Definition reshape_proto : proto := {|
  p_slot_lookup := reshape_slot_lookup; p_slot_store := reshape_slot_store;
  p_lookup_key := reshape_lookup_key; p_store_key := reshape_store_key;
  p_result_deps := reshape_result_deps; p_cmp_eq := reshape_cmp_eq;
  p_returns_entry_value := reshape_returns_entry_value; p_stores_result := reshape_stores_result;
  p_key_stable := reshape_key_stable; p_shortcuts_first := reshape_shortcuts_first;
  p_guarded_alike := reshape_guarded_alike |}.

Definition tocsr_proto : attr_proto := {|
  a_memo_attr := tocsr_memo_attr; a_alt_attr := tocsr_alt_attr;
  a_same_compute := tocsr_same_compute; a_guard_first := tocsr_guard_first |}.

Definition tocsc_proto : attr_proto := {|
  a_memo_attr := tocsc_memo_attr; a_alt_attr := tocsc_alt_attr;
  a_same_compute := tocsc_same_compute; a_guard_first := tocsc_guard_first |}.

(* deque(maxlen=cache_maxlen); a negative maxlen is a ValueError in Python and maps to 0 here *)
Definition cache_cap : nat := Z.to_nat cache_maxlen.

(* environments of named locals; a key is the list of the values of the key names *)
Section Env.
  Variable W : Type.
  Definition env := string -> W.
  Definition key_of (names : list string) (e : env) : list W := map e names.
  Variable weqb : W -> W -> bool.
  Fixpoint keys_eqb (a b : list W) : bool :=
    match a, b with
    | [], [] => true
    | x :: r, y :: q => weqb x y && keys_eqb r q
    | _, _ => false
    end.
End Env.
Arguments key_of {W} names e.
Arguments keys_eqb {W} weqb a b.

(* ------------------------------------------------------------------ the family of objects *)
Record cache (KT KR : Type) := {
  c_tr : list (KT * nat);      (* self._cache["transpose"] : (key, object id) *)
  c_rs : list (KR * nat);      (* self._cache["reshape"] *)
  c_csr : option nat;          (* self._csr *)
  c_csc : option nat           (* self._csc *)
}.
Arguments c_tr {KT KR} c.
Arguments c_rs {KT KR} c.
Arguments c_csr {KT KR} c.
Arguments c_csc {KT KR} c.
Arguments Build_cache {KT KR}.

Inductive target := TRoot | TOut (i : nat).    (* the root, or what the i-th call returned *)

Inductive out := ORaise (e : exc) | OObj (id : nat) | OSkip.   (* OSkip: the target call had raised *)

Section Family.
  Variable V : Type.                       (* observable value of an object (array or matrix) *)
  Variables (AT AR ET ER KT KR : Type).
  Variables (kt_eqb : KT -> KT -> bool) (kr_eqb : KR -> KR -> bool).
  Variable cap : nat.
  (* COO.transpose *)
  Variable pre_t : V -> AT -> pre ET.
  Variables (lkey_t skey_t : ET -> KT).
  Variable comp_t : V -> ET -> V.
  (* COO.reshape *)
  Variable pre_r : V -> AR -> pre ER.
  Variables (lkey_r skey_r : ER -> KR).
  Variable comp_r : V -> ER -> V.
  (* tocsr / tocsc *)
  Variable guard_m : V -> option exc.      (* check_zero_fill_value(self) *)
  Variable mk_csr : V -> res V.            (* self._tocsr() *)
  Variables (csr2csc csc2csr : V -> V).    (* scipy's .tocsc() / .tocsr() *)

  Inductive op := OpT (a : AT) | OpR (a : AR) | OpCsr | OpCsc.

  Definition cache_t := cache KT KR.
  Definition empty_cache : cache_t := Build_cache [] [] None None.

  Record st := {
    vals : list V;                (* object id -> value; append-only *)
    caches : nat -> cache_t;      (* object id -> its memo state *)
    outs : list out               (* what each call so far returned *)
  }.

  Definition init (v0 : V) : st := {| vals := [v0]; caches := fun _ => empty_cache; outs := [] |}.

  Definition set_cache (cs : nat -> cache_t) (t : nat) (c : cache_t) : nat -> cache_t :=
    fun i => if Nat.eqb i t then c else cs i.

  Definition resolve (s : st) (tg : target) : option nat :=
    match tg with
    | TRoot => Some 0%nat
    | TOut i => match nth_error (outs s) i with Some (OObj id) => Some id | _ => None end
    end.

  (* allocate a new object *)
  Definition alloc (s : st) (v : V) : nat * list V := (List.length (vals s), vals s ++ [v]).

  Definition finish (s : st) (vs : list V) (cs : nat -> cache_t) (o : out) : st :=
    {| vals := vs; caches := cs; outs := outs s ++ [o] |}.

  (* self.tocsr() on object t with value v, in caching mode; returns (result, vals, caches) *)
  Definition csr_cached (s : st) (t : nat) (v : V) : out * list V * (nat -> cache_t) :=
    let c := caches s t in
    match c_csr c with
    | Some id => (OObj id, vals s, caches s)                             (* return self._csr *)
    | None =>
      match c_csc c with
      | Some idc =>                                                     (* self._csr = self._csc.tocsr() *)
        match nth_error (vals s) idc with
        | Some m => let '(id, vs) := alloc s (csc2csr m) in
                    (OObj id, vs, set_cache (caches s) t (Build_cache (c_tr c) (c_rs c) (Some id) (c_csc c)))
        | None => (ORaise OtherError, vals s, caches s)
        end
      | None =>
        match mk_csr v with                                             (* self._csr = csr = self._tocsr() *)
        | Raise e => (ORaise e, vals s, caches s)
        | Ok m => let '(id, vs) := alloc s m in
                  (OObj id, vs, set_cache (caches s) t (Build_cache (c_tr c) (c_rs c) (Some id) (c_csc c)))
        end
      end
    end.

  Definition step (mode : bool) (s : st) (tg : target) (o : op) : st :=
    match resolve s tg with
    | None => finish s (vals s) (caches s) OSkip
    | Some t =>
      match nth_error (vals s) t with
      | None => finish s (vals s) (caches s) OSkip
      | Some v =>
        let c := caches s t in
        match o with
        | OpT a =>
          match pre_t v a with
          | PRaise e => finish s (vals s) (caches s) (ORaise e)
          | PSelf => finish s (vals s) (caches s) (OObj t)
          | PGo env =>
            if mode then
              match dq_lookup kt_eqb (c_tr c) (lkey_t env) with
              | Some id => finish s (vals s) (caches s) (OObj id)
              | None =>
                let '(id, vs) := alloc s (comp_t v env) in
                finish s vs (set_cache (caches s) t
                               (Build_cache (dq_append cap (c_tr c) (skey_t env, id)) (c_rs c) (c_csr c) (c_csc c)))
                       (OObj id)
              end
            else let '(id, vs) := alloc s (comp_t v env) in finish s vs (caches s) (OObj id)
          end
        | OpR a =>
          match pre_r v a with
          | PRaise e => finish s (vals s) (caches s) (ORaise e)
          | PSelf => finish s (vals s) (caches s) (OObj t)
          | PGo env =>
            if mode then
              match dq_lookup kr_eqb (c_rs c) (lkey_r env) with
              | Some id => finish s (vals s) (caches s) (OObj id)
              | None =>
                let '(id, vs) := alloc s (comp_r v env) in
                finish s vs (set_cache (caches s) t
                               (Build_cache (c_tr c) (dq_append cap (c_rs c) (skey_r env, id)) (c_csr c) (c_csc c)))
                       (OObj id)
              end
            else let '(id, vs) := alloc s (comp_r v env) in finish s vs (caches s) (OObj id)
          end
        | OpCsr =>
          match guard_m v with
          | Some e => finish s (vals s) (caches s) (ORaise e)
          | None =>
            if mode then let '(r, vs, cs) := csr_cached s t v in finish s vs cs r
            else match mk_csr v with
                 | Raise e => finish s (vals s) (caches s) (ORaise e)
                 | Ok m => let '(id, vs) := alloc s m in finish s vs (caches s) (OObj id)
                 end
          end
        | OpCsc =>
          match guard_m v with
          | Some e => finish s (vals s) (caches s) (ORaise e)
          | None =>
            if mode then
              match c_csc c with
              | Some id => finish s (vals s) (caches s) (OObj id)          (* return self._csc *)
              | None =>
                match c_csr c with
                | Some idr =>                                             (* self._csc = self._csr.tocsc() *)
                  match nth_error (vals s) idr with
                  | Some m => let '(id, vs) := alloc s (csr2csc m) in
                              finish s vs (set_cache (caches s) t (Build_cache (c_tr c) (c_rs c) (c_csr c) (Some id)))
                                     (OObj id)
                  | None => finish s (vals s) (caches s) (ORaise OtherError)
                  end
                | None =>                                                 (* self._csc = csc = self.tocsr().tocsc() *)
                  let '(r, vs, cs) := csr_cached s t v in
                  match r with
                  | OObj idr =>
                    match nth_error vs idr with
                    | Some m =>
                      let id := List.length vs in
                      let c1 := cs t in
                      finish s (vs ++ [csr2csc m])
                             (set_cache cs t (Build_cache (c_tr c1) (c_rs c1) (c_csr c1) (Some id))) (OObj id)
                    | None => finish s vs cs (ORaise OtherError)
                    end
                  | _ => finish s vs cs r
                  end
                end
              end
            else match mk_csr v with                                      (* csc = self.tocsr().tocsc() *)
                 | Raise e => finish s (vals s) (caches s) (ORaise e)
                 | Ok m => let '(id, vs) := alloc s (csr2csc m) in finish s vs (caches s) (OObj id)
                 end
          end
        end
      end
    end.

  Fixpoint run (mode : bool) (h : list (target * op)) (s : st) : st :=
    match h with
    | [] => s
    | (tg, o) :: r => run mode r (step mode s tg o)
    end.

  (* what an observer sees of a call: the exception, or the value of the returned object *)
  Inductive vout := VRaise (e : exc) | VVal (v : V) | VSkip | VBad.

  Definition out_val (vs : list V) (o : out) : vout :=
    match o with
    | ORaise e => VRaise e
    | OSkip => VSkip
    | OObj id => match nth_error vs id with Some v => VVal v | None => VBad end
    end.

  Definition out_vals (s : st) : list vout := map (out_val (vals s)) (outs s).
End Family.

Arguments OpT {AT AR} a.
Arguments OpR {AT AR} a.
Arguments OpCsr {AT AR}.
Arguments OpCsc {AT AR}.
Arguments vals {V KT KR} s.
Arguments caches {V KT KR} s.
Arguments outs {V KT KR} s.
Arguments VRaise {V} e.
Arguments VVal {V} v.
Arguments VSkip {V}.
Arguments VBad {V}.

(* ------------------------------------------------------------------ COO: the family model instantiated
   with the generated protocols.  W is the type of the values of local names (axes, shape: tuples of
   ints); the result computations are arbitrary functions of the receiver's value and of the values of
   the names the extractor found the result to depend on. *)
Section COO.
  Variables (V W AT AR : Type).
  Variable weqb : W -> W -> bool.
  Variable cap : nat.
  Variable pre_t : V -> AT -> pre (env W).
  Variable g_t : V -> list W -> V.
  Variable pre_r : V -> AR -> pre (env W).
  Variable g_r : V -> list W -> V.
  Variable guard_m : V -> option exc.
  Variable mk_csr : V -> res V.
  Variables (csr2csc csc2csr : V -> V).

  Definition coo_run : bool -> list (target * op AT AR) -> st V (list W) (list W) -> st V (list W) (list W) :=
    run V AT AR (env W) (env W) (list W) (list W) (keys_eqb weqb) (keys_eqb weqb) cap
        pre_t (key_of (p_lookup_key transpose_proto)) (key_of (p_store_key transpose_proto))
        (fun v e => g_t v (key_of (p_result_deps transpose_proto) e))
        pre_r (key_of (p_lookup_key reshape_proto)) (key_of (p_store_key reshape_proto))
        (fun v e => g_r v (key_of (p_result_deps reshape_proto) e))
        guard_m mk_csr csr2csc csc2csr.
End COO.
