(* Model/Cache.v — the per-array memo of sparse.COO as the code implements it
   (sparse/numba_backend/_coo/core.py: enable_caching, transpose, reshape, tocsr, tocsc).

   self._cache = defaultdict(lambda: deque(maxlen=N))      one deque per operation name
   lookup:   for k, value in tuple(self._cache[name]): if k == key: return value
             (a snapshot of the deque, or the deque itself: same entries, oldest first; first match wins)
   store:    self._cache[name].append((key, result))      drops the oldest entry beyond maxlen
   identity short-cuts and argument errors happen BEFORE the lookup;
   tocsr/tocsc memoise in the attributes _csr/_csc.

   Two models:
   * [memo_*]: one deque in isolation (the statement of DESIGN §4: run_cached f ops vs run_uncached f ops);
   * [run]: the whole family of objects derived from one root array.  Every result of a
     cache-enabled array is itself cache-enabled (cache=self._cache is not None) and carries its
     own deques, and a cache hit returns the *identical* object, whose own cache persists.  So the
     state is an append-only heap of objects; a history is a list of (target, operation) where the
     target is the root or the object returned by an earlier call.  Object ids make the model
     predict which calls return the identical object (observable with `is`).

   The shape of the protocol (maxlen, key expressions, what is stored, how keys are compared) is
   NOT written here: it is the record [proto], whose values are regenerated from the Python AST
   by tools/sitegen/alias.py into Gen/S_cache.v on every run.  No proofs in this file. *)
From Coq Require Import ZArith List Bool String.
From Verif Require Import Py S_cache.
Import ListNotations.

(* ------------------------------------------------------------------ the deque *)
Section Deque.
  Context {K V : Type}.
  Variable keqb : K -> K -> bool.

  (* oldest entry first = iteration order of collections.deque *)
  Definition deque := list (K * V).

  (* for k', value in d: if k' == k: return value *)
  Fixpoint dq_lookup (d : deque) (k : K) : option V :=
    match d with
    | [] => None
    | (k', v) :: r => if keqb k' k then Some v else dq_lookup r k
    end.

  (* deque(maxlen=cap).append(e): append on the right, drop from the left beyond cap
     (maxlen=0 keeps nothing) *)
  Definition dq_append (cap : nat) (d : deque) (e : K * V) : deque :=
    let d' := d ++ [e] in skipn (List.length d' - cap) d'.
End Deque.

(* result of the part of a method that runs before the cache is consulted *)
Inductive pre (E : Type) :=
| PRaise (e : exc)         (* argument error *)
| PSelf                    (* identity short-cut: `return self` *)
| PGo (env : E).           (* normalised locals with which lookup / compute / store run *)
Arguments PRaise {E} e.
Arguments PSelf {E}.
Arguments PGo {E} env.

(* ------------------------------------------------------------------ one memo in isolation *)
Section Memo.
  Variables (A E K V : Type).
  Variable keqb : K -> K -> bool.
  Variable cap : nat.
  Variable m_pre : A -> pre E.
  Variables (lkey skey : E -> K).   (* key expression at the lookup / at the store *)
  Variable f : E -> V.              (* the computation being memoised *)

  Inductive mout := MRaise (e : exc) | MSelf | MVal (v : V).

  Definition memo_call_cached (d : deque) (a : A) : mout * deque :=
    match m_pre a with
    | PRaise e => (MRaise e, d)
    | PSelf => (MSelf, d)
    | PGo env =>
      match dq_lookup keqb d (lkey env) with
      | Some v => (MVal v, d)
      | None => let v := f env in (MVal v, dq_append cap d (skey env, v))
      end
    end.

  Definition memo_call_uncached (a : A) : mout :=
    match m_pre a with
    | PRaise e => MRaise e
    | PSelf => MSelf
    | PGo env => MVal (f env)
    end.

  Fixpoint memo_run_cached (d : deque) (ops : list A) : list mout * deque :=
    match ops with
    | [] => ([], d)
    | a :: r => let '(o, d1) := memo_call_cached d a in
                let '(os, d2) := memo_run_cached d1 r in (o :: os, d2)
    end.

  Definition memo_run_uncached (ops : list A) : list mout := map memo_call_uncached ops.
End Memo.
Arguments MRaise {V} e.
Arguments MSelf {V}.
Arguments MVal {V} v.

(* ------------------------------------------------------------------ the protocol shape (generated) *)
(* What tools/sitegen/alias.py reads off the AST of one memoised method.  Variables are the
   method's local names after the pre-phase. *)
Record proto := {
  p_slot_lookup : string;            (* self._cache[<this>] iterated by the lookup loop *)
  p_slot_store : string;             (* self._cache[<this>] appended to *)
  p_lookup_key : list string;        (* names making up the key expression compared at lookup *)
  p_store_key : list string;         (* names making up the key expression stored *)
  p_result_deps : list string;       (* pre-phase names (other than self) the stored result depends on *)
  p_cmp_eq : bool;                   (* the lookup test is  <entry key> == <key expression> *)
  p_returns_entry_value : bool;      (* a hit returns the value component of the matching entry *)
  p_stores_result : bool;            (* the appended pair is (key expression, result) and `result` is what is returned *)
  p_key_stable : bool;               (* no name of the key expression is re-bound between lookup and store *)
  p_shortcuts_first : bool;          (* every `return self` / raise of the pre-phase precedes the lookup *)
  p_guarded_alike : bool             (* lookup and store are both guarded by `self._cache is not None` *)
}.

Fixpoint str_mem (s : string) (l : list string) : bool :=
  match l with [] => false | x :: r => String.eqb s x || str_mem s r end.

Fixpoint strs_eqb (a b : list string) : bool :=
  match a, b with
  | [], [] => true
  | x :: r, y :: q => String.eqb x y && strs_eqb r q
  | _, _ => false
  end.

(* the static conditions under which the protocol is a transparent memo *)
Definition proto_ok (p : proto) : bool :=
  String.eqb (p_slot_lookup p) (p_slot_store p)
  && strs_eqb (p_lookup_key p) (p_store_key p)
  && forallb (fun v => str_mem v (p_lookup_key p)) (p_result_deps p)   (* key determines result *)
  && p_cmp_eq p && p_returns_entry_value p && p_stores_result p
  && p_key_stable p && p_shortcuts_first p && p_guarded_alike p.

(* the attribute memo of tocsr / tocsc *)
Record attr_proto := {
  a_memo_attr : string;              (* attribute returned when present and assigned on a miss *)
  a_alt_attr : string;               (* the other format's attribute, converted when present *)
  a_same_compute : bool;             (* cached and uncached branch evaluate the same expression *)
  a_guard_first : bool               (* check_zero_fill_value(self) precedes everything *)
}.

Definition attr_proto_ok (p q : attr_proto) : bool :=
  String.eqb (a_memo_attr p) (a_alt_attr q) && String.eqb (a_memo_attr q) (a_alt_attr p)
  && negb (String.eqb (a_memo_attr p) (a_memo_attr q))
  && a_same_compute p && a_same_compute q && a_guard_first p && a_guard_first q.

(* the protocols as the source has them now (Gen/S_cache.v) *)
Definition transpose_proto : proto := {|
  p_slot_lookup := transpose_slot_lookup; p_slot_store := transpose_slot_store;
  p_lookup_key := transpose_lookup_key; p_store_key := transpose_store_key;
  p_result_deps := transpose_result_deps; p_cmp_eq := transpose_cmp_eq;
  p_returns_entry_value := transpose_returns_entry_value; p_stores_result := transpose_stores_result;
  p_key_stable := transpose_key_stable; p_shortcuts_first := transpose_shortcuts_first;
  p_guarded_alike := transpose_guarded_alike |}.

Definition reshape_proto : proto := {|
  p_slot_lookup := reshape_slot_lookup; p_slot_store := reshape_slot_store;
  p_lookup_key := reshape_lookup_key; p_store_key := reshape_store_key;
  p_result_deps := reshape_result_deps; p_cmp_eq := reshape_cmp_eq;
  p_returns_entry_value := reshape_returns_entry_value; p_stores_result := reshape_stores_result;
  p_key_stable := reshape_key_stable; p_shortcuts_first := reshape_shortcuts_first;
  p_guarded_alike := reshape_guarded_alike |}.

Definition tocsr_proto : attr_proto := {|
  a_memo_attr := tocsr_memo_attr; a_alt_attr := tocsr_alt_attr;
  a_same_compute := tocsr_same_compute; a_guard_first := tocsr_guard_first |}.

Definition tocsc_proto : attr_proto := {|
  a_memo_attr := tocsc_memo_attr; a_alt_attr := tocsc_alt_attr;
  a_same_compute := tocsc_same_compute; a_guard_first := tocsc_guard_first |}.

(* deque(maxlen=cache_maxlen); a negative maxlen is a ValueError in Python and maps to 0 here *)
Definition cache_cap : nat := Z.to_nat cache_maxlen.

(* the copy constructor COO(other[, fill_value=v]) as the source has it now *)
Record copy_site := {
  cs_shallow : bool;        (* starts with self._make_shallow_copy_of(other): _cache, _csr, _csc are inherited *)
  cs_returns : bool;        (* the branch ends with `return` *)
  cs_sets_fill : bool;      (* the fill branch re-binds self.fill_value *)
  cs_fill_resets : bool;    (* ... and calls self.enable_caching() when a cache exists: a fresh, empty cache *)
  cs_plain_resets : bool    (* the copy without fill_value gets a fresh cache too (otherwise it shares other's) *)
}.
Definition coo_copy_site : copy_site := {|
  cs_shallow := copy_branch_shallow_copy; cs_returns := copy_branch_returns;
  cs_sets_fill := copy_fill_sets_fill_value; cs_fill_resets := copy_fill_resets_cache;
  cs_plain_resets := copy_plain_resets_cache |}.
(* what transparency needs of it: a copy whose value differs never shares the memo *)
Definition copy_site_ok (c : copy_site) : bool :=
  cs_shallow c && cs_returns c && cs_sets_fill c && cs_fill_resets c.

(* environments of named locals; a key is the list of the values of the key names *)
Section Env.
  Variable W : Type.
  Definition env := string -> W.
  Definition key_of (names : list string) (e : env) : list W := map e names.
  Variable weqb : W -> W -> bool.
  Fixpoint keys_eqb (a b : list W) : bool :=
    match a, b with
    | [], [] => true
    | x :: r, y :: q => weqb x y && keys_eqb r q
    | _, _ => false
    end.
End Env.
Arguments key_of {W} names e.
Arguments keys_eqb {W} weqb a b.

(* ------------------------------------------------------------------ the family of objects *)
(* The memo state is split the way Python shares it:
   - whether an object caches at all (`_cache is not None`) is a property of the OBJECT: results of
     transpose/reshape inherit it (cache=self._cache is not None), the copy constructor inherits it
     (shallow copy of __dict__), but x.copy() and x.copy(deep=False) go through __getstate__/__setstate__,
     which sets `_cache = None`: such a copy (and everything derived from it) does not cache;
   - the defaultdict `_cache` is an object of its own (a CELL); COO(x) copies x.__dict__, so the copy
     refers to the SAME cell as x (both see and feed the same deques); COO(x, fill_value=v) calls
     enable_caching() again and gets a fresh cell (generated copy site);
   - `_csr` / `_csc` are plain attributes: a copy made by the constructor inherits their current
     bindings, later assignments are private. *)
Record dq (KT KR : Type) := {
  d_tr : list (KT * nat);      (* self._cache["transpose"] : (key, object id), oldest first *)
  d_rs : list (KR * nat)       (* self._cache["reshape"] *)
}.
Arguments d_tr {KT KR} d.
Arguments d_rs {KT KR} d.
Arguments Build_dq {KT KR}.

Record attrs := {
  a_csr : option nat;          (* self._csr *)
  a_csc : option nat           (* self._csc *)
}.
Definition no_attrs : attrs := {| a_csr := None; a_csc := None |}.

Inductive target := TRoot | TOut (i : nat).    (* the root, or what the i-th call returned *)

Inductive out := ORaise (e : exc) | OObj (id : nat) | OSkip.   (* OSkip: the target call had raised *)

Definition updn {A} (f : nat -> A) (i : nat) (a : A) : nat -> A :=
  fun j => if Nat.eqb j i then a else f j.

Section Family.
  Variable V : Type.                       (* observable value of an object (array or matrix) *)
  Variables (AT AR ET ER KT KR F : Type).
  Variables (kt_eqb : KT -> KT -> bool) (kr_eqb : KR -> KR -> bool).
  Variable cap : nat.
  Variable site : copy_site.
  (* COO.transpose *)
  Variable pre_t : V -> AT -> pre ET.
  Variables (lkey_t skey_t : ET -> KT).
  Variable comp_t : V -> ET -> V.
  (* COO.reshape *)
  Variable pre_r : V -> AR -> pre ER.
  Variables (lkey_r skey_r : ER -> KR).
  Variable comp_r : V -> ER -> V.
  (* tocsr / tocsc *)
  Variable guard_m : V -> option exc.      (* check_zero_fill_value(self) *)
  Variable mk_csr : V -> res V.            (* self._tocsr() *)
  Variables (csr2csc csc2csr : V -> V).    (* scipy's .tocsc() / .tocsr() *)
  (* COO(x, fill_value=f) *)
  Variable refill : V -> F -> V.

  Inductive op :=
  | OpT (a : AT) | OpR (a : AR) | OpCsr | OpCsc
  | OpCopy (f : option F)     (* COO(t) / COO(t, fill_value=f) *)
  | OpPickle                  (* t.copy(), t.copy(deep=False): via __setstate__, the copy does not cache *)
  | OpSame.                   (* t.astype(t.dtype, copy=False), t.asformat("coo"): `return self` *)

  Definition dq_t := dq KT KR.
  Definition empty_dq : dq_t := Build_dq [] [].

  Record st := {
    vals : list V;                (* object id -> value; append-only *)
    flag : nat -> bool;           (* object id -> `_cache is not None` *)
    cell : nat -> nat;            (* object id -> the cell its _cache attribute refers to *)
    ncell : nat;                  (* cells allocated so far *)
    deqs : nat -> dq_t;           (* cell -> its deques *)
    attr : nat -> attrs;          (* object id -> _csr/_csc *)
    outs : list out               (* what each call so far returned *)
  }.

  (* the root array, cache-enabled or not *)
  Definition init (b : bool) (v0 : V) : st :=
    {| vals := [v0]; flag := fun _ => b; cell := fun _ => 0%nat; ncell := 1; deqs := fun _ => empty_dq;
       attr := fun _ => no_attrs; outs := [] |}.

  Definition resolve (s : st) (tg : target) : option nat :=
    match tg with
    | TRoot => Some 0%nat
    | TOut i => match nth_error (outs s) i with Some (OObj id) => Some id | _ => None end
    end.

  (* ---- state transformers *)
  (* a new object with value v, caching or not, its own empty cell, attributes a *)
  Definition new_fresh (s : st) (v : V) (b : bool) (a : attrs) : st * nat :=
    let id := List.length (vals s) in
    ({| vals := vals s ++ [v]; flag := updn (flag s) id b; cell := updn (cell s) id (ncell s); ncell := S (ncell s);
        deqs := updn (deqs s) (ncell s) empty_dq; attr := updn (attr s) id a; outs := outs s |}, id).

  (* a new caching object with value v that refers to the existing cell c, attributes a *)
  Definition new_shared (s : st) (v : V) (c : nat) (a : attrs) : st * nat :=
    let id := List.length (vals s) in
    ({| vals := vals s ++ [v]; flag := updn (flag s) id true; cell := updn (cell s) id c; ncell := ncell s;
        deqs := deqs s; attr := updn (attr s) id a; outs := outs s |}, id).

  Definition set_deq (s : st) (c : nat) (d : dq_t) : st :=
    {| vals := vals s; flag := flag s; cell := cell s; ncell := ncell s; deqs := updn (deqs s) c d;
       attr := attr s; outs := outs s |}.

  Definition set_attr (s : st) (t : nat) (a : attrs) : st :=
    {| vals := vals s; flag := flag s; cell := cell s; ncell := ncell s; deqs := deqs s;
       attr := updn (attr s) t a; outs := outs s |}.

  Definition emit (s : st) (o : out) : st :=
    {| vals := vals s; flag := flag s; cell := cell s; ncell := ncell s; deqs := deqs s; attr := attr s;
       outs := outs s ++ [o] |}.

  (* self.tocsr() on a caching object t with value v *)
  Definition csr_cached (s : st) (t : nat) (v : V) : out * st :=
    let a := attr s t in
    match a_csr a with
    | Some id => (OObj id, s)                                           (* return self._csr *)
    | None =>
      match a_csc a with
      | Some idc =>                                                     (* self._csr = self._csc.tocsr() *)
        match nth_error (vals s) idc with
        | Some m => let '(s1, id) := new_fresh s (csc2csr m) false no_attrs in
                    (OObj id, set_attr s1 t {| a_csr := Some id; a_csc := a_csc a |})
        | None => (ORaise OtherError, s)
        end
      | None =>
        match mk_csr v with                                             (* self._csr = csr = self._tocsr() *)
        | Raise e => (ORaise e, s)
        | Ok m => let '(s1, id) := new_fresh s m false no_attrs in
                  (OObj id, set_attr s1 t {| a_csr := Some id; a_csc := a_csc a |})
        end
      end
    end.

  Definition step (s : st) (tg : target) (o : op) : st :=
    match resolve s tg with
    | None => emit s OSkip
    | Some t =>
      match nth_error (vals s) t with
      | None => emit s OSkip
      | Some v =>
        let caching := flag s t in         (* self._cache is not None *)
        let c := cell s t in
        let d := deqs s c in
        match o with
        | OpT a =>
          match pre_t v a with
          | PRaise e => emit s (ORaise e)
          | PSelf => emit s (OObj t)
          | PGo env =>
            if caching then
              match dq_lookup kt_eqb (d_tr d) (lkey_t env) with
              | Some id => emit s (OObj id)
              | None =>
                let '(s1, id) := new_fresh s (comp_t v env) true no_attrs in
                emit (set_deq s1 c (Build_dq (dq_append cap (d_tr d) (skey_t env, id)) (d_rs d))) (OObj id)
              end
            else let '(s1, id) := new_fresh s (comp_t v env) false no_attrs in emit s1 (OObj id)
          end
        | OpR a =>
          match pre_r v a with
          | PRaise e => emit s (ORaise e)
          | PSelf => emit s (OObj t)
          | PGo env =>
            if caching then
              match dq_lookup kr_eqb (d_rs d) (lkey_r env) with
              | Some id => emit s (OObj id)
              | None =>
                let '(s1, id) := new_fresh s (comp_r v env) true no_attrs in
                emit (set_deq s1 c (Build_dq (d_tr d) (dq_append cap (d_rs d) (skey_r env, id)))) (OObj id)
              end
            else let '(s1, id) := new_fresh s (comp_r v env) false no_attrs in emit s1 (OObj id)
          end
        | OpCsr =>
          match guard_m v with
          | Some e => emit s (ORaise e)
          | None =>
            if caching then let '(r, s1) := csr_cached s t v in emit s1 r
            else match mk_csr v with
                 | Raise e => emit s (ORaise e)
                 | Ok m => let '(s1, id) := new_fresh s m false no_attrs in emit s1 (OObj id)
                 end
          end
        | OpCsc =>
          match guard_m v with
          | Some e => emit s (ORaise e)
          | None =>
            if caching then
              match a_csc (attr s t) with
              | Some id => emit s (OObj id)                                (* return self._csc *)
              | None =>
                match a_csr (attr s t) with
                | Some idr =>                                             (* self._csc = self._csr.tocsc() *)
                  match nth_error (vals s) idr with
                  | Some m => let '(s1, id) := new_fresh s (csr2csc m) false no_attrs in
                              emit (set_attr s1 t {| a_csr := Some idr; a_csc := Some id |}) (OObj id)
                  | None => emit s (ORaise OtherError)
                  end
                | None =>                                                 (* self._csc = csc = self.tocsr().tocsc() *)
                  let '(r, s1) := csr_cached s t v in
                  match r with
                  | OObj idr =>
                    match nth_error (vals s1) idr with
                    | Some m => let '(s2, id) := new_fresh s1 (csr2csc m) false no_attrs in
                                emit (set_attr s2 t {| a_csr := a_csr (attr s1 t); a_csc := Some id |}) (OObj id)
                    | None => emit s1 (ORaise OtherError)
                    end
                  | _ => emit s1 r
                  end
                end
              end
            else match mk_csr v with                                      (* csc = self.tocsr().tocsc() *)
                 | Raise e => emit s (ORaise e)
                 | Ok m => let '(s1, id) := new_fresh s (csr2csc m) false no_attrs in emit s1 (OObj id)
                 end
          end
        | OpCopy f =>
          (* self._make_shallow_copy_of(other); if fill_value is not None: self.fill_value = ...;
             if self._cache is not None: self.enable_caching() *)
          let v' := match f with Some x => refill v x | None => v end in
          let fresh := match f with Some _ => cs_fill_resets site | None => cs_plain_resets site end in
          if caching then
            let '(s1, id) := if fresh then new_fresh s v' true (attr s t) else new_shared s v' c (attr s t) in
            emit s1 (OObj id)
          else let '(s1, id) := new_fresh s v' false no_attrs in emit s1 (OObj id)
        | OpPickle => let '(s1, id) := new_fresh s v false no_attrs in emit s1 (OObj id)
        | OpSame => emit s (OObj t)
        end
      end
    end.

  Fixpoint run (h : list (target * op)) (s : st) : st :=
    match h with
    | [] => s
    | (tg, o) :: r => run r (step s tg o)
    end.

  (* what an observer sees of a call: the exception, or the value of the returned object *)
  Inductive vout := VRaise (e : exc) | VVal (v : V) | VSkip | VBad.

  Definition out_val (vs : list V) (o : out) : vout :=
    match o with
    | ORaise e => VRaise e
    | OSkip => VSkip
    | OObj id => match nth_error vs id with Some v => VVal v | None => VBad end
    end.

  Definition out_vals (s : st) : list vout := map (out_val (vals s)) (outs s).
End Family.

Arguments OpT {AT AR F} a.
Arguments OpR {AT AR F} a.
Arguments OpCsr {AT AR F}.
Arguments OpCsc {AT AR F}.
Arguments OpCopy {AT AR F} f.
Arguments OpPickle {AT AR F}.
Arguments OpSame {AT AR F}.
Arguments vals {V KT KR} s.
Arguments flag {V KT KR} s.
Arguments cell {V KT KR} s.
Arguments ncell {V KT KR} s.
Arguments deqs {V KT KR} s.
Arguments attr {V KT KR} s.
Arguments outs {V KT KR} s.
Arguments VRaise {V} e.
Arguments VVal {V} v.
Arguments VSkip {V}.
Arguments VBad {V}.

(* ------------------------------------------------------------------ COO: the family model instantiated
   with the generated protocols and the generated copy-constructor site.  W is the type of the values of
   local names (axes, shape: tuples of ints); the result computations are arbitrary functions of the
   receiver's value and of the values of the names the extractor found the result to depend on. *)
Section COO.
  Variables (V W AT AR F : Type).
  Variable weqb : W -> W -> bool.
  Variable cap : nat.
  Variable pre_t : V -> AT -> pre (env W).
  Variable g_t : V -> list W -> V.
  Variable pre_r : V -> AR -> pre (env W).
  Variable g_r : V -> list W -> V.
  Variable guard_m : V -> option exc.
  Variable mk_csr : V -> res V.
  Variables (csr2csc csc2csr : V -> V).
  Variable refill : V -> F -> V.

  Definition coo_run : list (target * op AT AR F) -> st V (list W) (list W) -> st V (list W) (list W) :=
    run V AT AR (env W) (env W) (list W) (list W) F (keys_eqb weqb) (keys_eqb weqb) cap coo_copy_site
        pre_t (key_of (p_lookup_key transpose_proto)) (key_of (p_store_key transpose_proto))
        (fun v e => g_t v (key_of (p_result_deps transpose_proto) e))
        pre_r (key_of (p_lookup_key reshape_proto)) (key_of (p_store_key reshape_proto))
        (fun v e => g_r v (key_of (p_result_deps reshape_proto) e))
        guard_m mk_csr csr2csc csc2csr refill.
End COO.
