(* Model/FillRules.v — fill-value rules (property C07).  Definitions only, no proofs.

   (1) the fill guards as the code runs them: the hand-written loops around the GENERATED loop bodies
       (Gen/S_fill.v: s_check_zero_one, s_check_consistent_head/_one, s_check_fill_value);
   (2) an abstract operation semantics over the GENERATED call-site table (Gen/S_fill.v: sites): an
       execution takes one way out of the function, runs the guards that are certainly executed before
       it on the operands' fill values and, if none raises, builds the result with the fill that the
       constructor call site passes;
   (3) the REQUIRED policy of every operation (hand-written, derived from the property statement), and
       the boolean check `site_ok` that a table row has the guards / fill passing its policy needs;
   (4) the coercion, dense-mix, scalar-conversion and maybe_densify rules (thin wrappers of generated
       fragments).

   Values: a fill value is an integer token (Lib/PyFill.v); `VInt t`. *)
From Coq Require Import ZArith List Bool String.
From Verif Require Import Py PyExt PyFill S_fill.
From Verif Require Shape COO.
Import ListNotations.
Open Scope Z_scope.
Open Scope string_scope.

(* ------------------------------------------------------------------ (1) the guards *)
(* check_zero_fill_value( *args ):  for i, arg in enumerate(args): <generated body> *)
Fixpoint check_zero_fill_value (args : list pyv) : res pyv :=
  match args with
  | [] => Ok VNone
  | a :: r => _ <- s_check_zero_one a ;; check_zero_fill_value r
  end.

Fixpoint consistent_loop (fv : pyv) (args : list pyv) : res pyv :=
  match args with
  | [] => Ok VNone
  | a :: r => _ <- s_check_consistent_one fv a ;; consistent_loop fv r
  end.

(* check_consistent_fill_value(arrays): <generated head: two argument guards, fv = arrays[0].fill_value>;
   for i, arg in enumerate(arrays): <generated body> *)
Definition check_consistent_fill_value (arrays : list pyv) : res pyv :=
  h <- s_check_consistent_head (VTuple arrays) ;;
  match h with
  | VTuple [fv] => consistent_loop fv arrays
  | _ => Raise OtherError
  end.

(* check_fill_value(x, accept_fv=None) — loose comparison, default accept list [0] *)
Definition check_fill_value (x accept_fv : pyv) : res pyv := s_check_fill_value x accept_fv.

(* check_fill_value(x) with the default accept list, for every array a guard names (the code passes one) *)
Fixpoint check_fill_values (xs : list pyv) : res pyv :=
  match xs with
  | [] => Ok VNone
  | x :: r => _ <- check_fill_value x VNone ;; check_fill_values r
  end.

(* ------------------------------------------------------------------ (2) abstract operation semantics *)
(* operand environment: parameter name -> fill values of the sparse arrays it denotes (a plain array
   parameter: one; a list / starred parameter: several).  Operands that are not sparse arrays are not bound. *)
Definition env := list (string * list pyv).

Fixpoint lookup (rho : env) (n : string) : list pyv :=
  match rho with
  | [] => []
  | (k, v) :: r => if String.eqb k n then v else lookup r n
  end.

Definition guard_args (rho : env) (g : guard) : list pyv := flat_map (lookup rho) (g_args g).

Definition run_guard (rho : env) (g : guard) : res pyv :=
  match g_kind g with
  | GZero => check_zero_fill_value (guard_args rho g)
  | GConsistent => check_consistent_fill_value (guard_args rho g)
  | GAccept => check_fill_values (guard_args rho g)
  end.

Fixpoint run_guards (rho : env) (gs : list guard) : res pyv :=
  match gs with
  | [] => Ok VNone
  | g :: r => _ <- run_guard rho g ;; run_guards rho r
  end.

(* the fill value of the constructed result: `operand` is the fill of the (first) array operand,
   `other` whatever a parameter / computed expression evaluates to *)
Definition result_fill (c : ctor) (operand other : pyv) : pyv :=
  match c_fill c with
  | FAbsent => VInt 0
  | FOperand | FConvert => operand
  | FConst z => VInt z
  | FDense | FParam | FLocal => other
  end.

(* one execution: the way out `p`, the constructor site `c` that builds the result *)
Definition exec (p : path) (c : ctor) (rho : env) (operand other : pyv) : res pyv :=
  _ <- run_guards rho (p_guards p) ;; Ok (result_fill c operand other).

Definition path_returns (p : path) : bool :=
  match p_kind p with PReturn | PFall => true | PRaise | PNotImpl => false end.

(* ------------------------------------------------------------------ (3) required policies *)
Inductive policy :=
| ZeroOnly (operands : list string)        (* defined only for zero fill: must raise ValueError otherwise *)
| ZeroOnlyLoose (operands : list string)   (* the same through check_fill_value (scipy export) *)
| ZeroOnlyWhen (cond : string) (operands : list string)   (* zero-only on the paths under `cond`, Computes elsewhere *)
| Consistent (arrays : string)             (* join: all operands must have the same fill *)
| Preserves (computed_ok : list string)    (* result positions are operand positions: must pass the operand's fill;
                                              computed_ok: reviewed computed fill expressions (see comments) *)
| PreservesOrZeroOnly (operands : list string)   (* either of the two: pass the fill, or refuse non-zero fills *)
| Computes                                 (* element-wise / reduction / creation: the fill is computed *)
| NoArrayResult                            (* no sparse result (scalars, dense output, temporaries) *)
| CallerGuarded.                           (* private kernel of zero-only operations: every caller is zero-only *)

Definition required : list (string * policy) := [
  (* --- products, nonzero/argwhere, triu/tril, scipy export, one-argument where *)
  ("common.tensordot", ZeroOnly ["a"; "b"]); ("common.matmul", ZeroOnly ["a"; "b"]);
  ("common.dot", ZeroOnly ["a"; "b"]); ("common.einsum", ZeroOnly ["*operands"]);
  ("coo_common.kron", ZeroOnly ["a"; "b"]);
  ("coo_common.triu", ZeroOnly ["x"]); ("coo_common.tril", ZeroOnly ["x"]);
  ("coo_common.argwhere", ZeroOnly ["a"]); ("common.nonzero", ZeroOnly ["x"]); ("COO.nonzero", ZeroOnly ["self"]);
  ("COO.tocsr", ZeroOnly ["self"]); ("COO.tocsc", ZeroOnly ["self"]);
  ("COO.to_scipy_sparse", ZeroOnlyLoose ["self"]); ("GCXS.to_scipy_sparse", ZeroOnlyLoose ["self"]);
  ("COO.dot", ZeroOnly ["self"; "other"]); ("GCXS.dot", ZeroOnly ["self"; "other"]);
  ("COO.__matmul__", ZeroOnly ["self"; "other"]); ("COO.__rmatmul__", ZeroOnly ["other"; "self"]);
  ("GCXS.__matmul__", ZeroOnly ["self"; "other"]); ("GCXS.__rmatmul__", ZeroOnly ["other"; "self"]);
  ("coo_common.where", ZeroOnlyWhen "not (x_given or y_given)" ["condition"]);
  ("common._dot", CallerGuarded); ("common._einsum_single", CallerGuarded);
  (* --- joins *)
  ("common.concatenate", Consistent "arrays"); ("common.concat", Consistent "arrays"); ("common.stack", Consistent "arrays");
  ("coo_common.concatenate", Consistent "arrays"); ("coo_common.stack", Consistent "arrays");
  ("gcxs_common.concatenate", Consistent "arrays"); ("gcxs_common.stack", Consistent "arrays");
  (* --- indexing, shape operations, conversions: the result's unstored positions are the operand's *)
  ("common.moveaxis", Preserves []); ("common.permute_dims", Preserves []); ("common.reshape", Preserves []);
  ("common.squeeze", Preserves []); ("common.broadcast_to", Preserves []); ("common.broadcast_arrays", Preserves []);
  ("common.pad", Preserves []);       (* pad refuses constant_values <> fill (ValueError) and passes the fill *)
  ("common.asarray", Preserves []);
  ("coo_core.as_coo", Preserves ["fill_value"]);   (* fill_value is accepted only for operands without a fill (guarded by ValueError) *)
  ("coo_common.asCOO", Preserves []); ("coo_common.diagonal", Preserves []);
  (* diagonalize puts the array on the diagonal of a larger one: the property allows either to carry the fill along or
     to refuse non-zero fills; since fix 7b39a89 the code refuses (check_zero_fill_value) *)
  ("coo_common.diagonalize", PreservesOrZeroOnly ["a"]);
  ("coo_common.expand_dims", Preserves []); ("coo_common.flip", Preserves []); ("coo_common.matrix_transpose", Preserves []);
  ("coo_common.roll", Preserves []); ("coo_common.sort", Preserves []); ("coo_common.take", Preserves []);
  ("coo_common._validate_coo_input", Preserves []);
  ("umath.broadcast_to", Preserves []);
  ("COO.T", Preserves []); ("COO.mT", Preserves []); ("COO.asformat", Preserves []); ("COO.broadcast_to", Preserves []);
  ("COO.copy", Preserves []); ("COO.flatten", Preserves []); ("COO.reshape", Preserves []); ("COO.squeeze", Preserves []);
  ("COO.swapaxes", Preserves []); ("COO.transpose", Preserves []);
  (* x["field"] on a structured dtype: the fill is the field of the operand's fill (checked constant, else ValueError) *)
  ("COO.__getitem__", Preserves ["fill_value"]);
  ("GCXS.T", Preserves []); ("GCXS.mT", Preserves []); ("GCXS.__getitem__", Preserves []); ("GCXS.asformat", Preserves []);
  ("GCXS.change_compressed_axes", Preserves []); ("GCXS.copy", Preserves []); ("GCXS.flatten", Preserves []);
  ("GCXS.from_coo", Preserves []); ("GCXS.reshape", Preserves []); ("GCXS.tocoo", Preserves []); ("GCXS.todok", Preserves []);
  ("GCXS.transpose", Preserves []); ("GCXS._2d_transpose", Preserves []);
  (* round 7: GCXS / DOK squeeze and broadcast_to go through COO and back (conversions keep the fill) *)
  ("GCXS.broadcast_to", Preserves []); ("GCXS.squeeze", Preserves []);
  ("DOK.broadcast_to", Preserves []); ("DOK.squeeze", Preserves []);
  ("_Compressed2d.astype", Computes); ("gcxs_convert._resize", Preserves []);
  ("CSR.transpose", Preserves []); ("CSC.transpose", Preserves []);
  ("DOK.__getitem__", Preserves []); ("DOK._fancy_getitem", Preserves []); ("DOK.asformat", Preserves []);
  ("DOK.from_coo", Preserves []); ("DOK.reshape", Preserves []); ("DOK.to_coo", Preserves []);
  (* constructors used as conversions (the fill_value parameter, when given, is the caller's explicit choice) *)
  ("COO.__init__", Computes); ("GCXS.__init__", Computes); ("DOK.__init__", Computes); ("SparseArray.__init__", NoArrayResult);
  (* --- element-wise, reductions, creation: the fill is computed *)
  ("common.abs", Computes); ("common.all", Computes); ("common.any", Computes); ("common.astype", Computes);
  ("common.equal", Computes); ("common.imag", Computes); ("common.isinf", Computes); ("common.isnan", Computes);
  ("common.max", Computes); ("common.mean", Computes); ("common.min", Computes); ("common.prod", Computes);
  ("common.real", Computes); ("common.round", Computes); ("common.std", Computes); ("common.sum", Computes);
  ("common.var", Computes); ("common.vecdot", Computes); ("common.outer", Computes);
  ("common.empty", Computes); ("common.empty_like", Computes); ("common.eye", Computes); ("common.full", Computes);
  ("common.full_like", Computes); ("common.ones", Computes); ("common.ones_like", Computes); ("common.zeros", Computes);
  ("common.zeros_like", Computes);
  ("coo_common.argmax", Computes); ("coo_common.argmin", Computes); ("coo_common._arg_minmax_common", Computes);
  ("coo_common.clip", Computes); ("coo_common.isneginf", Computes); ("coo_common.isposinf", Computes);
  ("coo_common.nanmax", Computes); ("coo_common.nanmean", Computes); ("coo_common.nanmin", Computes);
  ("coo_common.nanprod", Computes); ("coo_common.nanreduce", Computes); ("coo_common.nansum", Computes);
  ("io.load_npz", Computes); ("umath.elemwise", Computes); ("utils.random", Computes);
  ("_Elemwise.get_result", Computes);
  ("SparseArray.all", Computes); ("SparseArray.any", Computes); ("SparseArray.astype", Computes); ("SparseArray.clip", Computes);
  ("SparseArray.conj", Computes); ("SparseArray.imag", Computes); ("SparseArray.isinf", Computes); ("SparseArray.isnan", Computes);
  ("SparseArray.max", Computes); ("SparseArray.mean", Computes); ("SparseArray.min", Computes); ("SparseArray.prod", Computes);
  ("SparseArray.real", Computes); ("SparseArray.reduce", Computes); ("SparseArray.round", Computes); ("SparseArray.std", Computes);
  ("SparseArray.sum", Computes); ("SparseArray.var", Computes);
  ("SparseArray.__array_ufunc__", Computes); ("SparseArray.__array_function__", Computes); ("SparseArray._reduce", Computes);
  ("COO._reduce_return", Computes); ("GCXS._reduce_return", Computes);
  ("COO.isinf", Computes); ("COO.isnan", Computes); ("GCXS.isinf", Computes); ("GCXS.isnan", Computes);
  ("DOK.isinf", Computes); ("DOK.isnan", Computes);
  ("COO.from_iter", Computes); ("COO.from_numpy", Computes); ("COO.from_scipy_sparse", Computes);
  ("GCXS.from_iter", Computes); ("GCXS.from_numpy", Computes); ("GCXS.from_scipy_sparse", Computes);
  ("DOK.from_numpy", Computes); ("DOK.from_scipy_sparse", Computes);
  ("CSR.from_scipy_sparse", Computes); ("CSC.from_scipy_sparse", Computes); ("_Compressed2d.from_numpy", Computes);
  (* --- no sparse result *)
  ("common.asnumpy", NoArrayResult); ("common.can_cast", NoArrayResult); ("coo_common.result_type", NoArrayResult);
  ("coo_common.unique_counts", NoArrayResult); ("coo_common.unique_values", NoArrayResult); ("io.save_npz", NoArrayResult);
  ("SparseArray.__array__", NoArrayResult); ("SparseArray.__bool__", NoArrayResult); ("SparseArray.__complex__", NoArrayResult);
  ("SparseArray.__float__", NoArrayResult); ("SparseArray.__index__", NoArrayResult); ("SparseArray.__int__", NoArrayResult);
  ("SparseArray.asformat", NoArrayResult); ("SparseArray.density", NoArrayResult); ("SparseArray.device", NoArrayResult);
  ("SparseArray.ndim", NoArrayResult); ("SparseArray.nnz", NoArrayResult); ("SparseArray.size", NoArrayResult);
  ("SparseArray.to_device", NoArrayResult); ("SparseArray.todense", NoArrayResult);
  ("COO.__len__", NoArrayResult); ("COO.dtype", NoArrayResult); ("COO.enable_caching", NoArrayResult); ("COO.format", NoArrayResult);
  ("COO.linear_loc", NoArrayResult); ("COO.maybe_densify", NoArrayResult); ("COO.nbytes", NoArrayResult); ("COO.nnz", NoArrayResult);
  ("COO.todense", NoArrayResult);
  ("GCXS.compressed_axes", NoArrayResult); ("GCXS.dtype", NoArrayResult); ("GCXS.format", NoArrayResult);
  ("GCXS.maybe_densify", NoArrayResult); ("GCXS.nbytes", NoArrayResult); ("GCXS.nnz", NoArrayResult); ("GCXS.todense", NoArrayResult);
  ("DOK.__setitem__", NoArrayResult); ("DOK.format", NoArrayResult); ("DOK.nbytes", NoArrayResult); ("DOK.nnz", NoArrayResult);
  ("DOK.todense", NoArrayResult);
  (* temporaries of the element-wise machinery (never returned) *)
  ("_Elemwise.__init__", NoArrayResult); ("_Elemwise._get_func_coords_data", NoArrayResult); ("_Elemwise._match_coo", NoArrayResult)
].

Fixpoint policy_of_in (l : list (string * policy)) (op : string) : option policy :=
  match l with
  | [] => None
  | (k, p) :: r => if String.eqb k op then Some p else policy_of_in r op
  end.
Definition policy_of := policy_of_in required.

Definition mem (s : string) (l : list string) : bool := existsb (String.eqb s) l.

Definition kind_eqb (a b : guard_kind) : bool :=
  match a, b with GZero, GZero | GConsistent, GConsistent | GAccept, GAccept => true | _, _ => false end.

(* some guard of kind k names operand o among its arguments *)
Definition covers (k : guard_kind) (operands : list string) (gs : list guard) : bool :=
  forallb (fun o => existsb (fun g => kind_eqb (g_kind g) k && mem o (g_args g)) gs) operands.

(* a constructor fill that is right when every operand's fill is zero *)
Definition zero_ctor_ok (c : ctor) : bool :=
  match c_fill c with
  | FAbsent | FOperand | FConvert | FDense => true
  | FConst z => (z =? 0)%Z
  | FParam | FLocal => false
  end.

Definition site_ok_zero (k : guard_kind) (only_under : option string) (operands : list string) (s : site) : bool :=
  forallb (fun p => negb (path_returns p)
                    || match only_under with Some c => negb (mem c (p_conds p)) | None => false end
                    || covers k operands (p_guards p)) (s_paths s)
  && forallb zero_ctor_ok (s_ctors s).

Definition operand_ctor_ok (computed_ok : list string) (c : ctor) : bool :=
  match c_fill c with
  | FOperand | FConvert | FDense => true
  | FParam | FLocal => mem (c_src c) computed_ok
  | FAbsent | FConst _ => false
  end.

Definition site_ok_consistent (arrays : string) (s : site) : bool :=
  forallb (fun p => negb (path_returns p) || covers GConsistent [arrays] (p_guards p)) (s_paths s)
  && forallb (operand_ctor_ok []) (s_ctors s).

Definition is_nil {A} (l : list A) : bool := match l with [] => true | _ => false end.

Definition site_ok_preserves (computed_ok : list string) (s : site) : bool :=
  forallb (operand_ctor_ok computed_ok) (s_ctors s)
  && (negb (is_nil (s_ctors s)) || negb (is_nil (s_delegates s)) || s_returns_self s).

Definition zero_only_policy (p : option policy) : bool :=
  match p with
  | Some (ZeroOnly _) | Some (ZeroOnlyLoose _) | Some (ZeroOnlyWhen _ _) | Some CallerGuarded => true
  | _ => false
  end.

(* every row of `table` that calls `s` is itself zero-only *)
Definition callers_zero_only (table : list site) (s : site) : bool :=
  forallb (fun t => negb (mem (s_op s) (s_delegates t)) || zero_only_policy (policy_of (s_op t))) table.

Definition site_ok (table : list site) (pol : policy) (s : site) : bool :=
  match pol with
  | ZeroOnly ops => site_ok_zero GZero None ops s
  | ZeroOnlyLoose ops => site_ok_zero GAccept None ops s
  | ZeroOnlyWhen c ops => site_ok_zero GZero (Some c) ops s
  | Consistent a => site_ok_consistent a s
  | Preserves ok => site_ok_preserves ok s
  | PreservesOrZeroOnly ops => site_ok_preserves [] s || site_ok_zero GZero None ops s
  | Computes | NoArrayResult => true
  | CallerGuarded => callers_zero_only table s && forallb zero_ctor_ok (s_ctors s)
  end.

(* the obligation on one generated row: it has a required policy and meets it *)
Definition site_ok_req (table : list site) (s : site) : bool :=
  match policy_of (s_op s) with
  | Some pol => site_ok table pol s
  | None => false
  end.

Fixpoint find_site (table : list site) (op : string) : option site :=
  match table with
  | [] => None
  | s :: r => if String.eqb (s_op s) op then Some s else find_site r op
  end.

(* ------------------------------------------------------------------ (4) coercion / mix / scalar rules *)
(* SparseArray.__array__ under a given setting of AUTO_DENSIFY *)
Definition array_coerce (auto_densify : bool) (self : pyv) : res pyv := s_array_coerce (VBool auto_densify) self.

Inductive mix_outcome := MixSparse | MixDense | MixValueError | MixOther.
(* _Elemwise: const = "func(fill values, ndarrays) is a constant array"; shape / ndarray_shape as in _check_broadcast *)
Definition dense_mix (const : bool) (shape ndarray_shape : list Z) : mix_outcome :=
  match s_dense_mix (VBool const) (VTuple (map VInt shape)) (VTuple (map VInt ndarray_shape)) (VBool false) with
  | Ok (VTuple [VBool false]) => MixSparse
  | Ok (VTuple [VBool true]) => MixDense
  | Raise ValueError => MixValueError
  | _ => MixOther
  end.

Definition to_scalar (size : Z) (shape : list Z) : res pyv := s_to_scalar (VInt size) (VTuple (map VInt shape)).

Definition reduce_admissible (equiv_zero_reduce has_super_ufunc : bool) : res pyv :=
  s_reduce_admissible (VBool equiv_zero_reduce) (if has_super_ufunc then VInt 1 else VNone).

Definition maybe_densify_coo (size max_size : Z) (density_low : bool) : res pyv :=
  s_maybe_densify_coo (VInt size) (VInt max_size) (VBool density_low).
Definition maybe_densify_gcxs (size max_size : Z) (density_low : bool) : res pyv :=
  s_maybe_densify_gcxs (VInt size) (VInt max_size) (VBool density_low).

(* ------------------------------------------------------------------ (5) the fill correction of an additive reduction
   SparseArray.reduce with method = np.add (reduce_super_ufunc = np.multiply).  For a group with `c` stored values
   out of `n` the code computes (since fix f1f8980: only where counts != n_cols)
       data[missing] = data[missing] + fill * (n_cols - counts)[missing]
   and the result's fill (the value of a group without stored values) is  fill * n_cols,  or the ufunc identity when
   n_cols == 0 (fix d2cf53a).  NumPy's meaning is the sum of the stored values and (n - c) copies of the fill.
   Values: extended integers (the IEEE special values as far as + and * by a count are concerned; inf * 0 = nan).
   (Since fix 5ade83d the fill is first converted to the accumulation dtype, `fill_value = data.dtype.type(self.fill_value)`;
   dtypes are not modelled.)
   Tie to the source: tools/frags/fill.py (s_reduce_correction_pins) checks that the statements transcribed here are still
   present in SparseArray.reduce and emits them as Gen/S_fill.v:s_reduce_correction_pins, which the theorems
   sum_fill_correction / sum_result_fill_right mention; the `*_full` recipes of the campaign exercise them. *)
Inductive xz := Fin (z : Z) | PInf | NInf | XNaN.

Definition xadd (a b : xz) : xz :=
  match a, b with
  | XNaN, _ | _, XNaN => XNaN
  | PInf, NInf | NInf, PInf => XNaN
  | PInf, _ | _, PInf => PInf
  | NInf, _ | _, NInf => NInf
  | Fin x, Fin y => Fin (x + y)
  end.

(* fill * k for a count k >= 0 (float multiplication: inf * 0 = nan) *)
Definition xmul_count (f : xz) (k : Z) : xz :=
  match f with
  | Fin x => Fin (x * k)
  | XNaN => XNaN
  | PInf => if (k =? 0)%Z then XNaN else PInf
  | NInf => if (k =? 0)%Z then XNaN else NInf
  end.

Definition xsum (l : list xz) : xz := fold_left xadd l (Fin 0).

(* what the code computes for one group with stored values / what NumPy means *)
Definition sum_group_impl (stored : list xz) (fill : xz) (n : nat) : xz :=
  if (List.length stored =? n)%nat then xsum stored                       (* counts == n_cols: no correction *)
  else xadd (xsum stored) (xmul_count fill (Z.of_nat n - Z.of_nat (List.length stored))).
Definition sum_group_spec (stored : list xz) (fill : xz) (n : nat) : xz :=
  xsum (stored ++ repeat fill (n - List.length stored)).

(* the fill of the result = the value of a group that stores nothing *)
Definition sum_result_fill (fill : xz) (n : nat) : xz :=
  if (n =? 0)%nat then Fin 0                                              (* n_cols == 0: np.add's identity *)
  else xmul_count fill (Z.of_nat n).

(* ------------------------------------------------------------------ (6) why `Preserves` demands the operand's fill
   A position-moving operation (indexing, transpose, reshape, flip, roll, diagonal, conversion ...): position i of the
   result shows position `src i` of the operand.  The two structural facts below are the subject of C02/C05/C08/C09; given
   them, the result is right at every unstored position exactly when the constructed fill is the operand's fill. *)
Section Gather.
  Variable V : Type.
  Definition stored_right (x r : COO.coo V) (src : Shape.idx -> Shape.idx) : Prop :=
    forall i v, COO.lookup (COO.entries r) i = Some v -> COO.den x (src i) = v.
  Definition unstored_from_unstored (x r : COO.coo V) (src : Shape.idx -> Shape.idx) : Prop :=
    forall i, COO.lookup (COO.entries r) i = None -> COO.lookup (COO.entries x) (src i) = None.
End Gather.
Arguments stored_right {V}.
Arguments unstored_from_unstored {V}.

(* illustration (the `diagonal` call site as it stood before fix 7b39a89, finding D5), on a 2 x 2 operand with one
   stored element and fill 3:  COO(diag_coords, diag_data, diag_shape) — the fill defaults to 0 *)
Definition diag_operand_example : COO.coo Z := COO.mkCOO [2; 2] [[0; 0]] [4] 3.
Definition diag_result_example : COO.coo Z := COO.mkCOO [2] [[0]] [4] 0.
Definition diag_src (i : Shape.idx) : Shape.idx := match i with [k] => [k; k] | _ => [] end.

(* ------------------------------------------------------------------ (7) what discharges "right at every position or
   ValueError" for each PUBLIC operation of the generated table (hand-written; checked against the table and against the
   registry of cited theorems in Proofs/FillCitesP.v by Props/C07.v:fill_right_or_raises_cited)
     ByGuard        zero-only / join / refusing operations: guard_zero_sound, guard_consistent_sound + the row's site_ok
     ByCite thm     the den-level theorem of the property that owns the operation (result right at every position,
                    fill included, or ValueError), cited through the registry
     CampaignOnly   no theorem: the operation x fill matrix only
     NotApplicable  no sparse result (policy NoArrayResult) *)
Inductive discharge := ByGuard | ByCite (thm : string) | CampaignOnly | NotApplicable.

Definition fill_discharge : list (string * discharge) := [
  ("GCXS.broadcast_to", ByCite "C08.broadcast_to_den"); ("GCXS.squeeze", ByCite "C08.squeeze_den");
  ("DOK.broadcast_to", ByCite "C08.broadcast_to_den"); ("DOK.squeeze", ByCite "C08.squeeze_den");
  ("common.abs", ByCite "C01.elemwise_api_den"); ("common.all", ByCite "C03.reduce_den");
  ("common.any", ByCite "C03.reduce_den"); ("common.asarray", ByCite "C05.conversion_chain_den");
  ("common.asnumpy", NotApplicable); ("common.astype", ByCite "C01.elemwise_api_den");
  ("common.broadcast_arrays", ByCite "C08.broadcast_to_den"); ("common.broadcast_to", ByCite "C08.broadcast_to_den");
  ("common.can_cast", NotApplicable); ("common.concat", ByCite "C09.coo_join_mixed_fill_rejected");
  ("common.concatenate", ByCite "C09.coo_join_mixed_fill_rejected"); ("common.dot", ByGuard);
  ("common.einsum", ByGuard); ("common.empty", CampaignOnly);
  ("common.empty_like", CampaignOnly); ("common.equal", ByCite "C01.elemwise_api_den");
  ("common.eye", CampaignOnly); ("common.full", CampaignOnly);
  ("common.full_like", CampaignOnly); ("common.imag", ByCite "C01.elemwise_api_den");
  ("common.isinf", CampaignOnly); ("common.isnan", CampaignOnly);
  ("common.matmul", ByGuard); ("common.max", ByCite "C03.reduce_den");
  ("common.mean", ByCite "C03.mean_den"); ("common.min", ByCite "C03.reduce_den");
  ("common.moveaxis", ByCite "C08.moveaxis_den"); ("common.nonzero", ByGuard);
  ("common.ones", CampaignOnly); ("common.ones_like", CampaignOnly);
  ("common.outer", ByCite "C01.elemwise_api_den"); ("common.pad", ByCite "C08.pad_den");
  ("common.permute_dims", ByCite "C08.transpose_den"); ("common.prod", ByCite "C03.reduce_den");
  ("common.real", ByCite "C01.elemwise_api_den"); ("common.reshape", ByCite "C08.reshape_den");
  ("common.round", ByCite "C01.elemwise_api_den"); ("common.squeeze", ByCite "C08.squeeze_den");
  ("common.stack", ByCite "C09.coo_join_mixed_fill_rejected"); ("common.std", ByCite "C03.var_den");
  ("common.sum", ByCite "C03.reduce_den"); ("common.tensordot", ByGuard);
  ("common.var", ByCite "C03.var_den"); ("common.vecdot", ByCite "C01.elemwise_api_den");
  ("common.zeros", CampaignOnly); ("common.zeros_like", CampaignOnly);
  ("coo_core.as_coo", ByCite "C05.conversion_chain_den"); ("coo_common.argmax", CampaignOnly);
  ("coo_common.argmin", CampaignOnly); ("coo_common.argwhere", ByGuard);
  ("coo_common.asCOO", ByCite "C05.conversion_chain_den"); ("coo_common.clip", ByCite "C01.elemwise_api_den");
  ("coo_common.diagonal", ByCite "C09.diagonal_den"); ("coo_common.diagonalize", ByGuard);
  ("coo_common.expand_dims", ByCite "C08.expand_dims_den"); ("coo_common.flip", ByCite "C08.flip_den");
  ("coo_common.isneginf", ByCite "C01.elemwise_api_den"); ("coo_common.isposinf", ByCite "C01.elemwise_api_den");
  ("coo_common.kron", ByGuard); ("coo_common.matrix_transpose", ByCite "C08.mT_den");
  ("coo_common.nanmax", ByCite "C03.nanreduce_den"); ("coo_common.nanmean", CampaignOnly);
  ("coo_common.nanmin", ByCite "C03.nanreduce_den"); ("coo_common.nanprod", ByCite "C03.nanreduce_den");
  ("coo_common.nanreduce", ByCite "C03.nanreduce_den"); ("coo_common.nansum", ByCite "C03.nanreduce_den");
  ("coo_common.result_type", NotApplicable); ("coo_common.roll", ByCite "C08.roll_axes_den");
  ("coo_common.sort", CampaignOnly); ("coo_common.take", ByCite "C09.take_list_getitem");
  ("coo_common.tril", ByGuard); ("coo_common.triu", ByGuard);
  ("coo_common.unique_counts", NotApplicable); ("coo_common.unique_values", NotApplicable);
  ("coo_common.where", ByGuard); ("io.load_npz", CampaignOnly);
  ("io.save_npz", NotApplicable); ("umath.elemwise", ByCite "C01.elemwise_api_den");
  ("utils.random", CampaignOnly); ("SparseArray.__array__", NotApplicable);
  ("SparseArray.__array_function__", CampaignOnly); ("SparseArray.__array_ufunc__", ByCite "C01.elemwise_api_den");
  ("SparseArray.__bool__", NotApplicable); ("SparseArray.__complex__", NotApplicable);
  ("SparseArray.__float__", NotApplicable); ("SparseArray.__index__", NotApplicable);
  ("SparseArray.__init__", NotApplicable); ("SparseArray.__int__", NotApplicable);
  ("SparseArray.all", ByCite "C03.reduce_den"); ("SparseArray.any", ByCite "C03.reduce_den");
  ("SparseArray.asformat", NotApplicable); ("SparseArray.astype", ByCite "C01.elemwise_api_den");
  ("SparseArray.clip", ByCite "C01.elemwise_api_den"); ("SparseArray.conj", ByCite "C01.elemwise_api_den");
  ("SparseArray.density", NotApplicable); ("SparseArray.device", NotApplicable);
  ("SparseArray.imag", ByCite "C01.elemwise_api_den"); ("SparseArray.isinf", CampaignOnly);
  ("SparseArray.isnan", CampaignOnly); ("SparseArray.max", ByCite "C03.reduce_den");
  ("SparseArray.mean", ByCite "C03.mean_den"); ("SparseArray.min", ByCite "C03.reduce_den");
  ("SparseArray.ndim", NotApplicable); ("SparseArray.nnz", NotApplicable);
  ("SparseArray.prod", ByCite "C03.reduce_den"); ("SparseArray.real", ByCite "C01.elemwise_api_den");
  ("SparseArray.reduce", ByCite "C03.reduce_den"); ("SparseArray.round", ByCite "C01.elemwise_api_den");
  ("SparseArray.size", NotApplicable); ("SparseArray.std", ByCite "C03.var_den");
  ("SparseArray.sum", ByCite "C03.reduce_den"); ("SparseArray.to_device", NotApplicable);
  ("SparseArray.todense", NotApplicable); ("SparseArray.var", ByCite "C03.var_den");
  ("COO.T", ByCite "C08.T_den"); ("COO.__getitem__", ByCite "C02.coo_getitem_basic");
  ("COO.__init__", CampaignOnly); ("COO.__len__", NotApplicable);
  ("COO.__matmul__", ByGuard); ("COO.__rmatmul__", ByGuard);
  ("COO.asformat", ByCite "C05.conversion_chain_den"); ("COO.broadcast_to", ByCite "C08.broadcast_to_den");
  ("COO.copy", CampaignOnly); ("COO.dot", ByGuard);
  ("COO.dtype", NotApplicable); ("COO.enable_caching", NotApplicable);
  ("COO.flatten", ByCite "C08.flatten_den"); ("COO.format", NotApplicable);
  ("COO.from_iter", CampaignOnly); ("COO.from_numpy", ByCite "C05.from_dense_roundtrip");
  ("COO.from_scipy_sparse", CampaignOnly); ("COO.isinf", CampaignOnly);
  ("COO.isnan", CampaignOnly); ("COO.linear_loc", NotApplicable);
  ("COO.mT", ByCite "C08.mT_den"); ("COO.maybe_densify", NotApplicable);
  ("COO.nbytes", NotApplicable); ("COO.nnz", NotApplicable);
  ("COO.nonzero", ByGuard); ("COO.reshape", ByCite "C08.reshape_den");
  ("COO.squeeze", ByCite "C08.squeeze_den"); ("COO.swapaxes", ByCite "C08.swapaxes_den");
  ("COO.to_scipy_sparse", ByGuard); ("COO.tocsc", ByGuard);
  ("COO.tocsr", ByGuard); ("COO.todense", NotApplicable);
  ("COO.transpose", ByCite "C08.transpose_den"); ("GCXS.T", ByCite "C08.gcxs_transpose_den");
  ("GCXS.__getitem__", ByCite "C02.gcxs_getitem_den"); ("GCXS.__init__", CampaignOnly);
  ("GCXS.__matmul__", ByGuard); ("GCXS.__rmatmul__", ByGuard);
  ("GCXS.asformat", ByCite "C05.conversion_chain_den"); ("GCXS.change_compressed_axes", ByCite "C05.change_axes_den");
  ("GCXS.compressed_axes", NotApplicable); ("GCXS.copy", CampaignOnly);
  ("GCXS.dot", ByGuard); ("GCXS.dtype", NotApplicable);
  ("GCXS.flatten", ByCite "C08.gcxs_reshape_den"); ("GCXS.format", NotApplicable);
  ("GCXS.from_coo", ByCite "C05.conversion_chain_den"); ("GCXS.from_iter", CampaignOnly);
  ("GCXS.from_numpy", ByCite "C05.from_dense_roundtrip"); ("GCXS.from_scipy_sparse", CampaignOnly);
  ("GCXS.isinf", CampaignOnly); ("GCXS.isnan", CampaignOnly);
  ("GCXS.mT", ByCite "C08.gcxs_transpose_den"); ("GCXS.maybe_densify", NotApplicable);
  ("GCXS.nbytes", NotApplicable); ("GCXS.nnz", NotApplicable);
  ("GCXS.reshape", ByCite "C08.gcxs_reshape_den"); ("GCXS.to_scipy_sparse", ByGuard);
  ("GCXS.tocoo", ByCite "C05.conversion_chain_den"); ("GCXS.todense", NotApplicable);
  ("GCXS.todok", ByCite "C05.conversion_chain_den"); ("GCXS.transpose", ByCite "C08.gcxs_transpose_den");
  ("DOK.__getitem__", ByCite "C02.dok_getitem_den"); ("DOK.__init__", CampaignOnly);
  ("DOK.__setitem__", NotApplicable); ("DOK.asformat", ByCite "C05.conversion_chain_den");
  ("DOK.format", NotApplicable); ("DOK.from_coo", ByCite "C05.conversion_chain_den");
  ("DOK.from_numpy", ByCite "C05.from_dense_roundtrip"); ("DOK.from_scipy_sparse", CampaignOnly);
  ("DOK.isinf", CampaignOnly); ("DOK.isnan", CampaignOnly);
  ("DOK.nbytes", NotApplicable); ("DOK.nnz", NotApplicable);
  ("DOK.reshape", ByCite "C08.reshape_den"); ("DOK.to_coo", ByCite "C05.conversion_chain_den");
  ("DOK.todense", NotApplicable)
].

Fixpoint discharge_of_in (l : list (string * discharge)) (op : string) : option discharge :=
  match l with
  | [] => None
  | (k, d) :: r => if String.eqb k op then Some d else discharge_of_in r op
  end.
Definition discharge_of := discharge_of_in fill_discharge.

Definition guard_policy (p : option policy) : bool :=
  match p with
  | Some (ZeroOnly _) | Some (ZeroOnlyLoose _) | Some (ZeroOnlyWhen _ _) | Some (PreservesOrZeroOnly _) | Some (Consistent _) => true
  | _ => false
  end.

(* the obligation on one generated row *)
Definition discharge_ok (cited : list string) (table : list site) (s : site) : bool :=
  if negb (s_public s) then true else
  match discharge_of (s_op s) with
  | None => false
  | Some ByGuard => guard_policy (policy_of (s_op s)) && site_ok_req table s
  | Some (ByCite n) => mem n cited
  | Some NotApplicable => match policy_of (s_op s) with Some NoArrayResult => true | _ => false end
  | Some CampaignOnly => true
  end.

Definition count_discharge (f : discharge -> bool) : nat := List.length (filter (fun kd => f (snd kd)) fill_discharge).
