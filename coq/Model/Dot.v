(* Model/Dot.v — the product kernels of sparse/numba_backend/_common.py, transcribed loop by
   loop.  Definitions only (proofs: Proofs/DotP.v).

   Conventions.  Arrays are lists; a read `x[i]` is [znth x i d] (nopython kernels do no bounds
   checking: outside the buffer the model reads the default d; every theorem is stated under the
   well-formedness of the operands, where every read is inside its buffer).  A scratch array of
   n_col cells (`mask`, `next_`, `sums`) is a list updated by [wr].  The pre-sized OUTPUT buffers
   `indices`/`data` are only ever written at the cursor `nnz`, which starts at 0 and is
   incremented after each write; their contents after the loops are therefore the list of written
   cells, a write beyond the capacity happened iff that list is longer than the capacity
   ([KOob]) and an unwritten (np.empty) tail remains iff it is shorter ([KTail]).
   `while` loops whose progress is not evident run on explicit fuel ([KFuel]). *)
From Coq Require Import ZArith List Bool.
From Verif Require Import Py PyExt Shape COO GCXS G_dot S_dot NpDot.
Import ListNotations.
Open Scope Z_scope.

Inductive kres (A : Type) :=
| KOk (a : A)        (* the kernel returned a *)
| KOob               (* a write beyond a pre-sized buffer *)
| KTail              (* returned with an unwritten buffer tail *)
| KFuel.             (* out of fuel: the loop had not finished *)
Arguments KOk {A} a.
Arguments KOob {A}.
Arguments KTail {A}.
Arguments KFuel {A}.

Fixpoint set_nth {A} (l : list A) (n : nat) (v : A) : list A :=
  match l, n with
  | [], _ => []
  | _ :: r, O => v :: r
  | x :: r, S n' => x :: set_nth r n' v
  end.

(* x[i] = v on a scratch array (no effect outside it) *)
Definition wr {A} (l : list A) (i : Z) (v : A) : list A :=
  if i <? 0 then l else set_nth l (Z.to_nat i) v.

Section Dot.
  Variable V : Type.
  Variable vzero : V.
  Variable vadd vmul : V -> V -> V.
  Variable veqb : V -> V -> bool.

  (* ------------------------------------------------------------------ CSR triples *)
  Record csr := mkCSR { m_data : list V; m_indices : list Z; m_indptr : list Z }.

  (* zip(indices[indptr[i]:indptr[i+1]], data[indptr[i]:indptr[i+1]]) *)
  Definition row_pairs (m : csr) (i : Z) : list (Z * V) :=
    let lo := znth (m_indptr m) i 0 in
    let hi := znth (m_indptr m) (i + 1) 0 in
    combine (slice_list (m_indices m) lo hi) (slice_list (m_data m) lo hi).

  Definition row_cols (indices indptr : list Z) (i : Z) : list Z :=
    slice_list indices (znth indptr i 0) (znth indptr (i + 1) 0).

  (* dense meaning of a CSR triple: the LAST entry of row i with column k, else zero *)
  Fixpoint row_lookup (r : list (Z * V)) (k : Z) : option V :=
    match r with
    | [] => None
    | (c, v) :: t => match row_lookup t k with Some w => Some w | None => if c =? k then Some v else None end
    end.
  Definition row_get (r : list (Z * V)) (k : Z) : V :=
    match row_lookup r k with Some v => v | None => vzero end.
  Definition csr_den (m : csr) (i k : Z) : V := row_get (row_pairs m i) k.

  (* well-formed CSR matrix with n_row rows and n_col columns (gcxs_wfb specialised to 2-d,
     compressed_axes = (0,)) *)
  Definition csr_wfb (n_row n_col : Z) (m : csr) : bool :=
    (length (m_indices m) =? length (m_data m))%nat &&
    (0 <=? n_row) && (0 <=? n_col) &&
    (Z.of_nat (length (m_indptr m)) =? n_row + 1) &&
    (znth (m_indptr m) 0 (-1) =? 0) &&
    (znth (m_indptr m) n_row (-1) =? Z.of_nat (length (m_data m))) &&
    nondecreasing (m_indptr m) &&
    forallb (fun c => (0 <=? c) && (c <? n_col)) (m_indices m) &&
    forallb strictly_increasing (rows_of (m_indices m) (m_indptr m)).

  (* ------------------------------------------------------------------ _csr_csr_count_nnz *)
  (*  if mask[k] != i: mask[k] = i; row_nnz += 1  *)
  Definition cnt_step (i : Z) (st : list Z * Z) (k : Z) : list Z * Z :=
    let '(mask, c) := st in
    if negb (znth mask k 0 =? i) then (wr mask k i, c + 1) else (mask, c).

  (*  for k in b_indices[b_indptr[j] : b_indptr[j + 1]]  *)
  Definition cnt_inner (b_indices b_indptr : list Z) (i : Z) (st : list Z * Z) (j : Z) : list Z * Z :=
    fold_left (cnt_step i) (row_cols b_indices b_indptr j) st.

  (*  row_nnz = 0; for j in a_indices[a_indptr[i] : a_indptr[i + 1]]: ... ; nnz += row_nnz *)
  Definition cnt_row (a_indices b_indices a_indptr b_indptr : list Z) (st : list Z * Z) (i : Z) : list Z * Z :=
    let '(mask, nnz) := st in
    let '(mask', row_nnz) :=
      fold_left (cnt_inner b_indices b_indptr i) (row_cols a_indices a_indptr i) (mask, 0) in
    (mask', nnz + row_nnz).

  Definition csr_csr_count_nnz (n_row n_col : Z) (a_indices b_indices a_indptr b_indptr : list Z) : Z :=
    snd (fold_left (cnt_row a_indices b_indices a_indptr b_indptr) (zrange n_row)
                   (repeat (-1) (Z.to_nat n_col), 0)).

  (* ------------------------------------------------------------------ _dot_csr_csr *)
  (* state of the accumulation of one row: next_, sums, head, length *)
  Definition accst := (list Z * list V * Z * Z)%type.

  (*  sums[k] += av * bv
      if next_[k] == -1: next_[k] = head; head = k; length += 1  *)
  Definition acc_step (st : accst) (kp : Z * V) : accst :=
    let '(nx, sm, head, len) := st in
    let '(k, p) := kp in
    let sm' := wr sm k (vadd (znth sm k vzero) p) in
    if znth nx k 0 =? -1 then (wr nx k head, sm', k, len + 1) else (nx, sm', head, len).

  (* the stream of (k, av*bv) that the two nested zip-loops of row i produce *)
  Definition prod_stream (a b : csr) (i : Z) : list (Z * V) :=
    flat_map (fun jav => map (fun kbv => (fst kbv, vmul (snd jav) (snd kbv))) (row_pairs b (fst jav)))
             (row_pairs a i).

  (*  for _ in range(length):
         if next_[head] != -1: indices[nnz] = head; data[nnz] = sums[head]; nnz += 1
         temp = head; head = next_[head]; next_[temp] = -1; sums[temp] = 0
      returns the final (next_, sums, head) and the cells written, in order *)
  Fixpoint emit (n : nat) (nx : list Z) (sm : list V) (head : Z) : list Z * list V * Z * list (Z * V) :=
    match n with
    | O => (nx, sm, head, [])
    | S n' =>
      let '(nx', sm', h', r) :=
        emit n' (wr nx head (-1)) (wr sm head vzero) (znth nx head 0) in
      (nx', sm', h',
       if negb (znth nx head 0 =? -1) then (head, znth sm head vzero) :: r else r)
    end.

  (*  order = np.argsort(indices[indptr[i] : nnz]); indices[indptr[i] : nnz] = ...[order]; data likewise:
      the cells written for this row, sorted by column.  (Insertion sort; the columns of a row are
      pairwise distinct — proved — so every sorting permutation gives this list.) *)
  Fixpoint ins_cell (c : Z * V) (l : list (Z * V)) : list (Z * V) :=
    match l with
    | [] => [c]
    | d :: r => if fst c <=? fst d then c :: l else d :: ins_cell c r
    end.
  Definition sort_cells (l : list (Z * V)) : list (Z * V) := fold_right ins_cell [] l.

  (* one iteration of `for i in range(n_row)`; state: sums (carried over), written cells, indptr *)
  Definition row_step (n_col : Z) (a b : csr) (st : list V * list (Z * V) * list Z) (i : Z)
    : list V * list (Z * V) * list Z :=
    let '(sm, out, indptr) := st in
    let '(nx, sm1, head, len) :=
      fold_left acc_step (prod_stream a b i) (repeat (-1) (Z.to_nat n_col), sm, -2, 0) in
    let '(_, sm2, _, r) := emit (Z.to_nat len) nx sm1 head in
    (sm2, out ++ sort_cells r, indptr ++ [Z.of_nat (length (out ++ r))]).

  Definition spgemm_loops (n_row n_col : Z) (a b : csr) : list V * list (Z * V) * list Z :=
    fold_left (row_step n_col a b) (zrange n_row) (repeat vzero (Z.to_nat n_col), [], [0]).

  (* the whole kernel: pre-count (capacity of the output buffers), then the loops *)
  Definition dot_csr_csr (n_row n_col : Z) (a b : csr) : kres csr :=
    let cap := csr_csr_count_nnz n_row n_col (m_indices a) (m_indices b) (m_indptr a) (m_indptr b) in
    let '(_, out, indptr) := spgemm_loops n_row n_col a b in
    let written := Z.of_nat (length out) in
    if cap <? written then KOob
    else if written <? cap then KTail
    else KOk (mkCSR (map snd out) (map fst out) indptr).

  (* ------------------------------------------------------------------ _dot_coo_coo *)
  (* the same loops without the per-row sort; every written cell also records its row:
     coords[0, nnz] = i.  Result: (rows, cols, data), which COO(..., sorted=False) then sorts. *)
  Definition coo_row_step (n_col : Z) (a b : csr) (st : list V * list (Z * Z * V)) (i : Z)
    : list V * list (Z * Z * V) :=
    let '(sm, out) := st in
    let '(nx, sm1, head, len) :=
      fold_left acc_step (prod_stream a b i) (repeat (-1) (Z.to_nat n_col), sm, -2, 0) in
    let '(_, sm2, _, r) := emit (Z.to_nat len) nx sm1 head in
    (sm2, out ++ map (fun kv => (i, fst kv, snd kv)) r).

  Definition dot_coo_coo (n_row n_col : Z) (a b : csr) : kres (list Z * list Z * list V) :=
    let cap := csr_csr_count_nnz n_row n_col (m_indices a) (m_indices b) (m_indptr a) (m_indptr b) in
    let '(_, out) := fold_left (coo_row_step n_col a b) (zrange n_row) (repeat vzero (Z.to_nat n_col), []) in
    let written := Z.of_nat (length out) in
    if cap <? written then KOob
    else if written <? cap then KTail
    else KOk (map (fun t => fst (fst t)) out, map (fun t => snd (fst t)) out, map snd out).

  (* dense meaning of a list of COO cells (row, column, value): the LAST cell at (i, k), else zero *)
  Fixpoint cell_lookup (cells : list (Z * Z * V)) (i k : Z) : option V :=
    match cells with
    | [] => None
    | (r, c, v) :: t =>
      match cell_lookup t i k with
      | Some w => Some w
      | None => if (r =? i) && (c =? k) then Some v else None
      end
    end.
  Definition coo_cells_den (rows cols : list Z) (data : list V) (i k : Z) : V :=
    match cell_lookup (combine (combine rows cols) data) i k with Some v => v | None => vzero end.

  (* ------------------------------------------------------------------ GCXS(..., prune=True) *)
  (* _prune: mask = data != fill; coords = stack(uncompress_dimension(indptr), indices)[:, mask];
     indptr = [0] ++ cumsum(bincount(coords[0], minlength=row_size)) *)
  Definition prune_csr (n_row : Z) (m : csr) : csr :=
    let cells := combine (combine (row_numbers (m_indptr m)) (m_indices m)) (m_data m) in
    let kept := filter (fun c => negb (veqb (snd c) vzero)) cells in
    mkCSR (map snd kept) (map (fun c => snd (fst c)) kept)
          (map (fun r => Z.of_nat (length (filter (fun c => fst (fst c) <? r) kept))) (zrange (n_row + 1))).

  (* ------------------------------------------------------------------ _dot_coo_ndarray *)
  (* a COO matrix as its three columns: rows (coords1[0], sorted), cols (coords1[1]), data1.
     array2 is b.T: array2[oidx2, j] is read as a function.  out is a function updated pointwise
     (out = np.zeros(out_shape)).  The inner `while didx1 < len(data1) and coords1[0,didx1] ==
     oidx1` strictly advances didx1 towards len(data1): it is the structural recursion [scan_run]
     over the n - didx1 remaining entries.  The OUTER
     `while didx1 < len(data1) and out_shape[1] > 0` has no evident variant and runs on fuel. *)
  Definition dense2 := (Z -> Z -> V).
  Definition upd2 (o : dense2) (i j : Z) (v : V) : dense2 :=
    fun i' j' => if (i' =? i) && (j' =? j) then v else o i' j'.

  Fixpoint scan_run (m : nat) (rows cols : list Z) (data : list V) (array2 : dense2)
           (oidx1 oidx2 : Z) (didx1 : Z) (out : dense2) : Z * dense2 :=
    match m with
    | O => (didx1, out)
    | S m' =>
      if (didx1 <? Z.of_nat (length data)) && (znth rows didx1 0 =? oidx1) then
        scan_run m' rows cols data array2 oidx1 oidx2 (didx1 + 1)
                 (upd2 out oidx1 oidx2
                       (vadd (out oidx1 oidx2) (vmul (znth data didx1 vzero) (array2 oidx2 (znth cols didx1 0)))))
      else (didx1, out)
    end.

  (*  for oidx2 in range(out_shape[1]): didx1 = didx1_curr; <inner while>  *)
  Definition cn_for (rows cols : list Z) (data : list V) (array2 : dense2) (out_cols : Z)
             (oidx1 didx1_curr : Z) (didx1 : Z) (out : dense2) : Z * dense2 :=
    fold_left (fun st oidx2 =>
                 scan_run (Z.to_nat (Z.of_nat (length data) - didx1_curr)) rows cols data array2
                          oidx1 oidx2 didx1_curr (snd st))
              (zrange out_cols) (didx1, out).

  Fixpoint cn_while (fuel : nat) (rows cols : list Z) (data : list V) (array2 : dense2) (out_cols : Z)
           (didx1 : Z) (out : dense2) : kres dense2 :=
    if (didx1 <? Z.of_nat (length data)) && (0 <? out_cols) then
      match fuel with
      | O => KFuel
      | S f =>
        let oidx1 := znth rows didx1 0 in
        let '(didx1', out') := cn_for rows cols data array2 out_cols oidx1 didx1 didx1 out in
        cn_while f rows cols data array2 out_cols didx1' out'
      end
    else KOk out.

  Definition dot_coo_ndarray (fuel : nat) (rows cols : list Z) (data : list V) (array2 : dense2)
             (out_cols : Z) : kres dense2 :=
    cn_while fuel rows cols data array2 out_cols 0 (fun _ _ => vzero).

  (* ------------------------------------------------------------------ _dot_csc_ndarray_sparse *)
  (* a (m x n) in CSC form = the CSR triple `a` of a.T (n rows of length-m index space), b a dense
     n x p matrix; the result is the CSC triple of a @ b (p columns).  Pre-count
     _csc_ndarray_count_nnz: per column i of b, the DISTINCT row indices touched through the
     non-zero b[j, i]; it also fills indptr.  The kernel then accumulates the column with the same
     linked list (kept in `mask`), writes every touched position and sorts the segment. *)
  Definition csc_keys (a_indices a_indptr : list Z) (b : dense2) (n_in : Z) (i : Z) : list Z :=
    flat_map (fun j => if veqb (b j i) vzero then [] else row_cols a_indices a_indptr j) (zrange n_in).

  (* returns (nnz, indptr[1:]) *)
  Definition csc_ndarray_count_nnz (m n_in p : Z) (a_indices a_indptr : list Z) (b : dense2) : Z * list Z :=
    let '(_, nnz, ptr) :=
      fold_left (fun (st : list Z * Z * list Z) i =>
                   let '(mask, nnz, ptr) := st in
                   let '(mask', col_nnz) := fold_left (cnt_step i) (csc_keys a_indices a_indptr b n_in i) (mask, 0) in
                   (mask', nnz + col_nnz, ptr ++ [nnz + col_nnz]))
                (zrange p) (repeat (-1) (Z.to_nat m), 0, []) in
    (nnz, ptr).

  Definition csc_stream (a : csr) (b : dense2) (n_in : Z) (i : Z) : list (Z * V) :=
    flat_map (fun j => let u := b j i in
                       if veqb u vzero then []
                       else map (fun kv => (fst kv, vmul u (snd kv))) (row_pairs a j)) (zrange n_in).

  (*  for _ in range(length):
         indices[nnz] = head; data[nnz] = sums[head]; nnz += 1        (every touched position)
         temp = head; head = mask[head]; mask[temp] = -1; sums[temp] = 0  *)
  Fixpoint emit_all (n : nat) (nx : list Z) (sm : list V) (head : Z) : list Z * list V * Z * list (Z * V) :=
    match n with
    | O => (nx, sm, head, [])
    | S n' =>
      let '(nx', sm', h', r) :=
        emit_all n' (wr nx head (-1)) (wr sm head vzero) (znth nx head 0) in
      (nx', sm', h', (head, znth sm head vzero) :: r)
    end.

  (* one iteration of `for i in range(b_shape[1])`: mask and sums are carried over (the emission
     loop restores them); the written segment is then sorted by position (argsort) *)
  Definition csc_col_step (a : csr) (b : dense2) (n_in : Z) (st : list Z * list V * list (Z * V)) (i : Z)
    : list Z * list V * list (Z * V) :=
    let '(mask, sm, out) := st in
    let '(mask1, sm1, head, len) := fold_left acc_step (csc_stream a b n_in i) (mask, sm, -2, 0) in
    let '(mask2, sm2, _, r) := emit_all (Z.to_nat len) mask1 sm1 head in
    (mask2, sm2, out ++ sort_cells r).

  Definition dot_csc_ndarray_sparse (m n_in p : Z) (a : csr) (b : dense2) : kres csr :=
    let '(cap, ptr) := csc_ndarray_count_nnz m n_in p (m_indices a) (m_indptr a) b in
    let '(_, _, out) :=
      fold_left (csc_col_step a b n_in) (zrange p)
                (repeat (-1) (Z.to_nat m), repeat vzero (Z.to_nat m), []) in
    let written := Z.of_nat (length out) in
    if cap <? written then KOob
    else if written <? cap then KTail
    else KOk (mkCSR (map snd out) (map fst out) (0 :: ptr)).

  (* ------------------------------------------------------------------ the dense-result kernels *)
  (*  out[i, j] += v  *)
  Definition upd_add (o : dense2) (i j : Z) (v : V) : dense2 := upd2 o i j (vadd (o i j) v).

  (* _dot_csr_ndarray:  for i in range(n_row): for k in range(a_indptr[i], a_indptr[i+1]):
         ind = a_indices[k]; v = a_data[k]; for j in range(n_col): out[i, j] += v * b[ind, j]
     (on a well-formed operand `range(a_indptr[i], a_indptr[i+1])` enumerates row_pairs a i) *)
  Definition dot_csr_ndarray (n_row n_col : Z) (a : csr) (b : dense2) : dense2 :=
    fold_left (fun out i =>
      fold_left (fun out kv =>
        fold_left (fun out j => upd_add out i j (vmul (snd kv) (b (fst kv) j))) (zrange n_col) out)
        (row_pairs a i) out)
      (zrange n_row) (fun _ _ => vzero).

  (* _dot_csc_ndarray (a: CSC triple of the left operand, n_in columns):
       for i in range(n_in): for k in range(a_indptr[i], a_indptr[i+1]):
         ind = a_indices[k]; v = a_data[k]; for j in range(p): out[ind, j] += v * b[i, j] *)
  Definition dot_csc_ndarray (n_in p : Z) (a : csr) (b : dense2) : dense2 :=
    fold_left (fun out i =>
      fold_left (fun out kv =>
        fold_left (fun out j => upd_add out (fst kv) j (vmul (snd kv) (b i j))) (zrange p) out)
        (row_pairs a i) out)
      (zrange n_in) (fun _ _ => vzero).

  (* _dot_ndarray_coo (array1 dense, the COO operand as cells (coords2[0], coords2[1], data2)):
       for oidx1 in range(m): for didx2 in range(len(data2)):
         out[oidx1, coords2[1, didx2]] += array1[oidx1, coords2[0, didx2]] * data2[didx2] *)
  Definition dot_ndarray_coo (m : Z) (array1 : dense2) (rows2 cols2 : list Z) (data2 : list V) : dense2 :=
    fold_left (fun out i =>
      fold_left (fun out (t : Z * Z * V) =>
        upd_add out i (snd (fst t)) (vmul (array1 i (fst (fst t))) (snd t)))
        (combine (combine rows2 cols2) data2) out)
      (zrange m) (fun _ _ => vzero).

  (* ------------------------------------------------------------------ _dot_csr_ndarray_sparse *)
  (* _csr_ndarray_count_nnz: per (i, j), one more cell if some b[k, j] != 0 for k in the row
     (`nnz += 1; break`); indptr[i + 1] = nnz.  Returns (nnz, indptr[1:]). *)
  Definition csr_ndarray_count_nnz (n_row n_col : Z) (a_indices a_indptr : list Z) (b : dense2) : Z * list Z :=
    fold_left (fun (st : Z * list Z) i =>
      let '(nnz, ptr) := st in
      let cur_row := row_cols a_indices a_indptr i in
      let nnz' :=
        fold_left (fun nnz j => if existsb (fun k => negb (veqb (b k j) vzero)) cur_row then nnz + 1 else nnz)
                  (zrange n_col) nnz in
      (nnz', ptr ++ [nnz']))
      (zrange n_row) (0, []).

  (*  val = 0; nonzero = False
      for k in range(a_indptr[i], a_indptr[i+1]): val += v * b[ind, j]; if b[ind, j] != 0: nonzero = True *)
  Definition csr_nd_cell (a : csr) (b : dense2) (i j : Z) : V * bool :=
    fold_left (fun (st : V * bool) kv =>
                 (vadd (fst st) (vmul (snd kv) (b (fst kv) j)), snd st || negb (veqb (b (fst kv) j) vzero)))
              (row_pairs a i) (vzero, false).

  (*  if nonzero: data[current] = val; indices[current] = j; current += 1  *)
  Definition csr_nd_row (a : csr) (b : dense2) (n_col : Z) (i : Z) : list (Z * V) :=
    flat_map (fun j => let '(val, nz) := csr_nd_cell a b i j in if nz then [(j, val)] else []) (zrange n_col).

  Definition dot_csr_ndarray_sparse (n_row n_col : Z) (a : csr) (b : dense2) : kres csr :=
    let '(cap, ptr) := csr_ndarray_count_nnz n_row n_col (m_indices a) (m_indptr a) b in
    let out := flat_map (csr_nd_row a b n_col) (zrange n_row) in
    let written := Z.of_nat (length out) in
    if cap <? written then KOob
    else if written <? cap then KTail
    else KOk (mkCSR (map snd out) (map fst out) (0 :: ptr)).

  (* ------------------------------------------------------------------ _dot_coo_ndarray_type_sparse *)
  (* innermost `while cur_didx1 < len(data1) and coords1[0, cur_didx1] == current_row:
        data_curr += data1[cur_didx1] * array2[oidx2, coords1[1, cur_didx1]]; cur_didx1 += 1`
     (structural: at most n - didx1 steps) *)
  Fixpoint scan_sum (m : nat) (rows cols : list Z) (data : list V) (array2 : dense2)
           (row oidx2 : Z) (cur : Z) (acc : V) : Z * V :=
    match m with
    | O => (cur, acc)
    | S m' =>
      if (cur <? Z.of_nat (length data)) && (znth rows cur 0 =? row) then
        scan_sum m' rows cols data array2 row oidx2 (cur + 1)
                 (vadd acc (vmul (znth data cur vzero) (array2 oidx2 (znth cols cur 0))))
      else (cur, acc)
    end.

  (*  oidx2 = 0; while oidx2 < out_shape[1]: cur_didx1 = didx1; data_curr = 0; <inner while>;
        if data_curr != 0: out_data.append(data_curr); out_coords.append((current_row, oidx2)); oidx2 += 1  *)
  Definition cns_for (rows cols : list Z) (data : list V) (array2 : dense2) (out_cols : Z)
             (row didx1 : Z) (cur : Z) (out : list (Z * Z * V)) : Z * list (Z * Z * V) :=
    fold_left (fun (st : Z * list (Z * Z * V)) oidx2 =>
                 let '(cur', dc) := scan_sum (Z.to_nat (Z.of_nat (length data) - didx1)) rows cols data array2
                                             row oidx2 didx1 vzero in
                 (cur', if negb (veqb dc vzero) then snd st ++ [(row, oidx2, dc)] else snd st))
              (zrange out_cols) (cur, out).

  (* outer `while didx1 < len(data1) and out_shape[1] > 0` on fuel *)
  Fixpoint cns_while (fuel : nat) (rows cols : list Z) (data : list V) (array2 : dense2) (out_cols : Z)
           (didx1 : Z) (out : list (Z * Z * V)) : kres (list (Z * Z * V)) :=
    if (didx1 <? Z.of_nat (length data)) && (0 <? out_cols) then
      match fuel with
      | O => KFuel
      | S f =>
        let row := znth rows didx1 0 in
        let '(cur, out') := cns_for rows cols data array2 out_cols row didx1 didx1 out in
        cns_while f rows cols data array2 out_cols cur out'
      end
    else KOk out.

  (* the cells (row, column, value) appended to out_coords / out_data, in order *)
  Definition dot_coo_ndarray_sparse (fuel : nat) (rows cols : list Z) (data : list V) (array2 : dense2)
             (out_cols : Z) : kres (list (Z * Z * V)) :=
    cns_while fuel rows cols data array2 out_cols 0 [].

  (* ------------------------------------------------------------------ _dot_ndarray_coo_type_sparse *)
  (* the COO operand is b.T: cells (coords2[0] = column of b, sorted; coords2[1] = row of b; data2).
       for oidx1 in range(m):
         data_curr = 0; current_col = 0
         for didx2 in range(len(data2)):
           if coords2[0, didx2] != current_col:
             if data_curr != 0: append(data_curr, [oidx1, current_col]); data_curr = 0
             current_col = coords2[0, didx2]
           data_curr += array1[oidx1, coords2[1, didx2]] * data2[didx2]
         if data_curr != 0: append(data_curr, [oidx1, current_col]) *)
  Definition ncs_step (array1 : dense2) (oidx1 : Z) (st : V * Z * list (Z * Z * V)) (t : Z * Z * V)
    : V * Z * list (Z * Z * V) :=
    let '(dc, cc, out) := st in
    let c := fst (fst t) in
    let '(dc1, cc1, out1) :=
      if negb (c =? cc) then
        (if negb (veqb dc vzero) then (vzero, c, out ++ [(oidx1, cc, dc)]) else (dc, c, out))
      else (dc, cc, out) in
    (vadd dc1 (vmul (array1 oidx1 (snd (fst t))) (snd t)), cc1, out1).

  Definition dot_ndarray_coo_sparse (m : Z) (array1 : dense2) (cols2 rows2 : list Z) (data2 : list V)
    : list (Z * Z * V) :=
    fold_left (fun out oidx1 =>
                 let '(dc, cc, out') :=
                   fold_left (ncs_step array1 oidx1) (combine (combine cols2 rows2) data2) (vzero, 0, out) in
                 if negb (veqb dc vzero) then out' ++ [(oidx1, cc, dc)] else out')
              (zrange m) [].

  (* row-major table of a dense2 *)
  Definition tab2 (n_row n_col : Z) (o : dense2) : list V :=
    flat_map (fun i => map (fun j => o i j) (zrange n_col)) (zrange n_row).
End Dot.

Arguments mkCSR {V}.
Arguments m_data {V}.
Arguments m_indices {V}.
Arguments m_indptr {V}.
Arguments row_pairs {V}.
Arguments row_lookup {V}.
Arguments csr_wfb {V}.

(* ---------------------------------------------------------------------- _dot: dispatch *)
(* operand kinds reaching _dot (both operands are 2-d there): COO, GCXS with compressed axes
   (0,) or (1,), ndarray.  `a_argmin` is np.argmin(a.shape) in {0,1}: the compressed axis
   COO.asformat("gcxs") picks for the LEFT operand. *)
Inductive okind := KCoo | KGcxs (ca : bool) | KNd.      (* ca: false = (0,), true = (1,) *)
Inductive rtype := RNone | RCoo | RGcxs | RNd.
Inductive kernel :=
| KerCsrCsr          (* _dot_csr_csr_type(a, b)(out_shape, a..., b...) *)
| KerCsrCsrT         (* _dot_csr_csr_type(b, a)(out_shape[::-1], b..., a...): a @ b = (b.T @ a.T).T *)
| KerCsrNd | KerCsrNdSparse | KerCscNd | KerCscNdSparse
| KerCscNdT | KerCscNdSparseT | KerCsrNdT | KerCsrNdSparseT   (* ndarray @ GCXS: on the transposes *)
| KerCooCoo | KerCooNd | KerCooNdSparse | KerNdCoo | KerNdCooSparse
| KerNpDot.
Inductive rkind := OCoo | OGcxs (ca : bool) | OGcxsAuto | ONd.   (* OGcxsAuto: COO.asformat("gcxs") *)

Definition is_sparse_kind (k : okind) : bool := match k with KNd => false | _ => true end.
Definition is_gcxs_kind (k : okind) : bool := match k with KGcxs _ => true | _ => false end.

(* the first two statements of _dot: if both operands are SparseArrays and one is a GCXS, both
   become GCXS with the compressed axes of (the converted) a; the nbytes comparison that follows
   then finds equal compressed axes and changes nothing *)
Definition dot_convert (a_argmin : bool) (ka kb : okind) : okind * okind :=
  if is_sparse_kind ka && is_sparse_kind kb && (is_gcxs_kind ka || is_gcxs_kind kb) then
    let ca := match ka with KGcxs c => c | _ => a_argmin end in
    (KGcxs ca, KGcxs ca)
  else (ka, kb).

Definition dense_rt (rt : rtype) : bool := match rt with RNone | RNd => true | _ => false end.

(* None = `raise TypeError("Unsupported types.")` *)
Definition dot_dispatch (a_argmin : bool) (ka kb : okind) (rt : rtype) : option (kernel * rkind) :=
  match dot_convert a_argmin ka kb with
  | (KGcxs ca, KGcxs cb) =>
    (* after the nbytes step both have the same compressed axes (ca = cb by dot_convert) *)
    let out := match rt with RNd => ONd | RCoo => OCoo | _ => OGcxs ca end in
    Some (if ca then KerCsrCsrT else KerCsrCsr, out)
  | (KGcxs ca, KNd) =>
    if dense_rt rt then Some (if ca then KerCscNd else KerCsrNd, ONd)
    else Some (if ca then KerCscNdSparse else KerCsrNdSparse,
               match rt with RCoo => OCoo | _ => OGcxs ca end)
  | (KNd, KGcxs cb) =>
    if dense_rt rt then Some (if cb then KerCsrNdT else KerCscNdT, ONd)
    else Some (if cb then KerCsrNdSparseT else KerCscNdSparseT,
               match rt with RCoo => OCoo | _ => OGcxs cb end)
  | (KCoo, KCoo) =>
    Some (KerCooCoo, match rt with RNd => ONd | RGcxs => OGcxsAuto | _ => OCoo end)
  | (KCoo, KNd) =>
    if dense_rt rt then Some (KerCooNd, ONd)
    else Some (KerCooNdSparse, match rt with RGcxs => OGcxsAuto | _ => OCoo end)
  | (KNd, KCoo) =>
    if dense_rt rt then Some (KerNdCoo, ONd)
    else Some (KerNdCooSparse, match rt with RGcxs => OGcxsAuto | _ => OCoo end)
  | (KNd, KNd) => Some (KerNpDot, ONd)
  | _ => None
  end.

(* the kind of result a caller asked for *)
Definition rkind_matches (rt : rtype) (o : rkind) : bool :=
  match rt, o with
  | RNone, _ => true
  | RCoo, OCoo => true
  | RGcxs, (OGcxs _ | OGcxsAuto) => true
  | RNd, ONd => true
  | _, _ => false
  end.

(* ---------------------------------------------------------------------- dot(a, b): routing *)
(* the decisions of `dot` are the generated fragment g_dot (Gen/G_dot.v): a 0-d operand, the 1-d . 1-d path
   (after the length check) or tensordot with the chosen contraction axes *)
Inductive dot_path := Path0d | Path1d | PathTensordot (a_axis b_axis : Z).

Definition dot_route (a_ndim b_ndim a_len b_len : Z) : res dot_path :=
  match g_dot VNone VNone (VInt a_ndim) (VInt b_ndim) (VInt a_len) (VInt b_len) with
  | Ok (VTuple [VInt 3]) => Ok Path0d           (* a 0-d operand: tensordot(a, b, axes=0) *)
  | Ok (VTuple [VInt 0; _; _]) => Ok Path1d
  | Ok (VTuple [VInt 1; VInt x; VInt y]) => Ok (PathTensordot x y)
  | Ok _ => Raise OtherError
  | Raise e => Raise e
  end.

Section DotTop.
  Variable V : Type.
  Variable vzero : V.
  Variable vadd vmul : V -> V -> V.

  (* dot of two 1-d operands: `(a * b).sum()` on equal shapes *)
  Definition dot_1d (a b : list V) : res V :=
    match dot_route 1 1 (Z.of_nat (length a)) (Z.of_nat (length b)) with
    | Ok Path1d => Ok (vsum V vzero vadd (zip_mul V vmul a b))
    | Ok _ => Raise OtherError
    | Raise e => Raise e
    end.

  (* ------------------------------------------------------------------ tensordot: bookkeeping *)
  Definition norm_axis (nd ax : Z) : Z := if ax <? 0 then ax + nd else ax.

  (* tuple[ax] with Python's negative indices *)
  Definition py_index (sh : shape) (ax : Z) : res Z :=
    let nd := Z.of_nat (length sh) in
    if (ax <? - nd) || (nd <=? ax) then Raise IndexError else Ok (nthZ sh (norm_axis nd ax)).

  (* for k in range(na): if as_[axes_a[k]] != bs[axes_b[k]]: equal = False; break
                         if axes_a[k] < 0: axes_a[k] += nda;  if axes_b[k] < 0: axes_b[k] += ndb
     None: a mismatch was found (ValueError "shape-mismatch for sum") *)
  Fixpoint td_match (as_ bs : shape) (axes_a axes_b : list Z) : res (option (list Z * list Z)) :=
    match axes_a, axes_b with
    | x :: ra, y :: rb =>
      ea <- py_index as_ x ;;
      eb <- py_index bs y ;;
      if negb (ea =? eb) then Ok None
      else
        r <- td_match as_ bs ra rb ;;
        Ok (match r with
            | Some (la, lb) => Some (norm_axis (Z.of_nat (length as_)) x :: la, norm_axis (Z.of_nat (length bs)) y :: lb)
            | None => None end)
    | _, _ => Ok (Some ([], []))
    end.

  (* N2 = 1; for axis in axes: N2 *= shape[axis] *)
  Definition td_prod (sh : shape) (axes : list Z) : Z := fold_left (fun acc ax => acc * nthZ sh ax) axes 1.

  (* builtins.any(dim == 0 for dim in chain(newshape_a, newshape_b)) with newshape_a = (-1, N2a),
     newshape_b = (N2b, -1): only the CONTRACTED extent is tested.  Generated from the source
     (Gen/S_dot.v, tools/sitegen/dot.py). *)
  Definition td_shortcut (N2a N2b : Z) : bool := s_td_shortcut N2a N2b.

  (* tensordot on the dense meaning of the operands (their transposes/reshapes are C08's subject);
     operands with ndim >= 1, axes given as two lists *)
  Definition tensordot_m (a b : arr V) (axes_a axes_b : list Z) : res (arr V) :=
    let as_ := a_shape a in
    let bs := a_shape b in
    if (Z.of_nat (length as_) =? 0) || (Z.of_nat (length bs) =? 0) then Raise NotImplementedError
    else if negb (length axes_a =? length axes_b)%nat then Raise ValueError
    else
      m <- td_match as_ bs axes_a axes_b ;;
      match m with
      | None => Raise ValueError
      | Some (axa, axb) =>
        let notin_a := free_axes (length as_) axa in
        let newaxes_a := notin_a ++ axa in
        let N2a := td_prod as_ axa in
        let olda := map (nthZ as_) notin_a in
        let notin_b := free_axes (length bs) axb in
        let newaxes_b := axb ++ notin_b in
        let N2b := td_prod bs axb in
        let oldb := map (nthZ bs) notin_b in
        if td_shortcut N2a N2b then Ok (mkArr (olda ++ oldb) (fun _ => vzero))
        else
          let M := size as_ / N2a in            (* reshape((-1, N2a)) *)
          let P := size bs / N2b in             (* reshape((N2b, -1)) *)
          let at_ := np_reshape V [M; N2a] (np_transpose V newaxes_a a) in
          let bt := np_reshape V [N2b; P] (np_transpose V newaxes_b b) in
          let res := arr_of_mat V vzero M P (np_matmul2 V vzero vadd vmul N2a (mat_of V at_) (mat_of V bt)) in
          Ok (np_reshape V (olda ++ oldb) res)
      end.
End DotTop.

(* ---------------------------------------------------------------------- ties to Gen/S_dot.v *)
(* the codes of tools/sitegen/dot.py *)
Definition okind_code (k : okind) : Z :=
  match k with KCoo => 0 | KGcxs false => 1 | KGcxs true => 2 | KNd => 3 end.
Definition rtype_code (r : rtype) : Z := match r with RNone => 0 | RCoo => 1 | RGcxs => 2 | RNd => 3 end.
Definition rkind_code (o : rkind) : Z :=
  match o with OCoo => 0 | OGcxs false => 1 | OGcxs true => 2 | OGcxsAuto => 3 | ONd => 4 end.
Definition kernel_code (k : kernel) : Z :=
  match k with
  | KerCsrCsr => 0 | KerCsrCsrT => 1 | KerCsrNd => 2 | KerCsrNdSparse => 3 | KerCscNd => 4 | KerCscNdSparse => 5
  | KerCscNdT => 6 | KerCscNdSparseT => 7 | KerCsrNdT => 8 | KerCsrNdSparseT => 9 | KerCooCoo => 10 | KerCooNd => 11
  | KerCooNdSparse => 12 | KerNdCoo => 13 | KerNdCooSparse => 14 | KerNpDot => 15
  end.

Fixpoint table_lookup (t : list (Z * Z * Z * Z * option (Z * Z))) (am ka kb rt : Z) : option (option (Z * Z)) :=
  match t with
  | [] => None
  | (am', ka', kb', rt', r) :: t' =>
    if (am =? am') && (ka =? ka') && (kb =? kb') && (rt =? rt') then Some r else table_lookup t' am ka kb rt
  end.

(* what the SOURCE of _dot does for these operand kinds (abstract execution of its AST) *)
Definition source_dispatch (a_argmin : bool) (ka kb : okind) (rt : rtype) : option (option (Z * Z)) :=
  table_lookup s_dot_table (if a_argmin then 1 else 0) (okind_code ka) (okind_code kb) (rtype_code rt).

(* matmul: strategy selection by the generated case chain *)
Inductive matmul_strategy := MmDot | MmDotVec | MmDotMoveAxis | MmSqueezeA | MmSqueezeB | MmBatch.
Definition matmul_route (a_ndim b_ndim a_lead b_lead : Z) : option matmul_strategy :=
  match s_matmul_case (VInt a_ndim) (VInt b_ndim) (VInt a_lead) (VInt b_lead) with
  | Ok (VInt 1) => Some MmDot | Ok (VInt 2) => Some MmDotVec | Ok (VInt 3) => Some MmDotMoveAxis
  | Ok (VInt 4) => Some MmSqueezeA | Ok (VInt 5) => Some MmSqueezeB | Ok (VInt 6) => Some MmBatch | _ => None
  end.

(* ---------------------------------------------------------------------- _einsum_single *)
(* one sparse operand, labels as integers.  `where`: for every label (first-occurrence order) its positions;
   an entry is selected when, for every label occurring more than once, the coordinates at the later positions
   equal the coordinate at the first (`(coords[loc0] == coords[rlocs]).all(axis=0)`); the kept coordinates are
   permuted/projected by perm = [lhs.index(ix) for ix in rhs]; the COO constructor is told
   has_duplicates=True, prune=True, i.e. coinciding coordinates are SUMMED (den_sum) and sums equal to the fill
   are then dropped (which does not change den_sum). *)
Section EinsumSingle.
  Variable V : Type.
  Variable vzero : V.
  Variable vadd : V -> V -> V.

  Fixpoint first_labels (l : list Z) (seen : list Z) : list Z :=
    match l with
    | [] => []
    | x :: r => if mem_z x seen then first_labels r seen else x :: first_labels r (x :: seen)
    end.
  Definition positions_of (lhs : list Z) (lab : Z) : list nat :=
    filter (fun p => nth p lhs 0 =? lab) (seq 0 (length lhs)).
  Definition where_groups (lhs : list Z) : list (list nat) := map (positions_of lhs) (first_labels lhs []).

  Definition es_selector (lhs : list Z) (ix : idx) : bool :=
    forallb (fun locs => match locs with
                         | [] => true
                         | loc0 :: rlocs => forallb (fun q => nth loc0 ix 0 =? nth q ix 0) rlocs
                         end) (where_groups lhs).

  (* "Repeated indices must have the same dimension." *)
  Definition es_shape_ok (lhs : list Z) (sh : shape) : bool := es_selector lhs sh.

  Definition einsum_single_m (lhs rhs : list Z) (c : coo V) : res (coo V) :=
    if negb (es_shape_ok lhs (c_shape c)) then Raise ValueError
    else
      let kept := filter (fun e => es_selector lhs (fst e)) (entries c) in
      Ok (mkCOO (es_proj lhs rhs (c_shape c)) (map (fun e => es_proj lhs rhs (fst e)) kept) (map snd kept) (c_fill c)).

  (* meaning of a COO whose coinciding coordinates are summed (has_duplicates=True) *)
  Definition den_sum (c : coo V) (o : idx) : V :=
    vsum V vzero vadd (map snd (filter (fun e => idx_eqb (fst e) o) (entries c))).
End EinsumSingle.

(* ---------------------------------------------------------------------- kron (sparse/numba_backend/_coo/common.py) *)
(* both operands COO with the same number of axes (kron first prepends length-1 axes):
     a_idx, b_idx = cartesian product of the stored positions
     o_coords = a.coords[:, a_idx] * b.shape[:, None] + b.coords[:, b_idx];  o_data = a.data[a_idx] * b.data[b_idx]
     COO(o_coords, o_data, shape = a.shape * b.shape, has_duplicates=False) *)
Section Kron.
  Variable V : Type.
  Variable vmul : V -> V -> V.

  Definition kmix (bs : shape) (ia ib : idx) : idx :=
    map (fun p => fst (fst p) * snd (fst p) + snd p) (combine (combine ia bs) ib).

  Definition kron_m (a b : coo V) : coo V :=
    let bs := c_shape b in
    let es := flat_map (fun ea => map (fun eb => (kmix bs (fst ea) (fst eb), vmul (snd ea) (snd eb))) (entries b)) (entries a) in
    mkCOO (map (fun p => fst p * snd p) (combine (c_shape a) bs)) (map fst es) (map snd es) (vmul (c_fill a) (c_fill b)).
End Kron.

(* ---------------------------------------------------------------------- matmul: _matmul_recurser *)
(* on the dense meaning (functions of index tuples; a[i] / a[0] and stack are C02's / C09's subject):
     if a.ndim == 2: return dot(a, b)
     for i in range(max(a.shape[0], b.shape[0])):
         a_i = a[0] if a.shape[0] == 1 else a[i];  b_i likewise;  res.append(_matmul_recurser(a_i, b_i))
     return stack(res) *)
Section MatmulRec.
  Variable V : Type.
  Variable vzero : V.
  Variable vadd vmul : V -> V -> V.

  Fixpoint matmul_rec (sha shb : shape) (n : Z) (a b : idx -> V) : idx -> V :=
    match sha, shb with
    | da :: sha', db :: shb' =>
      fun ix => match ix with
                | i :: ix' =>
                  let a_i := fun r => a ((if da =? 1 then 0 else i) :: r) in
                  let b_i := fun r => b ((if db =? 1 then 0 else i) :: r) in
                  matmul_rec sha' shb' n a_i b_i ix'
                | [] => vzero
                end
    | _, _ =>
      fun ix => match ix with
                | [i; k] => np_matmul2 V vzero vadd vmul n (fun i j => a [i; j]) (fun j k => b [j; k]) i k
                | _ => vzero
                end
    end.
End MatmulRec.

(* ---------------------------------------------------------------------- _dot, COO @ COO: COO -> CSR row pointers *)
(*   a_indptr = np.empty(a.shape[0] + 1, dtype=D); a_indptr[0] = 0
     np.cumsum(np.bincount(a.coords[0], minlength=a.shape[0]), out=a_indptr[1:])
   The pointers are cumulative COUNTS of stored elements; writing into `out` casts to D.  D comes from the source
   (Gen/S_dot.v, s_coo_indptr_dtype_a/b): 0 = np.intp (wide: no wrap in the model), 1 = the operand's coordinate
   dtype, of `bits` bits, signed or not (the cast wraps). *)
Definition wrap_int (bits : Z) (signed : bool) (z : Z) : Z :=
  let m := 2 ^ bits in
  let r := z mod m in
  if signed && (2 ^ (bits - 1) <=? r) then r - m else r.

Definition bincount (rows : list Z) (n_row : Z) : list Z :=
  map (fun r => Z.of_nat (length (filter (Z.eqb r) rows))) (zrange n_row).

Fixpoint cumsum (acc : Z) (l : list Z) : list Z :=
  match l with [] => [] | x :: r => (acc + x) :: cumsum (acc + x) r end.

Definition coo_csr_indptr (dtype_code bits : Z) (signed : bool) (rows : list Z) (n_row : Z) : list Z :=
  let store := if dtype_code =? 1 then wrap_int bits signed else (fun z => z) in
  store 0 :: map store (cumsum 0 (bincount rows n_row)).

Definition coo_indptr_a := coo_csr_indptr s_coo_indptr_dtype_a.
Definition coo_indptr_b := coo_csr_indptr s_coo_indptr_dtype_b.

(* every value buffer / accumulator of the kernels (sums, data, out) is allocated in the result dtype dtr: the
   theorems compute in the carrier V of the result; a float64 accumulator (as _dot_csc_ndarray_sparse once had)
   rounds int64 sums beyond 2**53 and cannot hold complex values *)
Definition dot_value_buffers_typed : bool := forallb (fun c => c =? 2) s_dot_data_allocs.

(* every pointer / index / counter array of the product paths is allocated wide (np.intp or the platform integer) *)
Definition dot_index_arrays_wide : bool := forallb (fun c => (c =? 0) || (c =? 3)) s_dot_index_allocs.

(* ---------------------------------------------------------------------- tensordot: kind of the zero-size result *)
(* the block taken when the contracted extent is 0:  res = COO(empty);
     if return_type is None and (a or b is an ndarray): return_type = np.ndarray
     if return_type == np.ndarray: res = res.todense()  elif return_type == GCXS: res = res.asformat("gcxs") *)
Definition td_shortcut_kind (ka kb : okind) (rt : rtype) : rkind :=
  let rt' := match rt with
             | RNone => if negb (is_sparse_kind ka) || negb (is_sparse_kind kb) then RNd else RNone
             | _ => rt end in
  match rt' with RNd => ONd | RGcxs => OGcxsAuto | _ => OCoo end.

Fixpoint table4_lookup (t : list (Z * Z * Z * Z)) (a b c : Z) : option Z :=
  match t with
  | [] => None
  | (a', b', c', r) :: t' => if (a =? a') && (b =? b') && (c =? c') then Some r else table4_lookup t' a b c
  end.
Definition source_shortcut_kind (ka kb : okind) (rt : rtype) : option Z :=
  table4_lookup s_td_shortcut_kinds (okind_code ka) (okind_code kb) (rtype_code rt).

(* ---------------------------------------------------------------------- einsum: letters standing for `...` *)
(* _parse_einsum_input replaces `...` in a term whose ellipsis covers k axes by k letters of the pool of unused
   letters, and in the output by `longest` letters (none when the count is 0).  Which end of the pool: Gen/S_dot.v. *)
Definition take_letters (from_end : bool) (pool : list Z) (k : nat) : list Z :=
  if from_end then skipn (length pool - k) pool else firstn k pool.
Definition es_rep_letters (pool : list Z) (k : nat) : list Z :=
  match k with O => [] | _ => take_letters s_es_rep_from_end pool k end.
Definition es_out_letters (pool : list Z) (longest : nat) : list Z :=
  match longest with O => [] | _ => take_letters s_es_out_from_end pool longest end.
