(* Model/Crc32.v — CRC-32 as zlib computes it (reflected polynomial 0xEDB88320, initial value and final xor
   0xFFFFFFFF, one byte at a time, eight shift steps per byte), and the part of a zip archive that
   ZipFile.testzip() looks at: every member's payload and the CRC stored for it.  Definitions only
   (proofs: Proofs/Crc32P.v).  The function is validated against zlib.crc32 and against the CRC fields of real
   np.savez archives by the correspondence of tools/props/c14.py. *)
From Coq Require Import ZArith List Bool String.
Import ListNotations.
Open Scope Z_scope.

Definition crc_poly : Z := 3988292384.     (* 0xEDB88320 *)
Definition crc_mask : Z := 4294967295.     (* 0xFFFFFFFF *)

(* one bit: crc = (crc >> 1) ^ (poly if crc & 1 else 0) *)
Definition crc_step (s : Z) : Z :=
  if Z.odd s then Z.lxor (Z.shiftr s 1) crc_poly else Z.shiftr s 1.

(* one byte: crc ^= byte, then eight steps *)
Definition crc_byte (s b : Z) : Z :=
  crc_step (crc_step (crc_step (crc_step (crc_step (crc_step (crc_step (crc_step (Z.lxor s b)))))))).

Definition crc32_update (s : Z) (msg : list Z) : Z := fold_left crc_byte msg s.

(* zlib.crc32(bytes(msg)) *)
Definition crc32 (msg : list Z) : Z := Z.lxor (crc32_update crc_mask msg) crc_mask.

Definition byte_ok (b : Z) : Prop := 0 <= b < 256.
Definition bytes_ok (msg : list Z) : Prop := Forall byte_ok msg.

(* msg with position i replaced by b *)
Definition set_byte (msg : list Z) (i : nat) (b : Z) : list Z :=
  firstn i msg ++ b :: skipn (S i) msg.

(* ---- the view ZipFile.testzip() has of an archive: it reads every member to its end, recomputing the CRC-32 of
   the (decompressed) payload, and compares with the CRC recorded for the member *)
Record zmember := mkZM { zm_name : string; zm_payload : list Z; zm_crc : Z }.
Definition zarchive := list zmember.

Definition member_verifies (m : zmember) : bool := crc32 (zm_payload m) =? zm_crc m.
(* testzip() is None *)
Definition testzip_passes (a : zarchive) : bool := forallb member_verifies a.

(* what the writer produced: each recorded CRC is the CRC-32 of the payload *)
Definition written_ok (a : zarchive) : Prop :=
  Forall (fun m => zm_crc m = crc32 (zm_payload m) /\ bytes_ok (zm_payload m)) a.

(* one byte of the payload of member k is altered (stored members: a byte of the file; deflated members: a byte of
   the decompressed stream) *)
Fixpoint corrupt (a : zarchive) (k : nat) (i : nat) (b : Z) : zarchive :=
  match a, k with
  | [], _ => []
  | m :: r, O => mkZM (zm_name m) (set_byte (zm_payload m) i b) (zm_crc m) :: r
  | m :: r, S k' => m :: corrupt r k' i b
  end.
