(* Model/Convert.v — construction and format conversion (property C05).  Definitions only.

   Transcribed from sparse/numba_backend:
     _coo/core.py      COO.__init__ (coo_make: _sort_indices, _sum_duplicates, _prune), from_iter,
                       reshape (unravel_strided loop), transpose, asformat
     _compressed/compressed.py   _from_coo (gcxs_from_coo), GCXS.tocoo (gcxs_tocoo),
                       change_compressed_axes (gcxs_change_axes), todense, asformat, CSR/CSC
     _compressed/convert.py      uncompress_dimension (= GCXS.row_numbers), unravel_index (unravel_k),
                       ravel_multi_index (ravel_k), _convert_coords (convert_coord), _transpose
     _dok.py           DOK.from_coo, asformat -> COO.from_iter, todense
   NumPy primitives (stable argsort, bincount, cumsum) are given list definitions here and are
   validated against NumPy by the kernel-level correspondence of tools/props/c05.py.

   np.argsort without kind= (unstable) in _from_coo is modelled by the stable sort: the theorems
   about it assume a canonical COO, whose linearised keys are pairwise distinct, so every sorting
   permutation is the same. *)
From Coq Require Import ZArith List Bool.
From Verif Require Import Py Shape COO GCXS S_convert.
Import ListNotations.
Open Scope Z_scope.

(* ------------------------------------------------------------------ NumPy primitives *)
Section Prims.
  Context {A : Type}.

  (* insertion of (k, x) before the first entry whose key is >= k: stable *)
  Fixpoint insert_key (k : Z) (x : A) (l : list (Z * A)) : list (Z * A) :=
    match l with
    | [] => [(k, x)]
    | (k', y) :: r => if k <=? k' then (k, x) :: l else (k', y) :: insert_key k x r
    end.

  (* np.argsort(keys, kind="mergesort") applied to the payloads: the stable sorting permutation *)
  Definition stable_sort (l : list (Z * A)) : list (Z * A) :=
    fold_right (fun p acc => insert_key (fst p) (snd p) acc) [] l.
End Prims.

Definition count_z (l : list Z) (r : Z) : Z := Z.of_nat (length (filter (Z.eqb r) l)).

(* np.bincount(l, minlength=m) for entries in [0, m) *)
Definition bincount (l : list Z) (m : Z) : list Z := map (count_z l) (zrange m).

Fixpoint cumsum_from (acc : Z) (l : list Z) : list Z :=
  match l with [] => [] | x :: r => (acc + x) :: cumsum_from (acc + x) r end.

(* indptr[0] = 0; np.cumsum(np.bincount(rows, minlength=m), out=indptr[1:]) *)
Definition indptr_of (rows : list Z) (m : Z) : list Z := 0 :: cumsum_from 0 (bincount rows m).

(* (np.diff(l) != 0).all() *)
Fixpoint adjacent_distinct (l : list Z) : bool :=
  match l with
  | [] => true
  | a :: r => match r with [] => true | b :: _ => negb (a =? b) && adjacent_distinct r end
  end.

(* np.argmin: first position of the minimum *)
Fixpoint argmin_from (best bi i : Z) (l : list Z) : Z :=
  match l with
  | [] => bi
  | x :: r => if x <? best then argmin_from x i (i + 1) r else argmin_from best bi (i + 1) r
  end.
Definition argmin (l : list Z) : Z := match l with [] => 0 | x :: r => argmin_from x 0 1 r end.

(* position of a in l (length l when absent): np.argsort of a permutation is its inverse *)
Fixpoint index_of (a : Z) (l : list Z) : Z :=
  match l with [] => 0 | x :: r => if x =? a then 0 else 1 + index_of a r end.
Definition inv_perm (ord : list Z) : list Z :=
  map (fun a => index_of a ord) (zrange (Z.of_nat (length ord))).

(* t[axes] *)
Definition gather (t : idx) (axes : list Z) : idx := map (fun a => znth t a 0) axes.

(* the loop  `for i, d in enumerate(shape[::-1]): coords[-(i+1)] = (n // strides) % d; strides *= d`
   of COO.reshape and _from_coo *)
Definition unravel_strided (sh : shape) (n : Z) : idx :=
  fst (fold_right (fun d acc => (((n / snd acc) mod d) :: fst acc, snd acc * d)) ([], 1) sh).

(* convert.unravel_index(n, shape): `while i < len(shape) and n > 0` with the early exit *)
Fixpoint unravel_k_go (t : shape) (n : Z) : idx :=
  match t with
  | [] => [n]
  | _ :: t' =>
    if 0 <? n then let cur := size t in let q := n / cur in q :: unravel_k_go t' (n - q * cur)
    else repeat 0 (length t) ++ [n]
  end.
Definition unravel_k (n : Z) (sh : shape) : idx :=
  match sh with [] => [] | _ :: t => unravel_k_go t n end.

(* convert.ravel_multi_index(arr, shape) *)
Fixpoint ravel_k_go (arr : idx) (t : shape) (total : Z) : Z :=
  match arr with
  | [] => total
  | [a] => total + a
  | a :: arr' => ravel_k_go arr' (tl t) (total + a * size t)
  end.
Definition ravel_k (arr : idx) (sh : shape) : Z := ravel_k_go arr (tl sh) 0.

Definition is_nil {A} (l : list A) : bool := match l with [] => true | _ => false end.

Definition zlist_eqb : list Z -> list Z -> bool := idx_eqb.

(* ------------------------------------------------------------------ index dtype of the compressed arrays *)
(* _from_coo writes row numbers, indices and pointers into arrays of dtype idx_dtype by plain array
   assignment (values that do not fit wrap silently).  The dtype is either the given one — then
   can_store(idx_dtype, E3) was checked —, or the coordinate dtype if can_store(it, E1), or
   np.min_scalar_type(E2): in every case it holds every v with 0 <= v <= the capacity below.  E1, E2, E3
   (and E4 of _transpose, through get_out_dtype) are extracted from the source: Gen/S_convert.v. *)
Definition from_coo_capacity (sh : shape) (ca : list Z) (nnz : Z) : Z :=
  let rsh := reordered_shape sh ca in
  let rs := row_size sh ca in
  let cs := col_size sh ca in
  Z.min (Z.min (s_from_coo_auto_check sh rsh [rs; cs] rs cs nnz) (s_from_coo_auto_choose sh rsh [rs; cs] rs cs nnz))
        (s_from_coo_explicit_check sh rsh [rs; cs] rs cs nnz).

Definition transpose_capacity (sh : shape) (new_ca : list Z) (nnz : Z) : Z :=
  s_transpose_bound sh (reordered_shape sh new_ca) [row_size sh new_ca; col_size sh new_ca]
                    (row_size sh new_ca) (col_size sh new_ca) nnz.

Definition fitsb (cap : Z) (l : list Z) : bool := forallb (fun v => (0 <=? v) && (v <=? cap)) l.

(* check_compressed_axes after normalize_axis: non-empty, sorted without repeats, in range, not all axes *)
Definition caxes_checkb (ndim : Z) (ca : list Z) : bool :=
  negb (is_nil ca) && (Z.of_nat (length ca) <? ndim) && strictly_increasing ca
  && forallb (fun a => (0 <=? a) && (a <? ndim)) ca.

(* the hypothesis of the theorems (weaker than the check: any order without repeats) *)
Definition caxes_okb (ndim : Z) (ca : list Z) : bool :=
  negb (is_nil ca) && (Z.of_nat (length ca) <? ndim) && NoDupb ca
  && forallb (fun a => (0 <=? a) && (a <? ndim)) ca.

Section Conv.
  Variable V : Type.
  Variable veqb : V -> V -> bool.
  Variable add : V -> V -> V.

  (* -------------------------------------------------------------- COO.__init__ *)
  Definition keys_of (sh : shape) (es : list (idx * V)) : list Z := map (fun kv => ravel sh (fst kv)) es.

  (* _sort_indices: nothing when already sorted, else the stable argsort of linear_loc *)
  Definition sort_indices (sh : shape) (es : list (idx * V)) : list (idx * V) :=
    let lin := keys_of sh es in
    if nondecreasing lin then es else map snd (stable_sort (combine lin es)).

  (* np.add.reduceat over runs of equal linear location: left-to-right sums, first coordinate kept *)
  Fixpoint sum_dups_from (sh : shape) (c : idx) (acc : V) (r : list (idx * V)) : list (idx * V) :=
    match r with
    | [] => [(c, acc)]
    | (c', v') :: r' =>
      if ravel sh c' =? ravel sh c then sum_dups_from sh c (add acc v') r'
      else (c, acc) :: sum_dups_from sh c' v' r'
    end.

  Definition sum_duplicates (sh : shape) (es : list (idx * V)) : list (idx * V) :=
    if adjacent_distinct (keys_of sh es) then es
    else match es with [] => [] | (c, v) :: r => sum_dups_from sh c v r end.

  Definition prune_entries (fill : V) (es : list (idx * V)) : list (idx * V) :=
    filter (fun kv => negb (veqb (snd kv) fill)) es.

  Definition coo_of_entries (sh : shape) (es : list (idx * V)) (fill : V) : coo V :=
    mkCOO sh (map fst es) (map snd es) fill.

  Definition coo_make (sorted hasdup prune : bool) (sh : shape) (coords : list idx) (data : list V) (fill : V) : coo V :=
    let es0 := combine coords data in
    let es1 := if sorted then es0 else sort_indices sh es0 in
    let es2 := if hasdup then sum_duplicates sh es1 else es1 in
    let es3 := if prune then prune_entries fill es2 else es2 in
    coo_of_entries sh es3 fill.

  (* the checks the constructor performs (length; np.ravel_multi_index rejects out-of-range
     coordinates, but only when it is called, i.e. unless sorted=True and has_duplicates=False) *)
  Definition coo_make_checked (sorted hasdup prune : bool) sh coords data fill : res (coo V) :=
    if negb (length data =? length coords)%nat then Raise ValueError
    else if (negb sorted || hasdup) && negb (forallb (in_rangeb sh) coords) then Raise ValueError
    else Ok (coo_make sorted hasdup prune sh coords data fill).

  (* COO.from_iter on index/value pairs (a dict's items, or an iterable of pairs, or (data, coords)):
     the keys become the coordinate matrix, the constructor sorts and sums.  (0-d keys `()`: the empty
     coordinate array NumPy builds is cast to intp since fix e0a1c30, so they are accepted like any
     other.) *)
  Definition from_iter_pairs (sh : shape) (items : list (idx * V)) (fill : V) : res (coo V) :=
    coo_make_checked false true false sh (map fst items) (map snd items) fill.

  (* COO.reshape (same size): linear location, then the strided unravel; flags sorted=True,
     has_duplicates=False *)
  Definition coo_reshape (c : coo V) (newsh : shape) : coo V :=
    if zlist_eqb (c_shape c) newsh then c
    else coo_make true false false newsh
           (map (fun ix => unravel_strided newsh (ravel (c_shape c) ix)) (c_coords c)) (c_data c) (c_fill c).

  (* COO.transpose: coords[axes, :], re-sorted (has_duplicates=False); identity axes return self *)
  Definition coo_transpose (c : coo V) (axes : list Z) : coo V :=
    if zlist_eqb axes (zrange (Z.of_nat (length (c_shape c)))) then c
    else coo_make false false false (gather (c_shape c) axes)
           (map (fun ix => gather ix axes) (c_coords c)) (c_data c) (c_fill c).

  (* -------------------------------------------------------------- _from_coo *)
  Definition gcxs_from_coo (c : coo V) (ca : list Z) : gcxs V :=
    let sh := c_shape c in
    match sh with
    | [] => mkGCXS sh [] (c_data c) [] [] (c_fill c)
    | [_] => mkGCXS sh [] (c_data c) (map (fun ix => znth ix 0 0) (c_coords c)) [] (c_fill c)
    | _ =>
      let ord := axis_order (Z.of_nat (length sh)) ca in
      let rsh := reordered_shape sh ca in
      let rs := row_size sh ca in
      let cs := col_size sh ca in
      let lin := map (fun ix => ravel rsh (gather ix ord)) (c_coords c) in
      let s := stable_sort (combine lin (c_data c)) in
      let rc := map (fun p => unravel_strided [rs; cs] (fst p)) s in
      mkGCXS sh ca (map snd s) (map (fun t => znth t 1 0) rc)
             (indptr_of (map (fun t => znth t 0 0) rc) rs) (c_fill c)
    end.

  (* compressed_axes argument of GCXS.from_coo / asformat("gcxs", compressed_axes=...):
     None -> (argmin(shape),) for ndim >= 2; ndim < 2 accepts only None *)
  Definition normalize_axes (ndim : Z) (ca : list Z) : list Z :=
    map (fun a => if a <? 0 then a + ndim else a) ca.

  Definition resolve_axes (sh : shape) (oa : option (list Z)) : res (list Z) :=
    let ndim := Z.of_nat (length sh) in
    if ndim <? 2 then match oa with None => Ok [] | Some _ => Raise ValueError end
    else match oa with
         | None => Ok [argmin sh]
         | Some ca =>
           if forallb (fun a => (- ndim <=? a) && (a <? ndim)) ca
              && caxes_checkb ndim (normalize_axes ndim ca)
           then Ok (normalize_axes ndim ca) else Raise ValueError
         end.

  (* -------------------------------------------------------------- GCXS.tocoo *)
  Definition gcxs_tocoo (g : gcxs V) : coo V :=
    let sh := g_shape g in
    match sh with
    | [] => coo_make false true false [] (map (fun _ => []) (g_data g)) (g_data g) (g_fill g)
    | [_] => coo_make false true false sh (map (fun i => [i]) (g_indices g)) (g_data g) (g_fill g)
    | _ =>
      let ca := g_caxes g in
      let ord := axis_order (Z.of_nat (length sh)) ca in
      let rsh := reordered_shape sh ca in
      let rs := row_size sh ca in
      let cs := col_size sh ca in
      let rows := row_numbers (g_indptr g) in           (* uncompress_dimension *)
      let c1 := coo_make false true false [rs; cs]
                  (map (fun rc => [fst rc; snd rc]) (combine rows (g_indices g))) (g_data g) (g_fill g) in
      coo_transpose (coo_reshape c1 rsh) (inv_perm ord)
    end.

  (* -------------------------------------------------------------- change_compressed_axes / _transpose *)
  (* one iteration of _convert_coords with transpose=False: n is a linear location in the old
     compressed (= reordered) shape; result (new_linear, [row; col]) *)
  Definition convert_coord (n : Z) (old_shape rsh : shape) (sorted_axis_order : list Z)
             (sh : shape) (new_ord : list Z) (new_rsh : shape) (new_cshape : shape) : Z * idx :=
    let current := gather (unravel_k n rsh) sorted_axis_order in
    let c_current := ravel_k current old_shape in
    let c_compressed := gather (unravel_k c_current sh) new_ord in
    let new_linear := ravel_k c_compressed new_rsh in
    (new_linear, unravel_k new_linear new_cshape).

  (* _transpose(x, x.shape, arange(ndim), new_ca) for ndim >= 2 *)
  Definition gcxs_transpose_same (g : gcxs V) (new_ca : list Z) : gcxs V :=
    let sh := g_shape g in
    let ndim := Z.of_nat (length sh) in
    let ca := g_caxes g in
    let rsh := reordered_shape sh ca in
    let rows := row_numbers (g_indptr g) in
    let linear := map (fun rc => ravel [row_size sh ca; col_size sh ca] [fst rc; snd rc])
                      (combine rows (g_indices g)) in
    let sorted_axis_order := inv_perm (axis_order ndim ca) in
    let new_ord := axis_order ndim new_ca in
    let new_rsh := reordered_shape sh new_ca in
    let rs := row_size sh new_ca in
    let cs := col_size sh new_ca in
    let conv := map (fun n => convert_coord n sh rsh sorted_axis_order sh new_ord new_rsh [rs; cs]) linear in
    let s := stable_sort (combine (map fst conv) (combine (map snd conv) (g_data g))) in
    let rc := map (fun p => fst (snd p)) s in
    mkGCXS sh new_ca (map (fun p => snd (snd p)) s) (map (fun t => znth t 1 0) rc)
           (indptr_of (map (fun t => znth t 0 0) rc) rs) (g_fill g).

  (* GCXS.change_compressed_axes(new) for an already normalised, checked `new` *)
  Definition gcxs_change_axes (g : gcxs V) (new_ca : list Z) : gcxs V :=
    if zlist_eqb new_ca (g_caxes g) then g else gcxs_transpose_same g new_ca.

  (* -------------------------------------------------------------- DOK *)
  (* the dict: association list in insertion order; assignment to a present key replaces in place *)
  Fixpoint dict_set (k : idx) (v : V) (d : list (idx * V)) : list (idx * V) :=
    match d with
    | [] => [(k, v)]
    | (k', w) :: r => if idx_eqb k' k then (k', v) :: r else (k', w) :: dict_set k v r
    end.

  (* DOK.from_coo: ar.data[tuple(c)] = d for every stored entry in order *)
  Definition dok_items_of_coo (c : coo V) : list (idx * V) :=
    fold_left (fun d kv => dict_set (fst kv) (snd kv) d) (entries c) [].

  (* -------------------------------------------------------------- formats and chains *)
  Inductive fmt := FCoo | FGcxs (oa : option (list Z)) | FCsr | FCsc | FDok | FDense.

  (* RDense carries the fill value the caller passes back to from_numpy(…, fill_value=…): a dense
     array has none of its own *)
  Inductive repr :=
  | RCoo (c : coo V)
  | RGcxs (g : gcxs V)
  | RDok (sh : shape) (items : list (idx * V)) (fill : V)
  | RDense (d : dense V) (fill : V).

  Definition shape_r (r : repr) : shape :=
    match r with RCoo c => c_shape c | RGcxs g => g_shape g | RDok sh _ _ => sh | RDense d _ => d_shape d end.
  Definition fill_r (r : repr) : V :=
    match r with RCoo c => c_fill c | RGcxs g => g_fill g | RDok _ _ f => f | RDense _ f => f end.

  Definition dok_as_coo (sh : shape) (items : list (idx * V)) (fill : V) : coo V :=
    mkCOO sh (map fst items) (map snd items) fill.
  Definition dense_as_coo (d : dense V) (fill : V) : coo V :=
    mkCOO (d_shape d) (all_indices (d_shape d)) (d_flat d) fill.

  (* the dense meaning of a representation *)
  Definition den_r (r : repr) (ix : idx) : V :=
    match r with
    | RCoo c => den c ix
    | RGcxs g => gden g ix
    | RDok sh it f => den (dok_as_coo sh it f) ix
    | RDense d f => den (dense_as_coo d f) ix
    end.

  Fixpoint NoDup_idxb (l : list idx) : bool :=
    match l with [] => true | a :: r => negb (existsb (idx_eqb a) r) && NoDup_idxb r end.

  Definition shape_okb (sh : shape) : bool := forallb (fun d => 0 <=? d) sh.

  Definition wf_r (r : repr) : bool :=
    match r with
    | RCoo c => canonicalb c && shape_okb (c_shape c)
    | RGcxs g => gcxs_wfb g
    | RDok sh it _ => forallb (fun kv => in_rangeb sh (fst kv)) it && NoDup_idxb (map fst it) && shape_okb sh
    | RDense d _ => (length (d_flat d) =? length (all_indices (d_shape d)))%nat && shape_okb (d_shape d)
    end.

  (* x.todense() *)
  Definition gcxs_todense (g : gcxs V) : dense V :=
    match g_shape g with
    | [] => mkDense [] [match g_data g with [] => g_fill g | v :: _ => v end]
    | [_] => todense (gcxs_as_coo g)          (* out[self.indices] = self.data *)
    | _ => todense (gcxs_tocoo g)
    end.

  Definition todense_r (r : repr) : dense V :=
    match r with
    | RCoo c => todense c
    | RGcxs g => gcxs_todense g
    | RDok sh it f => todense (dok_as_coo sh it f)   (* result[c] = d for every item *)
    | RDense d _ => d
    end.

  (* x.asformat("coo") / COO.from_numpy(d, fill_value=f) *)
  Definition to_coo (r : repr) : res (coo V) :=
    match r with
    | RCoo c => Ok c
    | RGcxs g => Ok (gcxs_tocoo g)
    | RDok sh it f => from_iter_pairs sh it f
    | RDense d f => Ok (from_dense veqb d f)
    end.

  Definition require_2d (sh : shape) : res unit :=
    match sh with [_; _] => Ok tt | _ => Raise ValueError end.

  (* COO/DOK/ndarray -> GCXS goes through a COO and _from_coo; GCXS -> GCXS changes the axes *)
  Definition to_gcxs (r : repr) (oa : option (list Z)) : res (gcxs V) :=
    match r with
    | RGcxs g =>
      match oa with
      | None => Ok g
      | Some _ =>
        if Z.of_nat (length (g_shape g)) <? 2 then Raise ValueError
        else ca <- resolve_axes (g_shape g) oa ;; Ok (gcxs_change_axes g ca)
      end
    | _ => c <- to_coo r ;; ca <- resolve_axes (c_shape c) oa ;; Ok (gcxs_from_coo c ca)
    end.

  (* asformat("csr") = CSR(asformat("gcxs")): 2-d only, compressed axes forced to (0,) *)
  Definition to_cs (r : repr) (axis : Z) : res (gcxs V) :=
    match r with
    | RDense d f => _ <- require_2d (d_shape d) ;; Ok (gcxs_from_coo (from_dense veqb d f) [axis])
    | _ => g <- to_gcxs r None ;; _ <- require_2d (g_shape g) ;; Ok (gcxs_change_axes g [axis])
    end.

  Definition convert (f : fmt) (r : repr) : res repr :=
    match f with
    | FCoo => c <- to_coo r ;; Ok (RCoo c)
    | FGcxs oa => g <- to_gcxs r oa ;; Ok (RGcxs g)
    | FCsr => g <- to_cs r 0 ;; Ok (RGcxs g)
    | FCsc => g <- to_cs r 1 ;; Ok (RGcxs g)
    | FDok =>
      match r with
      | RDok _ _ _ => Ok r
      | _ => c <- to_coo r ;; Ok (RDok (c_shape c) (dok_items_of_coo c) (c_fill c))
      end
    | FDense => Ok (RDense (todense_r r) (fill_r r))
    end.

  Definition step (r : res repr) (f : fmt) : res repr := bind r (convert f).
  Definition run_chain (x : repr) (hops : list fmt) : res repr := fold_left step hops (Ok x).

  (* every intermediate result, for the correspondence *)
  Fixpoint run_trace (x : res repr) (hops : list fmt) : list (res repr) :=
    match hops with [] => [] | f :: r => let y := step x f in y :: run_trace y r end.

  (* a hop the code accepts on an array of shape sh *)
  Definition hop_okb (sh : shape) (f : fmt) : bool :=
    match f with
    | FGcxs oa => match resolve_axes sh oa with Ok _ => true | Raise _ => false end
    | FCsr | FCsc => match sh with [_; _] => true | _ => false end
    | _ => true
    end.
End Conv.

Arguments coo_make {V}.
Arguments coo_make_checked {V}.
Arguments from_iter_pairs {V}.
Arguments coo_reshape {V}.
Arguments coo_transpose {V}.
Arguments gcxs_from_coo {V}.
Arguments gcxs_tocoo {V}.
Arguments gcxs_transpose_same {V}.
Arguments gcxs_change_axes {V}.
Arguments dok_items_of_coo {V}.
Arguments RCoo {V}.
Arguments RGcxs {V}.
Arguments RDok {V}.
Arguments RDense {V}.
Arguments keys_of {V}.
Arguments sort_indices {V}.
Arguments sum_dups_from {V}.
Arguments sum_duplicates {V}.
Arguments prune_entries {V}.
Arguments coo_of_entries {V}.
Arguments dict_set {V}.
Arguments shape_r {V}.
Arguments fill_r {V}.
Arguments dok_as_coo {V}.
Arguments dense_as_coo {V}.
Arguments den_r {V}.
Arguments wf_r {V}.
Arguments gcxs_todense {V}.
Arguments todense_r {V}.
Arguments to_coo {V}.
Arguments to_gcxs {V}.
Arguments to_cs {V}.
Arguments convert {V}.
Arguments step {V}.
Arguments run_chain {V}.
Arguments run_trace {V}.
