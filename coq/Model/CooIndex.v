(* Model/CooIndex.v — what sparse/numba_backend/_slicing.normalize_index and
   sparse/numba_backend/_coo/indexing.getitem do, with the same branch structure.  Scalar decisions
   are the *generated* definitions of Gen/G_slicing.v and Gen/S_indexing.v (regenerated from /repo
   on every run); the list plumbing around them is transcribed by hand.  Definitions only.

   Positions into coords/data are nat (list positions); everything else is Z.
   The cost heuristic of _compute_mask (a floating-point comparison deciding when to stop narrowing
   start/stop pairs by binary search and start filtering linearly) is abstracted to an ARBITRARY
   cut-over position k, one per call of _compute_mask. *)
From Coq Require Import ZArith List Bool.
From Verif Require Import Py PyExt PyIndex G_slicing S_indexing PySlice Slicing Shape COO NpIndex.
Import ListNotations.
Open Scope Z_scope.

(* ================================================================ normalize_index *)

Definition pv_of (e : ientry) : pyv :=
  match e with
  | IInt z => VInt z
  | ISlice a b c => VSlice (oz a) (oz b) (oz c)
  | INone => VNone
  | IEllipsis => VEllipsis
  | IArr l => VArr l
  | IBArr l => VBArr l
  end.

Definition full_pv : pyv := VSlice VNone VNone VNone.

(* none_shape: the extent each entry faces (None entries face nothing) *)
Fixpoint none_shape (ix : list pyv) (sh : shape) : res (list pyv) :=
  match ix with
  | [] => Ok []
  | VNone :: r => ns <- none_shape r sh ;; Ok (VNone :: ns)
  | _ :: r =>
    match sh with
    | [] => Raise IndexError                                   (* shape[i] out of range: excluded by s_too_many *)
    | d :: sh' => ns <- none_shape r sh' ;; Ok (VInt d :: ns)
    end
  end.

(* for i, d in zip(idx, none_shape): if d is not None: check_index(i, d) *)
Fixpoint check_all (ix ns : list pyv) : res unit :=
  match ix, ns with
  | i :: r, d :: rn =>
    _ <- (if is_none d then Ok VNone else g_check_index i d) ;; check_all r rn
  | _, _ => Ok tt
  end.

(* sanitize_index *)
Definition sanitize (v : pyv) : res pyv :=
  match v with
  | VNone => Ok VNone
  | VSlice a b c =>
    a' <- g_sanitize_index_element a ;; b' <- g_sanitize_index_element b ;;
    c' <- g_sanitize_index_element c ;; Ok (VSlice a' b' c')
  | VInt _ | VBool _ => g_sanitize_index_element v
  | VArr l => Ok (VArr l)
  | VBArr l => Ok (VArr (nonzero_from 0 l))
  | _ => Raise IndexError
  end.

(* replace_none, posify_index, clip_slice of one sanitized entry *)
Definition norm_entry (v d : pyv) : res pyv :=
  a <- g_replace_none v d ;;
  b <- g_posify_index d a ;;
  g_clip_slice b d.

Fixpoint map_res {A B} (f : A -> res B) (l : list A) : res (list B) :=
  match l with
  | [] => Ok []
  | a :: r => b <- f a ;; bs <- map_res f r ;; Ok (b :: bs)
  end.

Fixpoint map2_res {A B C} (f : A -> B -> res C) (l : list A) (m : list B) : res (list C) :=
  match l, m with
  | a :: r, b :: s => c <- f a b ;; cs <- map2_res f r s ;; Ok (c :: cs)
  | _, _ => Ok []
  end.

Definition shape_pv (sh : shape) : pyv := VTuple (map VInt sh).

(* replace_ellipsis, the n_sliced_dims count, the padding with full slices, the too-many test *)
Definition expand_pv (ix : list pyv) (sh : shape) : res (list pyv) :=
  r <- g_replace_ellipsis (VInt (Z.of_nat (length sh))) (VTuple ix) ;;
  match r with
  | VTuple ix1 =>
    n <- fold_left (fun acc i => a <- acc ;; s_count_sliced a i) ix1 (Ok (VInt 0)) ;;
    pad <- s_pad_count (shape_pv sh) n ;;
    match pad with
    | VInt p =>
      let ix2 := ix1 ++ repeat full_pv (Z.to_nat p) in
      tm <- s_too_many (VTuple ix2) (shape_pv sh) ;;
      if cond tm then Raise IndexError else Ok ix2
    | _ => Raise TypeError
    end
  | _ => Raise TypeError
  end.

(* none_shape, check_index on every entry, then sanitize / replace_none / posify / clip on every entry *)
Definition entries_pv (ix2 : list pyv) (sh : shape) : res (list pyv) :=
  ns <- none_shape ix2 sh ;;
  _ <- check_all ix2 ns ;;
  ix3 <- map_res sanitize ix2 ;;
  map2_res norm_entry ix3 ns.

Definition normalize_index_pv (ix : list pyv) (sh : shape) : res (list pyv) :=
  ix2 <- expand_pv ix sh ;; entries_pv ix2 sh.

(* the normalised index as getitem sees it *)
Inductive nentry :=
| NInt (i : Z)
| NSlice (s e st : Z)
| NNone
| NArr (l : list Z).

Definition nentry_of (v : pyv) : res nentry :=
  match v with
  | VInt i => Ok (NInt i)
  | VSlice (VInt s) (VInt e) (VInt st) => Ok (NSlice s e st)
  | VNone => Ok NNone
  | VArr l => Ok (NArr l)
  | _ => Raise OtherError
  end.

Definition normalize_index (ix : index) (sh : shape) : res (list nentry) :=
  l <- normalize_index_pv (map pv_of ix) sh ;; map_res nentry_of l.

(* ================================================================ the mask kernels *)

Definition triple := (Z * Z * Z)%type.        (* one row [start, stop, step] of the `indices` array *)
Definition points := list idx.                (* coords, one index tuple per stored element *)

Definition col (i : nat) (pts : points) : list Z := map (fun t => nth i t 0) pts.
Definition seg {A} (l : list A) (a b : nat) : list A := firstn (b - a) (skipn a l).

(* np.searchsorted(l, v, side): bisection (numpy/_core/src/npysort/binsearch.cpp) *)
Fixpoint bisect (fuel : nat) (below : Z -> bool) (l : list Z) (lo hi : nat) : nat :=
  match fuel with
  | O => lo
  | S f =>
    if (lo <? hi)%nat then
      let mid := (lo + (hi - lo) / 2)%nat in
      if below (nth mid l 0) then bisect f below l (S mid) hi else bisect f below l lo mid
    else lo
  end.
Definition searchsorted_left (l : list Z) (v : Z) : nat :=
  bisect (S (length l)) (fun x => x <? v) l 0 (length l).
Definition searchsorted_right (l : list Z) (v : Z) : nat :=
  bisect (S (length l)) (fun x => x <=? v) l 0 (length l).

(* range(start, stop, step) of a row *)
Definition row_range (t : triple) : list Z := let '(s, e, st) := t in range_list s e st.

(* _filter_pairs' match predicate (generated) *)
Definition match1 (t : triple) (c : Z) : bool :=
  let '(s, e, st) := t in pv_bool (s_filter_match (VInt s) (VInt e) (VInt st) (VInt c)).

Fixpoint match_all (inds : list triple) (t : idx) : bool :=
  match inds, t with
  | [], _ => true
  | i :: r, c :: t' => match1 i c && match_all r t'
  | _ :: _, [] => false
  end.

(* _get_mask_pairs: for every old pair and every p_match of the row, the sub-range of equal coordinates *)
Definition get_mask_pairs (ps : list (nat * nat)) (c : list Z) (t : triple) : list (nat * nat) :=
  flat_map (fun p : nat * nat =>
    let '(a, b) := p in
    flat_map (fun v =>
      let start := (searchsorted_left (seg c a b) v + a)%nat in
      let stop := (searchsorted_right (seg c a b) v + a)%nat in
      if (start =? stop)%nat then [] else [(start, stop)]) (row_range t)) ps.

Definition n_matches (ps : list (nat * nat)) : Z :=
  fold_right (fun p acc => Z.of_nat (snd p) - Z.of_nat (fst p) + acc) 0 ps.

(* _join_adjacent_pairs *)
Fixpoint join_from (a b : nat) (r : list (nat * nat)) : list (nat * nat) :=
  match r with
  | [] => [(a, b)]
  | (a', b') :: r' => if (a' =? b)%nat then join_from a b' r' else (a, b) :: join_from a' b' r'
  end.
Definition join_adjacent_pairs (ps : list (nat * nat)) : list (nat * nat) :=
  match ps with [] => [] | (a, b) :: r => join_from a b r end.

(* _filter_pairs: every position of every pair that matches the remaining rows on the remaining axes *)
Definition filter_pairs (ps : list (nat * nat)) (pts : points) (inds : list triple) : list nat :=
  flat_map (fun p : nat * nat =>
    filter (fun j => match_all inds (nth j pts [])) (seq (fst p) (snd p - fst p))) ps.

Inductive mask := MSlice (a b : nat) | MList (l : list nat).
Definition mask_positions (m : mask) : list nat :=
  match m with MSlice a b => seq a (b - a) | MList l => l end.

(* narrowing on the first k axes *)
Fixpoint narrow (k : nat) (i : nat) (ps : list (nat * nat)) (pts : points) (inds : list triple)
  : nat * list (nat * nat) * list triple :=
  match k, inds with
  | S k', t :: r => narrow k' (S i) (get_mask_pairs ps (col i pts) t) pts r
  | _, _ => (i, ps, inds)
  end.

(* _compute_mask with cut-over k (the loop leaves at i = min k (len indices)) *)
Definition compute_mask (k : nat) (pts : points) (inds : list triple) : mask :=
  let '(i, ps, rest) := narrow k 0 [(0%nat, length pts)] pts inds in
  let ps' := join_adjacent_pairs ps in
  match rest, ps' with
  | [], [(a, b)] => MSlice a b
  | _, _ => MList (filter_pairs ps' (map (skipn i) pts) rest)
  end.

(* ================================================================ _mask *)

Definition is_nnone (e : nentry) : bool := match e with NNone => true | _ => false end.
Definition slice_pv (s e st : Z) : pyv := VSlice (VInt s) (VInt e) (VInt st).

(* _prune_indices' two full-slice tests (generated) *)
Definition is_full (e : nentry) (d : Z) : bool :=
  match e with
  | NSlice s e' st =>
    pv_bool (s_prune_full_fwd (slice_pv s e' st) (VInt d)) || pv_bool (s_prune_full_rev (slice_pv s e' st) (VInt d))
  | _ => false
  end.

Fixpoint drop_full (l : list nentry) (sh : shape) : list nentry :=
  match l, sh with
  | e :: l', d :: sh' => if is_full e d then drop_full l' sh' else l
  | _, _ => l
  end.

Definition prune_indices (nix : list nentry) (sh : shape) : list nentry :=
  rev (drop_full (rev (filter (fun e => negb (is_nnone e)) nix)) (rev sh)).

(* _ind_ar_from_indices *)
Definition triple_of (e : nentry) : list triple :=
  match e with
  | NInt i => [(i, i + 1, 1)]
  | NSlice s e' st => [(s, e', st)]
  | _ => []
  end.

Definition is_narr (e : nentry) : bool := match e with NArr _ => true | _ => false end.

(* _separate_adv_indices: (plain rows, [(position, array)]) *)
Fixpoint adv_of (i : Z) (l : list nentry) : list (Z * list Z) :=
  match l with
  | [] => []
  | NArr a :: r => (i, a) :: adv_of (i + 1) r
  | _ :: r => adv_of (i + 1) r
  end.

Fixpoint insert_at {A} (n : nat) (x : A) (l : list A) : list A :=
  match n, l with
  | O, _ => x :: l
  | S n', a :: r => a :: insert_at n' x r
  | S _, [] => [x]
  end.

Definition mask_pos (k : nat) (pts : points) (inds : list triple) : list nat :=
  mask_positions (compute_mask k pts inds).

(* _compute_multi_mask: one call of _compute_mask per entry of the index array *)
Fixpoint multi_mask (kf : nat -> nat) (pts : points) (inds : list triple) (pos : nat)
         (i : nat) (adv : list Z) : list (nat * Z) :=
  match adv with
  | [] => []
  | aidx :: r =>
    map (fun p => (p, Z.of_nat i)) (mask_pos (kf i) pts (insert_at pos (aidx, aidx + 1, 1) inds))
    ++ multi_mask kf pts inds pos (S i) r
  end.

(* _compute_multi_axis_multi_mask: full_idx has len(indices)+len(adv) rows; the plain rows are written
   at every axis ix < ndim that is not an array axis — a write at ix >= rows is out of bounds (nopython
   kernels do no bounds checking): modelled as an explicit failure. *)
Fixpoint place_rows (ndim : nat) (ix : nat) (advpos : list Z) (inds : list triple) (full : list (option triple))
  : option (list (option triple)) :=
  match ndim with
  | O => Some full
  | S n' =>
    if existsb (Z.eqb (Z.of_nat ix)) advpos then place_rows n' (S ix) advpos inds full
    else
      match inds with
      | [] => None                                              (* indices[ixx] read out of bounds *)
      | t :: r =>
        if (ix <? length full)%nat
        then place_rows n' (S ix) advpos r (firstn ix full ++ [Some t] ++ skipn (S ix) full)
        else None                                               (* full_idx[ix] written out of bounds *)
      end
  end.

Fixpoint set_adv (full : list (option triple)) (adv : list (Z * list Z)) (i : nat) : list (option triple) :=
  match adv with
  | [] => full
  | (p, l) :: r =>
    let v := nth i l 0 in
    set_adv (firstn (Z.to_nat p) full ++ [Some (v, v + 1, 1)] ++ skipn (S (Z.to_nat p)) full) r i
  end.

Definition multi_axis_mask (kf : nat -> nat) (pts : points) (ndim : nat) (inds : list triple)
           (adv : list (Z * list Z)) (len : nat) : res (list (nat * Z)) :=
  let rows := (length inds + length adv)%nat in
  let full0 := repeat (@None triple) rows in
  match (match inds with [] => Some full0 | _ => place_rows ndim 0 (map fst adv) inds full0 end) with
  | None => Raise RuntimeError
  | Some full =>
    Ok (flat_map (fun i =>
          let rowsi := map (fun o => match o with Some t => t | None => (0, 0, 1) end) (set_adv full adv i) in
          map (fun p => (p, Z.of_nat i)) (mask_pos (kf i) pts rowsi)) (seq 0 len))
  end.

(* _mask: selected positions, each with its coordinate along the array axis (0 when there is none);
   the flag says whether the mask is a slice (only used by the kernel-level correspondence) *)
(* adv_pos is the Python value of _AdvIdxInfo.pos: an int for one array, a list for several *)
Record adv_info := mkAdv { adv_pos : pyv; adv_len : Z }.

Definition mask_of (kf : nat -> nat) (pts : points) (nix : list nentry) (sh : shape)
  : res (list (nat * Z) * option adv_info) :=
  let pr := prune_indices nix sh in
  let inds := flat_map triple_of pr in
  match adv_of 0 pr with
  | [] => Ok (map (fun p => (p, 0)) (mask_pos (kf O) pts inds), None)
  | [(p, l)] =>
    Ok (multi_mask kf pts inds (Z.to_nat p) O l, Some (mkAdv (VInt p) (Z.of_nat (length l))))
  | (p, l) :: more =>
    if forallb (fun q => (length (snd q) =? length l)%nat) more then
      m <- multi_axis_mask kf pts (length sh) inds ((p, l) :: more) (length l) ;;
      Ok (m, Some (mkAdv (VTuple (map (fun q => VInt (fst q)) ((p, l) :: more))) (Z.of_nat (length l))))
    else Raise IndexError
  end.

(* ================================================================ getitem *)

(* coordinate map of a slice axis (generated) *)
Definition coord_map (s e st c : Z) : Z := pv_int (s_coord_map (VInt c) (slice_pv s e st)).
Definition slice_len (s e st : Z) : Z := pv_int (s_slice_len (slice_pv s e st)).

(* output coordinates of one selected element: t = its coordinates, a = its array-axis coordinate *)
Fixpoint build (nix : list nentry) (added : bool) (t : idx) (a : Z) : idx :=
  match nix with
  | [] => []
  | NInt _ :: r => build r added (tl t) a
  | NSlice s e st :: r => coord_map s e st (hd 0 t) :: build r added (tl t) a
  | NArr _ :: r => if added then build r true (tl t) a else a :: build r true (tl t) a
  | NNone :: r => 0 :: build r added t a
  end.

Fixpoint build_shape (nix : list nentry) (added : bool) (alen : Z) : shape :=
  match nix with
  | [] => []
  | NInt _ :: r => build_shape r added alen
  | NSlice s e st :: r => slice_len s e st :: build_shape r added alen
  | NArr _ :: r => if added then build_shape r true alen else alen :: build_shape r true alen
  | NNone :: r => 1 :: build_shape r added alen
  end.

(* sorted = adv_idx is None or adv_idx.pos == 0 ; then  if ind.step < 0: sorted = False  per slice *)
Definition sorted_flag (nix : list nentry) (adv : option adv_info) : bool :=
  let s0 := match adv with
            | None => s_sorted_init VNone (VInt 0)
            | Some a => s_sorted_init (VInt 1) (adv_pos a)
            end in
  pv_bool (fold_left (fun acc e =>
             match e with
             | NSlice s e' st => sv <- acc ;; s_sorted_step sv (slice_pv s e' st)
             | _ => acc
             end) nix s0).

(* the COO constructor with has_duplicates=False: sorted=False sorts (stable, by linearised index) *)
Section Ctor.
  Variable V : Type.

  Fixpoint insert_entry (e : idx * V) (l : list (idx * V)) : list (idx * V) :=
    match l with
    | [] => [e]
    | x :: r => if lex_ltb (fst e) (fst x) then e :: l else x :: insert_entry e r
    end.
  Definition sort_entries (l : list (idx * V)) : list (idx * V) := fold_right insert_entry [] l.

  Definition coo_make (sorted : bool) (sh : shape) (es : list (idx * V)) (fill : V) : coo V :=
    let es' := if sorted then es else sort_entries es in
    mkCOO sh (map fst es') (map snd es') fill.

  Inductive gres := GScalar (v : V) | GArr (c : coo V).

  Definition all_full (nix : list nentry) (sh : shape) : bool :=
    match nix with
    | [] => false
    | _ =>
      (length nix =? length sh)%nat &&
      forallb (fun p : nentry * Z =>
                 match fst p with
                 | NSlice s e st => (s =? 0) && (e =? snd p) && (st =? 1)
                 | _ => false
                 end) (combine nix sh)
    end.

  Definition last_is_ellipsis (ix : index) : bool :=
    match rev ix with IEllipsis :: _ => true | _ => false end.

  Definition getitem (kf : nat -> nat) (x : coo V) (ix : index) : res gres :=
    let sh := c_shape x in
    nix <- normalize_index ix sh ;;
    if all_full nix sh then Ok (GArr x)
    else
      '(m, adv) <- mask_of kf (c_coords x) nix sh ;;
      let alen := match adv with Some a => adv_len a | None => 0 end in
      let es := map (fun pa : nat * Z =>
                       (build nix false (nth (fst pa) (c_coords x) []) (snd pa),
                        nth (fst pa) (c_data x) (c_fill x))) m in
      let oshape := build_shape nix false alen in
      match oshape with
      | [] =>
        if last_is_ellipsis ix then Ok (GArr (mkCOO [] (map fst es) (map snd es) (c_fill x)))
        else match es with
             | (_, v) :: _ => Ok (GScalar v)
             | [] => Ok (GScalar (c_fill x))
             end
      | _ => Ok (GArr (coo_make (sorted_flag nix adv) oshape es (c_fill x)))
      end.
End Ctor.

Arguments GScalar {V}.
Arguments GArr {V}.
Arguments getitem {V}.
Arguments coo_make {V}.
Arguments sort_entries {V}.
Arguments insert_entry {V}.

(* ================================================================ DOK.__getitem__ *)
(* a key made of arrays only takes _fancy_getitem; every other key goes, unchanged, to
   self.asformat("coo")[key] and the result is converted back (modelled by the harness: the DOK
   result is compared through its dense meaning). *)
