(* Model/ShapeOpsG.v — C08, GCXS side: transpose (n-d path through convert._transpose /
   _convert_coords with transpose=True, and the constant-time _2d_transpose), T, mT, moveaxis, and
   reshape / flatten (convert._transpose with transpose=False, its 1-d result branch through
   _c_ordering, and _1d_reshape / _linearize for a 1-d source), over Model/GCXS.v.  Definitions only.

   The NumPy primitives (stable argsort, bincount/cumsum -> indptr_of) and the hand-written kernels
   (unravel_k = convert.unravel_index, ravel_k = convert.ravel_multi_index, gather = fancy indexing
   t[axes], inv_perm = argsort of a permutation, argmin) are those of Model/Convert.v (property C05,
   validated there against NumPy); convert_coord is one iteration of _convert_coords with
   transpose=False.  0-d sources or targets of reshape, squeeze and broadcast_to go through COO
   (x.tocoo().<op>().asformat("gcxs")), with GCXS.tocoo = Convert.gcxs_tocoo.  Not modelled: index dtypes
   (get_out_dtype; property C15).

   The three kernel applications go through the GENERATED call-site functions of Gen/S_shapeops.v
   (tools/sitegen/shapeops.py): they hand the model's values to the one-iteration functions in the
   order in which the source's calls bind them to the kernels' parameters. *)
From Coq Require Import ZArith List Bool.
From Verif Require Import Py Shape COO GCXS Convert G_shapeops S_shapeops ShapeOps.
Import ListNotations.
Open Scope Z_scope.

(* one iteration of _convert_coords with transpose=True: n is the linear location of a stored
   element in the old compressed (rows x columns) view *)
Definition tr_coord (n : Z) (rsh : shape) (sorted_axis_order axes new_ord : list Z)
           (new_rsh new_cshape : shape) : Z * idx :=
  let current := gather (unravel_k n rsh) sorted_axis_order in        (* c ordering *)
  let current_t := gather (gather current axes) new_ord in            (* transpose *)
  let new_linear := ravel_k current_t new_rsh in
  (new_linear, unravel_k new_linear new_cshape).                       (* reshape *)

(* one iteration of _linearize (1-d source): n is the stored index *)
Definition lin_coord (n : Z) (sh : shape) (new_ord : list Z) (new_rsh new_cshape : shape) : Z * idx :=
  let current_t := gather (unravel_k n sh) new_ord in
  let new_linear := ravel_k current_t new_rsh in
  (new_linear, unravel_k new_linear new_cshape).

(* one iteration of _c_ordering *)
Definition c_order (n : Z) (rsh : shape) (sorted_axis_order : list Z) (sh : shape) : Z :=
  ravel_k (gather (unravel_k n rsh) sorted_axis_order) sh.

(* the body of _convert_coords over all stored elements, on the values as the call site binds them *)
Definition convert_coords_all (transpose : bool)
           (t : list Z * list Z * list Z * list Z * list Z * list Z * list Z * list Z * list Z) : list (Z * idx) :=
  let '(linear, old_shape, rsh, sao, axes, sh, new_ord, new_rsh, new_cshape) := t in
  map (fun n => if transpose then tr_coord n rsh sao axes new_ord new_rsh new_cshape
                else convert_coord n old_shape rsh sao sh new_ord new_rsh new_cshape) linear.

Definition linearize_all (t : list Z * list Z * list Z * list Z * list Z) : list (Z * idx) :=
  let '(xs, sh, new_ord, new_rsh, new_cshape) := t in map (fun n => lin_coord n sh new_ord new_rsh new_cshape) xs.

Definition c_ordering_all (t : list Z * list Z * list Z * list Z) : list Z :=
  let '(linear, rsh, sao, sh) := t in map (fun n => c_order n rsh sao sh) linear.

Section G.
  Variable V : Type.
  Variable veqb : V -> V -> bool.       (* used only by GCXS.tocoo (Model/Convert.v: its constructor call merges duplicates) *)
  Variable add : V -> V -> V.

  (* linear_loc(np.stack((uncompress_dimension(indptr), indices)), x._compressed_shape) *)
  Definition g_linear (g : gcxs V) : list Z :=
    let sh := g_shape g in let ca := g_caxes g in
    map (fun rc => ravel [row_size sh ca; col_size sh ca] [fst rc; snd rc])
        (combine (row_numbers (g_indptr g)) (g_indices g)).

  (* the common tail of _transpose and _1d_reshape for a result with >= 2 axes:
     order = argsort(new_linear) (stable; the keys are distinct anyway), new_coords[:, order],
     indptr from bincount/cumsum of the rows, indices = the columns, data[order] *)
  Definition gcxs_assemble (new_sh : shape) (new_ca : list Z) (conv : list (Z * idx)) (data : list V) (fill : V)
    : gcxs V :=
    let s := stable_sort (combine (map fst conv) (combine (map snd conv) data)) in
    let rc := map (fun p => fst (snd p)) s in
    mkGCXS new_sh new_ca (map (fun p => snd (snd p)) s) (map (fun t => znth t 1 0) rc)
           (indptr_of (map (fun t => znth t 0 0) rc) (row_size new_sh new_ca)) fill.

  Definition gndim (g : gcxs V) : Z := zlen (g_shape g).

  (* _2d_transpose: the same three arrays, reversed shape, the other compressed axis *)
  Definition gcxs_2d_transpose (g : gcxs V) : gcxs V :=
    mkGCXS (rev (g_shape g)) [(hd 0 (g_caxes g) + 1) mod 2] (g_data g) (g_indices g) (g_indptr g) (g_fill g).

  (* _transpose(x, shape, axes, (argmin(shape),), transpose=True) + the GCXS constructor *)
  Definition gcxs_transpose_nd (g : gcxs V) (ax : list Z) : gcxs V :=
    let sh := g_shape g in let nd := gndim g in let ca := g_caxes g in
    let new_sh := permute_idx ax sh in
    let new_ca := [argmin new_sh] in
    let new_ord := axis_order nd new_ca in
    let new_rsh := reordered_shape new_sh new_ca in
    let conv := convert_coords_all true
                  (s_convert_coords_call (g_linear g) sh (reordered_shape sh ca) (inv_perm (axis_order nd ca)) ax new_sh
                                         new_ord new_rsh [row_size new_sh new_ca; col_size new_sh new_ca]) in
    gcxs_assemble new_sh new_ca conv (g_data g) (g_fill g).

  (* GCXS.transpose(axes) *)
  Definition gcxs_transpose (g : gcxs V) (axes : option (list Z)) : res (gcxs V) :=
    let nd := gndim g in
    let axes0 := match axes with None => rev (zrange nd) | Some a => a end in
    ax <- norm_axes nd axes0 ;;
    if has_dup ax then Raise ValueError
    else if negb (zlen ax =? nd) then Raise ValueError
    else if idx_eqb ax (zrange nd) then Ok g
    else if nd =? 2 then Ok (gcxs_2d_transpose g)
    else Ok (gcxs_transpose_nd g ax).

  Definition gcxs_T (g : gcxs V) : res (gcxs V) := gcxs_transpose g None.

  Definition gcxs_mT (g : gcxs V) : res (gcxs V) :=
    if gndim g <? 2 then Raise ValueError
    else gcxs_transpose g (Some (swap_last2 (zrange (gndim g)))).

  (* sparse.moveaxis(a, source, destination) = a.transpose(order) *)
  Definition gcxs_moveaxis (g : gcxs V) (source destination : axarg) : res (gcxs V) :=
    let nd := gndim g in
    if negb s_moveaxis_normalize_first && has_dup (ax_list destination) then Raise ValueError else
    src <- norm_axes nd (ax_list source) ;;
    dst <- norm_axes nd (ax_list destination) ;;
    if s_moveaxis_normalize_first && has_dup dst then Raise ValueError
    else if negb (length src =? length dst)%nat then Raise ValueError
    else gcxs_transpose g (Some (moveaxis_order nd src dst)).

  (* ------------------------------------------------------------ reshape *)

  (* _transpose(x, shape, arange(ndim), ca, transpose=False), result with >= 2 axes *)
  Definition gcxs_reshape_nd_nd (g : gcxs V) (new_sh : shape) (new_ca : list Z) : gcxs V :=
    let sh := g_shape g in let nd := gndim g in let ca := g_caxes g in
    let nd' := zlen new_sh in
    let conv := convert_coords_all false
                  (s_convert_coords_call (g_linear g) sh (reordered_shape sh ca) (inv_perm (axis_order nd ca)) (zrange nd)
                                         new_sh (axis_order nd' new_ca) (reordered_shape new_sh new_ca)
                                         [row_size new_sh new_ca; col_size new_sh new_ca]) in
    gcxs_assemble new_sh new_ca conv (g_data g) (g_fill g).

  (* the same with a 1-d result: _c_ordering, stable argsort, (data, indices, []) *)
  Definition gcxs_reshape_nd_1 (g : gcxs V) (new_sh : shape) : gcxs V :=
    let sh := g_shape g in let ca := g_caxes g in
    let cl := c_ordering_all (s_c_ordering_call (g_linear g) (reordered_shape sh ca)
                                                (inv_perm (axis_order (gndim g) ca)) sh) in
    let s := stable_sort (combine cl (g_data g)) in
    mkGCXS new_sh [] (map snd s) (map fst s) [] (g_fill g).

  (* _1d_reshape(x, shape, ca): 1-d source, result with >= 2 axes.  end_idx =
     searchsorted(indices, prod(shape)) keeps the stored indices below the new size (all of them,
     sizes being equal) *)
  Definition gcxs_reshape_1_nd (g : gcxs V) (new_sh : shape) (new_ca : list Z) : gcxs V :=
    let nd' := zlen new_sh in
    let kept := filter (fun iv => fst iv <? size new_sh) (combine (g_indices g) (g_data g)) in
    let conv := linearize_all (s_linearize_call (map fst kept) new_sh (axis_order nd' new_ca)
                                                (reordered_shape new_sh new_ca)
                                                [row_size new_sh new_ca; col_size new_sh new_ca]) in
    gcxs_assemble new_sh new_ca conv (map snd kept) (g_fill g).

  (* asformat("gcxs") without compressed_axes: (argmin(shape),) for ndim >= 2 *)
  Definition default_caxes (sh : shape) : list Z := if (2 <=? length sh)%nat then [argmin sh] else [].

  (* x.tocoo().<COO method>(...).asformat("gcxs") *)
  Definition via_coo (g : gcxs V) (f : coo V -> res (coo V)) : res (gcxs V) :=
    c' <- f (gcxs_tocoo veqb add g) ;; Ok (gcxs_from_coo c' (default_caxes (c_shape c'))).

  (* GCXS.reshape(shape); None = unreachable shape combination *)
  Definition gcxs_reshape (g : gcxs V) (new : list Z) : option (res (gcxs V)) :=
    let sh := g_shape g in
    match gcxs_reshape_shape sh new with
    | Raise e => Some (Raise e)
    | Ok sh' =>
      if idx_eqb sh sh' then Some (Ok g)                                     (* return self *)
      else match sh, sh' with
      | [], _ | _, [] => Some (via_coo g (fun c => ShapeOps.coo_reshape c sh'))   (* 0-d source or target: through COO *)
      | [_], [_] => None                                                     (* unreachable: equal sizes *)
      | [_], _ => Some (Ok (gcxs_reshape_1_nd g sh' [argmin sh']))
      | _, [_] => Some (Ok (gcxs_reshape_nd_1 g sh'))
      | _, _ =>
        let ca' := if (length sh' =? length sh)%nat then g_caxes g else [argmin sh'] in
        Some (Ok (gcxs_reshape_nd_nd g sh' ca'))
      end
    end.

  (* GCXS.squeeze / GCXS.broadcast_to delegate to COO (commit f52a14b) *)
  Definition gcxs_squeeze (g : gcxs V) (axis : axarg) : res (gcxs V) := via_coo g (fun c => coo_squeeze c axis).
  Definition gcxs_broadcast_to (g : gcxs V) (target : list Z) : res (gcxs V) :=
    via_coo g (fun c => coo_broadcast_to c target).

  Definition gcxs_flatten (g : gcxs V) : option (res (gcxs V)) := gcxs_reshape g [-1].
End G.

Arguments g_linear {V}.
Arguments gcxs_assemble {V}.
Arguments gndim {V}.
Arguments gcxs_2d_transpose {V}.
Arguments gcxs_transpose_nd {V}.
Arguments gcxs_transpose {V}.
Arguments gcxs_T {V}.
Arguments gcxs_mT {V}.
Arguments gcxs_moveaxis {V}.
Arguments gcxs_reshape_nd_nd {V}.
Arguments gcxs_reshape_nd_1 {V}.
Arguments gcxs_reshape_1_nd {V}.
Arguments gcxs_reshape {V}.
Arguments gcxs_flatten {V}.
Arguments default_caxes sh : simpl never.
Arguments via_coo {V}.
Arguments gcxs_squeeze {V}.
Arguments gcxs_broadcast_to {V}.
