(* Model/Reduce.v — reductions of COO / GCXS arrays as the code performs them (property C03).
   Definitions only (proofs are in Proofs/ReduceP.v).

   SparseArray.reduce:   normalise the axes (generated g_normalize_axis), admissibility test
                         `method.reduce([fill, fill]) == fill or method in _reduce_super_ufunc`,
                         _reduce_calc, fill correction per output cell in three branches (nothing
                         reduced: identity or ValueError / plain / add-multiply correction restricted
                         to deficient groups), _reduce_return, keepdims reshape, 0-d -> scalar.
   COO._reduce_calc:     transpose to (kept axes ++ reduced axes), reshape to 2-D
                         (rows = kept, cols = reduced), _grouped_reduce on the row numbers.
   _calc_counts_invidx:  starts and sizes of the runs of equal row numbers (np.intp arrays:
                         unbounded Z here).
   _grouped_reduce:      ufunc.reduceat at the run starts.
   COO._reduce_return:   COO(rows at the run starts, data, prune=True).reshape(kept extents).
   GCXS:                 the decision structure of GCXS._reduce_calc (ValueError on a repeated
                         axis, the COO route for the empty tuple, flatten().tocoo() path for None /
                         any ordering of all axes, change of compressed axes to the kept axes
                         otherwise — which ignores the order of the axes); the grouped
                         reduction over the rows of the re-compressed array is the same function of
                         the sorted (row, col) list as in the COO path and is modelled by it (the
                         indptr arithmetic `diff(indptr) != 0`, `indptr[:-1][idx]`, ... is tied by
                         the API-level correspondence only).

   The scalar pieces come in two forms: hand-transcribed for an arbitrary value type V with an
   operation [op] (Section Generic) and *generated from the source* for Python ints and a ufunc
   code (Section "Z instance"; Gen/G_reduce.v, Gen/S_reduce.v).  Proofs/ReduceP.v proves the two
   agree for every ufunc code of the table, so the theorems about the generic model are theorems
   about the generated definitions. *)
From Coq Require Import ZArith List Bool.
From Verif Require Import Py PyExt PyReduce Shape COO GCXS G_reduce S_reduce NpReduce.
Import ListNotations.
Open Scope Z_scope.

(* ------------------------------------------------------------------ small list helpers *)

Definition zlen {A} (l : list A) : Z := Z.of_nat (length l).

Fixpoint map_res {A B} (f : A -> res B) (l : list A) : res (list B) :=
  match l with
  | [] => Ok []
  | a :: r => b <- f a ;; bs <- map_res f r ;; Ok (b :: bs)
  end.

Fixpoint map2_res {A B C} (f : A -> B -> res C) (l1 : list A) (l2 : list B) : res (list C) :=
  match l1, l2 with
  | a :: r1, b :: r2 => c <- f a b ;; cs <- map2_res f r1 r2 ;; Ok (c :: cs)
  | _, _ => Ok []
  end.

Definition as_z (r : res pyv) : res Z :=
  match r with
  | Ok (VInt z) => Ok z
  | Ok (VBool b) => Ok (b2z b)
  | Ok _ => Raise TypeError
  | Raise e => Raise e
  end.

Definition is_none {A} (o : option A) : bool := match o with None => true | Some _ => false end.

Fixpoint zlist_eqb (a b : list Z) : bool :=
  match a, b with
  | [], [] => true
  | x :: a', y :: b' => (x =? y) && zlist_eqb a' b'
  | _, _ => false
  end.

(* np.sort of a tuple of ints *)
Fixpoint zinsert (a : Z) (l : list Z) : list Z :=
  match l with [] => [a] | b :: r => if a <=? b then a :: b :: r else b :: zinsert a r end.
Definition zsort (l : list Z) : list Z := fold_right zinsert [] l.

Fixpoint nodupb (l : list Z) : bool :=
  match l with [] => true | a :: r => negb (mem_z a r) && nodupb r end.

(* ------------------------------------------------------------------ axis arguments *)

(* _utils.normalize_axis on one integer (generated) *)
Definition norm_axis1 (ndim a : Z) : res Z := as_z (g_normalize_axis (VInt a) (VInt ndim)).

(* SparseArray.reduce: `axis = normalize_axis(axis, self.ndim)` then `axis = (axis,)` unless a tuple;
   None stands for the tuple (None,).  The iterable branch of normalize_axis,
   `tuple(normalize_axis(a, ndim) for a in axis)`, is this map. *)
Definition norm_axes (ndim : Z) (ax : axis_arg) : res (option (list Z)) :=
  match ax with
  | AxNone => Ok None
  | AxInt a => z <- norm_axis1 ndim a ;; Ok (Some [z])
  | AxTuple l => zs <- map_res (norm_axis1 ndim) l ;; Ok (Some zs)
  end.

(* COO._reduce_calc: `if axis == (None,): axis = tuple(range(ndim))`;
   `axis = tuple(a if a >= 0 else a + ndim for a in axis)` (element expression generated) *)
Definition calc_axes (ndim : Z) (nax : option (list Z)) : res (list Z) :=
  match nax with
  | None => Ok (zrange ndim)
  | Some l => map_res (fun a => as_z (s_calc_axis_elt (VInt a) (VInt ndim))) l
  end.

(* neg_axis = tuple(ax for ax in range(ndim) if ax not in set(axis)) *)
Definition kept_axes (ndim : Z) (axes : list Z) : list Z :=
  filter (fun a => negb (mem_z a axes)) (zrange ndim).

(* SparseArray.reduce, keepdims: shape = list(self.shape); for ax in axis: shape[ax] = 1 *)
Definition keep_shape (sh : shape) (axes : list Z) : shape :=
  map (fun p => if mem_z (fst p) axes then 1 else snd p) (combine (zrange (zlen sh)) sh).

(* ------------------------------------------------------------------ _calc_counts_invidx *)

(* the loop `for i in range(1, len(groups))`: [cur] is inv_idx[-1]; returns the entries appended
   to inv_idx and counts, the last count being appended after the loop (there i = len(groups)) *)
Fixpoint cci_loop (gs : list Z) (i last cur : Z) : list Z * list Z :=
  match gs with
  | [] => ([], [i - cur])
  | g :: r =>
    if g =? last then cci_loop r (i + 1) last cur
    else let '(inv, cnt) := cci_loop r (i + 1) g i in (i :: inv, (i - cur) :: cnt)
  end.

(* (inv_idx, counts), both np.intp *)
Definition calc_counts_invidx (groups : list Z) : list Z * list Z :=
  match groups with
  | [] => ([], [])
  | g0 :: r => let '(inv, cnt) := cci_loop r 1 g0 0 in (0 :: inv, cnt)
  end.

(* ================================================================== generic model *)
Section Generic.
  Variable V : Type.
  Variable veqb : V -> V -> bool.
  Variable op : V -> V -> V.
  Variable cast : V -> V.                 (* operand cast of the loop of the ufunc: identity except for the logical ones *)
  Variable sup : option (V -> Z -> V).    (* _reduce_super_ufunc.get(method), applied to (fill, count) *)
  Variable ident : option V.              (* method.identity *)

  (* ufunc.reduce of a non-empty list: left fold from the first element *)
  Definition fold1 (d : V) (l : list V) : V :=
    match l with [] => d | v :: r => fold_left op r v end.

  (* ---------------------------------------------------------------- ufunc.reduceat *)
  Definition slice (l : list V) (i j : Z) : list V :=
    firstn (Z.to_nat (j - i)) (skipn (Z.to_nat i) l).

  (* out[k] = reduce(data[idx[k]:idx[k+1]]) if idx[k] < idx[k+1] else data[idx[k]]; the last
     segment runs to the end; an index outside [0, len) raises IndexError *)
  Fixpoint reduceat_go (d : V) (data : list V) (n : Z) (idx : list Z) : res (list V) :=
    match idx with
    | [] => Ok []
    | i :: rest =>
      if (i <? 0) || (n <=? i) then Raise IndexError
      else
        let j := match rest with [] => n | j :: _ => j end in
        let v := if i <? j then fold1 d (slice data i j) else nth (Z.to_nat i) data d in
        r <- reduceat_go d data n rest ;; Ok (v :: r)
    end.
  Definition reduceat (d : V) (data : list V) (idx : list Z) : res (list V) :=
    reduceat_go d data (zlen data) idx.

  (* _grouped_reduce(x, groups, method): (result, inv_idx, counts) *)
  Definition grouped_reduce (d : V) (data : list V) (groups : list Z)
    : res (list V * list Z * list Z) :=
    let '(inv, counts) := calc_counts_invidx groups in
    r <- reduceat d (map cast data) inv ;; Ok (r, inv, counts).

  (* ---------------------------------------------------------------- COO.transpose / reshape *)

  (* stable insertion sort by key — np.argsort(linear, kind="mergesort") *)
  Fixpoint insert_by {A} (k : Z) (x : A) (l : list (Z * A)) : list (Z * A) :=
    match l with
    | [] => [(k, x)]
    | (k', y) :: r => if k' <? k then (k', y) :: insert_by k x r else (k, x) :: (k', y) :: r
    end.
  Definition sort_by {A} (l : list (Z * A)) : list (Z * A) :=
    fold_right (fun p acc => insert_by (fst p) (snd p) acc) [] l.

  (* COO(coords, data, shape, has_duplicates=False[, sorted=False]): _sort_indices by linear_loc,
     skipped when the linear locations are already non-decreasing *)
  Definition coo_sorted (sh : shape) (es : list (idx * V)) (fill : V) : coo V :=
    let keyed := map (fun e => (ravel sh (fst e), e)) es in
    let s := if nondecreasing (map fst keyed) then keyed else sort_by keyed in
    mkCOO sh (map (fun p => fst (snd p)) s) (map (fun p => snd (snd p)) s) fill.

  (* COO.transpose(axes) *)
  Definition coo_transpose (perm : list Z) (x : coo V) : res (coo V) :=
    let ndim := zlen (c_shape x) in
    _ <- map_res (norm_axis1 ndim) perm ;;
    if negb (nodupb perm) then Raise ValueError            (* repeated axis in transpose *)
    else if negb (zlen perm =? ndim) then Raise ValueError (* axes don't match array *)
    else if zlist_eqb perm (zrange ndim) then Ok x
    else Ok (coo_sorted (sel 0 perm (c_shape x))
                        (map (fun e => (sel 0 perm (fst e), snd e)) (entries x)) (c_fill x)).

  (* coords[-(i+1), :] = (linear_loc // strides) % d, strides = product of the later extents *)
  Fixpoint unravel_code (sh : shape) (lin : Z) : idx :=
    match sh with
    | [] => []
    | d :: sh' => ((lin / size sh') mod d) :: unravel_code sh' lin
    end.

  (* COO.reshape(shape) (no -1 entries here) *)
  Definition coo_reshape (sh' : shape) (x : coo V) : res (coo V) :=
    if zlist_eqb (c_shape x) sh' then Ok x
    else if negb (size (c_shape x) =? size sh') then Raise ValueError
    else Ok (mkCOO sh' (map (fun ix => unravel_code sh' (ravel (c_shape x) ix)) (c_coords x))
                   (c_data x) (c_fill x)).

  (* ---------------------------------------------------------------- COO._reduce_calc *)
  Record calc := mkCalc {
    k_data : list V;      (* reduceat result, one per stored row *)
    k_counts : list Z;    (* stored cells per stored row *)
    k_axes : list Z;      (* the reduced axes as _reduce_calc returns them *)
    k_ncols : Z;          (* cells per row *)
    k_nrows : Z;
    k_rows : list Z;      (* a.coords[0] *)
    k_inv : list Z;       (* run starts *)
    k_kept : list Z       (* neg_axis *)
  }.

  Definition coo_reduce_calc (nax : option (list Z)) (x : coo V) : res calc :=
    let sh := c_shape x in
    let ndim := zlen sh in
    axes <- calc_axes ndim nax ;;
    let kept := kept_axes ndim axes in
    a <- coo_transpose (kept ++ axes) x ;;
    let nrows := size (sel 0 kept sh) in
    let ncols := size (sel 0 axes sh) in
    a2 <- coo_reshape [nrows; ncols] a ;;
    let rows := map (fun ix => nth 0 ix 0) (c_coords a2) in
    g <- grouped_reduce (c_fill x) (c_data a2) rows ;;
    let '(data, inv, counts) := g in
    Ok (mkCalc data counts axes ncols nrows rows inv kept).

  (* COO._reduce_return *)
  Definition coo_reduce_return (sh : shape) (k : calc) (data : list V) (rfill : V) : res (coo V) :=
    let coords := map (fun i => [nth (Z.to_nat i) (k_rows k) 0]) (k_inv k) in
    let es := filter (fun e => negb (veqb (snd e) rfill)) (combine coords data) in   (* prune=True *)
    coo_reshape (sel 0 (k_kept k) sh) (mkCOO [k_nrows k] (map fst es) (map snd es) rfill).

  (* ---------------------------------------------------------------- SparseArray.reduce *)
  Inductive rres := RArr (c : coo V) | RScalar (v : V).

  (* the pipeline, parameterised by its three scalar pieces:
     head ndim fill axis  = (what is handed to _reduce_calc) or ValueError
     fixc fill ncols data count = corrected value of one output cell
     rfill fill ncols     = fill value of the result *)
  Definition reduce_coo_with
      (head : Z -> V -> axis_arg -> res (option (list Z)))
      (fixc : V -> Z -> V -> Z -> res V) (rfillf : V -> Z -> res V)
      (ax : axis_arg) (keepdims : bool) (x : coo V) : res rres :=
    let sh := c_shape x in
    let f := c_fill x in
    nax <- head (zlen sh) f ax ;;
    k <- coo_reduce_calc nax x ;;
    data <- map2_res (fixc f (k_ncols k)) (k_data k) (k_counts k) ;;
    rfill <- rfillf f (k_ncols k) ;;
    out <- coo_reduce_return sh k data rfill ;;
    out <- (if keepdims then coo_reshape (keep_shape sh (k_axes k)) out else Ok out) ;;
    match c_shape out with
    | [] => Ok (RScalar (den out []))       (* out[()] *)
    | _ => Ok (RArr out)
    end.

  (* hand-transcribed scalar pieces *)
  Definition admissible (f : V) : bool := veqb (op (cast f) (cast f)) f || negb (is_none sup).

  Definition head_generic (ndim : Z) (f : V) (ax : axis_arg) : res (option (list Z)) :=
    nax <- norm_axes ndim ax ;;
    if negb (admissible f) then Raise ValueError else Ok nax.

  (* the three branches `if n_cols == 0 / elif reduce_super_ufunc is None / else`, per output cell *)
  Definition fix_cell (f : V) (ncols : Z) (d : V) (c : Z) : V :=
    if ncols =? 0 then d
    else match sup with
         | None => if negb (c =? ncols) then op d (cast f) else d
         | Some s => if negb (c =? ncols) then op d (s f (ncols - c)) else d
         end.

  Definition result_fill (f : V) (ncols : Z) : res V :=
    if ncols =? 0 then match ident with None => Raise ValueError | Some e => Ok e end
    else Ok (match sup with None => f | Some s => s f ncols end).

  Definition reduce_coo : axis_arg -> bool -> coo V -> res rres :=
    reduce_coo_with head_generic (fun f n d c => Ok (fix_cell f n d c)) result_fill.

  (* ---------------------------------------------------------------- GCXS *)

  (* the canonical COO with the dense meaning of g (GCXS.tocoo) *)
  Definition gcxs_to_coo (g : gcxs V) : coo V :=
    coo_sorted (g_shape g) (combine (gcxs_coords g) (g_data g)) (g_fill g).

  Definition gcxs_reduce_with
      (head : Z -> V -> axis_arg -> res (option (list Z)))
      (fixc : V -> Z -> V -> Z -> res V) (rfillf : V -> Z -> res V)
      (ax : axis_arg) (keepdims : bool) (g : gcxs V) : res rres :=
    let sh := g_shape g in
    let ndim := zlen sh in
    let f := g_fill g in
    nax <- head ndim f ax ;;
    (* if len(set(axis)) != len(axis): raise ValueError("duplicate value in 'axis'") *)
    if match nax with Some l => negb (nodupb l) | None => false end then Raise ValueError else
    match nax with
    | Some [] =>
      (* nothing is reduced: self.tocoo().reduce(method, axis=(), keepdims).asformat("gcxs", ...) *)
      reduce_coo_with head fixc rfillf (AxTuple []) keepdims (gcxs_to_coo g)
    | _ =>
      (* axis[0] is None or np.array_equal(np.sort(axis), np.arange(ndim)) *)
      let full := match nax with None => true | Some l => zlist_eqb (zsort l) (zrange ndim) end in
      if full then
        (* x = self.flatten().tocoo(); out = x.reduce(method, axis=None, keepdims=keepdims);
           keepdims: out.reshape(ones(ndim)) *)
        x1 <- coo_reshape [size sh] (gcxs_to_coo g) ;;
        r <- reduce_coo_with head fixc rfillf AxNone keepdims x1 ;;
        if keepdims then
          match r with
          | RArr c => c' <- coo_reshape (map (fun _ => 1) sh) c ;; Ok (RArr c')
          | RScalar v => Raise OtherError
          end
        else Ok r
      else
        let axes := match nax with Some l => l | None => [] end in
        let caxes := kept_axes ndim axes in                 (* [a for a in r if a not in set(axis)] *)
        match caxes with
        | [] => if ndim =? 1 then Raise NotImplementedError  (* change_compressed_axes on a 1-d array *)
                else Raise ValueError                        (* _transpose: min() of an empty sequence *)
        | _ =>
          (* rows over the kept axes, columns over the other axes in increasing order *)
          let red := kept_axes ndim caxes in
          k <- coo_reduce_calc (Some red) (gcxs_to_coo g) ;;
          data <- map2_res (fixc f (k_ncols k)) (k_data k) (k_counts k) ;;
          rfill <- rfillf f (k_ncols k) ;;
          out <- coo_reduce_return sh k data rfill ;;
          out <- (if keepdims then coo_reshape (keep_shape sh axes) out else Ok out) ;;
          Ok (RArr out)
        end
    end.

  Definition gcxs_reduce : axis_arg -> bool -> gcxs V -> res rres :=
    gcxs_reduce_with head_generic (fun f n d c => Ok (fix_cell f n d c)) result_fill.

  Definition rres_shape (r : rres) : shape := match r with RArr c => c_shape c | RScalar _ => [] end.
  Definition rres_den (r : rres) (ix : idx) : V := match r with RArr c => den c ix | RScalar v => v end.
End Generic.

Arguments RArr {V}.
Arguments RScalar {V}.
Arguments mkCalc {V}.
Arguments rres_shape {V}.
Arguments rres_den {V}.

(* ================================================================== Z instance: generated pieces *)

(* the instance of the generic parameters for the ufunc with code m *)
Definition op_z (m : Z) : Z -> Z -> Z := match ufunc_z m with Some f => f | None => fun a _ => a end.
Definition sup_z (m : Z) : option (Z -> Z -> Z) :=
  match find (fun p => fst p =? m) s_super_table with
  | Some (_, s) => Some (op_z s)
  | None => None
  end.

(* SparseArray.reduce up to the call of _reduce_calc (generated s_reduce_head); the iterable
   branch of normalize_axis is mapped by hand, the admissibility test does not depend on the axis *)
Definition head_z (m : Z) (ndim : Z) (f : Z) (ax : axis_arg) : res (option (list Z)) :=
  match ax with
  | AxNone =>
    r <- s_reduce_head (VInt m) (VInt f) VNone (VInt ndim) ;;
    match r with VTuple [VTuple [VNone]; _] => Ok None | _ => Raise OtherError end
  | AxInt a =>
    r <- s_reduce_head (VInt m) (VInt f) (VInt a) (VInt ndim) ;;
    match r with VTuple [VTuple [VInt z]; _] => Ok (Some [z]) | _ => Raise OtherError end
  | AxTuple l =>
    zs <- map_res (norm_axis1 ndim) l ;;
    r <- s_reduce_head (VInt m) (VInt f) VNone (VInt ndim) ;;
    Ok (Some zs)
  end.

Definition rsu_z (m : Z) : pyv :=
  match ext_table_get s_super_table (VInt m) with Ok v => v | Raise _ => VNone end.

(* the generated correction block (s_reduce_fix) for one output cell: corrected value ... *)
Definition fix_z (m : Z) (f ncols d c : Z) : res Z :=
  r <- s_reduce_fix (VInt m) (rsu_z m) (VInt f) (VInt d) (VInt c) (VInt ncols) ;;
  match r with VTuple [v; _] => as_z (Ok v) | _ => Raise OtherError end.

(* ... and the fill value of the result (independent of the cell) *)
Definition rfill_z (m : Z) (f ncols : Z) : res Z :=
  r <- s_reduce_fix (VInt m) (rsu_z m) (VInt f) (VInt 0) (VInt 0) (VInt ncols) ;;
  match r with VTuple [_; v] => as_z (Ok v) | _ => Raise OtherError end.

Definition reduce_coo_z (m : Z) : axis_arg -> bool -> coo Z -> res (rres Z) :=
  reduce_coo_with Z Z.eqb (op_z m) (ufunc_cast m) (head_z m) (fix_z m) (rfill_z m).

Definition gcxs_reduce_z (m : Z) : axis_arg -> bool -> gcxs Z -> res (rres Z) :=
  gcxs_reduce_with Z Z.eqb (op_z m) (ufunc_cast m) (head_z m) (fix_z m) (rfill_z m).

(* ------------------------------------------------------------------ domain clauses *)

(* the entries of a GCXS array denote distinct in-range positions (executable form of the
   hypothesis of the GCXS theorems; follows from gcxs_wfb, checked on every generated case) *)
Fixpoint idx_nodupb (l : list idx) : bool :=
  match l with [] => true | a :: r => negb (existsb (idx_eqb a) r) && idx_nodupb r end.
Definition gcxs_okb {V} (g : gcxs V) : bool :=
  forallb (in_rangeb (g_shape g)) (gcxs_coords g) && idx_nodupb (gcxs_coords g)
  && (length (g_data g) =? length (gcxs_coords g))%nat.

(* ------------------------------------------------------------------ dtype promotion of mean / var
   dtype codes (tools/sitegen/reduce.py): 0 bool | 1..4 int8..int64 | 5..8 uint8..uint64 | 9 float16
   | 10 float32 | 11 float64 | 12, 13 complex64/128.  [req] is the `dtype=` argument. *)
Definition oz_dtype (o : option Z) : pyv := match o with None => VNone | Some z => VInt z end.

(* SparseArray.mean: (dtype of the result, dtype the sum is accumulated in) — generated decision *)
Definition mean_dtypes (self_dt : Z) (req : option Z) : res (Z * Z) :=
  r <- s_mean_dtype (VInt self_dt) (oz_dtype req) ;;
  match r with VTuple [VInt d; VInt i] => Ok (d, i) | _ => Raise OtherError end.

(* SparseArray.var: the dtype handed to the two sums (None: NumPy's default for the input dtype) *)
Definition var_dtype (self_dt : Z) (req : option Z) : res (option Z) :=
  r <- s_var_dtype (VInt self_dt) (oz_dtype req) ;;
  match r with VTuple [VInt d] => Ok (Some d) | VTuple [VNone] => Ok None | _ => Raise OtherError end.

Definition int_or_bool_dtypes : list Z := [0; 1; 2; 3; 4; 5; 6; 7; 8].
