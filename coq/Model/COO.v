(* Model/COO.v — the COO representation, its dense meaning and its canonical form.
   Definitions only (proofs are in Proofs/COOP.v).  Element values are an arbitrary type V
   with a decidable equality veqb (the code's `equivalent`: bitwise on floats, so NaN and
   -0.0 are just distinct tokens). *)
From Coq Require Import ZArith List Bool.
From Verif Require Import Shape.
Import ListNotations.
Open Scope Z_scope.

Section COO.
  Variable V : Type.
  Variable veqb : V -> V -> bool.

  (* coords are stored as a list of index tuples (the code stores the transpose, an
     ndim x nnz matrix; the harness transposes) *)
  Record coo := mkCOO {
    c_shape : shape;
    c_coords : list idx;
    c_data : list V;
    c_fill : V
  }.

  Definition entries (c : coo) : list (idx * V) := combine (c_coords c) (c_data c).

  (* value found for ix in an entry list: the LAST matching entry wins, as in todense
     (x[coords] = data assigns in order) *)
  Fixpoint lookup (es : list (idx * V)) (ix : idx) : option V :=
    match es with
    | [] => None
    | (k, v) :: r =>
      match lookup r ix with
      | Some w => Some w
      | None => if idx_eqb k ix then Some v else None
      end
    end.

  Definition den (c : coo) (ix : idx) : V :=
    match lookup (entries c) ix with Some v => v | None => c_fill c end.

  (* strictly increasing in lexicographic (= row-major) order *)
  Fixpoint sorted_strict (l : list idx) : bool :=
    match l with
    | [] => true
    | a :: r => match r with [] => true | b :: _ => lex_ltb a b && sorted_strict r end
    end.

  Definition canonicalb (c : coo) : bool :=
    forallb (in_rangeb (c_shape c)) (c_coords c)
    && sorted_strict (c_coords c)
    && (length (c_data c) =? length (c_coords c))%nat.

  Definition prunedb (c : coo) : bool :=
    forallb (fun v => negb (veqb v (c_fill c))) (c_data c).

  (* dense arrays: shape + row-major flat data *)
  Record dense := mkDense { d_shape : shape; d_flat : list V }.

  Definition tabulate (sh : shape) (f : idx -> V) : list V := map f (all_indices sh).

  Definition todense (c : coo) : dense := mkDense (c_shape c) (tabulate (c_shape c) (den c)).

  (* COO.from_numpy: keep the positions whose value differs from the fill, in row-major order *)
  Definition from_dense (d : dense) (fill : V) : coo :=
    let es := filter (fun kv => negb (veqb (snd kv) fill)) (combine (all_indices (d_shape d)) (d_flat d)) in
    mkCOO (d_shape d) (map fst es) (map snd es) fill.

  Definition dense_wf (d : dense) : Prop := length (d_flat d) = length (all_indices (d_shape d)).

  Definition nnz (c : coo) : Z := Z.of_nat (length (c_coords c)).
End COO.

Arguments mkCOO {V}.
Arguments c_shape {V}.
Arguments c_coords {V}.
Arguments c_data {V}.
Arguments c_fill {V}.
Arguments entries {V}.
Arguments lookup {V}.
Arguments den {V}.
Arguments canonicalb {V}.
Arguments prunedb {V}.
Arguments mkDense {V}.
Arguments d_shape {V}.
Arguments d_flat {V}.
Arguments tabulate {V}.
Arguments todense {V}.
Arguments from_dense {V}.
Arguments dense_wf {V}.
Arguments nnz {V}.
