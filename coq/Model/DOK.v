(* Model/DOK.v — the DOK array as a state machine, transcribed from
   sparse/numba_backend/_dok.py (__setitem__, _setitem, _fancy_setitem, __getitem__,
   _fancy_getitem, todense, asformat("coo")).  Definitions only; proofs are in Proofs/DOKP.v.

   State: the dict `self.data`, as an association list index-tuple -> value kept in
   lexicographic key order (Python keeps insertion order; nothing the property observes
   depends on it: the harness compares sorted items).

   __setitem__ on a tuple of integers and slices =
       normalize_index (Model/Slicing.v: the GENERATED replace_none / posify_index / clip_slice /
       check_index of Gen/G_slicing.v, per entry), then the recursive _setitem: the first slice
       entry is expanded over range(start, stop, step), where start/stop come from the
       GENERATED bounds block (Gen/G_dok.v: g_dok_bounds_pos / g_dok_bounds_neg), the value is
       narrowed by
       `value if value_missing_dims > 0 else (value[0] if value.shape[0] == 1 else value[v_idx])`
       and the leaf stores the element or, when it equals the fill value, deletes the key.
   State of the source: /repo after the round-7 repairs (b72190a _fancy_key, 336daf5, d195a7a,
   6eae3a6 leading length-1 axes of the value, e6d97fc the empty key): () is (Ellipsis,), index
   sequences are checked / sanitised / wrapped before _fancy_setitem and _fancy_getitem, a 1-d
   boolean mask is one index sequence, a tuple of integers on a 1-d DOK is a basic key. *)
From Coq Require Import ZArith List Bool.
From Verif Require Import Py PyExt G_slicing G_dok PySlice Shape Slicing COO NpIndex CooIndex NpAssign.
Import ListNotations.
Open Scope Z_scope.

Section DOK.
  Variable V : Type.
  Variable veqb : V -> V -> bool.       (* _utils.equivalent *)

  Definition state := list (idx * V).

  Fixpoint lookup (st : state) (k : idx) : option V :=
    match st with
    | [] => None
    | (k', v) :: r => if idx_eqb k' k then Some v else lookup r k
    end.

  (* data[k] = v *)
  Fixpoint insert (k : idx) (v : V) (st : state) : state :=
    match st with
    | [] => [(k, v)]
    | (k', v') :: r =>
      if idx_eqb k k' then (k, v) :: r
      else if lex_ltb k k' then (k, v) :: st
      else (k', v') :: insert k v r
    end.

  (* del data[k] (when present) *)
  Fixpoint remove (k : idx) (st : state) : state :=
    match st with
    | [] => []
    | (k', v') :: r => if idx_eqb k k' then remove k r else (k', v') :: remove k r
    end.

  (* the leaf of _setitem / the body of the loop of _fancy_setitem:
       if not equivalent(value, fill): data[key] = value   elif key in data: del data[key] *)
  Definition store (fill : V) (k : idx) (x : V) (st : state) : state :=
    if veqb x fill then remove k st else insert k x st.

  (* the dense meaning of a state *)
  Definition abs (fill : V) (st : state) : idx -> V :=
    fun ix => match lookup st ix with Some v => v | None => fill end.

  Definition nnz (st : state) : Z := Z.of_nat (length st).

  (* ------------------------------------------------------------ normalize_index *)
  Definition entry_pyv (e : kentry) : pyv :=
    match e with
    | KInt i => VInt i
    | KSlice a b c => VSlice (oz a) (oz b) (oz c)
    end.

  (* check_index; replace_none; posify_index; clip_slice on one entry facing extent dim *)
  Definition normalize_pyv (p : pyv) (dim : Z) : res pyv :=
    match p with
    | VInt i => normalize_int i dim
    | _ => normalize_slice p dim
    end.

  Fixpoint norm_entries (ps : list pyv) (sh : shape) : res (list (pyv * Z)) :=
    match ps, sh with
    | [], [] => Ok []
    | p :: ps', d :: sh' =>
      n <- normalize_pyv p d ;;
      r <- norm_entries ps' sh' ;;
      Ok ((n, d) :: r)
    | _, _ => Raise IndexError        (* "Too many indices for array" *)
    end.

  (* idx += (slice(None),) * (len(shape) - n_sliced_dims); each entry paired with its extent *)
  Definition normalize_key (es : list kentry) (sh : shape) : res (list (pyv * Z)) :=
    norm_entries (map entry_pyv (np_pad es sh)) sh.

  (* ------------------------------------------------------------ _setitem *)
  Fixpoint nslices (ents : list (pyv * Z)) : Z :=
    match ents with
    | [] => 0
    | (p, _) :: r => (if isinst_slice p then 1 else 0) + nslices r
    end.

  Definition ndim (v : arr V) : Z := Z.of_nat (length (a_shape v)).

  (* value[j] *)
  Definition sub (v : arr V) (j : Z) : arr V :=
    mkArr (tl (a_shape v)) (fun ix => a_get v (j :: ix)).

  (* vi = value if value_missing_dims > 0 else (value[0] if value.shape[0] == 1 else value[v_idx]) *)
  Definition pick (v : arr V) (missing j : Z) : res (arr V) :=
    if 0 <? missing then Ok v
    else match a_shape v with
         | d :: _ => if d =? 1 then Ok (sub v 0)
                     else if j <? d then Ok (sub v j) else Raise IndexError
         | [] => Raise IndexError
         end.

  (* step = ind.step if ind.step is not None else 1
     if step > 0: <g_dok_bounds_pos> else: <g_dok_bounds_neg>          -> (start, stop, step) *)
  Definition dok_bounds (ind : pyv) (dim : Z) : res (Z * Z * Z) :=
    s0 <- attr_step ind ;;
    let step := if is_none s0 then VInt 1 else s0 in
    c <- py_gt step (VInt 0) ;;
    b <- (if cond c then g_dok_bounds_pos ind (VInt dim) else g_dok_bounds_neg ind (VInt dim)) ;;
    match b, step with
    | VTuple [VInt start; VInt stop], VInt st => Ok (start, stop, st)
    | _, _ => Raise TypeError
    end.

  (* for v_idx, ki in enumerate(ks): body v_idx ki *)
  Fixpoint loop (body : Z -> Z -> state -> res state) (j : Z) (ks : list Z) (st : state)
    : res state :=
    match ks with
    | [] => Ok st
    | k :: r => st' <- body j k st ;; loop body (j + 1) r st'
    end.

  (* _setitem(key_list, value); [ents] = the not yet expanded suffix of key_list with the
     extents of its axes, [pre] = the integers before it, reversed *)
  Fixpoint setitem_go (fill : V) (ents : list (pyv * Z)) (pre : list Z) (v : arr V) (st : state)
    {struct ents} : res state :=
    let missing := nslices ents - ndim v in
    if missing <? 0 then Raise ValueError          (* "setting an array element with a sequence." *)
    else
      match ents with
      | [] => Ok (store fill (rev pre) (a_get v []) st)
      | (ind, dim) :: r =>
        if isinst_slice ind then
          '(start, stop, step) <- dok_bounds ind dim ;;
          if step =? 0 then Raise ValueError         (* range() arg 3 must not be zero *)
          else loop (fun j ki st' =>
                       vi <- pick v missing j ;;
                       setitem_go fill r (ki :: pre) vi st')
                    0 (range_list start stop step) st
        else
          match ind with
          | VInt k => setitem_go fill r (k :: pre) v st
          | _ => Raise IndexError   (* "All indices must be slices or integers when setting an item." *)
          end
      end.

  (* n_slices = len([ind for ind in key_list if isinstance(ind, slice)])
     while value_is_array and value.ndim > n_slices > 0 and value.shape[0] == 1: value = value[0]
     (value_is_array: every non-0-d value of this model is an ndarray — the harness never passes
     nested Python lists, for which NumPy itself refuses a deeper nesting than the target) *)
  Fixpoint drop_lead (vs : list Z) (v : arr V) (nsl : Z) : arr V :=
    match vs with
    | d :: vs' =>
      if (nsl <? ndim v) && (0 <? nsl) && (d =? 1) then drop_lead vs' (sub v 0) nsl else v
    | [] => v
    end.
  Definition drop_leading (v : arr V) (nsl : Z) : arr V := drop_lead (a_shape v) v nsl.

  Definition setitem_basic (sh : shape) (fill : V) (st : state) (es : list kentry) (v : arr V)
    : res state :=
    ents <- normalize_key es sh ;;
    setitem_go fill ents [] (drop_leading v (nslices ents)) st.

  (* __setitem__ on a general basic index (Ellipsis, None, ints, slices): the WHOLE
     normalize_index of Model/CooIndex.v (replace_ellipsis, padding, the too-many test, none_shape,
     check_index, sanitize, replace_none / posify / clip — agent c02b's transcription over the
     generated fragments), then key_list = the normalised entries and _setitem, where entry i
     faces self.shape[i] (POSITION i of key_list: after a None the extents are misaligned, but a
     None is never passed — it is neither a slice nor an Integral, so _setitem raises IndexError
     as soon as every slice before it has been expanded) *)
  Definition nentry_pv (e : nentry) : pyv :=
    match e with
    | NInt i => VInt i
    | NSlice s e' st => VSlice (VInt s) (VInt e') (VInt st)
    | NNone => VNone
    | NArr l => VArr l
    end.

  Definition ents_of_nix (nix : list nentry) (sh : shape) : list (pyv * Z) :=
    combine (map nentry_pv nix) (sh ++ repeat 0 (length nix - length sh)).

  Definition setitem_index (sh : shape) (fill : V) (st : state) (ix : index) (v : arr V)
    : res state :=
    nix <- CooIndex.normalize_index ix sh ;;
    let ents := ents_of_nix nix sh in
    setitem_go fill ents [] (drop_leading v (nslices ents)) st.

  (* ------------------------------------------------------------ _fancy_key, _fancy_setitem *)
  (* _fancy_key, one index sequence facing an axis of extent d:
       check_index(k, dim)                       (the GENERATED g_check_index: IndexError for an
                                                  out-of-range entry or a mask of the wrong length)
       sanitize_index(k).astype(np.intp)         (a mask becomes its True positions)
       posify_index(dim, ...)                    (the GENERATED g_posify_index: negatives wrap) *)
  Definition fancy_key1 (p : pyv) (d : Z) : res (list Z) :=
    _ <- g_check_index p (VInt d) ;;
    q <- CooIndex.sanitize p ;;
    r <- g_posify_index (VInt d) q ;;
    match r with VArr l => Ok l | _ => Raise TypeError end.

  Fixpoint fancy_keys (ps : list pyv) (sh : shape) : res (list (list Z)) :=
    match ps, sh with
    | [], [] => Ok []
    | p :: ps', d :: sh' => l <- fancy_key1 p d ;; r <- fancy_keys ps' sh' ;; Ok (l :: r)
    | _, _ => Raise NotImplementedError     (* "Index sequences for all N array dimensions needed!" *)
    end.

  (* reached from __setitem__ when the key is a tuple of iterables; for a 1-d array also when it
     is one iterable (not a tuple) of ints / NumPy ints / NumPy bools, e.g. a list or a mask *)
  Definition fancy_setitem (sh : shape) (fill : V) (st : state) (ps : list pyv) (v : arr V)
    : res state :=
    if negb (Nat.eqb (length ps) (length sh)) then Raise NotImplementedError
    else
      ls <- fancy_keys ps sh ;;
      match ls with
      | [] => Raise NotImplementedError
      | l0 :: _ =>
        if negb (forallb (fun l => Nat.eqb (length l) (length l0)) ls) then Raise IndexError
        else
          let n := length l0 in
          vals <- match a_shape v with
                  | [] => Ok (repeat (a_get v []) n)               (* np.full(idxs[0].size, values) *)
                  | [m] => if m =? 1 then Ok (repeat (a_get v [0]) n)   (* values.shape == (1,): the same *)
                           else if m =? Z.of_nat n then Ok (map (fun j => a_get v [j]) (zrange m))
                           else Raise ValueError                  (* "Shape mismatch ..." *)
                  | _ => Raise ValueError                         (* values.ndim > 1 *)
                  end ;;
          Ok (fold_left (fun s kx => store fill (fst kx) (snd kx) s)
                        (combine (transpose n ls) vals) st)
      end.

  (* the key forms.  () is replaced by (Ellipsis,).  A boolean mask of a 1-d array is one index
     sequence (through the 1-d shortcut, or as a 1-tuple); a single n-d boolean array is not a
     tuple of iterables: normalize_index turns it into an integer array and _setitem rejects it *)
  Definition setitem (sh : shape) (fill : V) (st : state) (k : key) (v : arr V) : res state :=
    match k with
    | KBasic es => setitem_basic sh fill st es v          (* [] is padded with full slices, like (...,) *)
    | KFancy ls => fancy_setitem sh fill st (map VArr ls) v
    | KMask m => match sh with
                 | [_] => fancy_setitem sh fill st [VBArr m] v
                 | _ => Raise IndexError
                 end
    | KIndex [] => setitem_index sh fill st [IEllipsis] v
    | KIndex ix => setitem_index sh fill st ix v
    end.

  (* one assignment of a history: an assignment that raises leaves the dict as it was (all
     raises happen before the first store for the keys and values of the property's domain) *)
  Definition step (sh : shape) (fill : V) (st : state) (op : key * arr V) : state :=
    match setitem sh fill st (fst op) (snd op) with Ok st' => st' | Raise _ => st end.

  Definition run (sh : shape) (fill : V) (ops : list (key * arr V)) : state :=
    fold_left (step sh fill) ops [].

  (* ------------------------------------------------------------ reads *)
  (* DOK.__getitem__ converts to COO and indexes it with the key as given; COO.__getitem__
     normalises the key (normalize_index) and then selects, per axis, the integer or
     range(start, stop, step) of the normalised entry (that selection is the subject of C02;
     here it is taken at its meaning). *)
  Fixpoint axes_of (ents : list (pyv * Z)) : res (list axis) :=
    match ents with
    | [] => Ok []
    | (VInt k, _) :: r => a <- axes_of r ;; Ok (AInt k :: a)
    | (VSlice (VInt s) (VInt e) (VInt st), _) :: r =>
      if st =? 0 then Raise ValueError
      else a <- axes_of r ;; Ok (ASel (range_list s e st) :: a)
    | _ => Raise TypeError
    end.

  (* the same for a general basic index, through Model/CooIndex.v's normalize_index *)
  Fixpoint axes_of_nix (nix : list nentry) : res (list axis) :=
    match nix with
    | [] => Ok []
    | NInt k :: r => a <- axes_of_nix r ;; Ok (AInt k :: a)
    | NSlice s e st :: r =>
      if st =? 0 then Raise ValueError else a <- axes_of_nix r ;; Ok (ASel (range_list s e st) :: a)
    | NNone :: r => a <- axes_of_nix r ;; Ok (ANew :: a)
    | NArr _ :: _ => Raise TypeError            (* index arrays inside a basic key: not in this grammar *)
    end.

  Definition getitem_index (sh : shape) (fill : V) (st : state) (ix : index)
    : res (list Z * list V) :=
    nix <- CooIndex.normalize_index ix sh ;;
    axs <- axes_of_nix nix ;;
    Ok (selshape axs, map (abs fill st) (gather_idx axs)).

  Definition getitem_basic (sh : shape) (fill : V) (st : state) (es : list kentry)
    : res (list Z * list V) :=
    ents <- normalize_key es sh ;;
    axs <- axes_of ents ;;
    Ok (selshape axs, map (abs fill st) (gather_idx axs)).

  (* __getitem__ with a non-empty key made of iterables only: _fancy_key, then _fancy_getitem:
     new_data[i] = data[k] for the rows k present in the dict, result of shape (len(key[0]),) *)
  Definition fancy_getitem (sh : shape) (fill : V) (st : state) (ps : list pyv)
    : res (list Z * list V) :=
    if negb (Nat.eqb (length ps) (length sh)) then Raise NotImplementedError
    else
      ls <- fancy_keys ps sh ;;
      match ls with
      | [] => Raise NotImplementedError
      | l0 :: _ =>
        if negb (forallb (fun l => Nat.eqb (length l) (length l0)) ls) then Raise IndexError
        else Ok ([Z.of_nat (length l0)], map (abs fill st) (transpose (length l0) ls))
      end.

  Definition getitem (sh : shape) (fill : V) (st : state) (k : key) : res (list Z * list V) :=
    match k with
    | KBasic es => getitem_basic sh fill st es            (* the empty key goes to COO: the whole array *)
    | KFancy ls => fancy_getitem sh fill st (map VArr ls)
    | KMask m =>
      match sh with
      | [_] => fancy_getitem sh fill st [VBArr m]
      | _ => Raise NotImplementedError      (* (mask,) is ONE index sequence for an n-d array *)
      end
    | KIndex ix => getitem_index sh fill st ix
    end.

  (* todense: result = np.full(shape, fill); for c, d in data.items(): result[c] = d *)
  Definition dense_upd (a : idx -> V) (k : idx) (v : V) : idx -> V :=
    fun ix => if idx_eqb ix k then v else a ix.
  Definition todense_fn (fill : V) (st : state) : idx -> V :=
    fold_left (fun a kv => dense_upd a (fst kv) (snd kv)) st (fun _ => fill).
  Definition todense (sh : shape) (fill : V) (st : state) : list V :=
    map (todense_fn fill st) (all_indices sh).

  (* asformat("coo") = COO.from_iter(self.data, ...): the items in lexicographic order *)
  Definition to_coo (sh : shape) (fill : V) (st : state) : coo V :=
    mkCOO sh (map fst st) (map snd st) fill.

  (* ------------------------------------------------------------ domain clauses *)
  (* general basic indices: no None (NumPy accepts x[None, 0] = v; _setitem raises IndexError; the
     property's keys are newaxis-free), no index arrays (outside the property's key grammar), no
     zero step (NumPy rejects it) *)
  Definition index_no_newaxis (ix : index) : bool := forallb (fun e => negb (is_new e)) ix.
  Definition index_no_arrays (ix : index) : bool := forallb (fun e => negb (is_iarr e)) ix.
  Definition index_no_zero_step (ix : index) : bool :=
    forallb (fun e => match e with ISlice _ _ (Some 0) => false | _ => true end) ix.
  (* a 0-d VIEW as target (every axis indexed by an integer, plus an Ellipsis: x[..., 0] of a 1-d
     x) takes a 0-d value only: NumPy broadcasts a one-element array into it, _setitem raises *)
  Definition view0d_clause (sh : shape) (ix : index) (v : arr V) : bool :=
    match np_index_axes sh ix with
    | Some axs => match selshape axs, a_shape v with [], _ :: _ => false | _, _ => true end
    | None => true
    end.

  (* integer-list keys: the value is 0-d or 1-d (NumPy also broadcasts values with leading axes
     of extent 1; _fancy_setitem raises ValueError for ndim > 1 — pinned by the test suite) *)
  Definition fancy_value_clause (v : arr V) : bool := (length (a_shape v) <=? 1)%nat.

  (* the domain of one assignment: NumPy accepts it, and no named clause fails *)
  Definition op_valid (sh : shape) (op : key * arr V) : bool :=
    match np_setitem sh (fun _ => a_get (snd op) []) (fst op) (snd op) with Some _ => true | None => false end.

  Definition op_dom (sh : shape) (op : key * arr V) : bool :=
    op_valid sh op &&
    match fst op with
    | KBasic _ => true
    | KFancy _ => fancy_value_clause (snd op)
    | KMask _ => match sh with [_] => fancy_value_clause (snd op) | _ => false end
    | KIndex ix => index_no_newaxis ix && index_no_arrays ix && index_no_zero_step ix
                   && view0d_clause sh ix (snd op)
    end.

  Definition read_dom (sh : shape) (k : key) : bool :=
    match k with
    | KBasic _ => true
    | KFancy _ => true
    | KMask _ => match sh with [_] => true | _ => false end
    | KIndex ix => index_no_arrays ix && index_no_zero_step ix
    end.
End DOK.

Arguments lookup {V}.
Arguments insert {V}.
Arguments remove {V}.
Arguments store {V}.
Arguments abs {V}.
Arguments nnz {V}.
Arguments sub {V}.
Arguments pick {V}.
Arguments loop {V}.
Arguments ndim {V}.
Arguments setitem_go {V}.
Arguments setitem_basic {V}.
Arguments setitem_index {V}.
Arguments getitem_index {V}.
Arguments view0d_clause {V}.
Arguments drop_lead {V}.
Arguments drop_leading {V}.
Arguments fancy_setitem {V}.
Arguments setitem {V}.
Arguments step {V}.
Arguments run {V}.
Arguments getitem_basic {V}.
Arguments fancy_getitem {V}.
Arguments getitem {V}.
Arguments dense_upd {V}.
Arguments todense_fn {V}.
Arguments todense {V}.
Arguments to_coo {V}.
Arguments fancy_value_clause {V}.
Arguments op_valid {V}.
Arguments op_dom {V}.
