(* Model/Validators.v — the argument validators of property C18 as the code runs them: thin
   hand-written drivers (the loops / generator expressions the fragment grammar does not cover)
   around the *generated* scalar tests of Gen/G_validators.v, Gen/S_validators.v and
   Gen/G_slicing.v (regenerated from /repo on every run).  Definitions only. *)
From Coq Require Import ZArith List Bool.
From Verif Require Import Py PyExt PyValid G_slicing G_validators S_validators NpValid.
Import ListNotations.
Open Scope Z_scope.

Definition as_z (r : res pyv) : res Z :=
  v <- r ;; match as_int v with Some z => Ok z | None => Raise OtherError end.

Definition raised {A} (r : res A) : option exc :=
  match r with Raise e => Some e | Ok _ => None end.

Fixpoint mapM {A B} (f : A -> res B) (l : list A) : res (list B) :=
  match l with
  | [] => Ok []
  | a :: r => x <- f a ;; t <- mapM f r ;; Ok (x :: t)
  end.

(* any(f(x) for x in l) / all(...) with Python's short-circuit *)
Fixpoint anyM {A} (f : A -> res pyv) (l : list A) : res bool :=
  match l with
  | [] => Ok false
  | a :: r => t <- f a ;; if truthy t then Ok true else anyM f r
  end.

(* ---------------------------------------------------------------- _utils.normalize_axis *)
(* integer argument *)
Definition v_normalize_axis (a ndim : Z) : res Z :=
  as_z (gv_normalize_axis_int (VInt a) (VInt ndim)).

(* Iterable argument (all entries Integral): tuple(normalize_axis(a, ndim) for a in axis) *)
Definition v_normalize_axes (axes : list Z) (ndim : Z) : res (list Z) :=
  mapM (fun a => v_normalize_axis a ndim) axes.

(* COO.transpose(axes): normalize, "repeated axis in transpose", "axes don't match array" *)
Definition v_transpose_axes (axes : list Z) (ndim : Z) : res (list Z) :=
  n <- v_normalize_axes axes ndim ;;
  let t := VTuple (map VInt n) in
  _ <- sv_transpose_repeat t ;;
  _ <- sv_transpose_len t (VInt ndim) ;;
  Ok n.

(* ---------------------------------------------------------------- _slicing.check_index, integer index *)
Definition v_check_index (i dim : Z) : res pyv := g_check_index (VInt i) (VInt dim).

(* ---------------------------------------------------------------- COO.reshape size check (shape without -1) *)
(* reduce(operator.mul, shape, 1) *)
Definition reduce_mul (sh : list Z) : Z := fold_left Z.mul sh 1.
Definition v_reshape_check (size : Z) (sh : list Z) : res pyv :=
  sv_reshape_size_check (VInt size) (VInt (reduce_mul sh)).

(* ---------------------------------------------------------------- _umath._get_broadcast_shape *)
(* all(ok(l1, l2) for l1, l2 in zip(a, b))  — zip stops at the shorter list *)
Fixpoint bcast_all (isres : bool) (a b : list Z) : res bool :=
  match a, b with
  | x :: a', y :: b' =>
    t <- sv_bcast_ok (VInt x) (VInt y) (VBool isres) ;;
    if truthy t then bcast_all isres a' b' else Ok false
  | _, _ => Ok true
  end.

Definition bcast_dim (x y : Z) : res Z := as_z (sv_bcast_dim (VInt x) (VInt y)).

(* (dim(l1, l2) for l1, l2 in zip_longest(a, b, fillvalue=1)) *)
Fixpoint bcast_dims (a b : list Z) : res (list Z) :=
  match a, b with
  | [], _ => mapM (fun y => bcast_dim 1 y) b
  | _ :: _, [] => mapM (fun x => bcast_dim x 1) a
  | x :: a', y :: b' => d <- bcast_dim x y ;; t <- bcast_dims a' b' ;; Ok (d :: t)
  end.

(* if (is_result and len(shape1) > len(shape2)) or not all(...): raise ValueError *)
Definition v_broadcast_shape (isres : bool) (s1 s2 : list Z) : res (list Z) :=
  more <- sv_bcast_more_dims (VBool isres) (VTuple (map VInt s1)) (VTuple (map VInt s2)) ;;
  if truthy more then Raise ValueError else
  ok <- bcast_all isres (rev s1) (rev s2) ;;
  if ok then t <- bcast_dims (rev s1) (rev s2) ;; Ok (rev t)
  else Raise ValueError.

(* ---------------------------------------------------------------- _common.tensordot *)
(* ea, eb: the extents as_[axes_a[k]], bs[axes_b[k]] for k = 0, 1, ...   The loop
     for k in range(na): if as_[axes_a[k]] != bs[axes_b[k]]: equal = False; break *)
Fixpoint td_extents_equal (ea eb : list Z) : res bool :=
  match ea, eb with
  | x :: a, y :: b =>
    t <- sv_td_extent_ne (VInt x) (VInt y) ;;
    if truthy t then Ok false else td_extents_equal a b
  | _, _ => Ok true
  end.

Definition v_tensordot_check (ea eb : list Z) : res pyv :=
  c <- sv_td_count_ne (VInt (Z.of_nat (length ea))) (VInt (Z.of_nat (length eb))) ;;
  equal <- (if truthy c then Ok false else td_extents_equal ea eb) ;;
  sv_td_unequal_raise (VBool equal).

(* dot(a, b) with a.ndim == b.ndim == 1: `if a.shape != b.shape: raise ValueError` *)
Definition v_dot_1d_check (la lb : Z) : res pyv :=
  sv_dot_1d_shape_check (VTuple [VInt la]) (VTuple [VInt lb]).

(* _common.moveaxis: the validation statements run in the GENERATED order (Gen/S_validators.v:
   site_moveaxis_steps); the function then ends in a.transpose(order), whose "repeated axis in transpose"
   test is what rejects a repeated SOURCE axis (order omits an axis and names another twice).
   A list of axes is repeat-free iff nodupb. *)
Fixpoint v_moveaxis_run (steps : list mv_step) (src dst : list Z) (ndim : Z) : res (list Z * list Z) :=
  match steps with
  | [] => Ok (src, dst)
  | MvNormSrc :: r => n <- v_normalize_axes src ndim ;; v_moveaxis_run r n dst ndim
  | MvNormDst :: r => n <- v_normalize_axes dst ndim ;; v_moveaxis_run r src n ndim
  | MvRepeatDst :: r => if nodupb dst then v_moveaxis_run r src dst ndim else Raise ValueError
  | MvLen :: r => if (length src =? length dst)%nat then v_moveaxis_run r src dst ndim else Raise ValueError
  end.

Definition v_moveaxis (src dst : list Z) (ndim : Z) : res (list Z * list Z) :=
  '(s, d) <- v_moveaxis_run site_moveaxis_steps src dst ndim ;;
  if nodupb s then Ok (s, d) else Raise ValueError.

(* numpy.moveaxis: normalize_axis_tuple on both arguments (range, no repeats AFTER normalisation), equal lengths *)
Definition np_moveaxis_ok (src dst : list Z) (ndim : Z) : bool :=
  np_axes_ok src ndim && np_axes_ok dst ndim && (length src =? length dst)%nat.

(* matmul(a, b): `if a.ndim == 0 or b.ndim == 0: raise ValueError` *)
Definition v_matmul_0d_check (nda ndb : Z) : res pyv := sv_matmul_0d_check (VInt nda) (VInt ndb).

(* einsum: `if output_subscript.count(char) != 1: raise ValueError`, cnt = occurrences of the character in the output *)
Definition v_einsum_out_count_check (cnt : Z) : res pyv := sv_einsum_out_count_check (VInt cnt).

Definition tuple_items (v : pyv) : res (list pyv) :=
  match v with VTuple l => Ok l | _ => Raise TypeError end.

(* the zero-size shortcut: any(dim == 0 for dim in chain(newshape_a, newshape_b)) with N2 the
   product of the contracted extents *)
Definition v_tensordot_shortcut (N2 : Z) : res bool :=
  a <- sv_td_newshape_a (VInt N2) ;; la <- tuple_items a ;;
  b <- sv_td_newshape_b (VInt N2) ;; lb <- tuple_items b ;;
  if site_td_shortcut then anyM sv_td_zero_elt (la ++ lb) else Raise OtherError.

(* ---------------------------------------------------------------- COO.__init__ *)
(* `if self.shape:` (a non-empty tuple) guards the two length checks *)
Definition v_coo_init (ndata ncols nshape nrows : Z) : res pyv :=
  if nshape =? 0 then Ok VNone
  else gv_coo_init_checks (VInt ndata) (VInt ncols) (VInt nshape) (VInt nrows).

(* ---------------------------------------------------------------- _utils.check_compressed_axes *)
Definition caxes_val (ca : option (list Z)) : pyv :=
  match ca with None => VNone | Some l => VTuple (map VInt l) end.
Definition v_check_caxes (ndim : Z) (ca : option (list Z)) : res pyv :=
  sv_check_compressed_axes (VInt ndim) (caxes_val ca).

(* what the library documents as valid compressed axes: None, or a non-empty strictly increasing
   sequence of axes in [0, ndim) that does not name every axis *)
Definition caxes_ok (ndim : Z) (ca : option (list Z)) : bool :=
  match ca with
  | None => true
  | Some l => negb (Z.of_nat (length l) =? ndim) && strictly_incr l
              && negb (match l with [] => true | _ => false end)
              && forallb (fun a => (0 <=? a) && (a <? ndim)) l
  end.

(* ================================================================= the modelled operations, uniformly
   One constructor per public operation (argument class) whose validation is generated above:
   vop_run = what the code's validator answers (None: accepts; Some e: raises e),
   vop_np_accepts = what NumPy answers (Spec/NpValid.v). *)
Inductive vop :=
| MNone
| MAxis (a ndim : Z)
| MAxes (axes : list Z) (ndim : Z)
| MPerm (axes : list Z) (ndim : Z)
| MIndex (i dim : Z)
| MReshape (size : Z) (sh : list Z)
| MBroadcast (s1 s2 : list Z)
| MBroadcastTo (s target : list Z)
| MContract (ea eb : list Z)
| MCooInit (ndata ncols nshape nrows : Z)
| MCaxes (ndim : Z) (ca : option (list Z))
| MDot1d (la lb : Z)
| MMatmulNd (nda ndb : Z)
| MEinsumOut (cnt : Z)
| MMoveaxis (src dst : list Z) (ndim : Z).

Definition verdict {A} (r : res A) : option exc := match r with Ok _ => None | Raise e => Some e end.

(* None: not modelled; Some None: the validator accepts; Some (Some e): it raises e *)
Definition model_verdict (m : vop) : option (option exc) :=
  match m with
  | MNone => None
  | MAxis a nd => Some (verdict (v_normalize_axis a nd))
  | MAxes ax nd => Some (verdict (v_normalize_axes ax nd))
  | MPerm ax nd => Some (verdict (v_transpose_axes ax nd))
  | MIndex i d => Some (verdict (v_check_index i d))
  | MReshape s sh => Some (verdict (v_reshape_check s sh))
  | MBroadcast a b => Some (verdict (v_broadcast_shape false a b))
  | MBroadcastTo a b => Some (verdict (v_broadcast_shape true a b))
  | MContract a b => Some (verdict (v_tensordot_check a b))
  | MCooInit a b c d => Some (verdict (v_coo_init a b c d))
  | MCaxes nd ca => Some (verdict (v_check_caxes nd ca))
  | MDot1d a b => Some (verdict (v_dot_1d_check a b))
  | MMatmulNd a b => Some (verdict (v_matmul_0d_check a b))
  | MEinsumOut c => Some (verdict (v_einsum_out_count_check c))
  | MMoveaxis a b nd => Some (verdict (v_moveaxis a b nd))
  end.

(* NumPy's verdict on the same argument (Spec/NpValid.v); true = accepts *)
Definition vop_np_accepts (m : vop) : bool :=
  match m with
  | MNone => true
  | MAxis a nd => np_axis_ok a nd
  | MAxes ax nd => forallb (fun a => np_axis_ok a nd) ax
  | MPerm ax nd => np_perm_ok ax nd
  | MIndex i d => np_index_ok i d
  | MReshape s sh => np_reshape_ok s sh
  | MBroadcast a b => match np_broadcast a b with Some _ => true | None => false end
  | MBroadcastTo a b => match np_broadcast_to a b with Some _ => true | None => false end
  | MContract a b => np_contract_ok a b
  | MCooInit a b c d => negb (negb (c =? 0) && (negb (a =? b) || negb (c =? d)))
  | MCaxes nd ca => caxes_ok nd ca
  | MDot1d a b => a =? b
  | MMatmulNd a b => negb ((a =? 0) || (b =? 0))     (* numpy.matmul: operands need at least one dimension *)
  | MEinsumOut c => c =? 1                          (* numpy.einsum: an output subscript appears once *)
  | MMoveaxis a b nd => np_moveaxis_ok a b nd
  end.

Definition clean (e : exc) : bool :=
  match e with ValueError | IndexError | TypeError => true | _ => false end.

(* ================================================================= call skeletons: semantics and the
   static ordering check.  exec p t o: the skeleton p can run producing the event trace t and end
   by falling through, returning, or raising (a validator rejected, or a `raise` was reached). *)
From Coq Require String.
Inductive ev := EVal (name : String.string) | EKer (name : String.string).
Inductive outcome := Fall | Ret | Raised.

Inductive exec : prog -> list ev -> outcome -> Prop :=
| XSkip : exec PSkip [] Fall
| XSeqGo a b t1 t2 o : exec a t1 Fall -> exec b t2 o -> exec (PSeq a b) (t1 ++ t2) o
| XSeqStop a b t1 o : exec a t1 o -> o <> Fall -> exec (PSeq a b) t1 o
| XValOk n : exec (PVal n) [EVal n] Fall
| XValRej n : exec (PVal n) [EVal n] Raised
| XKer n : exec (PKer n) [EKer n] Fall
| XRaise : exec PRaise [] Raised
| XReturn : exec PReturn [] Ret
| XIfL a b t o : exec a t o -> exec (PIf a b) t o
| XIfR a b t o : exec b t o -> exec (PIf a b) t o
| XLoop0 b : exec (PLoop b) [] Fall
| XLoopGo b t1 t2 o : exec b t1 Fall -> exec (PLoop b) t2 o -> exec (PLoop b) (t1 ++ t2) o
| XLoopStop b t1 o : exec b t1 o -> o <> Fall -> exec (PLoop b) t1 o.

Definition is_ker (e : ev) : bool := match e with EKer _ => true | EVal _ => false end.
Definition no_kernel (t : list ev) : Prop := forallb (fun e => negb (is_ker e)) t = true.

(* abstract run: K = "a kernel may already have executed".  Bad: a validator call or a raise can be
   reached with K; Stop: every path has returned / raised; Go K': may fall through with K'. *)
Inductive chk_res := Bad | Stop | Go (k : bool).

Definition chk_join (x y : chk_res) : chk_res :=
  match x, y with
  | Bad, _ | _, Bad => Bad
  | Stop, r | r, Stop => r
  | Go a, Go b => Go (a || b)
  end.

Fixpoint chk (p : prog) (K : bool) : chk_res :=
  match p with
  | PSkip => Go K
  | PSeq a b => match chk a K with Bad => Bad | Stop => Stop | Go K1 => chk b K1 end
  | PVal _ => if K then Bad else Go false
  | PKer _ => Go true
  | PRaise => if K then Bad else Stop
  | PReturn => Stop
  | PIf a b => chk_join (chk a K) (chk b K)
  | PLoop b =>
    match chk b K with
    | Bad => Bad
    | Stop => Go K
    | Go K1 => if Bool.eqb K1 K then Go K
               else match chk b K1 with Bad => Bad | _ => Go K1 end
    end
  end.

Definition validators_first (p : prog) : bool :=
  match chk p false with Bad => false | _ => true end.
