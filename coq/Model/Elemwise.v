(* Model/Elemwise.v — executable transcription of sparse/numba_backend/_umath.py (element-wise
   operations with broadcasting).  Definitions only; proofs are in Proofs/ElemwiseP.v.

   Tied to the source through the generated files
     Gen/G_umath.v  (py2v: control skeleton of _get_broadcast_shape)
     Gen/S_umath.v  (sitegen: the per-axis predicate / result / parameter expressions of the
                     comprehensions of _get_broadcast_shape and _get_broadcast_parameters, the n-ary
                     fold order, the mask alphabet, the constructor promises of the result)
   which are regenerated from /repo on every run; the loops around them are transcribed by hand here.

   Representation: a COO array is Model/COO.v's [coo] (coords = list of index tuples, i.e. the transpose
   of the code's ndim x nnz matrix).  Positions in lists are [nat]; extents and coordinates are [Z]. *)
From Coq Require Import ZArith List Bool.
From Verif Require Import Py PyExt Shape COO NpElemwise G_umath S_umath.
Import ListNotations.
Open Scope Z_scope.

(* ------------------------------------------------------------------ small list helpers *)

(* itertools.zip_longest(l1, l2, fillvalue=fa) *)
Fixpoint zip_longest {A} (fa : A) (l1 l2 : list A) : list (A * A) :=
  match l1 with
  | [] => map (fun y => (fa, y)) l2
  | x :: r1 =>
    match l2 with
    | [] => (x, fa) :: zip_longest fa r1 []
    | y :: r2 => (x, y) :: zip_longest fa r1 r2
    end
  end.

(* x[mask] for a boolean list mask (NumPy demands equal lengths; the model truncates) *)
Fixpoint select {A} (mask : list bool) (l : list A) : list A :=
  match mask, l with
  | m :: ms, x :: r => if m then x :: select ms r else select ms r
  | _, _ => []
  end.

Fixpoint mapM {A B} (f : A -> res B) (l : list A) : res (list B) :=
  match l with
  | [] => Ok []
  | a :: r => b <- f a ;; t <- mapM f r ;; Ok (b :: t)
  end.

(* stable insertion sort (np.argsort(kind="mergesort") is stable; for np.argsort's default
   unstable kind the order of ties is unobservable in the final result, see Proofs) *)
Fixpoint insert_by {A} (leb : A -> A -> bool) (x : A) (l : list A) : list A :=
  match l with
  | [] => [x]
  | y :: r => if leb x y then x :: l else y :: insert_by leb x r
  end.
Definition isort {A} (leb : A -> A -> bool) (l : list A) : list A := fold_right (insert_by leb) [] l.

Definition key_leb {B} (p q : Z * B) : bool := fst p <=? fst q.

(* np.argsort(keys): positions ordered by key *)
Definition argsort (ks : list Z) : list nat := map snd (isort key_leb (combine ks (seq 0 (length ks)))).

Definition nthZ (l : list Z) (i : nat) : Z := nth i l 0.

(* ------------------------------------------------------------------ broadcast shape (generated rule) *)

Definition unint (v : pyv) : Z := match v with VInt z => z | VBool b => if b then 1 else 0 | _ => 0 end.

(* (l1 == l2) or (l1 == 1) or ((l2 == 1) and not is_result)      — Gen/S_umath.v *)
Definition axis_ok (is_result : bool) (l1 l2 : Z) : bool :=
  match g_bcast_axis_ok (VInt l1) (VInt l2) (VBool is_result) with Ok v => truthy v | Raise _ => false end.

(* l1 if l1 != 1 else l2                                          — Gen/S_umath.v *)
Definition axis_result (l1 l2 : Z) : Z :=
  match g_bcast_axis_result (VInt l1) (VInt l2) with Ok v => unint v | Raise _ => 0 end.

Definition result_fillvalue : Z := match s_bcast_result_fillvalue with Ok v => unint v | Raise _ => 0 end.

(* _get_broadcast_shape(shape1, shape2, is_result): the generated skeleton applied to the folds of the
   generated per-axis rules over the reversed shapes *)
Definition broadcast_shape2 (is_result : bool) (shape1 shape2 : shape) : res shape :=
  let all_ok := forallb (fun p => axis_ok is_result (fst p) (snd p)) (combine (rev shape1) (rev shape2)) in
  let zipped := rev (map (fun p => axis_result (fst p) (snd p))
                         (zip_longest result_fillvalue (rev shape1) (rev shape2))) in
  match g_get_broadcast_shape (VTuple (map VInt shape1)) (VTuple (map VInt shape2)) (VBool is_result)
                              (VBool all_ok) (VTuple (map VInt zipped)) with
  | Ok (VTuple l) => Ok (map unint l)
  | Ok _ => Raise OtherError
  | Raise e => Raise e
  end.

(* _get_nary_broadcast_shape( *shapes) *)
Definition nary_broadcast_shape (shapes : list shape) : res shape :=
  fold_left (fun acc sh => r <- acc ;;
                           if s_nary_new_shape_first then broadcast_shape2 s_nary_is_result sh r
                           else broadcast_shape2 s_nary_is_result r sh)
            shapes (Ok []).

(* _get_broadcast_parameters(shape, broadcast_shape): None = axis missing, True = kept, False = broadcast *)
Definition ozv (o : option Z) : pyv := match o with Some z => VInt z | None => VNone end.

Definition param_of (l1 l2 : option Z) : option bool :=
  match g_bcast_param (ozv l1) (ozv l2) with
  | Ok VNone => None
  | Ok v => Some (truthy v)
  | Raise _ => None
  end.

Definition param_fillvalue : option Z :=
  match s_bcast_param_fillvalue with Ok (VInt z) => Some z | _ => None end.

Definition bcast_params (sh bsh : shape) : list (option bool) :=
  rev (map (fun p => param_of (fst p) (snd p))
           (zip_longest param_fillvalue (map Some (rev sh)) (map Some (rev bsh)))).

(* `if p:` / bool(p) on a broadcast parameter *)
Definition is_true (p : option bool) : bool := match p with Some true => true | _ => false end.
Definition not_none (p : option bool) : bool := match p with None => false | Some _ => true end.

(* _rev_idx(arg, idx) *)
Definition rev_idx {A} (arg : list A) (n : nat) : list A :=
  match n with
  | O => skipn (length arg) arg
  | _ => skipn (length arg - n) arg
  end.

(* ------------------------------------------------------------------ _match_arrays *)

(* the inner `while ib < nb and j >= b[ib]` loop for one element j = a[ia]; returns the new
   (ib, match) and the pairs appended *)
Fixpoint match_inner (fuel : nat) (b : list Z) (j : Z) (ia ib mt : nat) : nat * nat * list (nat * nat) :=
  match fuel with
  | O => (ib, mt, [])
  | S fuel' =>
    if (ib <? length b)%nat && (nthZ b ib <=? j) then
      if j =? nthZ b ib then
        let mt' := if nthZ b mt <? nthZ b ib then ib else mt in
        let '(ib', mt'', l) := match_inner fuel' b j ia (S ib) mt' in
        (ib', mt'', (ia, ib) :: l)
      else match_inner fuel' b j ia (S ib) mt
    else (ib, mt, [])
  end.

(* the outer `for ia, j in enumerate(a)` loop *)
Fixpoint match_outer (a b : list Z) (ia ib mt : nat) : list (nat * nat) :=
  match a with
  | [] => []
  | j :: a' =>
    let ib0 := if j =? nthZ b mt then mt else ib in
    let '(ib', mt', l) := match_inner (S (length b)) b j ia ib0 mt in
    l ++ match_outer a' b (S ia) ib' mt'
  end.

Definition match_arrays (a b : list Z) : list (nat * nat) :=
  match a, b with
  | [], _ => []
  | _, [] => []
  | _, _ => match_outer a b 0 0 0
  end.

(* ------------------------------------------------------------------ _get_expanded_coords_data *)

(* index d of the first axis whose parameter is truthy *)
Fixpoint first_true (params : list (option bool)) : option nat :=
  match params with
  | [] => None
  | p :: r => if is_true p then Some O else option_map S (first_true r)
  end.

(* the second loop: kept axes read the operand's coordinate (dim advances on every non-None
   parameter), the others read the next expansion index *)
Fixpoint merge_coords (params : list (option bool)) (c e : idx) : idx :=
  match params with
  | [] => []
  | p :: ps =>
    let c' := if not_none p then tl c else c in
    if is_true p then hd 0 c :: merge_coords ps c' e
    else hd 0 e :: merge_coords ps c' (tl e)
  end.

Definition falses (params : list (option bool)) (bsh : shape) : shape :=
  select (map (fun p => negb (is_true p)) params) bsh.

(* returns (expanded coords, expanded data).  The Cartesian product runs over
   [extents of the non-kept axes before the first kept axis] x [nnz] x [extents of the other non-kept
   axes], first factor slowest.  Without any kept axis the code returns every index of broadcast_shape
   once and np.repeat(data, size) (consistent only for nnz <= 1; for nnz = 0 a 0-row matrix). *)
(* the expanded coordinates are written into an intp matrix and the expansion indices are intp aranges
   (Gen/S_umath.v: s_expanded_coords_dtype, s_expand_arange_dtype): they are exact integers whatever
   (narrow) index dtype the operand's own coordinates have.  Were that not so, this model — exact in Z —
   would not describe the code, and the definition below says so by returning nothing. *)
Definition expand_index_exact : bool := (s_expanded_coords_dtype =? 0) && (s_expand_arange_dtype =? 0).

Definition expand_coords_data_Z {D} (coords : list idx) (data : list D) (params : list (option bool))
           (bsh : shape) : list idx * list D :=
  match first_true params with
  | None =>
    (match data with
     | [] => repeat [] (length (all_indices (falses params bsh)))
     | _ => all_indices (falses params bsh)
     end,
     flat_map (fun v => repeat v (Z.to_nat (size bsh))) data)
  | Some fd =>
    let pre := falses (firstn fd params) (firstn fd bsh) in
    let post := falses (skipn (S fd) params) (skipn (S fd) bsh) in
    let es := flat_map (fun ipre =>
                flat_map (fun cd =>
                  map (fun ipost => (merge_coords params (fst cd) (ipre ++ ipost), snd cd))
                      (all_indices post))
                  (combine coords data))
                (all_indices pre) in
    (map fst es, map snd es)
  end.

Definition expand_coords_data {D} (coords : list idx) (data : list D) (params : list (option bool))
           (bsh : shape) : list idx * list D :=
  if expand_index_exact then expand_coords_data_Z coords data params bsh else ([], []).

(* ------------------------------------------------------------------ _get_matching_coords (two operands) *)

Fixpoint matching_coords (p1 p2 : list (option bool)) (t1 t2 : idx) : res idx :=
  match p1, p2 with
  | a :: p1', b :: p2' =>
    v <- (if is_true a then Ok (hd 0 t1) else if is_true b then Ok (hd 0 t2) else Raise OtherError) ;;
    r <- matching_coords p1' p2' (if not_none a then tl t1 else t1) (if not_none b then tl t2 else t2) ;;
    Ok (v :: r)
  | _, _ => Ok []
  end.

(* `sorted_idx = [np.argsort(idx) for idx in linear]`: BOTH inputs of every pairwise match are argsorted
   (Gen/S_umath.v: s_match_coo_argsorts_inputs) — the left one is _match_coo's own previous intermediate, which
   is not in order.  Without that fact the inputs would reach _match_arrays as they are. *)
Definition input_order (srt : list Z -> list nat) (ks : list Z) : list nat :=
  if s_match_coo_argsorts_inputs then srt ks else seq 0 (length ks).

(* COO(coords, data, shape, sorted=flag, has_duplicates=False): with sorted=True the constructor keeps the
   given order ("not truly sorted, but we don't need them"), otherwise it sorts by linear location *)
Definition sort_rows {D} (sh : shape) (es : list (idx * D)) : list (idx * D) :=
  map snd (isort key_leb (map (fun e => (ravel sh (fst e), e)) es)).
Definition ctor_rows {D} (sorted : bool) (sh : shape) (es : list (idx * D)) : list (idx * D) :=
  if sorted then es else sort_rows sh es.

(* one step of the loop of _match_coo up to the call of _match_arrays: the pairs of positions
   (into coords1, into coords2) whose coordinates agree on the axes both operands really have *)
Definition match_pairs (srt : list Z -> list nat) (sh1 : shape) (c1 : list idx) (sh2 : shape) (c2 : list idx)
  : res (shape * list (option bool) * list (option bool) * list (nat * nat)) :=
  cur <- broadcast_shape2 false sh1 sh2 ;;
  let p1 := bcast_params sh1 cur in
  let p2 := bcast_params sh2 cur in
  let reduced_params := map2 (fun a b => is_true a && is_true b) p1 p2 in
  let rp1 := rev_idx reduced_params (length sh1) in
  let rp2 := rev_idx reduced_params (length sh2) in
  let reduced_shape := select rp2 sh2 in
  let k1 := map (fun t => ravel reduced_shape (select rp1 t)) c1 in
  let k2 := map (fun t => ravel reduced_shape (select rp2 t)) c2 in
  let s1 := input_order srt k1 in
  let s2 := input_order srt k2 in
  let m := match_arrays (map (nthZ k1) s1) (map (nthZ k2) s2) in
  Ok (cur, p1, p2, map (fun ij => (nth (fst ij) s1 O, nth (snd ij) s2 O)) m).

Section Elemwise.
  Variable V : Type.
  Variable veqb : V -> V -> bool.
  Variable vzero : V.                     (* _zero_of_dtype; also the default of out-of-range reads *)
  Variable f : list V -> V.               (* the function applied, on the list of operand values *)
  Variable scal : nat -> bool.            (* which operand positions hold a Python / NumPy SCALAR (not an ndarray):
                                             only the fill-value fallback for zero-size ndarrays tells them apart *)
  Variable srt : list Z -> list nat.      (* np.argsort inside _match_coo: ANY sorting permutation (its default
                                             kind is unstable); the correspondence instantiates it with the
                                             stable [argsort], the theorems hold for every choice *)

  (* the matched arrays of _match_coo: they share their coordinates, so one row = (coordinate,
     the values of the matched operands at it, in operand order) *)
  Definition mrows := list (idx * list V).

  (* one iteration `for arg2 in args[1:]` *)
  Definition match_step (m : shape * mrows) (a2 : coo V) : res (shape * mrows) :=
    let '(sh1, rows) := m in
    '(cur, p1, p2, pairs) <- match_pairs srt sh1 (map fst rows) (c_shape a2) (c_coords a2) ;;
    rows' <- mapM (fun ij =>
               let r1 := nth (fst ij) rows ([], []) in
               mc <- matching_coords p1 p2 (fst r1) (nth (snd ij) (c_coords a2) []) ;;
               Ok (mc, snd r1 ++ [nth (snd ij) (c_data a2) vzero])) pairs ;;
    if s_match_coo_ctor_has_duplicates then Raise OtherError          (* not what the source promises today *)
    else Ok (cur, ctor_rows s_match_coo_ctor_sorted cur rows').

  (* _match_coo( *args, broadcast_shape=bsh) *)
  Definition match_coo (args : list (coo V)) (bsh : shape) : res mrows :=
    match args with
    | [] => Raise IndexError
    | a1 :: rest =>
      '(sh, rows) <- fold_left (fun acc a2 => m <- acc ;; match_step m a2) rest
                               (Ok (c_shape a1, combine (c_coords a1) (map (fun v => [v]) (c_data a1)))) ;;
      if list_eq_dec Z.eq_dec sh bsh then Ok rows
      else
        let params := bcast_params sh bsh in
        let '(coords, vals) := expand_coords_data (map fst rows) (map snd rows) params bsh in
        Ok (ctor_rows s_match_coo_ctor_sorted bsh (combine coords vals))
    end.

  (* _match_coo(func_array, arg, return_midx=True)[0]: positions of func_array matched by arg *)
  Definition match_coo_midx (sh : shape) (coords : list idx) (arg : coo V) : res (list nat) :=
    '(_, _, _, pairs) <- match_pairs srt sh coords (c_shape arg) (c_coords arg) ;;
    Ok (map fst pairs).

  (* operands after _Elemwise.__init__: COO, or ndarray / scalar (0-d ndarray) *)
  Inductive operand := OSp (c : coo V) | ODn (d : dense V).

  Definition op_shape (a : operand) : shape :=
    match a with OSp c => c_shape c | ODn d => d_shape d end.

  (* `if arg.ndim == 0: arg = arg.todense()` *)
  Definition preprocess (a : operand) : operand :=
    match a with
    | OSp c => match c_shape c with [] => ODn (mkDense [] [den c []]) | _ => a end
    | ODn _ => a
    end.

  Definition is_sparse (a : operand) : bool := match a with OSp _ => true | ODn _ => false end.

  Definition sparse_of (args : list operand) (mask : list (option bool)) (want : bool) : list (coo V) :=
    flat_map (fun am => match am with
                        | (OSp c, Some m) => if Bool.eqb m want then [c] else []
                        | _ => [] end) (combine args mask).

  (* itertools.product( *[[True, False] if isinstance(arg, COO) else [None] for arg in args]) *)
  Fixpoint masks (args : list operand) : list (list (option bool)) :=
    match args with
    | [] => [[]]
    | a :: r => flat_map (fun c => map (cons c) (masks r))
                         (if is_sparse a then s_mask_choices_sparse else s_mask_choices_other)
    end.

  (* func_args of one row: matched operands give their datum, unmatched ones their fill value,
     ndarrays/scalars np.broadcast_to(arg, shape)[coords] *)
  Fixpoint func_args (args : list operand) (mask : list (option bool)) (q : idx) (vals : list V) : list V :=
    match args, mask with
    | a :: ar, m :: mr =>
      match a, m with
      | OSp c, Some true => hd vzero vals :: func_args ar mr q (tl vals)
      | OSp c, _ => c_fill c :: func_args ar mr q vals
      | ODn d, _ => dense_get vzero d (bcast_idx (d_shape d) q) :: func_args ar mr q vals
      end
    | _, _ => []
    end.

  Fixpoint filter_pos {A} (keep : nat -> bool) (n : nat) (l : list A) : list A :=
    match l with
    | [] => []
    | x :: r => if keep n then x :: filter_pos keep (S n) r else filter_pos keep (S n) r
    end.

  (* _Elemwise._get_func_coords_data(mask) *)
  Definition func_coords_data (args : list operand) (shape : shape) (fill : V) (mask : list (option bool))
    : res (option (list (idx * V))) :=
    let matched := sparse_of args mask true in
    let unmatched := sparse_of args mask false in
    let nd_shapes := flat_map (fun a => match a with ODn d => [d_shape d] | _ => [] end) args in
    mbs <- nary_broadcast_shape (map (@c_shape V) matched ++ nd_shapes) ;;
    rows <- match_coo matched mbs ;;
    let func := map (fun r => (fst r, f (func_args args mask (fst r) (snd r)))) rows in
    let kept := filter (fun e => negb (veqb (snd e) fill)) func in
    match kept with
    | [] => Ok None
    | _ =>
      let es := if list_eq_dec Z.eq_dec mbs shape then kept
                else let '(c, d) := expand_coords_data (map fst kept) (map snd kept)
                                                       (bcast_params mbs shape) shape in combine c d in
      if forallb (fun m => match m with Some false => false | _ => true end) mask then Ok (Some es)
      else
        (* func_array = COO(func_coords, func_data, shape, has_duplicates=False, sorted=<generated flag>) *)
        let es := ctor_rows s_func_array_ctor_sorted shape es in
        bad <- mapM (fun arg => match_coo_midx shape (map fst es) arg) unmatched ;;
        let bad := concat bad in
        Ok (Some (filter_pos (fun n => negb (existsb (Nat.eqb n) bad)) O es))
    end.

  (* value of operand a at index q of a shape it broadcasts to *)
  Definition operand_at (a : operand) (q : idx) : V :=
    match a with
    | OSp c => den c (bcast_idx (c_shape c) q)
    | ODn d => dense_get vzero d (bcast_idx (d_shape d) q)
    end.

  (* func(fill values of the sparse operands, ndarrays) at index q of the ndarrays' broadcast shape *)
  Definition fill_at (args : list operand) (q : idx) : V :=
    f (map (fun a => match a with
                     | OSp c => c_fill c
                     | ODn d => dense_get vzero d (bcast_idx (d_shape d) q) end) args).

  (* the IndexError fallback of _get_fill_value (func(fills, ndarrays) is an EMPTY array):
     arg.fill_value if COO, _zero_of_dtype(arg.dtype) if ndarray, else the scalar itself *)
  Definition zeros_fill (args : list operand) : V :=
    f (map (fun ia => match snd ia with
                      | OSp c => c_fill c
                      | ODn d => if scal (fst ia) then hd vzero (d_flat d) else vzero
                      end) (combine (seq 0 (length args)) args)).

  Inductive fill_outcome := FillSparse (fill : V) | FillDense | FillError.

  (* _Elemwise._get_fill_value: the result fill value, and whether func(fills, ndarrays) is constant *)
  Definition get_fill_value (args : list operand) (shape nd_shape : shape) : fill_outcome :=
    let arr := map (fill_at args) (all_indices nd_shape) in
    let fill := match arr with v :: _ => v | [] => zeros_fill args end in
    if forallb (veqb fill) arr then FillSparse fill
    else if list_eq_dec Z.eq_dec shape nd_shape then FillDense
    else FillError.

  (* COO(coords, data, shape, has_duplicates=False, fill_value=...) with sorted=False: _sort_indices
     (stable, by linear location).  The promises are read from Gen/S_umath.v. *)
  Definition sort_coo (sh : shape) (es : list (idx * V)) : list (idx * V) :=
    map snd (isort key_leb (map (fun e => (ravel sh (fst e), e)) es)).

  Inductive outcome := OutSparse (c : coo V) | OutDense (d : dense V) | OutErr (e : exc).

  Definition result_ctor (sh : shape) (es : list (idx * V)) (fill : V) : option (coo V) :=
    if s_result_ctor_has_duplicates || s_result_ctor_prune then None   (* not what the source promises today *)
    else let es' := if s_result_ctor_sorted then es else sort_coo sh es in
         Some (mkCOO sh (map fst es') (map snd es') fill).

  (* _Elemwise(func, *args).get_result()  (operands already converted to COO / ndarray) *)
  Definition elemwise_sc (args0 : list operand) : outcome :=
    if negb (existsb is_sparse args0) then OutErr ValueError else
    let args := map preprocess args0 in
    match nary_broadcast_shape (map op_shape args),
          nary_broadcast_shape (flat_map (fun a => match a with ODn d => [d_shape d] | _ => [] end) args) with
    | Raise e, _ => OutErr e
    | _, Raise e => OutErr e
    | Ok shape, Ok nd_shape =>
      match get_fill_value args shape nd_shape with
      | FillError => OutErr ValueError
      | FillDense => OutDense (mkDense shape (map (fun q => f (map (fun a => operand_at a q) args)) (all_indices shape)))
      | FillSparse fill =>
        if existsb (Z.eqb 0) shape then OutSparse (mkCOO shape [] [] fill)
        else
          match mapM (func_coords_data args shape fill)
                     (filter (existsb is_true) (masks args)) with
          | Raise e => OutErr e
          | Ok pieces =>
            let es := concat (map (fun o => match o with Some l => l | None => [] end) pieces) in
            match result_ctor shape es fill with
            | Some c => OutSparse c
            | None => OutErr OtherError
            end
          end
      end
    end.

  (* ---------------------------------------------------------------- the same-shape binary case,
     written out: the three masks (both matched / only a / only b) *)
  Definition keys (c : coo V) : list Z := map (ravel (c_shape c)) (c_coords c).

  Definition elemwise2 (a b : coo V) : coo V :=
    let sh := c_shape a in
    let fill := f [c_fill a; c_fill b] in
    if existsb (Z.eqb 0) sh then mkCOO sh [] [] fill else
    let keep := filter (fun e : idx * V => negb (veqb (snd e) fill)) in
    let both := keep (map (fun ij => (nth (fst ij) (c_coords a) [],
                                      f [nth (fst ij) (c_data a) vzero; nth (snd ij) (c_data b) vzero]))
                          (match_arrays (keys a) (keys b))) in
    let only_a := keep (map (fun e => (fst e, f [snd e; c_fill b])) (entries a)) in
    let bad_a := map fst (match_arrays (map (ravel sh) (map fst only_a)) (keys b)) in
    let only_a' := filter_pos (fun n => negb (existsb (Nat.eqb n) bad_a)) O only_a in
    let only_b := keep (map (fun e => (fst e, f [c_fill a; snd e])) (entries b)) in
    let bad_b := map fst (match_arrays (map (ravel sh) (map fst only_b)) (keys a)) in
    let only_b' := filter_pos (fun n => negb (existsb (Nat.eqb n) bad_b)) O only_b in
    let es := sort_coo sh (both ++ only_a' ++ only_b') in
    mkCOO sh (map fst es) (map snd es) fill.

End Elemwise.

(* no operand position holds a Python scalar (or none next to a zero-size ndarray: the only place where the
   distinction is visible) *)
Definition elemwise (V : Type) (veqb : V -> V -> bool) (vzero : V) (f : list V -> V) (srt : list Z -> list nat)
           (args : list (operand V)) : outcome V :=
  elemwise_sc V veqb vzero f (fun _ => false) srt args.

Arguments OSp {V}.
Arguments ODn {V}.
Arguments OutSparse {V}.
Arguments OutDense {V}.
Arguments OutErr {V}.
Arguments FillSparse {V}.
Arguments FillDense {V}.
Arguments FillError {V}.

(* ------------------------------------------------------------------ SparseArray.astype: which OBJECT comes back
   `if <generated condition>: return self`, otherwise the (new) result of the element-wise core.
   Objects are named by identifiers; [fresh] is the identifier of the newly built result. *)
Definition astype_returns_self (same_dtype copy : bool) : bool :=
  match g_astype_returns_self (VBool same_dtype) (VBool copy) with Ok v => truthy v | Raise _ => false end.

Definition astype_object (self fresh : nat) (same_dtype copy : bool) : nat :=
  if astype_returns_self same_dtype copy then self else fresh.

(* ------------------------------------------------------------------ output format (_Elemwise.__init__)
   the decision chain (which class all sparse operands must have -> out_type; default; whether the common
   compressed axes are kept; whether the zero-extent shortcut converts) is regenerated from the source:
   Gen/S_umath.v (s_out_rules, s_out_default, s_gcxs_common_axes_kept, s_zero_extent_asformat) *)
Inductive afmt := ACoo | AGcxs (caxes : list Z) | ADok | AScipy | AOther.     (* AGcxs []: compressed_axes=None (ndim < 2) *)
Inductive ofmt := OutCoo | OutGcxs (caxes : option (list Z)) | OutDok.

Definition is_sparse_array (x : afmt) : bool :=
  match x with ACoo | AGcxs _ | ADok => true | _ => false end.

Definition afmt_class (x : afmt) : Z := match x with ACoo => 0 | AGcxs _ => 1 | ADok => 2 | _ => -1 end.

Fixpoint out_type_of (rules : list (Z * Z)) (sp : list afmt) : Z :=
  match rules with
  | [] => s_out_default
  | (cls, o) :: r => if forallb (fun y => afmt_class y =? cls) sp then o else out_type_of r sp
  end.

Definition common_axes (sp : list afmt) : option (list Z) :=
  match sp with
  | AGcxs ca :: _ =>
    if forallb (fun y => match y with AGcxs cb => if list_eq_dec Z.eq_dec ca cb then true else false
                                 | _ => false end) sp
    then (match ca with [] => None | _ => Some ca end) else None
  | _ => None
  end.

Definition out_format (fs : list afmt) : option ofmt :=
  let sp := filter is_sparse_array fs in
  match sp with
  | [] => None                                         (* ValueError: none of the args is sparse *)
  | _ =>
    let ty := out_type_of s_out_rules sp in
    Some (if ty =? 2 then OutDok
          else if ty =? 1 then OutGcxs (if s_gcxs_common_axes_kept then common_axes sp else None)
          else OutCoo)
  end.

(* get_result returns the empty COO directly (no .asformat(out_type)) when an extent is 0 *)
Definition result_format (o : ofmt) (sh : shape) : ofmt :=
  if existsb (Z.eqb 0) sh && negb s_zero_extent_asformat then OutCoo else o.
