(* Model/Ctor.v — property C06, part 1: the COO constructor as `COO.__init__` runs it
   (sparse/numba_backend/_coo/core.py), the promise flags its callers pass, the type of the
   generated call-site table (Gen/S_ctor_sites.v), the hand-written justification table, and the
   csr @ csr kernel (the producer whose promise fails, finding D8).  Definitions only. *)
From Coq Require Import String ZArith List Bool.
From Verif Require Import Shape COO GCXS.
Import ListNotations.
Open Scope Z_scope.

(* ------------------------------------------------------------------ call sites (generated table) *)

(* a flag argument at a call site: literal True / literal False / absent (= the default of the
   __init__ signature) / any other expression (kept as source text) *)
Inductive flagv := FTrue | FFalse | FDefault | FExpr (text : string).

Inductive ctor_kind := KCoo | KGcxs | KDok | KDyn | KSuper.
(* first argument: raw arrays (coords+data / (data, indices, indptr) literal), a name that may hold
   raw arrays (shape= is given), or an object to convert *)
Inductive arg_kind := ARaw | AMaybeRaw | AConvert.

Record site := mkSite {
  s_file : string; s_func : string; s_ord : Z; s_kind : ctor_kind; s_callee : string; s_arg : arg_kind;
  s_sorted : flagv; s_hasdup : flagv; s_prune : flagv; s_fill : flagv;
  s_src : string          (* exact source text of the four arguments *)
}.

(* a pruning expression of the source: `~equivalent(data, fill)` (the NaN-aware token equality of
   _utils.equivalent) or anything else (kept as text; a plain `!=` / `==` comparison is "else") *)
Inductive prune_shape := PNotEquivalent (data fill : string) | POther (text : string).
Record prune_site := mkPrune { p_file : string; p_func : string; p_var : string; p_shape : prune_shape; p_src : string }.

Definition flagv_eqb (a b : flagv) : bool :=
  match a, b with
  | FTrue, FTrue | FFalse, FFalse | FDefault, FDefault => true
  | FExpr s, FExpr t => String.eqb s t
  | _, _ => false
  end.

Definition kind_eqb (a b : ctor_kind) : bool :=
  match a, b with
  | KCoo, KCoo | KGcxs, KGcxs | KDok, KDok | KDyn, KDyn | KSuper, KSuper => true
  | _, _ => false
  end.

Definition arg_eqb (a b : arg_kind) : bool :=
  match a, b with
  | ARaw, ARaw | AMaybeRaw, AMaybeRaw | AConvert, AConvert => true
  | _, _ => false
  end.

(* absent argument = default of the signature *)
Definition resolve (dflt f : flagv) : flagv := match f with FDefault => dflt | _ => f end.

(* does the call promise anything the constructor will not establish itself?
   COO: sorted is not (resolved) False, or has_duplicates is not (resolved) True.
   GCXS & co.: raw (data, indices, indptr) are stored without any validation. *)
Definition site_promises (coo_dflt : flagv * flagv * flagv) (s : site) : bool :=
  let '(d_sorted, d_hasdup, _) := coo_dflt in
  let coo_rule :=
    negb (flagv_eqb (resolve d_sorted (s_sorted s)) FFalse)
    || negb (flagv_eqb (resolve d_hasdup (s_hasdup s)) FTrue) in
  match s_kind s with
  | KCoo => coo_rule
  | KDok => false
  | KGcxs | KSuper => match s_arg s with AConvert => false | _ => true end
  | KDyn => coo_rule || match s_arg s with AConvert => false | _ => true end
  end.

(* ------------------------------------------------------------------ justification table *)

(* the proved schemas (one lemma each in Proofs/CtorP.v, named schema_<Name>) *)
Inductive schema :=
| EmptyCoords              (* no stored entries *)
| FilterOfCanonical        (* a selection of the entries of a canonical array, order kept *)
| InjectiveMonotoneMap     (* coordinates mapped by a strictly lex-monotone, range-preserving map
                              (reshape = unravel . ravel, squeeze, leading constant axis) *)
| FromSortedOffsetConcat   (* blocks of canonical arrays, leading coordinate offset by the extents before *)
| AdjacentLexIncreasing    (* consecutive coordinates increase lexicographically (diagonal of eye,
                              positions inside groups for sort) *)
| GroupHeads               (* first element of every run of a non-decreasing sequence *)
| InjectiveMap             (* has_duplicates=False only: injective coordinate map, the constructor sorts *)
| MergeOfDisjointSorted    (* has_duplicates=False only: concatenation of pairwise disjoint duplicate-free blocks *)
| SharesArraysOfWf         (* GCXS: the (data, indices, indptr) of a well-formed 2-d array re-labelled
                              with swapped shape and compressed axis *)
| RowsSortedByKernel       (* GCXS: the kernel emits every column of a row once and sorts each row
                              segment by column before storing it *)
| PermuteThenCtorSorts.    (* nothing promised *)

Inductive justification :=
| Justified (s : schema) (why : string)
| JustifiedBy (thm : string) (why : string)   (* a theorem of another property's development, cited through a
                                                 corollary registered in Proofs/ProgP.v:citations *)
| Unjustified (reason : string)         (* no schema: correspondence-only for this site *)
| Refuted (clause : string).            (* the promise is false: a finding *)

Record jentry := mkJ {
  j_file : string; j_func : string; j_ord : Z; j_kind : ctor_kind; j_arg : arg_kind;
  j_sorted : flagv; j_hasdup : flagv; j_just : justification
}.

Definition entry_matches (s : site) (e : jentry) : bool :=
  String.eqb (s_file s) (j_file e) && String.eqb (s_func s) (j_func e) && (s_ord s =? j_ord e)
  && kind_eqb (s_kind s) (j_kind e) && arg_eqb (s_arg s) (j_arg e)
  && flagv_eqb (s_sorted s) (j_sorted e) && flagv_eqb (s_hasdup s) (j_hasdup e).

Definition site_has_justification (dflt : flagv * flagv * flagv) (table : list jentry) (s : site) : bool :=
  if site_promises dflt s then existsb (entry_matches s) table else true.

(* no stale entries: every table entry still describes a site of the source *)
Definition entry_has_site (sites : list site) (e : jentry) : bool :=
  existsb (fun s => entry_matches s e) sites.

Definition just_of (table : list jentry) (s : site) : option justification :=
  match find (entry_matches s) table with Some e => Some (j_just e) | None => None end.

(* (sites, promising, justified by a schema, justified by a cited theorem, unjustified, refuted) *)
Definition site_counts (dflt : flagv * flagv * flagv) (table : list jentry) (sites : list site)
  : Z * Z * Z * Z * Z * Z :=
  let prom := filter (site_promises dflt) sites in
  let cnt (p : justification -> bool) :=
    Z.of_nat (length (filter (fun s => match just_of table s with Some j => p j | None => false end) prom)) in
  (Z.of_nat (length sites), Z.of_nat (length prom),
   cnt (fun j => match j with Justified _ _ => true | _ => false end),
   cnt (fun j => match j with JustifiedBy _ _ => true | _ => false end),
   cnt (fun j => match j with Unjustified _ => true | _ => false end),
   cnt (fun j => match j with Refuted _ => true | _ => false end)).

Open Scope string_scope.

Definition J := mkJ.

(* Every call site of sparse/numba_backend whose flags promise something, with the reason the
   promise holds in its producer.  Written by hand after reading each producer; an entry stops
   matching when the site's flags, position or argument kind change. *)
Definition site_justification : list jentry := [
  (* ---- _common.py *)
  J "_common.py" "_dot" 0 KGcxs ARaw FDefault FDefault
    (Justified RowsSortedByKernel "csr @ csr / csc @ csc: every touched column is emitted once (linked-list membership test next_[k] == -1) and each row segment is argsorted by column (fix cab5c1c of finding D8)");
  J "_common.py" "_dot" 1 KGcxs ARaw FDefault FDefault
    (Unjustified "csr @ ndarray sparse kernel: rows filled in column order 0..n-1 (read; not modelled)");
  J "_common.py" "_dot" 2 KGcxs ARaw FDefault FDefault
    (Justified RowsSortedByKernel "csc @ ndarray / ndarray @ csr sparse kernel: every touched position of an output column is emitted once (membership test mask[ind] == -1), exactly the positions _csc_ndarray_count_nnz counted, and each segment is argsorted (fix 03cd171)");
  J "_common.py" "_dot" 3 KGcxs ARaw FDefault FDefault
    (Justified RowsSortedByKernel "csc @ ndarray / ndarray @ csr sparse kernel: every touched position of an output column is emitted once (membership test mask[ind] == -1), exactly the positions _csc_ndarray_count_nnz counted, and each segment is argsorted (fix 03cd171)");
  J "_common.py" "_dot" 4 KGcxs ARaw FDefault FDefault
    (Unjustified "ndarray @ csc via transposed csr kernel (read; not modelled)");
  J "_common.py" "_dot" 5 KCoo ARaw FFalse FFalse
    (JustifiedBy "C04.spcoo_den" "coo @ coo kernel: the emitted (row, col) pairs are pairwise distinct (NoDup), the promise has_duplicates=False; order is not promised (sorted=False)");
  J "_common.py" "_dot" 6 KCoo ARaw FTrue FFalse
    (Unjustified "coo @ ndarray sparse kernel: output rows in order of a's sorted rows, columns 0..n-1 (read; not modelled)");
  J "_common.py" "_dot" 7 KCoo ARaw FTrue FFalse
    (Unjustified "ndarray @ coo sparse kernel (read; not modelled)");
  J "_common.py" "eye" 0 KCoo ARaw FTrue FFalse
    (Justified AdjacentLexIncreasing "coords (i + max(-k,0), i + max(k,0)) for i = 0..n-1: first coordinate strictly increasing");
  J "_common.py" "full" 0 KCoo ARaw FTrue FFalse
    (Justified EmptyCoords "np.empty((ndim, 0))");
  (* ---- _compressed/common.py *)
  J "_compressed/common.py" "concatenate" 1 KGcxs ARaw FDefault FDefault
    (JustifiedBy "C09.indptr_splice_wf" "indptr of the joined GCXS = splice of the members' indptr: starts at 0, non-decreasing, ends at the total nnz, one entry per joined row + 1; indices/data are the members' concatenated (rows unchanged)");
  J "_compressed/common.py" "stack" 1 KGcxs ARaw FDefault FDefault
    (JustifiedBy "C09.indptr_splice_wf" "indptr of the stacked GCXS = splice of the members' indptr (as concatenate)");
  (* ---- _compressed/compressed.py *)
  J "_compressed/compressed.py" "CSC.__init__" 0 KSuper AMaybeRaw FDefault FDefault
    (Unjustified "forwards its argument to GCXS.__init__ unchanged; the promise is the caller's");
  J "_compressed/compressed.py" "CSC.from_scipy_sparse" 0 KGcxs ARaw FDefault FDefault
    (Unjustified "the SciPy matrix is first canonicalised by _canonical_scipy (scipy's sum_duplicates() unless has_canonical_format): sorted, duplicate-free rows are established by the external library (believed, cf. from_scipy_wf_when_rows_sorted); judged at run time");
  J "_compressed/compressed.py" "CSC.transpose" 0 KGcxs ARaw FDefault FDefault
    (Justified SharesArraysOfWf "same arrays, shape reversed, compressed axis 1 -> 0");
  J "_compressed/compressed.py" "CSR.__init__" 0 KSuper AMaybeRaw FDefault FDefault
    (Unjustified "forwards its argument to GCXS.__init__ unchanged; the promise is the caller's");
  J "_compressed/compressed.py" "CSR.from_scipy_sparse" 0 KGcxs ARaw FDefault FDefault
    (Unjustified "the SciPy matrix is first canonicalised by _canonical_scipy (scipy's sum_duplicates() unless has_canonical_format): sorted, duplicate-free rows are established by the external library (believed, cf. from_scipy_wf_when_rows_sorted); judged at run time");
  J "_compressed/compressed.py" "CSR.transpose" 0 KGcxs ARaw FDefault FDefault
    (Justified SharesArraysOfWf "same arrays, shape reversed, compressed axis 0 -> 1");
  J "_compressed/compressed.py" "GCXS._2d_transpose" 0 KGcxs ARaw FDefault FDefault
    (Justified SharesArraysOfWf "same arrays, shape reversed, compressed axis flipped");
  J "_compressed/compressed.py" "GCXS._reduce_return" 0 KGcxs ARaw FDefault FDefault
    (JustifiedBy "C03.gcxs_reduce_den" "the GCXS reduction returns a canonical, pruned result (rres_wf) for every axis argument");
  J "_compressed/compressed.py" "GCXS.change_compressed_axes" 0 KGcxs AMaybeRaw FDefault FDefault
    (JustifiedBy "C05.change_axes_wf" "arrays computed by _transpose: gcxs_wfb of the result, and (C05.change_axes_fits) indices, row numbers and indptr fit the dtype bound max(new compressed extents, nnz) extracted into Gen/S_convert.v");
  J "_compressed/compressed.py" "GCXS.from_coo" 0 KGcxs AMaybeRaw FDefault FDefault
    (JustifiedBy "C05.gcxs_from_coo_wf" "arrays computed by _from_coo from a canonical COO: gcxs_wfb for every valid compressed-axes choice");
  J "_compressed/compressed.py" "GCXS.from_scipy_sparse" 0 KGcxs ARaw FDefault FDefault
    (Unjustified "the SciPy matrix is first canonicalised by _canonical_scipy (scipy's sum_duplicates() unless has_canonical_format): sorted, duplicate-free rows are established by the external library (believed, cf. from_scipy_wf_when_rows_sorted); judged at run time");
  J "_compressed/compressed.py" "GCXS.reshape" 0 KGcxs AMaybeRaw FDefault FDefault
    (Unjustified "arrays computed by _resize/_from_coo conversion (model of C08; judged at run time). The new indptr ends at nnz, so its dtype must hold max(new compressed extents, nnz): the bound of _transpose is extracted into Gen/S_convert.v and Props/C05.v:change_axes_fits proves indices, row numbers and indptr fit it; here the narrow-index join sequences of the campaign (nnz crossing 127/255) judge indptr at run time");
  J "_compressed/compressed.py" "GCXS.transpose" 0 KGcxs AMaybeRaw FDefault FDefault
    (Unjustified "arrays computed by _transpose conversion (model of C08; judged at run time). The new indptr ends at nnz, so its dtype must hold max(new compressed extents, nnz): the bound of _transpose is extracted into Gen/S_convert.v and Props/C05.v:change_axes_fits proves indices, row numbers and indptr fit it; here the narrow-index join sequences of the campaign (nnz crossing 127/255) judge indptr at run time");
  J "_compressed/compressed.py" "_Compressed2d.__init__" 0 KSuper AMaybeRaw FDefault FDefault
    (Unjustified "forwards its argument to GCXS.__init__ unchanged; the promise is the caller's");
  (* ---- _compressed/convert.py, indexing.py *)
  J "_compressed/convert.py" "_resize" 0 KGcxs ARaw FDefault FDefault
    (Unjustified "1-d GCXS from linearised coordinates (model of C08; judged at run time)");
  J "_compressed/convert.py" "_resize" 1 KGcxs ARaw FDefault FDefault
    (Unjustified "1-d GCXS from linearised coordinates (model of C08; judged at run time)");
  J "_compressed/indexing.py" "getitem" 0 KGcxs AMaybeRaw FDefault FDefault
    (Unjustified "GCXS indexing kernels (model of C02; judged at run time).  The former finding gcxs_getitem_newaxis_with_int_malformed (2-d result with indptr = None) can no longer be returned: GCXS.__init__ now rejects an indptr whose length is not rows + 1 (the key raises instead)");
  (* ---- _coo/common.py *)
  J "_coo/common.py" "concatenate" 1 KCoo ARaw (FExpr "axis == 0") FFalse
    (Justified FromSortedOffsetConcat "coords of block i offset by the extents of blocks < i along `axis`; sorted exactly when axis = 0; blocks have disjoint coordinate ranges along `axis` for every axis");
  J "_coo/common.py" "kron" 0 KCoo ARaw FDefault FFalse
    (Justified InjectiveMap "(a, b) |-> a * shape_b + b is injective on in-range pairs; the constructor sorts");
  J "_coo/common.py" "roll" 0 KCoo ARaw FDefault FFalse
    (Justified InjectiveMap "c |-> (c + shift) mod extent per axis is injective on in-range coordinates; the constructor sorts");
  J "_coo/common.py" "sort" 0 KCoo ARaw FTrue FFalse
    (Justified AdjacentLexIncreasing "2-d: group coordinate unchanged (non-decreasing), positions 0..g-1 (+ gap) strictly increasing inside a group");
  J "_coo/common.py" "stack" 1 KCoo ARaw (FExpr "axis == 0") FFalse
    (Justified FromSortedOffsetConcat "block index inserted at `axis`; leading (axis = 0) it orders the blocks; distinct blocks differ in it for every axis");
  J "_coo/common.py" "tril" 0 KCoo ARaw FTrue FFalse
    (Justified FilterOfCanonical "mask over the entries of x");
  J "_coo/common.py" "triu" 0 KCoo ARaw FTrue FFalse
    (Justified FilterOfCanonical "mask over the entries of x");
  (* ---- _coo/core.py *)
  J "_coo/core.py" "COO._reduce_return" 0 KCoo ARaw FTrue FFalse
    (Justified GroupHeads "a.coords[0, inv_idx]: first element of every run of the sorted row coordinate");
  J "_coo/core.py" "COO.from_numpy" 0 KCoo ARaw FTrue FFalse
    (Justified FilterOfCanonical "np.flatnonzero: a selection of 0..size-1 in increasing order");
  J "_coo/core.py" "COO.from_scipy_sparse" 0 KCoo ARaw (FExpr "x.has_canonical_format") (FExpr "not x.has_canonical_format")
    (Unjustified "external promise: scipy's has_canonical_format flag is believed");
  J "_coo/core.py" "COO.reshape" 0 KCoo ARaw FTrue FFalse
    (Justified InjectiveMonotoneMap "unravel new_shape . ravel old_shape (Shape.ravel_lex)");
  J "_coo/core.py" "COO.squeeze" 0 KCoo ARaw FTrue FFalse
    (Justified InjectiveMonotoneMap "dropping axes of extent 1 keeps ravel, hence the order");
  J "_coo/core.py" "COO.transpose" 0 KCoo ARaw FDefault FFalse
    (Justified InjectiveMap "a permutation of the coordinate entries is injective; the constructor sorts");
  (* ---- _coo/indexing.py *)
  J "_coo/indexing.py" "getitem" 0 KCoo ARaw FTrue FFalse
    (Unjustified "structured-dtype field index: selection of the entries followed by np.where's row-major trailing indices (read; record dtypes are outside the harness)");
  J "_coo/indexing.py" "getitem" 1 KCoo ARaw (FExpr "sorted") FFalse
    (JustifiedBy "C02.coo_getitem_den" "basic indices: the result is canonical with the sorted= expression of the source; one index array: C02.coo_getitem_one_array_partial (inside its clause d29)");
  (* ---- _io.py *)
  J "_io.py" "load_npz" 0 KCoo ARaw FTrue FFalse
    (JustifiedBy "C14.npz_roundtrip_exact" "for an archive written by save_npz from a well-formed array the loaded arrays are the saved ones (external promise for any other file; damaged archives are rejected: C14.npz_damaged_rejected)");
  J "_io.py" "load_npz" 1 KGcxs ARaw FDefault FDefault
    (JustifiedBy "C14.npz_roundtrip_exact" "as for COO: the members written by save_npz come back unchanged");
  (* ---- _umath.py *)
  J "_umath.py" "_Elemwise._get_func_coords_data" 0 KCoo ARaw FTrue FFalse
    (Unjustified "internal temporary, knowingly unsorted (source comment `Not really sorted but we need the sortedness`); never returned; consumers re-sort by argsort");
  J "_umath.py" "_Elemwise._match_coo" 0 KCoo ARaw FTrue FFalse
    (Unjustified "internal temporary, knowingly unsorted (source comment `The coords aren't truly sorted`); never returned");
  J "_umath.py" "_Elemwise._match_coo" 1 KCoo ARaw FTrue FFalse
    (Unjustified "internal temporary (broadcast of matched arrays); never returned");
  J "_umath.py" "_Elemwise.get_result" 0 KCoo ARaw FDefault FFalse
    (Justified EmptyCoords "zero-size result: np.empty((0, ndim))");
  J "_umath.py" "_Elemwise.get_result" 1 KCoo ARaw FDefault FFalse
    (Justified MergeOfDisjointSorted "one block per matched/unmatched class of the operands; classes are pairwise disjoint by construction (matched coordinates are removed from the unmatched blocks); the constructor sorts");
  J "_umath.py" "broadcast_to" 0 KCoo ARaw (FExpr "sorted") FFalse
    (JustifiedBy "C08.broadcast_to_den" "result canonical for every target NumPy accepts; the sorted= rule (non-broadcast axes adjacent) is sound: C08.broadcast_to_sorted_rule_sound")
].

(* what every pruning expression of the source must be: (file, function, variable, data, fill) of a
   `variable = ~equivalent(data, fill)` *)
Definition prune_expected : list (string * string * string * string * string) := [
  ("_coo/core.py", "COO._prune", "mask", "self.data", "self.fill_value");
  ("_coo/core.py", "COO.from_numpy", "coords", "x", "fill_value");
  ("_compressed/compressed.py", "GCXS._reduce_return", "mask", "data", "result_fill_value");
  ("_compressed/compressed.py", "GCXS._prune", "mask", "self.data", "self.fill_value");
  ("_umath.py", "_Elemwise._get_func_coords_data", "unmatched_mask", "func_data", "self.fill_value")
].

Definition prune_key (p : prune_site) : string * string * string * string * string :=
  match p_shape p with
  | PNotEquivalent d f => (p_file p, p_func p, p_var p, d, f)
  | POther t => (p_file p, p_func p, p_var p, "<not ~equivalent(...)>", t)
  end.

Definition str5_eqb (a b : string * string * string * string * string) : bool :=
  let '(a1, a2, a3, a4, a5) := a in let '(b1, b2, b3, b4, b5) := b in
  String.eqb a1 b1 && String.eqb a2 b2 && String.eqb a3 b3 && String.eqb a4 b4 && String.eqb a5 b5.

Fixpoint list_eqb5 (l1 l2 : list (string * string * string * string * string)) : bool :=
  match l1, l2 with
  | [], [] => true
  | a :: r1, b :: r2 => str5_eqb a b && list_eqb5 r1 r2
  | _, _ => false
  end.

(* the key of _sort_indices / _sum_duplicates: linear_loc returns np.ravel_multi_index(coords, shape) — an intp
   (signed, wide) array whatever the coordinate dtype — except for the 0-d case (zeros of intp) *)
Definition linear_loc_expected : list (string * string * string) := [
  ("linear_loc", "shape == () and len(coords) == 0", "np.zeros(coords.shape[1:], dtype=np.intp)");
  ("linear_loc", "", "np.ravel_multi_index(coords, shape)");
  ("COO.linear_loc", "", "linear_loc(self.coords, self.shape)")
].

(* broadcast_to: sorted = "every two consecutive non-broadcast axes are next to each other" *)
Definition broadcast_sorted_expected : list (string * string * string) := [
  ("broadcast_to", "nonbroadcast_idx", "[idx for idx, p in enumerate(params) if p]");
  ("broadcast_to", "diff_nonbroadcast_idx", "[a - b for a, b in zip(nonbroadcast_idx[1:], nonbroadcast_idx[:-1], strict=True)]");
  ("broadcast_to", "sorted", "all((d == 1 for d in diff_nonbroadcast_idx))")
].

Fixpoint list_eqb3 (l1 l2 : list (string * string * string)) : bool :=
  match l1, l2 with
  | [], [] => true
  | (a1, a2, a3) :: r1, (b1, b2, b3) :: r2 =>
    String.eqb a1 b1 && String.eqb a2 b2 && String.eqb a3 b3 && list_eqb3 r1 r2
  | _, _ => false
  end.

(* COO._reduce_return prunes through the constructor (prune=True) *)
Definition coo_reduce_return_prunes (sites : list site) : bool :=
  existsb (fun s => String.eqb (s_func s) "COO._reduce_return" && flagv_eqb (s_prune s) FTrue) sites.

Close Scope string_scope.

(* pruning a data list by a mask `keep v` *)
Definition prune_by {V} (keep : V -> bool) (data : list V) : list V := filter keep data.

(* IEEE `!=` on value tokens, with `nan` the token of NaN: NaN != anything, itself included *)
Definition ieee_neq (nan : Z) (a b : Z) : bool := (a =? nan) || (b =? nan) || negb (a =? b).

(* diff_nonbroadcast_idx of a list of axis numbers, and the two readings of the flag *)
Fixpoint diffs (l : list Z) : list Z :=
  match l with
  | a :: ((b :: _) as r) => (b - a) :: diffs r
  | _ => []
  end.
Definition all_diffs_one (l : list Z) : bool := forallb (fun d => d =? 1) (diffs l).   (* all(d == 1 ...) *)
Definition any_diff_one (l : list Z) : bool := existsb (fun d => d =? 1) (diffs l).    (* any(d == 1 ...) *)

(* `(np.diff(linear) >= 0).all()` evaluated in an UNSIGNED w-bit type (what the test would be if the key kept
   an unsigned coordinate dtype): differences wrap, so the test accepts everything *)
Fixpoint nondec_wrapped (w : Z) (l : list Z) : bool :=
  match l with
  | [] => true
  | a :: r => match r with [] => true | b :: _ => (0 <=? (b - a) mod 2 ^ w) && nondec_wrapped w r end
  end.

(* ------------------------------------------------------------------ the constructor *)

Section Ctor.
  Variable V : Type.
  Variable veqb : V -> V -> bool.
  Variable add : V -> V -> V.

  Record flags := mkFlags { f_sorted : bool; f_has_duplicates : bool; f_prune : bool }.

  (* defaults of COO.__init__: has_duplicates=True, sorted=False, prune=False *)
  Definition default_flags := mkFlags false true false.

  Definition ent := (idx * V)%type.

  Section WithShape.
    Variable sh : shape.

    (* linear_loc: np.ravel_multi_index *)
    Definition key (e : ent) : Z := ravel sh (fst e).

    Fixpoint nondec (l : list Z) : bool :=
      match l with
      | [] => true
      | a :: r => match r with [] => true | b :: _ => (a <=? b) && nondec r end
      end.

    (* np.argsort(linear, kind="mergesort"): the stable sort, as insertion from the right *)
    Fixpoint insert_st (x : ent) (l : list ent) : list ent :=
      match l with
      | [] => [x]
      | y :: r => if key x <=? key y then x :: y :: r else y :: insert_st x r
      end.

    Definition isort (l : list ent) : list ent := fold_right insert_st [] l.

    (* COO._sort_indices *)
    Definition sort_indices (es : list ent) : list ent :=
      if nondec (map key es) then es            (* "already sorted" *)
      else isort es.

    (* the run starting at coordinate k with running sum acc *)
    Fixpoint sum_run (k : idx) (acc : V) (r : list ent) : list ent :=
      match r with
      | [] => [(k, acc)]
      | (k', v) :: r' =>
        if ravel sh k' =? ravel sh k then sum_run k (add acc v) r'
        else (k, acc) :: sum_run k' v r'
      end.

    Fixpoint all_distinct_adjacent (l : list Z) : bool :=
      match l with
      | [] => true
      | a :: r => match r with [] => true | b :: _ => negb (a =? b) && all_distinct_adjacent r end
      end.

    (* COO._sum_duplicates: adjacent entries with equal linear location are summed left to
       right (np.add.reduceat), the first coordinate of each run is kept *)
    Definition sum_duplicates (es : list ent) : list ent :=
      if all_distinct_adjacent (map key es) then es    (* "already unique" *)
      else match es with [] => [] | (k, v) :: r => sum_run k v r end.

    (* COO._prune *)
    Definition prune (fill : V) (es : list ent) : list ent :=
      filter (fun e => negb (veqb (snd e) fill)) es.

    Definition ctor_entries (fl : flags) (fill : V) (es : list ent) : list ent :=
      let e1 := if f_sorted fl then es else sort_indices es in
      let e2 := if f_has_duplicates fl then sum_duplicates e1 else e1 in
      if f_prune fl then prune fill e2 else e2.
  End WithShape.

  (* COO(coords, data, shape=shape, fill_value=fill, sorted=, has_duplicates=, prune=) with
     len(data) = number of coordinate tuples *)
  Definition coo_ctor (fl : flags) (coords : list idx) (data : list V) (sh : shape) (fill : V) : coo V :=
    let es := ctor_entries sh fl fill (combine coords data) in
    mkCOO sh (map fst es) (map snd es) fill.

  (* the checks of __init__ that raise ValueError *)
  Definition coo_ctor_checked (fl : flags) (coords : list idx) (data : list V) (sh : shape) (fill : V)
    : option (coo V) :=
    (* `if self.shape:` — the two length checks are skipped for a 0-d shape *)
    let nonscalar := match sh with [] => false | _ => true end in
    if nonscalar && negb (length data =? length coords)%nat then None
    else if nonscalar && negb (forallb (fun c => (length c =? length sh)%nat) coords) then None
    else if negb (forallb (fun d => 0 <=? d) sh) then None
    else Some (coo_ctor fl coords data sh fill).

  (* ---------------- meaning of the constructor's result *)

  (* the values given for coordinate ix, in the order given *)
  Definition vals_at (es : list ent) (ix : idx) : list V :=
    map snd (filter (fun e => idx_eqb (fst e) ix) es).

  (* their left-to-right sum, the fill when there is none *)
  Definition sum_vals (fill : V) (vs : list V) : V :=
    match vs with [] => fill | v :: r => fold_left add r v end.

  Definition lex_le (a b : idx) : Prop := lex_lt a b \/ a = b.
End Ctor.

Arguments sum_vals {V}.
Arguments vals_at {V}.

(* flags of a table entry / site as the booleans the constructor receives (an expression counts
   as "may be true" for sorted and "may be false" for has_duplicates: the promising reading) *)
Definition flag_bool (dflt : bool) (promising : bool) (f : flagv) : bool :=
  match f with FTrue => true | FFalse => false | FDefault => dflt | FExpr _ => promising end.

Definition entry_flags (e : jentry) (prune : bool) : flags :=
  mkFlags (flag_bool false true (j_sorted e)) (flag_bool true false (j_hasdup e)) prune.

Definition find_entry (file func : string) (ord : Z) : option jentry :=
  find (fun e => String.eqb (j_file e) file && String.eqb (j_func e) func && (j_ord e =? ord)) site_justification.

(* ------------------------------------------------------------------ GCXS.from_scipy_sparse *)

(* GCXS.from_scipy_sparse / CSR.from_scipy_sparse / CSC.from_scipy_sparse (and GCXS(m), asarray(m)):
   the three arrays of the SciPy csr/csc matrix are stored as they are.  A valid SciPy matrix has a
   monotone indptr from 0 to nnz and in-range indices; sorted, duplicate-free rows are NOT part of
   SciPy's format (scipy's own `A @ B` returns unsorted rows, `has_sorted_indices = False`); since
   fix c3f2e26 the code canonicalises the SciPy matrix first (`_canonical_scipy`). *)
Definition scipy_valid {V} (m : gcxs V) : bool :=
  match g_shape m, g_caxes m with
  | [r; c], [a] =>
    ((a =? 0) || (a =? 1)) && (0 <=? r) && (0 <=? c) &&
    (length (g_indices m) =? length (g_data m))%nat &&
    (Z.of_nat (length (g_indptr m)) =? row_size (g_shape m) (g_caxes m) + 1) &&
    (znth (g_indptr m) 0 (-1) =? 0) &&
    (znth (g_indptr m) (row_size (g_shape m) (g_caxes m)) (-1) =? Z.of_nat (length (g_data m))) &&
    nondecreasing (g_indptr m) &&
    forallb (fun i => (0 <=? i) && (i <? col_size (g_shape m) (g_caxes m))) (g_indices m)
  | _, _ => false
  end.

Definition gcxs_from_scipy {V} (m : gcxs V) : gcxs V :=
  mkGCXS (g_shape m) (g_caxes m) (g_data m) (g_indices m) (g_indptr m) (g_fill m).

(* ------------------------------------------------------------------ offset concatenation *)

(* concatenate along axis 0: block i's leading coordinate is offset by the extents before it *)
Definition offset0 (off : Z) (c : idx) : idx :=
  match c with [] => [] | i :: t => (i + off) :: t end.

Fixpoint offset_concat (off : Z) (blocks : list (Z * list idx)) : list idx :=
  match blocks with
  | [] => []
  | (d, cs) :: r => map (offset0 off) cs ++ offset_concat (off + d) r
  end.

Definition total_extent (blocks : list (Z * list idx)) : Z := fold_right (fun b s => fst b + s) 0 blocks.


(* ------------------------------------------------------------------ csr @ csr (the kernel of former finding D8) *)

(* _common._dot_csr_csr_type: Gustavson's row-by-row product with a linked list of the touched
   columns (`next_`, `head`), transcribed with functional arrays; since the repair of D8 every
   row segment is sorted by column before it is stored.  Values in Z. *)
Definition upd {A} (l : list A) (i : Z) (v : A) : list A :=
  if (i <? 0) || (Z.of_nat (length l) <=? i) then l
  else firstn (Z.to_nat i) l ++ v :: skipn (S (Z.to_nat i)) l.

Definition row_slice {A} (l : list A) (indptr : list Z) (i : Z) : list A :=
  slice_list l (znth indptr i 0) (znth indptr (i + 1) 0).

Definition ll_state := (list Z * list Z * Z * Z)%type.      (* next_, sums, head, length *)

(* sums[k] += av * bv ; if next_[k] == -1: next_[k] = head; head = k; length += 1 *)
Definition touch (st : ll_state) (k x : Z) : ll_state :=
  let '(nxt, sums, head, len) := st in
  let sums' := upd sums k (znth sums k 0 + x) in
  if znth nxt k 0 =? -1 then (upd nxt k head, sums', k, len + 1) else (nxt, sums', head, len).

(* for _ in range(length): emit (head, sums[head]) if next_[head] != -1; advance; reset *)
Fixpoint drain (n : nat) (nxt sums : list Z) (head : Z) (acc : list (Z * Z)) : list (Z * Z) :=
  match n with
  | O => acc
  | S n' =>
    let acc' := if negb (znth nxt head 0 =? -1) then acc ++ [(head, znth sums head 0)] else acc in
    drain n' (upd nxt head (-1)) (upd sums head 0) (znth nxt head 0) acc'
  end.

(* the (column, value) pairs of output row i in the order the linked list yields them *)
Definition csr_csr_row_raw (n_col : Z) (a b : gcxs Z) (i : Z) : list (Z * Z) :=
  let a_row := combine (row_slice (g_indices a) (g_indptr a) i) (row_slice (g_data a) (g_indptr a) i) in
  let init : ll_state := (repeat (-1) (Z.to_nat n_col), repeat 0 (Z.to_nat n_col), -2, 0) in
  let st := fold_left (fun st jav =>
              let '(j, av) := jav in
              let b_row := combine (row_slice (g_indices b) (g_indptr b) j) (row_slice (g_data b) (g_indptr b) j) in
              fold_left (fun st kbv => touch st (fst kbv) (av * snd kbv)) b_row st) a_row init in
  let '(nxt, sums, head, len) := st in
  drain (Z.to_nat len) nxt sums head [].

(* order = np.argsort(indices[row]); indices[row] = indices[row][order]; data likewise.  The
   columns of a row are distinct, so every sorting permutation gives this result. *)
Fixpoint insert_col (x : Z * Z) (l : list (Z * Z)) : list (Z * Z) :=
  match l with
  | [] => [x]
  | y :: r => if fst x <=? fst y then x :: y :: r else y :: insert_col x r
  end.
Definition sort_row (l : list (Z * Z)) : list (Z * Z) := fold_right insert_col [] l.

Definition csr_csr_row (n_col : Z) (a b : gcxs Z) (i : Z) : list (Z * Z) :=
  sort_row (csr_csr_row_raw n_col a b i).

(* a, b: 2-d, compressed axis 0 *)
Definition dot_csr_csr (a b : gcxs Z) : gcxs Z :=
  let n_row := znth (g_shape a) 0 0 in
  let n_col := znth (g_shape b) 1 0 in
  let rows := map (csr_csr_row n_col a b) (zrange n_row) in
  let indptr := fold_left (fun acc r => acc ++ [last acc 0 + Z.of_nat (length r)]) rows [0] in
  let flat := concat rows in
  mkGCXS [n_row; n_col] [0] (map snd flat) (map fst flat) indptr 0.

(* _common._dot_csc_ndarray_type_sparse (a: 2-d, compressed axis 1; b dense, given by its columns):
   for every column of b the same linked list collects the touched rows of a; since fix 03cd171
   every touched position is stored (cancelled sums included, pruned later by the caller) and the
   segment is sorted.  indptr: the code fills it beforehand with _csc_ndarray_count_nnz (number of
   distinct touched positions per column) — the number of entries emitted here. *)
Fixpoint drain_all (n : nat) (nxt sums : list Z) (head : Z) (acc : list (Z * Z)) : list (Z * Z) :=
  match n with
  | O => acc
  | S n' => drain_all n' (upd nxt head (-1)) (upd sums head 0) (znth nxt head 0) (acc ++ [(head, znth sums head 0)])
  end.

Definition csc_nd_col_raw (n_rows : Z) (a : gcxs Z) (bcol : list Z) : list (Z * Z) :=
  let init : ll_state := (repeat (-1) (Z.to_nat n_rows), repeat 0 (Z.to_nat n_rows), -2, 0) in
  let st := fold_left (fun st (ju : Z * Z) =>
              let '(j, u) := ju in
              if u =? 0 then st
              else fold_left (fun st (kv : Z * Z) => touch st (fst kv) (u * snd kv))
                     (combine (row_slice (g_indices a) (g_indptr a) j) (row_slice (g_data a) (g_indptr a) j)) st)
            (combine (zrange (Z.of_nat (length bcol))) bcol) init in
  let '(nxt, sums, head, len) := st in
  drain_all (Z.to_nat len) nxt sums head [].

Definition csc_nd_col (n_rows : Z) (a : gcxs Z) (bcol : list Z) : list (Z * Z) :=
  sort_row (csc_nd_col_raw n_rows a bcol).

Definition dot_csc_ndarray (a : gcxs Z) (bcols : list (list Z)) : gcxs Z :=
  let n_rows := znth (g_shape a) 0 0 in
  let cols := map (csc_nd_col n_rows a) bcols in
  let indptr := fold_left (fun acc r => acc ++ [last acc 0 + Z.of_nat (length r)]) cols [0] in
  let flat := concat cols in
  mkGCXS [n_rows; Z.of_nat (length bcols)] [1] (map snd flat) (map fst flat) indptr 0.

(* GCXS(..., prune=True) -> GCXS._prune: drop fill-valued entries, recount indptr per row *)
Definition gcxs_prune2 (g : gcxs Z) : gcxs Z :=
  let rows := rows_of (combine (g_indices g) (g_data g)) (g_indptr g) in
  let rows' := map (filter (fun p : Z * Z => negb (snd p =? g_fill g))) rows in
  let indptr := fold_left (fun acc r => acc ++ [last acc 0 + Z.of_nat (length r)]) rows' [0] in
  let flat := concat rows' in
  mkGCXS (g_shape g) (g_caxes g) (map snd flat) (map fst flat) indptr (g_fill g).
