(* Model/Mlir.v — the logic of the MLIR backend (sparse/mlir_backend): definitions only.

   A. storage formats and `formats._determine_format` (same branch structure; its scalar decisions are
      translated from the source into Gen/S_mlir_df.v and proved equal to the sub-expressions used here
      (determine_format_source_tie), its other statements are pinned by text in tools/sitegen/mlir.py;
      also tied by correspondence on generated format lists and by the extracted call-site keywords);
   B. the meaning of constituent arrays (MLIR sparse_tensor level storage: dense / compressed /
      singleton levels under a dimension order) and the array orders `_from_scipy`, `to_scipy`,
      `_from_numpy` use (orders are the extracted site lists), `to_numpy`'s order inversion;
   C. the ownership protocol: a heap of buffers, objects with strong references
      (`_hold_ref`, attributes, NumPy `.base`), roots, events, arbitrary valid collections.
      The protocol is parameterised by a [cfg] whose fields are the extracted site facts.

   What is NOT modelled: the numerical work of the JIT-compiled modules (an operation produces
   fresh buffers whose contents are an oracle), MLIR's allocator, dtype casting. *)
From Coq Require Import ZArith List Bool.
From Verif Require Import Py Shape S_mlir.
Import ListNotations.
Open Scope Z_scope.

(* ------------------------------------------------------------------------------------------ *)
(* A. formats                                                                                  *)

Inductive lvlfmt := LDense | LCompressed | LSingleton.

(* properties as a bit set: 1 NonOrdered, 2 NonUnique, 4 SOA (irrelevant to every decision below) *)
Record level := mkLevel { l_fmt : lvlfmt; l_props : Z }.

Record cformat := mkFmt { f_levels : list level; f_order : list Z; f_pos : Z; f_crd : Z }.

Definition frank (f : cformat) : nat := length (f_levels f).

Definition zseq (a n : nat) : list Z := map Z.of_nat (seq a n).       (* range(a, a+n) *)

Definition in_rangeb (n : nat) (x : Z) : bool := (0 <=? x) && (x <? Z.of_nat n).

Definition memz (x : Z) (l : list Z) : bool := existsb (Z.eqb x) l.

Fixpoint nodupb (l : list Z) : bool :=
  match l with [] => true | x :: r => negb (memz x r) && nodupb r end.

(* sorted(order) == list(range(n)) *)
Definition is_permb (o : list Z) (n : nat) : bool :=
  (length o =? n)%nat && forallb (in_rangeb n) o && nodupb o.

Definition fmt_wfb (f : cformat) : bool := is_permb (f_order f) (frank f).

Definition zl_eqb (a b : list Z) : bool :=
  (fix go l1 l2 := match l1, l2 with
     | [], [] => true | x :: r1, y :: r2 => (x =? y) && go r1 r2 | _, _ => false end) a b.

(* get_concrete_format + ConcreteFormat.__post_init__ ; order None is the string "C" *)
Definition get_concrete_format (levels : list level) (order : option (list Z)) (pos crd : Z) : res cformat :=
  let o := match order with None => zseq 0 (length levels) | Some o => o end in
  if is_permb o (length levels) then Ok (mkFmt levels o pos crd) else Raise ValueError.

Definition is_sparse_level (l : level) : bool := match l_fmt l with LDense => false | _ => true end.
Definition count_sparse (f : cformat) : Z := Z.of_nat (length (filter is_sparse_level (f_levels f))).
Definition count_dense (f : cformat) : Z :=
  Z.of_nat (length (filter (fun l => negb (is_sparse_level l)) (f_levels f))).

Definition lv_dense := mkLevel LDense 0.
Definition lv_compressed := mkLevel LCompressed 0.

(* _get_sparse_dense_levels(n_sparse=, ndim=) ; the asserts raise AssertionError (OtherError) *)
(* the three asserts (Gen/S_mlir_df.v: g_gsdl_ok) *)
Definition gsdl_ok (ndim n_dense n_sparse : Z) : bool := (0 <=? ndim) && (0 <=? n_dense) && (0 <=? n_sparse).

Definition get_sparse_dense_levels (n_sparse ndim : Z) : res (list level) :=
  let n_dense := ndim - n_sparse in            (* g_gsdl_fill with n_dense=None *)
  if gsdl_ok ndim n_dense n_sparse
  then Ok (repeat lv_dense (Z.to_nat n_dense) ++ repeat lv_compressed (Z.to_nat n_sparse))
  else Raise OtherError.

(* one iteration of the `order` update in the loop; None = "C" *)
Definition order_step (acc : option (list Z)) (fo : list Z) : option (list Z) :=
  match acc with
  | None => None
  | Some o =>
    if zl_eqb (firstn (length o) fo) o then Some fo
    else if negb (zl_eqb (firstn (length fo) o) fo) then None
    else Some o
  end.

(* `if out_ndim < n_counted: n_counted = out_ndim` ; `n_sparse = n_counted if not union else out_ndim - n_counted`
   (Gen/S_mlir_df.v: g_df_nsparse) *)
Definition df_nsparse (n nc : Z) (union : bool) : Z :=
  let nc' := if n <? nc then n else nc in
  if union then n - nc' else nc'.

Definition determine_format (fmts : list cformat) (union : bool) (out_ndim : option nat) : res cformat :=
  match fmts with
  | [] =>
    let n := match out_ndim with Some n => n | None => 0%nat end in
    get_concrete_format (repeat (mkLevel (if union then LDense else LCompressed) 0) n) None
                        site_detfmt_empty_width site_detfmt_empty_width
  | f0 :: rest =>
    let n := match out_ndim with Some n => n | None => fold_left Nat.max (map frank fmts) 0%nat end in
    let counter := if union then count_dense else count_sparse in
    let n_counted := fold_left Z.max (map counter rest) (counter f0) in
    let pos := fold_left Z.max (map f_pos fmts) site_detfmt_width_init in
    let crd := fold_left Z.max (map f_crd fmts) site_detfmt_width_init in
    let order := fold_left order_step (map f_order fmts) (Some []) in
    let order' := match order with
                  | None => None
                  | Some o => Some (firstn n (o ++ zseq (length o) (n - length o)))
                  end in
    let n_sparse := df_nsparse (Z.of_nat n) n_counted union in
    lv <- get_sparse_dense_levels n_sparse (Z.of_nat n) ;;
    get_concrete_format lv order' pos crd
  end.

(* the calls in _ops.py *)
Definition add_format (a b : cformat) : res cformat := determine_format [a; b] site_add_union None.
Definition reshape_format (a : cformat) (new_ndim : nat) : res cformat :=
  determine_format [a] (site_reshape_union (Z.of_nat new_ndim) (Z.of_nat (frank a))) (Some new_ndim).

(* FormatFactory._get_levels_from_ndim of Dense / Csf / Coo (props: NonUnique = 2, SOA = 4) *)
Definition dense_levels (n : nat) : list level := repeat lv_dense n.
Definition csf_levels (n : nat) : list level :=
  match n with O => [] | S k => lv_dense :: repeat lv_compressed k end.
Definition coo_levels (n : nat) : list level :=
  map (fun i => let base := if (i =? 0)%nat then mkLevel LCompressed 0 else mkLevel LSingleton 4 in
                if (S i =? n)%nat then base else mkLevel (l_fmt base) (l_props base + 2)) (seq 0 n).

(* ------------------------------------------------------------------------------------------ *)
(* B. constituent arrays and their dense meaning                                               *)

Definition nthZ (l : list Z) (k : Z) : Z := nth (Z.to_nat k) l 0.
Definition zrange2 (a b : Z) : list Z := map (fun k => a + k) (zrange (b - a)).     (* range(a, b) *)

(* Storage._fields_ of _get_ctypes_type: per level, a compressed level contributes (pointers, indices),
   a singleton level (indices), a dense level nothing; `values` comes last *)
Inductive field := FPos | FCrd | FVal.
Definition fields_of_levels (lv : list lvlfmt) : list field :=
  flat_map (fun l => match l with LDense => [] | LCompressed => [FPos; FCrd] | LSingleton => [FCrd] end) lv ++ [FVal].

Inductive lvlstore := SDense (n : Z) | SCompressed (pos crd : list Z) | SSingleton (crd : list Z).

(* pair the index arrays (every constituent array but `values`, in field order) with the levels;
   lsh = extent of each level *)
Fixpoint assemble (lv : list lvlfmt) (lsh : list Z) (arrs : list (list Z)) : option (list lvlstore) :=
  match lv, lsh with
  | [], [] => match arrs with [] => Some [] | _ => None end
  | LDense :: r, n :: sh => option_map (cons (SDense n)) (assemble r sh arrs)
  | LCompressed :: r, _ :: sh =>
    match arrs with pos :: crd :: a => option_map (cons (SCompressed pos crd)) (assemble r sh a) | _ => None end
  | LSingleton :: r, _ :: sh =>
    match arrs with crd :: a => option_map (cons (SSingleton crd)) (assemble r sh a) | _ => None end
  | _, _ => None
  end.

(* all stored entries below position p: (level coordinates, position in `values`) in storage order *)
Fixpoint walk (lv : list lvlstore) (p : Z) : list (idx * Z) :=
  match lv with
  | [] => [([], p)]
  | SDense n :: r =>
    flat_map (fun i => map (fun e => (i :: fst e, snd e)) (walk r (p * n + i))) (zrange n)
  | SCompressed pos crd :: r =>
    flat_map (fun k => map (fun e => (nthZ crd k :: fst e, snd e)) (walk r k))
             (zrange2 (nthZ pos p) (nthZ pos (p + 1)))
  | SSingleton crd :: r => map (fun e => (nthZ crd p :: fst e, snd e)) (walk r p)
  end.

Fixpoint index_of (d : Z) (l : list Z) : Z :=
  match l with [] => 0 | x :: r => if x =? d then 0 else 1 + index_of d r end.

(* order = dimToLvl permutation: level l stores dimension order[l] *)
Definition gather (l : list Z) (ixs : list Z) : list Z := map (nthZ l) ixs.
Definition lvl_shape (order : list Z) (sh : shape) : list Z := gather sh order.
Definition to_dims (order : list Z) (lc : idx) : idx :=
  map (fun d => nthZ lc (index_of (Z.of_nat d) order)) (seq 0 (length order)).

Section Layout.
  Variable V : Type.
  Variable v0 : V.

  Definition nthd (l : list V) (k : Z) : V := nth (Z.to_nat k) l v0.

  Definition storage_entries (lv : list lvlfmt) (order : list Z) (sh : shape)
             (arrs : list (list Z)) (data : list V) : option (list (idx * V)) :=
    match assemble lv (lvl_shape order sh) arrs with
    | None => None
    | Some st => Some (map (fun e => (to_dims order (fst e), nthd data (snd e))) (walk st 0))
    end.

  (* SciPy's meaning of its own containers *)
  Definition csr_entries (nrows : Z) (indptr indices : list Z) (data : list V) : list (idx * V) :=
    flat_map (fun i => map (fun k => ([i; nthZ indices k], nthd data k))
                           (zrange2 (nthZ indptr i) (nthZ indptr (i + 1)))) (zrange nrows).
  Definition csc_entries (ncols : Z) (indptr indices : list Z) (data : list V) : list (idx * V) :=
    flat_map (fun j => map (fun k => ([nthZ indices k; j], nthd data k))
                           (zrange2 (nthZ indptr j) (nthZ indptr (j + 1)))) (zrange ncols).
  Definition coo_entries (nnz : Z) (row col : list Z) (data : list V) : list (idx * V) :=
    map (fun k => ([nthZ row k; nthZ col k], nthd data k)) (zrange nnz).
  (* CSF (dense, compressed, ..., compressed), identity order: the nested-loop meaning (the format of
     test_csf_format): row i owns the fibres k1 in [pos1[i], pos1[i+1]), fibre k1 owns k2 in [pos2[k1], pos2[k1+1]) ... *)
  Definition csf3_entries (n0 : Z) (pos1 crd1 pos2 crd2 : list Z) (data : list V) : list (idx * V) :=
    flat_map (fun i =>
      flat_map (fun k1 =>
        map (fun k2 => ([i; nthZ crd1 k1; nthZ crd2 k2], nthd data k2))
            (zrange2 (nthZ pos2 k1) (nthZ pos2 (k1 + 1))))
        (zrange2 (nthZ pos1 i) (nthZ pos1 (i + 1)))) (zrange n0).
  Definition csf4_entries (n0 : Z) (pos1 crd1 pos2 crd2 pos3 crd3 : list Z) (data : list V) : list (idx * V) :=
    flat_map (fun i =>
      flat_map (fun k1 =>
        flat_map (fun k2 =>
          map (fun k3 => ([i; nthZ crd1 k1; nthZ crd2 k2; nthZ crd3 k3], nthd data k3))
              (zrange2 (nthZ pos3 k2) (nthZ pos3 (k2 + 1))))
          (zrange2 (nthZ pos2 k1) (nthZ pos2 (k1 + 1))))
        (zrange2 (nthZ pos1 i) (nthZ pos1 (i + 1)))) (zrange n0).
  (* NumPy's meaning of a C-contiguous array *)
  Definition dense_entries (sh : shape) (flat : list V) : list (idx * V) :=
    map (fun ix => (ix, nthd flat (ravel sh ix))) (all_indices sh).
End Layout.

Arguments nthd {V}.
Arguments storage_entries {V}.
Arguments csr_entries {V}.
Arguments csc_entries {V}.
Arguments coo_entries {V}.
Arguments csf3_entries {V}.
Arguments csf4_entries {V}.
Arguments dense_entries {V}.

(* array names used by the extractor: 0 indptr, 1 indices, 2 data, 3 pos, 4 row, 5 col, 9 `_` *)
Definition env_csx (indptr indices : list Z) (name : Z) : list Z :=
  if name =? 0 then indptr else if name =? 1 then indices else [].
Definition env_coo (pos row col : list Z) (name : Z) : list Z :=
  if name =? 3 then pos else if name =? 4 then row else if name =? 5 then col else [].

(* the index arrays handed to from_constituent_arrays (the `arrays=` tuple minus its last entry, which
   must be `data`) *)
Definition index_arrays (names : list Z) (env : Z -> list Z) : option (list (list Z)) :=
  if last names 99 =? 2 then Some (map env (removelast names)) else None.

Definition from_scipy_csx (indptr indices : list Z) : option (list (list Z)) :=
  index_arrays site_from_scipy_csx_arrays (env_csx indptr indices).
Definition from_scipy_coo (nnz : Z) (row col : list Z) : option (list (list Z)) :=
  index_arrays site_from_scipy_coo_arrays (env_coo [0; nnz] row col).

(* to_scipy: positional unpacking of get_constituent_arrays() into names *)
Definition unpack (names : list Z) (arrs : list (list Z)) (name : Z) : list Z :=
  nth (Z.to_nat (index_of name names)) arrs [].
Definition to_scipy_csx (arrs : list (list Z)) : (list Z * list Z) :=
  (unpack site_to_scipy_csx_unpack arrs 0, unpack site_to_scipy_csx_unpack arrs 1).
Definition to_scipy_coo (arrs : list (list Z)) : (list Z * list Z) :=
  (unpack site_to_scipy_coo_unpack arrs 4, unpack site_to_scipy_coo_unpack arrs 5).
(* csr_array iff order == (0, 1), else csc_array *)
Definition to_scipy_is_csr (order : list Z) : bool := zl_eqb order site_to_scipy_csr_iff_order.

(* to_numpy: arg_order[o] = i for i, o in enumerate(order) *)
Fixpoint upd (l : list Z) (k : nat) (v : Z) : list Z :=
  match l, k with
  | [], _ => []
  | _ :: r, O => v :: r
  | x :: r, S k' => x :: upd r k' v
  end.
Definition inv_order (order : list Z) : list Z :=
  fold_left (fun acc io => upd acc (Z.to_nat (snd io)) (fst io))
            (combine (zseq 0 (length order)) order) (repeat 0 (length order)).
(* storage_shape = tuple(arr.shape[o] for o in <arg_order | order>) — which one is an extracted fact *)
Definition to_numpy_storage_shape (order : list Z) (sh : shape) : list Z :=
  gather sh (if site_to_numpy_shape_by_inverse then inv_order order else order).
(* NumPy: data.reshape(S).transpose(axes) has shape [S[a] for a in axes] and its element at ix is the
   element of data.reshape(S) at the j with j[axes[k]] = ix[k] *)
Definition scatter (axes : list Z) (ix : idx) : idx :=
  fold_left (fun acc ai => upd acc (Z.to_nat (fst ai)) (snd ai)) (combine axes ix) (repeat 0 (length axes)).
Definition to_numpy_shape (order : list Z) (sh : shape) : shape :=
  gather (to_numpy_storage_shape order sh) (inv_order order).
Definition to_numpy_pos (order : list Z) (sh : shape) (ix : idx) : Z :=
  ravel (to_numpy_storage_shape order sh) (scatter (inv_order order) ix).
(* MLIR's meaning of an all-dense tensor with dimToLvl = order: position of the element at ix *)
Definition dense_pos (order : list Z) (sh : shape) (ix : idx) : Z :=
  ravel (lvl_shape order sh) (gather ix order).

Fixpoint perms (l : list Z) (fuel : nat) : list (list Z) :=
  match fuel with
  | O => [[]]
  | S f => match l with
           | [] => [[]]
           | _ => flat_map (fun x => map (cons x) (perms (filter (fun y => negb (y =? x)) l) f)) l
           end
  end.
Definition perms_upto (n : nat) : list (list Z) :=
  flat_map (fun k => perms (zseq 0 k) k) (seq 1 n).

(* ------------------------------------------------------------------------------------------ *)
(* C. ownership protocol                                                                       *)

(* KView: a NumPy view whose chain of bases leads to the object carrying the `_hold_ref` finaliser (or to
   the owning ndarray); KWrapView: the array ranked_memref_to_numpy returns for a wrapped dtype — it carries
   the finaliser but is itself `inner.view(dtype)`; KBareView: a view whose recorded base is that `inner`
   array (NumPy collapsed the chain past the KWrapView), which keeps nothing alive *)
Inductive kind := KNumpy | KStorage | KArray | KView | KWrapView | KBareView.
Definition is_ndarray (k : kind) : bool :=
  match k with KNumpy | KView | KWrapView | KBareView => true | _ => false end.
Definition is_array (k : kind) : bool := match k with KArray => true | _ => false end.

(* o_refs: strong references this object holds (keeps alive); o_bufs: buffers it reads when used;
   o_frees: buffers released when it is destroyed (ndarray owning its data; Storage with __del__);
   o_under: for an Array its storage, for a NumPy view the ndarray NumPy records as its base *)
Record obj := mkObj { o_kind : kind; o_refs : list nat; o_bufs : list nat; o_frees : list nat;
                      o_under : option nat }.

Record state := mkSt { s_objs : list obj; s_dead : list nat; s_roots : list nat; s_nbuf : nat;
                       s_freed : list nat }.

Inductive opk := OAdd | OAsformat | OReshape.

Record cfg := mkCfg {
  c_view_storage : bool;      (* get_constituent_arrays: _hold_ref(view, storage) *)
  c_storage_input : bool;     (* from_constituent_arrays: _hold_ref(storage, input array) *)
  c_array_storage : bool;     (* Array.__init__: self._storage = storage *)
  c_owns_from : bool;         (* owns_memory of the storage built over caller-provided arrays *)
  c_owns_op : opk -> bool;    (* owns_memory of a result storage *)
  c_wrapped : bool            (* ranked_memref_to_numpy returns a view OF a view (complex64/128, float16) *)
}.

Definition site_cfg (wrapped : bool) : cfg :=
  mkCfg (site_edge_view_storage && site_hold_ref_strong)
        (site_edge_storage_input && site_hold_ref_strong)
        site_edge_array_storage
        (site_owns_from && site_del_guarded_by_owns || negb site_del_guarded_by_owns)
        (fun op => (match op with OAdd => site_owns_add | OAsformat => site_owns_asformat
                               | OReshape => site_owns_reshape end) && site_del_frees_every_field)
        wrapped.

(* the edges the safety theorem needs *)
Definition required_edges (c : cfg) : list bool :=
  [c_view_storage c; c_storage_input c; c_array_storage c; negb (c_owns_from c)].
Definition edges_ok (c : cfg) : bool := forallb (fun b => b) (required_edges c).

(* dtypes whose memref views are wrapped by mlir_finch.runtime.to_numpy (`array.view(...)`):
   0 plain (int*, uint*, float32, float64), 1 complex64, 2 complex128, 3 float16 *)
Definition wrapped_dtype (dt : Z) : bool := negb (dt =? 0).

Definition memn (x : nat) (l : list nat) : bool := existsb (Nat.eqb x) l.
Fixpoint nodupn (l : list nat) : bool :=
  match l with [] => true | x :: r => negb (memn x r) && nodupn r end.

Definition dummy_obj := mkObj KNumpy [] [] [] None.
Definition get (s : state) (i : nat) : obj := nth i (s_objs s) dummy_obj.
Definition nobj (s : state) : nat := length (s_objs s).
Definition liveb (s : state) (i : nat) : bool := (i <? nobj s)%nat && negb (memn i (s_dead s)).
Definition rootb (s : state) (i : nat) : bool := memn i (s_roots s).

Fixpoint remove_nth {A} (i : nat) (l : list A) : list A :=
  match l, i with
  | [], _ => []
  | _ :: r, O => r
  | x :: r, S k => x :: remove_nth k r
  end.

Inductive event :=
| ENewNumpy                                  (* the user creates an ndarray owning a fresh buffer *)
| EFromArrays (srcs : list nat)              (* Storage.from_constituent_arrays over held ndarrays *)
| EOp (op : opk) (args : list nat) (nb : nat)(* the result storage of add / asformat / reshape of held Arrays;
                                                nb result buffers (contents: oracle) *)
| EWrap (sid : nat)                          (* Array(storage=...) over a held storage *)
| EAlias (r : nat)                           (* one more reference to a held object (asformat, same format) *)
| EGetView (a : nat) (k : nat)               (* the k-th array of a.get_constituent_arrays() *)
| EDerive (v : nat)                          (* a NumPy view of a held ndarray (reshape/transpose/slice) whose
                                                base chain keeps v's anchor: v is an owning ndarray, a plain
                                                memref view, or a view of those *)
| ECollapse (v : nat)                        (* a NumPy view of a held WRAPPED memref view: NumPy sets the new
                                                view's base to v.base (the inner array), skipping v and with it
                                                the _hold_ref finaliser *)
| EDel (i : nat)                             (* drop the i-th held reference *)
| ECollect (K : list nat).                   (* the collector destroys the objects K *)

(* a collector may destroy K when K is live, unheld, and not referenced from any surviving live object *)
Definition valid_collect (s : state) (K : list nat) : bool :=
  nodupn K
  && forallb (fun k => liveb s k && negb (rootb s k)) K
  && forallb (fun j => negb (liveb s j) || memn j K || forallb (fun r => negb (memn r K)) (o_refs (get s j)))
             (seq 0 (nobj s)).

Definition push_objs (s : state) (os : list obj) (root : nat) (nb : nat) : state :=
  mkSt (s_objs s ++ os) (s_dead s) (root :: s_roots s) (s_nbuf s + nb) (s_freed s).

Definition is_storage (k : kind) : bool := match k with KStorage => true | _ => false end.

(* Python-level calls are sequences of events:
     from_constituent_arrays(arrays)  = EFromArrays; EWrap; EDel (the storage local)
     add/asformat/reshape             = EOp; EWrap; EDel (the storage local)
     get_constituent_arrays()         = EGetView a 0; ...; EGetView a (k-1)
     to_numpy(a)                      = EGetView a 0; EDerive v (plain dtype) | ECollapse v (complex64/128,
                                        float16); EDel (the local `data`)
   The theorems quantify over arbitrary event lists, which include these. *)
Definition step (c : cfg) (s : state) (e : event) : state :=
  let n := nobj s in
  match e with
  | ENewNumpy =>
    let b := s_nbuf s in
    push_objs s [mkObj KNumpy [] [b] [b] None] n 1
  | EFromArrays srcs =>
    if forallb (fun r => rootb s r && liveb s r && is_ndarray (o_kind (get s r))) srcs then
      let bufs := flat_map (fun r => o_bufs (get s r)) srcs in
      push_objs s [mkObj KStorage (if c_storage_input c then srcs else []) bufs
                         (if c_owns_from c then bufs else []) None] n 0
    else s
  | EOp op args nb =>
    if forallb (fun r => rootb s r && liveb s r && is_array (o_kind (get s r))) args then
      let bufs := seq (s_nbuf s) nb in
      push_objs s [mkObj KStorage [] bufs (if c_owns_op c op then bufs else []) None] n nb
    else s
  | EWrap sid =>
    if rootb s sid && liveb s sid && is_storage (o_kind (get s sid)) then
      push_objs s [mkObj KArray (if c_array_storage c then [sid] else []) (o_bufs (get s sid)) [] (Some sid)] n 0
    else s
  | EAlias r =>
    if rootb s r then mkSt (s_objs s) (s_dead s) (r :: s_roots s) (s_nbuf s) (s_freed s) else s
  | EGetView a k =>
    if rootb s a && liveb s a && is_array (o_kind (get s a)) then
      match o_under (get s a), nth_error (o_bufs (get s a)) k with
      | Some sid, Some b =>
        let hold := if c_view_storage c then [sid] else [] in
        push_objs s [mkObj (if c_wrapped c then KWrapView else KView) hold [b] [] None] n 0
      | _, _ => s
      end
    else s
  | EDerive v =>
    if rootb s v && liveb s v then
      match o_kind (get s v) with
      | KNumpy | KView =>
        (* NumPy collapses the base chain: the new view's base is v's base when that is an ndarray *)
        let t := match o_under (get s v) with Some t => t | None => v end in
        push_objs s [mkObj KView [t] (o_bufs (get s t)) [] (Some t)] n 0
      | KBareView => push_objs s [mkObj KBareView [] (o_bufs (get s v)) [] None] n 0
      | _ => s
      end
    else s
  | ECollapse v =>
    if c_wrapped c && rootb s v && liveb s v then
      match o_kind (get s v) with
      | KWrapView => push_objs s [mkObj KBareView [] (o_bufs (get s v)) [] None] n 0
      | _ => s
      end
    else s
  | EDel i => mkSt (s_objs s) (s_dead s) (remove_nth i (s_roots s)) (s_nbuf s) (s_freed s)
  | ECollect K =>
    if valid_collect s K then
      mkSt (s_objs s) (K ++ s_dead s) (s_roots s) (s_nbuf s)
           (flat_map (fun k => o_frees (get s k)) K ++ s_freed s)
    else s
  end.

Definition init : state := mkSt [] [] [] 0 [].
Definition run (c : cfg) (h : list event) : state := fold_left (step c) h init.

(* a live object that would read a freed buffer *)
Definition danglingb (s : state) (i : nat) : bool :=
  liveb s i && existsb (fun b => memn b (s_freed s)) (o_bufs (get s i)).
Definition safeb (s : state) : bool := forallb (fun i => negb (danglingb s i)) (seq 0 (nobj s)).
Definition free_once (s : state) : bool := nodupn (s_freed s).

Definition is_collapse (e : event) : bool := match e with ECollapse _ => true | _ => false end.
Definition no_collapse (h : list event) : bool := forallb (fun e => negb (is_collapse e)) h.
