(* Model/ShapeOps.v — the shape-manipulation functions of COO as the code performs them
   (sparse/numba_backend/_coo/core.py: transpose, T, mT, swapaxes, reshape, flatten, squeeze,
   broadcast_to; _coo/common.py: roll, flip, expand_dims; _common.py: moveaxis, pad,
   broadcast_arrays; _umath.py: broadcast_to and its helpers).  Definitions only.

   Axis normalisation and the `-1` inference of reshape are the GENERATED fragments of
   Gen/G_shapeops.v (regenerated from /repo on every run); the functions below call them.

   The COO constructor: COO(coords, data, shape, sorted=s, has_duplicates=h, fill_value=f) sorts
   (stable argsort of the linear index = stable sort by lexicographic order of the tuples) unless
   s, then merges duplicates if h.  Every producer below hands over duplicate-free coordinates
   (proved: the results are canonical), on which the duplicate pass is the identity; it is not
   modelled.  (pad with negative widths is rejected since commit d798d44; coo_make_checked keeps the
   constructor's range check, which then always passes.)  Cache lookups (`self._cache`) return what the same call returned before; not
   modelled here (C11/C13). *)
From Coq Require Import ZArith List Bool.
From Verif Require Import Py Shape COO G_shapeops S_shapeops.
Import ListNotations.
Open Scope Z_scope.

(* ------------------------------------------------------------------ small list helpers *)

Definition zget {A} (l : list A) (i : Z) (d : A) : A := nth (Z.to_nat i) l d.

Definition zlen {A} (l : list A) : Z := Z.of_nat (length l).

Definition memz (x : Z) (l : list Z) : bool := existsb (Z.eqb x) l.

Fixpoint has_dup (l : list Z) : bool :=
  match l with [] => false | a :: r => memz a r || has_dup r end.

(* l[i] = v for 0 <= i < len l *)
Definition zset {A} (l : list A) (i : Z) (v : A) : list A :=
  firstn (Z.to_nat i) l ++ match skipn (Z.to_nat i) l with [] => [] | _ :: t => v :: t end.

(* list.insert(i, v) for i >= 0 (appends when i > len) *)
Definition zinsert {A} (l : list A) (i : Z) (v : A) : list A :=
  firstn (Z.to_nat i) l ++ v :: skipn (Z.to_nat i) l.

Fixpoint mapM {A B} (f : A -> res B) (l : list A) : res (list B) :=
  match l with
  | [] => Ok []
  | a :: r => b <- f a ;; bs <- mapM f r ;; Ok (b :: bs)
  end.

(* ------------------------------------------------------------------ axis arguments *)

(* an `axis` argument: None, an int, or a tuple of ints *)
Inductive axarg := AxNone | AxInt (a : Z) | AxTup (l : list Z).

(* a `shift` argument of roll: an int or a tuple of ints *)
Inductive shiftarg := ShInt (s : Z) | ShTup (l : list Z).

(* _utils.normalize_axis, integer branch: the generated fragment *)
Definition norm_axis (ndim a : Z) : res Z :=
  match g_normalize_axis_int (VInt a) (VInt ndim) with
  | Ok (VInt z) => Ok z
  | Ok _ => Raise TypeError
  | Raise e => Raise e
  end.

(* _utils.normalize_axis, iterable branch: tuple(normalize_axis(a, ndim) for a in axis) *)
Definition norm_axes (ndim : Z) (l : list Z) : res (list Z) := mapM (norm_axis ndim) l.

(* ------------------------------------------------------------------ the reshape target *)

Definition pyints (l : list Z) : pyv := VTuple (map VInt l).

Definition unpyints (v : pyv) : res (list Z) :=
  match v with
  | VTuple l => mapM (fun x => match x with VInt z => Ok z | _ => Raise TypeError end) l
  | _ => Raise TypeError
  end.

(* COO.reshape up to the point where coordinates are computed: `-1` inference (generated) when `any(d == -1 for d in shape)`, then the size test (its raise is
   generated), then SparseArray.__init__'s rejection of negative extents.  (Integer arithmetic
   since the repair of finding D12; the generated fragment has no float operator.) *)
Definition coo_reshape_shape (old : shape) (new : list Z) : res (list Z) :=
  new' <- (if existsb (fun d => d =? -1) new
           then (r <- g_reshape_infer (pyints new) (VInt (size old)) ;;
                 match r with VTuple [t] => unpyints t | _ => Raise TypeError end)
           else Ok new) ;;
  if negb (size old =? size new')
  then (_ <- g_reshape_size_mismatch (pyints new') (VInt (size old)) ;; Raise OtherError)
  else if existsb (fun d => d <? 0) new' then Raise ValueError
  else Ok new'.

(* GCXS.reshape's own copy of the same steps, in ITS order: `-1` inference (generated), the
   `self.shape == shape` shortcut, the size test (raise generated), then negative extents (rejected
   downstream by NumPy, "negative dimensions are not allowed": ValueError, observed). *)
Definition gcxs_reshape_shape (old : shape) (new : list Z) : res (list Z) :=
  new' <- (if existsb (fun d => d =? -1) new
           then (r <- g_gcxs_reshape_infer (pyints new) (VInt (size old)) ;;
                 match r with VTuple [t] => unpyints t | _ => Raise TypeError end)
           else Ok new) ;;
  if idx_eqb old new' then Ok new'
  else if negb (size old =? size new')
  then (_ <- g_gcxs_reshape_size_mismatch (pyints new') (VInt (size old)) ;; Raise OtherError)
  else if existsb (fun d => d <? 0) new' then Raise ValueError
  else Ok new'.

(* coords[-(i+1)] = (linear_loc // strides) % d, strides the product of the later extents *)
Fixpoint unravel_strided (sh : shape) (n : Z) : idx :=
  match sh with
  | [] => []
  | d :: sh' => ((n / size sh') mod d) :: unravel_strided sh' n
  end.

(* ------------------------------------------------------------------ pad_width *)

(* the pad_width argument: an int, a flat sequence, or a sequence of sequences *)
Inductive padw := PW0 (p : Z) | PW1 (l : list Z) | PW2 (rows : list (list Z)).

(* (np.asarray(pad_width) < 0).any() *)
Definition padw_neg (pw : padw) : bool :=
  match pw with
  | PW0 p => p <? 0
  | PW1 l => existsb (fun p => p <? 0) l
  | PW2 rows => existsb (existsb (fun p => p <? 0)) rows
  end.

(* np.broadcast_to(row, (2,)) *)
Definition pad_row (r : list Z) : res (Z * Z) :=
  match r with
  | [p] => Ok (p, p)
  | [b; a] => Ok (b, a)
  | _ => Raise ValueError
  end.

(* np.broadcast_to(pad_width, (ndim, 2)) *)
Definition pad_pairs (ndim : nat) (pw : padw) : res (list (Z * Z)) :=
  match pw with
  | PW0 p => Ok (repeat (p, p) ndim)
  | PW1 l => pr <- pad_row l ;; Ok (repeat pr ndim)
  | PW2 rows =>
    match rows with
    | [] => Raise ValueError
    | r0 :: _ =>
      if negb (forallb (fun r => (length r =? length r0)%nat) rows) then Raise ValueError
      else
        prs <- mapM pad_row rows ;;
        match prs with
        | [pr] => Ok (repeat pr ndim)
        | _ => if (length prs =? ndim)%nat then Ok prs else Raise ValueError
        end
    end
  end.

(* ------------------------------------------------------------------ broadcast parameters *)

(* _umath._get_broadcast_shape(shape1, shape2, is_result=True), on REVERSED shapes *)
Fixpoint bshape_ok_rev (s1 s2 : list Z) : bool :=
  match s1, s2 with
  | l1 :: r1, l2 :: r2 => ((l1 =? l2) || (l1 =? 1)) && bshape_ok_rev r1 r2
  | _, _ => true                                         (* zip stops at the shorter *)
  end.

Fixpoint bshape_rev (s1 s2 : list Z) : list Z :=
  match s1, s2 with
  | l1 :: r1, l2 :: r2 => (if negb (l1 =? 1) then l1 else l2) :: bshape_rev r1 r2
  | _ :: _, [] => map (fun l1 => if negb (l1 =? 1) then l1 else 1) s1        (* fillvalue 1 *)
  | [], _ => s2                                                             (* l1 = 1 (fillvalue) *)
  end.

(* _get_broadcast_parameters on reversed shapes: None = axis absent from the input,
   Some true = extents equal, Some false = to be broadcast.  (zip_longest with fillvalue None;
   a missing *broadcast* extent compares l1 == None = False.) *)
Fixpoint bparams_rev (s bs : list Z) : list (option bool) :=
  match s, bs with
  | l1 :: r1, l2 :: r2 => Some (l1 =? l2) :: bparams_rev r1 r2
  | _ :: _, [] => map (fun _ => Some false) s
  | [], _ => map (fun _ => None) bs
  end.

Definition ptrue (p : option bool) : bool := match p with Some true => true | _ => false end.

(* the coordinate tuple of one expanded entry: axes with a True parameter take the stored
   coordinate, the others take the next component of the free (cartesian-product) index; `dim`
   advances over the stored tuple on every axis that exists in the input *)
Fixpoint weave (params : list (option bool)) (src free : idx) : idx :=
  match params with
  | [] => []
  | Some true :: ps => match src with c :: s' => c :: weave ps s' free | [] => 0 :: weave ps [] free end
  | Some false :: ps =>
      match free with a :: f' => a :: weave ps (tl src) f' | [] => 0 :: weave ps (tl src) [] end
  | None :: ps =>
      match free with a :: f' => a :: weave ps src f' | [] => 0 :: weave ps src [] end
  end.

(* extents of the axes without a True parameter, split at the first True one *)
Fixpoint free_pre (params : list (option bool)) (bs : shape) : shape :=
  match params, bs with
  | p :: ps, d :: r => if ptrue p then [] else d :: free_pre ps r
  | _, _ => []
  end.
Fixpoint free_post_aux (params : list (option bool)) (bs : shape) : shape :=
  match params, bs with
  | p :: ps, d :: r => if ptrue p then free_post_aux ps r else d :: free_post_aux ps r
  | _, _ => []
  end.
Fixpoint free_post (params : list (option bool)) (bs : shape) : shape :=
  match params, bs with
  | p :: ps, d :: r => if ptrue p then free_post_aux ps r else free_post ps r
  | _, _ => []
  end.

(* "all the non-broadcast axes are next to each other" *)
Fixpoint true_positions (params : list (option bool)) (i : Z) : list Z :=
  match params with
  | [] => []
  | p :: ps => if ptrue p then i :: true_positions ps (i + 1) else true_positions ps (i + 1)
  end.
Fixpoint adjacent (l : list Z) : bool :=
  match l with
  | a :: ((b :: _) as r) => (b - a =? 1) && adjacent r
  | _ => true
  end.

Fixpoint some_adjacent (l : list Z) : bool :=
  match l with
  | a :: ((b :: _) as r) => (b - a =? 1) || some_adjacent r
  | _ => false
  end.

Section Ops.
  Variable V : Type.
  Variable veqb : V -> V -> bool.

  (* -------------------------------------------------------------- the constructor's sort *)

  (* stable insertion: e goes before the first element that is not smaller than it *)
  Fixpoint insert_entry (e : idx * V) (l : list (idx * V)) : list (idx * V) :=
    match l with
    | [] => [e]
    | h :: t => if lex_ltb (fst h) (fst e) then h :: insert_entry e t else e :: l
    end.

  Definition sort_entries (l : list (idx * V)) : list (idx * V) := fold_right insert_entry [] l.

  (* COO(coords, data, shape, sorted=srt, has_duplicates=.., fill_value=fill) *)
  Definition coo_make (sh : shape) (es : list (idx * V)) (fill : V) (srt : bool) : coo V :=
    let es' := if srt then es else sort_entries es in
    mkCOO sh (map fst es') (map snd es') fill.

  (* the same, with np.ravel_multi_index's range check (ValueError) made explicit — used where
     the coordinates handed over are not in range by construction (pad with negative widths) *)
  Definition coo_make_checked (sh : shape) (es : list (idx * V)) (fill : V) : res (coo V) :=
    if existsb (fun d => d <? 0) sh then Raise ValueError
    else if negb (forallb (fun e => in_rangeb sh (fst e)) es) then Raise ValueError
    else Ok (coo_make sh es fill false).

  Definition map_coords (f : idx -> idx) (x : coo V) : list (idx * V) :=
    map (fun e => (f (fst e), snd e)) (entries x).

  Definition ndim (x : coo V) : Z := zlen (c_shape x).

  (* -------------------------------------------------------------- transpose family *)

  (* self.coords[axes, :] *)
  Definition permute_idx (axes : list Z) (c : idx) : idx := map (fun a => zget c a 0) axes.

  Definition coo_transpose (x : coo V) (axes : option (list Z)) : res (coo V) :=
    let nd := ndim x in
    let axes0 := match axes with None => rev (zrange nd) | Some a => a end in
    ax <- norm_axes nd axes0 ;;
    if has_dup ax then Raise ValueError                       (* repeated axis in transpose *)
    else if negb (zlen ax =? nd) then Raise ValueError        (* axes don't match array *)
    else if idx_eqb ax (zrange nd) then Ok x                  (* return self *)
    else Ok (coo_make (permute_idx ax (c_shape x)) (map_coords (permute_idx ax) x) (c_fill x) false).

  Definition coo_T (x : coo V) : res (coo V) := coo_transpose x (Some (rev (zrange (ndim x)))).

  (* axis[-1], axis[-2] = axis[-2], axis[-1] *)
  Definition swap_last2 (l : list Z) : list Z :=
    match rev l with a :: b :: r => rev (b :: a :: r) | _ => l end.

  Definition coo_mT (x : coo V) : res (coo V) :=
    if ndim x <? 2 then Raise ValueError
    else coo_transpose x (Some (swap_last2 (zrange (ndim x)))).

  Definition swap_axes_list (nd a1 a2 : Z) : list Z :=
    let axes := zrange nd in
    zset (zset axes a1 (zget axes a2 0)) a2 (zget axes a1 0).

  Definition coo_swapaxes (x : coo V) (a1 a2 : Z) : res (coo V) :=
    l <- norm_axes (ndim x) [a1; a2] ;;
    match l with
    | [b1; b2] => coo_transpose x (Some (swap_axes_list (ndim x) b1 b2))
    | _ => Raise OtherError
    end.

  (* sorted(zip(destination, source)) — insertion sort of pairs by (dest, src) *)
  Fixpoint insert_pair (p : Z * Z) (l : list (Z * Z)) : list (Z * Z) :=
    match l with
    | [] => [p]
    | h :: t => if (fst h <? fst p) || ((fst h =? fst p) && (snd h <? snd p))
                then h :: insert_pair p t else p :: l
    end.
  Definition sort_pairs (l : list (Z * Z)) : list (Z * Z) := fold_right insert_pair [] l.

  Definition moveaxis_order (nd : Z) (src dst : list Z) : list Z :=
    let order := filter (fun n => negb (memz n src)) (zrange nd) in
    fold_left (fun o p => zinsert o (fst p) (snd p)) (sort_pairs (combine dst src)) order.

  Definition ax_list (a : axarg) : list Z :=
    match a with AxNone => [] | AxInt z => [z] | AxTup l => l end.

  Definition coo_moveaxis (x : coo V) (source destination : axarg) : res (coo V) :=
    let nd := ndim x in
    (* the order of the statements is GENERATED (s_moveaxis_normalize_first): the axes are normalised first, then
       the repeated-destination test runs on the normalised tuple *)
    if negb s_moveaxis_normalize_first && has_dup (ax_list destination) then Raise ValueError else
    src <- norm_axes nd (ax_list source) ;;
    dst <- norm_axes nd (ax_list destination) ;;
    if s_moveaxis_normalize_first && has_dup dst then Raise ValueError   (* repeated axis in `destination`   (commit 1529999) *)
    else if negb (length src =? length dst)%nat then Raise ValueError
    else coo_transpose x (Some (moveaxis_order nd src dst)).

  (* -------------------------------------------------------------- reshape / flatten *)

  Definition coo_reshape (x : coo V) (new : list Z) : res (coo V) :=
    if idx_eqb (c_shape x) new then Ok x
    else
      sh' <- coo_reshape_shape (c_shape x) new ;;
      Ok (coo_make sh' (map_coords (fun c => unravel_strided sh' (ravel (c_shape x) c)) x) (c_fill x) true).

  Definition coo_flatten (x : coo V) : res (coo V) := coo_reshape x [-1].

  (* -------------------------------------------------------------- squeeze / expand_dims *)

  Definition select_axes {A} (keep : list Z) (l : list A) (d : A) : list A :=
    map (fun a => zget l a d) keep.

  Definition coo_squeeze (x : coo V) (axis : axarg) : res (coo V) :=
    let nd := ndim x in
    let sh := c_shape x in
    let squeezable := filter (fun d => zget sh d 0 =? 1) (zrange nd) in
    let ax0 := match axis with AxNone => squeezable | AxInt a => [a] | AxTup l => l end in
    (* axis = tuple(d + self.ndim if -self.ndim <= d < 0 else d for d in axis)   (commit 71cae31) *)
    let ax := map (fun d => if (- nd <=? d) && (d <? 0) then d + nd else d) ax0 in
    (* if len(set(axis)) < len(axis): raise ValueError *)
    if has_dup ax then Raise ValueError else
    (* for d in axis: if d not in squeezable_dims: raise ValueError(f"... {self.shape[d]}") *)
    _ <- mapM (fun d => if memz d squeezable then Ok tt
                        else if (- nd <=? d) && (d <? nd) then Raise ValueError
                        else Raise IndexError) ax ;;
    let retained := filter (fun d => negb (memz d ax)) (zrange nd) in
    Ok (coo_make (select_axes retained sh 0) (map_coords (fun c => select_axes retained c 0) x) (c_fill x) true).

  Definition coo_expand_dims (x : coo V) (axis : Z) : res (coo V) :=
    a <- norm_axis (ndim x + 1) axis ;;
    Ok (coo_make (zinsert (c_shape x) a 1) (map_coords (fun c => zinsert c a 0) x) (c_fill x) false).

  (* -------------------------------------------------------------- flip / roll *)

  (* for ax in axis: new_coords[ax] = shape[ax] - 1 - x.coords[ax]   (reads the ORIGINAL coords) *)
  Definition flip_idx (sh : shape) (axes : list Z) (c : idx) : idx :=
    fold_left (fun nc a => zset nc a (zget sh a 0 - 1 - zget c a 0)) axes c.

  Definition coo_flip (x : coo V) (axis : axarg) : res (coo V) :=
    let nd := ndim x in
    let ax0 := match axis with AxNone => zrange nd | AxInt a => [a] | AxTup l => l end in
    ax <- norm_axes nd ax0 ;;                                 (* axis = normalize_axis(axis, x.ndim)   (commit 7be2e09) *)
    if has_dup ax then Raise ValueError                       (* repeated axis in flip *)
    else Ok (coo_make (c_shape x) (map_coords (flip_idx (c_shape x) ax) x) (c_fill x) false).

  (* the guard `all(can_store(dtype, int(sh)) and can_store(dtype, a.shape[ax] + int(sh)) for ...)`
     holds for every shift on the default index type intp (narrow / unsigned coordinate types are
     property C15), so it does not appear below. *)

  (* for sh, ax in zip(shift, axis, strict=True): coords[ax] += sh; coords[ax] %= a.shape[ax]
     — a sequential fold over the pairs (pairs naming the same axis accumulate); the loop statement is pinned
     and its step GENERATED (Gen/S_shapeops.v: s_roll_step) *)
  Definition roll_idx (shp : shape) (pairs : list (Z * Z)) (c : idx) : idx :=
    fold_left (fun nc p => let '(s, a) := p in zset nc a (s_roll_step (zget nc a 0) s (zget shp a 0))) pairs c.

  Definition coo_roll_axes (x : coo V) (shift : shiftarg) (axis : list Z) : res (coo V) :=
    ax <- norm_axes (ndim x) axis ;;
    let sl := match shift with ShInt s => [s] | ShTup l => l end in
    let is_array := (length sl =? 1)%nat in
    let shifts := if is_array then repeat (hd 0 sl) (length ax) else sl in
    if negb (length ax =? length shifts)%nat then Raise ValueError
    else
      Ok (coo_make (c_shape x) (map_coords (roll_idx (c_shape x) (combine shifts ax)) x) (c_fill x) false).

  Definition coo_roll (x : coo V) (shift : shiftarg) (axis : axarg) : res (coo V) :=
    match axis with
    | AxNone =>                                       (* roll(a.reshape((-1,)), shift, 0).reshape(a.shape) *)
      f <- coo_reshape x [-1] ;;
      r <- coo_roll_axes f shift [0] ;;
      coo_reshape r (c_shape x)
    | AxInt a => coo_roll_axes x shift [a]
    | AxTup l => coo_roll_axes x shift l
    end.

  (* -------------------------------------------------------------- pad (constant) *)

  Definition coo_pad (x : coo V) (pw : padw) (constant_values : V) : res (coo V) :=
    if negb (veqb constant_values (c_fill x)) then Raise ValueError
    else
      (* if (np.asarray(pad_width) < 0).any(): raise ValueError   (commit d798d44) *)
      if padw_neg pw then Raise ValueError else
      prs <- pad_pairs (length (c_shape x)) pw ;;
      let before := map fst prs in
      (* the two arithmetic expressions are GENERATED (Gen/S_shapeops.v): coords + before (no cast back to
         the input's index dtype) and extent + before + after *)
      let new_shape := map (fun dp => s_pad_extent (fst dp) (fst (snd dp)) (snd (snd dp))) (combine (c_shape x) prs) in
      coo_make_checked new_shape (map_coords (fun c => map (fun cb => s_pad_coord (fst cb) (snd cb)) (combine c before)) x) (c_fill x).

  (* -------------------------------------------------------------- broadcast_to *)

  (* _get_expanded_coords_data: the cartesian product of (free axes before the first kept axis) x
     (stored entries) x (the other free axes), row-major; without any kept axis: all index tuples
     and np.repeat(data, size) *)
  Definition expand_entries (params : list (option bool)) (bs : shape) (es : list (idx * V)) : list (idx * V) :=
    if existsb ptrue params then
      flat_map (fun a =>
        flat_map (fun e =>
          map (fun b => (weave params (fst e) (a ++ b), snd e)) (all_indices (free_post params bs)))
          es)
        (all_indices (free_pre params bs))
    else
      match es with
      | [] => []
      | _ => combine (all_indices bs) (flat_map (fun e => repeat (snd e) (Z.to_nat (size bs))) es)
      end.

  Definition coo_broadcast_to (x : coo V) (sh : list Z) : res (coo V) :=
    if idx_eqb sh (c_shape x) then Ok x
    else
      let s1 := rev (c_shape x) in let s2 := rev sh in
      (* (is_result and len(shape1) > len(shape2)) or not all(...)   (commit 7dd4784) *)
      if (length s2 <? length s1)%nat || negb (bshape_ok_rev s1 s2) then Raise ValueError
      else
        let bsr := bshape_rev s1 s2 in
        let bs := rev bsr in
        let params := rev (bparams_rev s1 bsr) in
        (* sorted = all(d == 1 for d in diffs)  — the quantifier is GENERATED (s_broadcast_sorted_all) *)
        let srt := if s_broadcast_sorted_all then adjacent (true_positions params 0)
                   else some_adjacent (true_positions params 0) in
        if existsb (fun d => d <? 0) bs then Raise ValueError
        else Ok (coo_make bs (expand_entries params bs (entries x)) (c_fill x) srt).
End Ops.

Arguments insert_entry {V}.
Arguments sort_entries {V}.
Arguments coo_make {V}.
Arguments coo_make_checked {V}.
Arguments map_coords {V}.
Arguments ndim {V}.
Arguments coo_transpose {V}.
Arguments coo_T {V}.
Arguments coo_mT {V}.
Arguments coo_swapaxes {V}.
Arguments coo_moveaxis {V}.
Arguments coo_reshape {V}.
Arguments coo_flatten {V}.
Arguments coo_squeeze {V}.
Arguments coo_expand_dims {V}.
Arguments coo_flip {V}.
Arguments coo_roll_axes {V}.
Arguments coo_roll {V}.
Arguments coo_pad {V}.
Arguments expand_entries {V}.
Arguments coo_broadcast_to {V}.
