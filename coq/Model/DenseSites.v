(* Model/DenseSites.v — property C16, tie (i): the reviewed list of dense-allocation sites of the source
   files the property anchors in.  The table of sites itself (Gen/S_dense_sites.v) is regenerated from
   the source on every run by tools/sitegen/dense_sites.py; Proofs/DenseSitesP.v / Props/C16.v check by
   vm_compute that every generated site is in the reviewed table below.  Kept apart from
   Model/SparseOps.v so that the correspondence judge still builds when the table changes (the campaign
   then looks for the concrete input on which the new allocation blows the memory limit).
   Definitions only. *)
From Coq Require Import String ZArith List Bool.
From Verif Require Import S_dense_sites.
Import ListNotations.

Local Open Scope string_scope.

(* why a site of Gen/S_dense_sites.v is acceptable *)
Inductive reason :=
| RDensify      (* the sanctioned densifying paths: todense / maybe_densify / asnumpy / __array__ themselves,
                   the _dense_result (dense-mix) branch of _Elemwise, return_type=ndarray, a 0-d operand *)
| RDenseOperand (* product with a dense ndarray operand whose result is a dense ndarray by definition *)
| RNdim         (* length = number of axes (or a constant) *)
| RNnz          (* length = number of stored elements (of an operand or of the result) *)
| RAxis         (* length = extent of ONE axis (+1), or the range of one slice *)
| RIndptr       (* GCXS/CSR index pointer or per-row counter: product of the compressed extents of the OPERAND or of
                   the requested result format + 1 (inherent in the format) *)
| RBroadcast    (* number of stored elements of a broadcast RESULT (stored elements x broadcast extents): the
                   output size of broadcast_to / of an element-wise operation that does not keep the fill along the
                   broadcast axes; never reached by a fill-preserving operation (the branch returns None first) *)
| ROutOfFamily  (* function outside the operation families of the property (creation, kron, ...) *)
| RProduct      (* NOT sanctioned: allocates — or, for np.broadcast_to of a scalar operand, addresses — a product of
                   extents that is neither the operand's nor the requested result's compressed extent: a dense
                   intermediate inside a listed operation family *).

Record sanction := mkSan { sa_file : string; sa_func : string; sa_callee : string; sa_args : string;
                           sa_occ : nat; sa_why : reason }.

Definition site_matches (s : dsite) (a : sanction) : bool :=
  String.eqb (ds_file s) (sa_file a) && String.eqb (ds_func s) (sa_func a)
  && String.eqb (ds_callee s) (sa_callee a) && String.eqb (ds_args s) (sa_args a)
  && Nat.eqb (ds_occ s) (sa_occ a).

Definition sanctioned_in (l : list sanction) (s : dsite) : bool := existsb (site_matches s) l.

(* The reviewed table (review of the unchanged tree, one row per site of Gen/S_dense_sites.v).  A site that is
   not in this table — a new call, a second copy of a reviewed call, an edited argument — makes
   Props.C16.dense_sites_reviewed fail at the next build. *)
Definition sanctioned_sites : list sanction := [
  mkSan "_umath.py" "_get_expanded_coords_data" "np.arange" "d, dtype=np.intp" 1 RAxis;
  mkSan "_umath.py" "_get_expanded_coords_data" "np.empty" "(len(broadcast_shape), all_idx.shape[1]), dtype=np.intp" 1 RBroadcast;
  mkSan "_umath.py" "_get_expanded_coords_data" "np.empty" "(0, all_idx.shape[1]), dtype=np.intp" 1 RBroadcast;
  mkSan "_umath.py" "_get_expanded_coords_data" "np.repeat" "data, reduce(operator.mul, broadcast_shape, 1)" 1 RBroadcast;
  mkSan "_umath.py" "_cartesian_product" "np.broadcast_arrays" "*broadcastable" 1 RBroadcast;
  mkSan "_umath.py" "_cartesian_product" "np.empty" "rows * cols, dtype=dtype" 1 RBroadcast;
  mkSan "_umath.py" "_get_matching_coords" "np.zeros" "len(coords), dtype=np.uint8" 1 RNdim;
  mkSan "_umath.py" "_Elemwise.__init__" ".todense" "arg | " 1 RDensify;
  mkSan "_umath.py" "_Elemwise.get_result" ".todense" "a | " 1 RDensify;
  mkSan "_umath.py" "_Elemwise.get_result" "np.empty" "(0, len(self.shape)), dtype=np.intp" 1 RNdim;
  mkSan "_umath.py" "_Elemwise.get_result" "np.empty" "(0, len(self.shape)), dtype=np.intp" 2 RNdim;
  mkSan "_umath.py" "_Elemwise._get_func_coords_data" "np.broadcast_arrays" "*func_args" 1 RNnz;
  mkSan "_umath.py" "_Elemwise._get_func_coords_data" "np.empty" "func_args[0].shape, dtype=self.dtype" 1 RNnz;
  mkSan "_umath.py" "_Elemwise._get_func_coords_data" "np.ones" "func_array.nnz, dtype=np.bool_" 1 RNnz;
  mkSan "_umath.py" "_Elemwise._match_coo" "np.argsort" "idx" 1 RNnz;
  mkSan "_umath.py" "_Elemwise._match_coo" "np.arange" "matched_arrays[0].nnz" 1 RNnz;
  mkSan "_coo/core.py" "COO.__init__" "np.broadcast_to" "self.data, self.coords.shape[1]" 1 RNnz;
  mkSan "_coo/core.py" "COO.__init__" "np.zeros" "(len(shape) if isinstance(shape, Iterable) else 1, 0), dtype=np.intp" 1 RNdim;
  mkSan "_coo/core.py" "COO.todense" "np.full" "self.shape, self.fill_value, self.dtype" 1 RDensify;
  mkSan "_coo/core.py" "COO.from_scipy_sparse" "np.empty" "(2, x.nnz), dtype=x.row.dtype" 1 RNnz;
  mkSan "_coo/core.py" "COO.from_iter" "np.empty" "(ndim, 0), dtype=np.uint8" 1 RNdim;
  mkSan "_coo/core.py" "COO.reshape" "np.empty" "(len(shape), self.nnz), dtype=idx_dtype" 1 RNnz;
  mkSan "_coo/core.py" "COO._tocsr" "np.zeros" "self.shape[0] + 1, dtype=np.int64" 1 RIndptr;
  mkSan "_coo/core.py" "COO._tocsr" "np.bincount" "row, minlength=self.shape[0]" 1 RIndptr;
  mkSan "_coo/core.py" "COO._sort_indices" "np.argsort" "linear, kind='mergesort'" 1 RNnz;
  mkSan "_coo/core.py" "COO.maybe_densify" ".todense" "self | " 1 RDensify;
  mkSan "_coo/indexing.py" "getitem" "np.zeros" "n, dtype=np.intp" 1 RNnz;
  mkSan "_coo/indexing.py" "getitem" "np.empty" "(0, n), dtype=np.uint8" 1 RNnz;
  mkSan "_coo/indexing.py" "_ind_ar_from_indices" "np.empty" "(len(indices), 3), dtype=np.intp" 1 RNdim;
  mkSan "_coo/indexing.py" "_compute_multi_axis_multi_mask" "np.empty" "(len(indices) + len(adv_idx_pos), 3), dtype=np.intp" 1 RNdim;
  mkSan "_coo/indexing.py" "_compute_multi_mask" "np.empty" "(len(indices) + 1, 3), dtype=np.intp" 1 RNdim;
  mkSan "_coo/indexing.py" "array_from_list_intp" "np.empty" "n, dtype=np.intp" 1 RNdim;
  mkSan "_coo/common.py" "linear_loc" "np.zeros" "coords.shape[1:], dtype=np.intp" 1 RNnz;
  mkSan "_coo/common.py" "kron" "np.arange" "a.nnz" 1 ROutOfFamily;
  mkSan "_coo/common.py" "kron" "np.arange" "b.nnz" 1 ROutOfFamily;
  mkSan "_coo/common.py" "stack" "np.empty" "shape=(coords.shape[1],), dtype=np.intp" 1 RNnz;
  mkSan "_coo/common.py" "roll" "np.full" "len(axis), shift" 1 RNdim;
  mkSan "_coo/common.py" "_as_result_type_arg" ".todense" "x | " 1 RDensify;
  mkSan "_coo/common.py" "expand_dims" "np.zeros" "x.nnz, dtype=np.intp" 1 RNnz;
  mkSan "_coo/common.py" "unique_counts" "np.argsort" "values" 1 RNnz;
  mkSan "_coo/common.py" "_sort_coo" "np.empty_like" "sort_coords" 1 RNnz;
  mkSan "_coo/common.py" "_sort_coo" "np.arange" "group_size" 1 RNnz;
  mkSan "_common.py" "tensordot" ".todense" "a | " 1 RDensify;
  mkSan "_common.py" "tensordot" ".todense" "b | " 1 RDensify;
  mkSan "_common.py" "tensordot" "np.empty" "(len(olda) + len(oldb), 0), dtype=np.uintp" 1 RNdim;
  mkSan "_common.py" "tensordot" ".todense" "res | " 1 RDensify;
  mkSan "_common.py" "matmul._matmul_recurser" ".todense" "x | " 1 RDenseOperand;
  mkSan "_common.py" "_dot" ".todense" "out | " 1 RDensify;
  mkSan "_common.py" "_dot" "np.empty" "a.shape[0] + 1, dtype=np.intp" 1 RIndptr;
  mkSan "_common.py" "_dot" "np.bincount" "a.coords[0], minlength=a.shape[0]" 1 RIndptr;
  mkSan "_common.py" "_dot" "np.empty" "b.shape[0] + 1, dtype=np.intp" 1 RIndptr;
  mkSan "_common.py" "_dot" "np.bincount" "b.coords[0], minlength=b.shape[0]" 1 RIndptr;
  mkSan "_common.py" "_dot" ".todense" "out | " 2 RDensify;
  mkSan "_common.py" "_csr_csr_count_nnz" "np.full" "n_col, -1" 1 RAxis;
  mkSan "_common.py" "_csc_ndarray_count_nnz" "np.full" "a_shape[0], -1" 1 RAxis;
  mkSan "_common.py" "_dot_csr_csr_type._dot_csr_csr" "np.empty" "n_row + 1, dtype=np.intp" 1 RIndptr;
  mkSan "_common.py" "_dot_csr_csr_type._dot_csr_csr" "np.empty" "nnz, dtype=np.intp" 1 RNnz;
  mkSan "_common.py" "_dot_csr_csr_type._dot_csr_csr" "np.empty" "nnz, dtype=dtr" 1 RNnz;
  mkSan "_common.py" "_dot_csr_csr_type._dot_csr_csr" "np.full" "n_col, -1" 1 RAxis;
  mkSan "_common.py" "_dot_csr_csr_type._dot_csr_csr" "np.zeros" "n_col, dtype=dtr" 1 RAxis;
  mkSan "_common.py" "_dot_csr_csr_type._dot_csr_csr" "np.argsort" "indices[indptr[i]:nnz]" 1 RNnz;
  mkSan "_common.py" "_dot_csr_ndarray_type._dot_csr_ndarray" "np.zeros" "out_shape, dtype=dtr" 1 RDenseOperand;
  mkSan "_common.py" "_dot_csr_ndarray_type_sparse._dot_csr_ndarray_sparse" "np.empty" "out_shape[0] + 1, dtype=np.intp" 1 RIndptr;
  mkSan "_common.py" "_dot_csr_ndarray_type_sparse._dot_csr_ndarray_sparse" "np.empty" "nnz, dtype=np.intp" 1 RNnz;
  mkSan "_common.py" "_dot_csr_ndarray_type_sparse._dot_csr_ndarray_sparse" "np.empty" "nnz, dtype=dtr" 1 RNnz;
  mkSan "_common.py" "_dot_csc_ndarray_type_sparse._dot_csc_ndarray_sparse" "np.empty" "b_shape[1] + 1, dtype=np.intp" 1 RIndptr;
  mkSan "_common.py" "_dot_csc_ndarray_type_sparse._dot_csc_ndarray_sparse" "np.empty" "nnz, dtype=np.intp" 1 RNnz;
  mkSan "_common.py" "_dot_csc_ndarray_type_sparse._dot_csc_ndarray_sparse" "np.empty" "nnz, dtype=dtr" 1 RNnz;
  mkSan "_common.py" "_dot_csc_ndarray_type_sparse._dot_csc_ndarray_sparse" "np.zeros" "a_shape[0], dtype=dtr" 1 RAxis;
  mkSan "_common.py" "_dot_csc_ndarray_type_sparse._dot_csc_ndarray_sparse" "np.full" "a_shape[0], -1" 1 RAxis;
  mkSan "_common.py" "_dot_csc_ndarray_type_sparse._dot_csc_ndarray_sparse" "np.argsort" "indices[start:nnz]" 1 RNnz;
  mkSan "_common.py" "_dot_csc_ndarray_type._dot_csc_ndarray" "np.zeros" "(a_shape[0], b_shape[1]), dtype=dtr" 1 RDenseOperand;
  mkSan "_common.py" "_dot_coo_coo_type._dot_coo_coo" "np.empty" "(2, nnz), dtype=np.intp" 1 RNnz;
  mkSan "_common.py" "_dot_coo_coo_type._dot_coo_coo" "np.empty" "nnz, dtype=dtr" 1 RNnz;
  mkSan "_common.py" "_dot_coo_coo_type._dot_coo_coo" "np.full" "n_col, -1" 1 RAxis;
  mkSan "_common.py" "_dot_coo_coo_type._dot_coo_coo" "np.zeros" "n_col, dtype=dtr" 1 RAxis;
  mkSan "_common.py" "_dot_coo_ndarray_type._dot_coo_ndarray" "np.zeros" "out_shape, dtype=dtr" 1 RDenseOperand;
  mkSan "_common.py" "_dot_ndarray_coo_type._dot_ndarray_coo" "np.zeros" "out_shape, dtype=dtr" 1 RDenseOperand;
  mkSan "_common.py" "eye" "np.arange" "data_length, dtype=np.intp" 1 ROutOfFamily;
  mkSan "_common.py" "eye" "np.arange" "data_length, dtype=np.intp" 2 ROutOfFamily;
  mkSan "_common.py" "eye" "np.arange" "data_length, dtype=np.intp" 3 ROutOfFamily;
  mkSan "_common.py" "full" "np.empty" "(len(shape), 0), dtype=np.intp" 1 RNdim;
  mkSan "_common.py" "asnumpy" ".todense" "a | " 1 RDensify;
  mkSan "_common.py" "pad" "np.broadcast_to" "pad_width, (len(array.shape), 2)" 1 RNdim;
  mkSan "_compressed/compressed.py" "_from_coo" "np.arange" "len(x.shape)" 1 RNdim;
  mkSan "_compressed/compressed.py" "_from_coo" "np.argsort" "linear" 1 RNnz;
  mkSan "_compressed/compressed.py" "_from_coo" "np.empty" "(2, x.nnz), dtype=idx_dtype" 1 RNnz;
  mkSan "_compressed/compressed.py" "_from_coo" "np.empty" "row_size + 1, dtype=idx_dtype" 1 RIndptr;
  mkSan "_compressed/compressed.py" "_from_coo" "np.bincount" "coords[0], minlength=row_size" 1 RIndptr;
  mkSan "_compressed/compressed.py" "GCXS._axis_order" "np.arange" "len(self.shape)" 1 RNdim;
  mkSan "_compressed/compressed.py" "GCXS._reduce_calc" "np.arange" "self.ndim, dtype=np.intp" 1 RNdim;
  mkSan "_compressed/compressed.py" "GCXS._reduce_calc" "np.ones" "self.ndim, dtype=np.intp" 1 RNdim;
  mkSan "_compressed/compressed.py" "GCXS._reduce_calc" "np.arange" "self.ndim, dtype=np.intp" 2 RNdim;
  mkSan "_compressed/compressed.py" "GCXS.change_compressed_axes" "np.arange" "self.ndim" 1 RNdim;
  mkSan "_compressed/compressed.py" "GCXS.tocoo" "np.argsort" "self._axis_order" 1 RNdim;
  mkSan "_compressed/compressed.py" "GCXS.todense" "np.full" "self.shape, self.fill_value, self.dtype" 1 RDensify;
  mkSan "_compressed/compressed.py" "GCXS.todense" ".todense" "self.tocoo() | " 1 RDensify;
  mkSan "_compressed/compressed.py" "GCXS.maybe_densify" ".todense" "self | " 1 RDensify;
  mkSan "_compressed/compressed.py" "GCXS.reshape" "np.arange" "self.ndim" 1 RNdim;
  mkSan "_compressed/compressed.py" "GCXS._prune" "np.empty" "row_size + 1, dtype=self.indptr.dtype" 1 RIndptr;
  mkSan "_compressed/compressed.py" "GCXS._prune" "np.bincount" "coords[0], minlength=row_size" 1 RIndptr;
  mkSan "_compressed/convert.py" "compute_flat" "np.zeros" "len(increments) - 1, dtype=np.intp" 1 RNdim;
  mkSan "_compressed/convert.py" "transform_shape" "np.empty" "len(shape), dtype=np.intp" 1 RNdim;
  mkSan "_compressed/convert.py" "uncompress_dimension" "np.empty" "indptr[-1], dtype=indptr.dtype" 1 RNnz;
  mkSan "_compressed/convert.py" "_1d_reshape" "np.arange" "len(shape)" 1 RNdim;
  mkSan "_compressed/convert.py" "_1d_reshape" "np.empty" "new_nnz, dtype=np.intp" 1 RNnz;
  mkSan "_compressed/convert.py" "_1d_reshape" "np.empty" "(2, new_nnz), dtype=coords_dtype" 1 RNnz;
  mkSan "_compressed/convert.py" "_1d_reshape" "np.argsort" "new_linear" 1 RNnz;
  mkSan "_compressed/convert.py" "_1d_reshape" "np.empty" "row_size + 1, dtype=coords_dtype" 1 RIndptr;
  mkSan "_compressed/convert.py" "_1d_reshape" "np.bincount" "new_coords[0], minlength=row_size" 1 RIndptr;
  mkSan "_compressed/convert.py" "_resize" "np.argsort" "x._axis_order" 1 RNdim;
  mkSan "_compressed/convert.py" "_resize" "np.empty" "x.nnz, dtype=linear_dtype" 1 RNnz;
  mkSan "_compressed/convert.py" "_resize" "np.argsort" "c_linear, kind='mergesort'" 1 RNnz;
  mkSan "_compressed/convert.py" "_transpose" "np.argsort" "x._axis_order" 1 RNdim;
  mkSan "_compressed/convert.py" "_transpose" "np.empty" "x.nnz, dtype=dtype" 1 RNnz;
  mkSan "_compressed/convert.py" "_transpose" "np.argsort" "c_linear, kind='mergesort'" 1 RNnz;
  mkSan "_compressed/convert.py" "_transpose" "np.arange" "len(shape)" 1 RNdim;
  mkSan "_compressed/convert.py" "_transpose" "np.empty" "x.nnz, dtype=np.intp" 1 RNnz;
  mkSan "_compressed/convert.py" "_transpose" "np.empty" "(2, x.nnz), dtype=coords_dtype" 1 RNnz;
  mkSan "_compressed/convert.py" "_transpose" "np.argsort" "new_linear, kind='mergesort'" 1 RNnz;
  mkSan "_compressed/convert.py" "_transpose" "np.empty" "row_size + 1, dtype=coords_dtype" 1 RIndptr;
  mkSan "_compressed/convert.py" "_transpose" "np.bincount" "new_coords[0], minlength=row_size" 1 RIndptr;
  mkSan "_compressed/convert.py" "unravel_index" "np.zeros" "len(shape), dtype=np.intp" 1 RNdim;
  mkSan "_compressed/indexing.py" "getitem" "np.zeros" "len(x.shape), dtype=np.bool_" 1 RNdim;
  mkSan "_compressed/indexing.py" "getitem" "np.zeros" "len(x.shape), dtype=np.bool_" 2 RNdim;
  mkSan "_compressed/indexing.py" "getitem" "np.zeros" "len(x.shape), dtype=np.intp" 1 RNdim;
  mkSan "_compressed/indexing.py" "getitem" "np.arange" "ind.start, ind.stop, ind.step" 1 RAxis;
  mkSan "_compressed/indexing.py" "getitem" "np.empty" "row_size + 1, dtype=x.indptr.dtype" 1 RIndptr;
  mkSan "_compressed/indexing.py" "getitem" "np.empty" "shape[0] + 1, dtype=x.indptr.dtype" 1 RIndptr;
  mkSan "_compressed/indexing.py" "getitem" "np.bincount" "uncompressed // size, minlength=shape[0]" 1 RIndptr;
  mkSan "_compressed/indexing.py" "getitem" "np.empty" "shape[0] + 1, dtype=x.indptr.dtype" 2 RIndptr;
  mkSan "_compressed/indexing.py" "getitem" "np.bincount" "uncompressed, minlength=shape[0]" 1 RIndptr].

Definition product_sites : list sanction := [
  mkSan "_umath.py" "_Elemwise._get_func_coords_data" "np.broadcast_to" "arg, matched_broadcast_shape" 1 RProduct;
  mkSan "_compressed/compressed.py" "GCXS._reduce_calc" "np.arange" "x._compressed_shape[0], dtype=x.indptr.dtype" 1 RProduct;
  mkSan "_compressed/convert.py" "convert_to_flat" ".repeat" "increments[-1] | operations" 1 RProduct].

Definition sanctioned (s : dsite) : bool := sanctioned_in sanctioned_sites s.
(* the sites where a listed operation family allocates (G1, G2) or addresses (E1: a zero-stride view NumPy refuses
   from 2^60 elements on) a product of extents *)
Definition product_site (s : dsite) : bool := sanctioned_in product_sites s.

(* ------------------------------------------------------------------ in-place writes work on private copies *)

(* why a name that is written in place (Gen/S_dense_sites.v inplace_sites) never aliases an operand's array *)
Inductive wreason :=
| WFresh        (* bound to a fresh allocation / copy / arithmetic result / kernel result made in this function *)
| WList         (* a Python list, tuple, dict or None: not array data *)
| WKernelReads  (* an operand's array handed to an internal kernel that only READS that argument (the kernel's
                   written parameters are rows of this table themselves) *)
| WOutParam     (* an output-buffer parameter of an internal kernel; every caller allocates it (np.empty) right before *)
| WUserOut      (* the out= argument of the public API: writing it is the contract *)
| WMemo         (* a memo dictionary (dtype-keyed kernel cache, the per-call match cache) *)
| WRebound      (* a parameter / unpacked value that is rebound to a private copy before the first write *)
| WView         (* a view of an array allocated in this function *).

Record rwrite := mkRW { rw_file : string; rw_func : string; rw_name : string; rw_bind : string; rw_why : wreason }.

Definition write_matches (s : wsite) (r : rwrite) : bool :=
  String.eqb (w_file s) (rw_file r) && String.eqb (w_func s) (rw_func r)
  && String.eqb (w_name s) (rw_name r) && String.eqb (w_bind s) (rw_bind r).

Definition reviewed_writes : list rwrite := [
  mkRW "_umath.py" "_get_expanded_coords_data" "expanded_coords" "np.empty((len(broadcast_shape), all_idx.shape[1]), dtype=np.intp)" WFresh;
  mkRW "_umath.py" "_get_expanded_coords_data" "expanded_coords" "all_idx if len(data) else np.empty((0, all_idx.shape[1]), dtype=np.intp)" WFresh;
  mkRW "_umath.py" "_cartesian_product" "out" "np.empty(rows * cols, dtype=dtype)" WFresh;
  mkRW "_umath.py" "_get_matching_coords" "dims" "np.zeros(len(coords), dtype=np.uint8)" WFresh;
  mkRW "_umath.py" "broadcast_to" "<argument 0 of _get_expanded_coords_data>" "x.coords" WKernelReads;
  mkRW "_umath.py" "broadcast_to" "<argument 1 of _get_expanded_coords_data>" "x.data" WKernelReads;
  mkRW "_umath.py" "_Elemwise.__init__" "out_kwargs" "{}" WMemo;
  mkRW "_umath.py" "_Elemwise._get_func_coords_data" "unmatched_mask" "~equivalent(func_data, self.fill_value)" WFresh;
  mkRW "_umath.py" "_Elemwise._get_func_coords_data" "unmatched_mask" "np.ones(func_array.nnz, dtype=np.bool_)" WFresh;
  mkRW "_umath.py" "_Elemwise._get_func_coords_data" "out" "np.empty(func_args[0].shape, dtype=self.dtype)" WFresh;
  mkRW "_umath.py" "_Elemwise._match_coo" "cache" "kwargs.pop('cache', None)" WMemo;
  mkRW "_umath.py" "_Elemwise._match_coo" "<argument 0 of _get_expanded_coords_data>" "matched_arrays[0].coords" WKernelReads;
  mkRW "_umath.py" "_Elemwise._match_coo" "<argument 0 of _get_reduced_coords>" "arg.coords" WKernelReads;
  mkRW "_coo/core.py" "COO.todense" "x" "np.full(self.shape, self.fill_value, self.dtype)" WFresh;
  mkRW "_coo/core.py" "COO.from_scipy_sparse" "coords" "np.empty((2, x.nnz), dtype=x.row.dtype)" WFresh;
  mkRW "_coo/core.py" "COO._reduce_calc" "<argument 0 of _grouped_reduce>" "a.data" WKernelReads;
  mkRW "_coo/core.py" "COO._reduce_calc" "<argument 1 of _grouped_reduce>" "a.coords[0]" WKernelReads;
  mkRW "_coo/core.py" "COO.mT" "axis" "list(range(self.ndim))" WList;
  mkRW "_coo/core.py" "COO.swapaxes" "axes" "list(range(self.ndim))" WList;
  mkRW "_coo/core.py" "COO.reshape" "coords" "np.empty((len(shape), self.nnz), dtype=idx_dtype)" WFresh;
  mkRW "_coo/core.py" "COO._tocsr" "indptr" "np.zeros(self.shape[0] + 1, dtype=np.int64)" WFresh;
  mkRW "_coo/indexing.py" "getitem" "<argument 0 of _mask>" "x.coords" WKernelReads;
  mkRW "_coo/indexing.py" "_ind_ar_from_indices" "ind_ar" "np.empty((len(indices), 3), dtype=np.intp)" WFresh;
  mkRW "_coo/indexing.py" "_compute_multi_axis_multi_mask" "full_idx" "np.empty((len(indices) + len(adv_idx_pos), 3), dtype=np.intp)" WFresh;
  mkRW "_coo/indexing.py" "_compute_multi_mask" "full_idx" "np.empty((len(indices) + 1, 3), dtype=np.intp)" WFresh;
  mkRW "_coo/indexing.py" "array_from_list_intp" "a" "np.empty(n, dtype=np.intp)" WFresh;
  mkRW "_coo/common.py" "concatenate" "shape" "list(arrays[0].shape)" WList;
  mkRW "_coo/common.py" "concatenate" "coords" "np.concatenate([x.coords for x in arrays], axis=1)" WFresh;
  mkRW "_coo/common.py" "concatenate" "coords" "coords.astype(np.min_scalar_type(max(shape)))" WFresh;
  mkRW "_coo/common.py" "stack" "new" "np.empty(shape=(coords.shape[1],), dtype=np.intp)" WFresh;
  mkRW "_coo/common.py" "roll" "coords" "np.copy(a.coords)" WFresh;
  mkRW "_coo/common.py" "diagonal" "diag_shape" "[a.shape[axis] for axis in diag_axes]" WList;
  mkRW "_coo/common.py" "diagonal" "<argument 0 of _diagonal_idx>" "a.coords" WKernelReads;
  mkRW "_coo/common.py" "isposinf" "out" "<parameter>" WUserOut;
  mkRW "_coo/common.py" "isneginf" "out" "<parameter>" WUserOut;
  mkRW "_coo/common.py" "clip" "out" "<parameter>" WUserOut;
  mkRW "_coo/common.py" "flip" "new_coords" "x.coords.copy()" WFresh;
  mkRW "_coo/common.py" "unique_counts" "counts" "<item 1 of> np.unique(x.data, return_counts=True)" WFresh;
  mkRW "_coo/common.py" "unique_counts" "counts" "np.concatenate([[x.size - x.nnz], counts])" WFresh;
  mkRW "_coo/common.py" "unique_counts" "counts" "counts[sorted_indices]" WFresh;
  mkRW "_coo/common.py" "sort" "<argument 0 of _sort_coo>" "x.coords" WKernelReads;
  mkRW "_coo/common.py" "sort" "<argument 1 of _sort_coo>" "x.data" WKernelReads;
  mkRW "_coo/common.py" "_sort_coo" "result_indices" "np.empty_like(sort_coords)" WFresh;
  mkRW "_coo/common.py" "_sort_coo" "data" "<parameter>" WRebound;
  mkRW "_coo/common.py" "_sort_coo" "data" "data.copy()" WFresh;
  mkRW "_coo/common.py" "_sort_coo" "indices" "np.arange(group_size)" WFresh;
  mkRW "_coo/common.py" "_arg_minmax_common" "<argument 0 of _compute_minmax_args>" "x.coords.copy()" WFresh;
  mkRW "_coo/common.py" "_arg_minmax_common" "<argument 1 of _compute_minmax_args>" "x.data.copy()" WFresh;
  mkRW "_coo/common.py" "matrix_transpose" "transpose_axes" "list(range(x.ndim))" WList;
  mkRW "_common.py" "tensordot" "axes_a" "<item 0 of> axes" WRebound;
  mkRW "_common.py" "tensordot" "axes_a" "list(axes_a)" WList;
  mkRW "_common.py" "tensordot" "axes_a" "list(range(-axes, 0))" WList;
  mkRW "_common.py" "tensordot" "axes_a" "[axes_a]" WList;
  mkRW "_common.py" "tensordot" "axes_b" "<item 1 of> axes" WRebound;
  mkRW "_common.py" "tensordot" "axes_b" "list(axes_b)" WList;
  mkRW "_common.py" "tensordot" "axes_b" "list(range(axes))" WList;
  mkRW "_common.py" "tensordot" "axes_b" "[axes_b]" WList;
  mkRW "_common.py" "_dot" "a_indptr" "np.empty(a.shape[0] + 1, dtype=np.intp)" WFresh;
  mkRW "_common.py" "_dot" "b_indptr" "np.empty(b.shape[0] + 1, dtype=np.intp)" WFresh;
  mkRW "_common.py" "_memoize_dtype.wrapped" "cache" "<unbound>" WMemo;
  mkRW "_common.py" "_csr_csr_count_nnz" "mask" "np.full(n_col, -1)" WFresh;
  mkRW "_common.py" "_csr_ndarray_count_nnz" "indptr" "<parameter>" WOutParam;
  mkRW "_common.py" "_csc_ndarray_count_nnz" "indptr" "<parameter>" WOutParam;
  mkRW "_common.py" "_csc_ndarray_count_nnz" "mask" "np.full(a_shape[0], -1)" WFresh;
  mkRW "_common.py" "_dot_csr_csr_type._dot_csr_csr" "indptr" "np.empty(n_row + 1, dtype=np.intp)" WFresh;
  mkRW "_common.py" "_dot_csr_csr_type._dot_csr_csr" "next_" "np.full(n_col, -1)" WFresh;
  mkRW "_common.py" "_dot_csr_csr_type._dot_csr_csr" "indices" "np.empty(nnz, dtype=np.intp)" WFresh;
  mkRW "_common.py" "_dot_csr_csr_type._dot_csr_csr" "data" "np.empty(nnz, dtype=dtr)" WFresh;
  mkRW "_common.py" "_dot_csr_csr_type._dot_csr_csr" "sums" "np.zeros(n_col, dtype=dtr)" WFresh;
  mkRW "_common.py" "_dot_csr_ndarray_type._dot_csr_ndarray" "val" "out[i]" WView;
  mkRW "_common.py" "_dot_csr_ndarray_type_sparse._dot_csr_ndarray_sparse" "indptr" "np.empty(out_shape[0] + 1, dtype=np.intp)" WFresh;
  mkRW "_common.py" "_dot_csr_ndarray_type_sparse._dot_csr_ndarray_sparse" "data" "np.empty(nnz, dtype=dtr)" WFresh;
  mkRW "_common.py" "_dot_csr_ndarray_type_sparse._dot_csr_ndarray_sparse" "indices" "np.empty(nnz, dtype=np.intp)" WFresh;
  mkRW "_common.py" "_dot_csc_ndarray_type_sparse._dot_csc_ndarray_sparse" "indptr" "np.empty(b_shape[1] + 1, dtype=np.intp)" WFresh;
  mkRW "_common.py" "_dot_csc_ndarray_type_sparse._dot_csc_ndarray_sparse" "indices" "np.empty(nnz, dtype=np.intp)" WFresh;
  mkRW "_common.py" "_dot_csc_ndarray_type_sparse._dot_csc_ndarray_sparse" "data" "np.empty(nnz, dtype=dtr)" WFresh;
  mkRW "_common.py" "_dot_csc_ndarray_type_sparse._dot_csc_ndarray_sparse" "mask" "np.full(a_shape[0], -1)" WFresh;
  mkRW "_common.py" "_dot_csc_ndarray_type_sparse._dot_csc_ndarray_sparse" "sums" "np.zeros(a_shape[0], dtype=dtr)" WFresh;
  mkRW "_common.py" "_dot_csc_ndarray_type._dot_csc_ndarray" "val" "out[ind]" WView;
  mkRW "_common.py" "_dot_coo_coo_type._dot_coo_coo" "next_" "np.full(n_col, -1)" WFresh;
  mkRW "_common.py" "_dot_coo_coo_type._dot_coo_coo" "sums" "np.zeros(n_col, dtype=dtr)" WFresh;
  mkRW "_common.py" "_dot_coo_coo_type._dot_coo_coo" "coords" "np.empty((2, nnz), dtype=np.intp)" WFresh;
  mkRW "_common.py" "_dot_coo_coo_type._dot_coo_coo" "data" "np.empty(nnz, dtype=dtr)" WFresh;
  mkRW "_common.py" "_dot_coo_ndarray_type._dot_coo_ndarray" "out" "np.zeros(out_shape, dtype=dtr)" WFresh;
  mkRW "_common.py" "_dot_ndarray_coo_type._dot_ndarray_coo" "out" "np.zeros(out_shape, dtype=dtr)" WFresh;
  mkRW "_common.py" "_parse_einsum_input" "split_subscripts" "input_tmp.split(',')" WList;
  mkRW "_common.py" "_parse_einsum_input" "split_subscripts" "subscripts.split(',')" WList;
  mkRW "_common.py" "outer" "out" "<parameter>" WUserOut;
  mkRW "_common.py" "round" "out" "<parameter>" WUserOut;
  mkRW "_compressed/compressed.py" "_from_coo" "indptr" "np.empty(row_size + 1, dtype=idx_dtype)" WFresh;
  mkRW "_compressed/compressed.py" "_from_coo" "coords" "np.empty((2, x.nnz), dtype=idx_dtype)" WFresh;
  mkRW "_compressed/compressed.py" "GCXS.__init__" "<argument 0 of _zero_of_dtype>" "self.data.dtype" WKernelReads;
  mkRW "_compressed/compressed.py" "GCXS.mT" "axis" "list(range(self.ndim))" WList;
  mkRW "_compressed/compressed.py" "GCXS.todense" "out" "np.full(self.shape, self.fill_value, self.dtype)" WFresh;
  mkRW "_compressed/compressed.py" "GCXS._prune" "indptr" "np.empty(row_size + 1, dtype=self.indptr.dtype)" WFresh;
  mkRW "_compressed/convert.py" "compute_flat" "cols" "<parameter>" WOutParam;
  mkRW "_compressed/convert.py" "compute_flat" "positions" "np.zeros(len(increments) - 1, dtype=np.intp)" WFresh;
  mkRW "_compressed/convert.py" "transform_shape" "shape_bins" "np.empty(len(shape), dtype=np.intp)" WFresh;
  mkRW "_compressed/convert.py" "uncompress_dimension" "uncompressed" "np.empty(indptr[-1], dtype=indptr.dtype)" WFresh;
  mkRW "_compressed/convert.py" "_linearize" "new_linear" "<parameter>" WOutParam;
  mkRW "_compressed/convert.py" "_linearize" "new_coords" "<parameter>" WOutParam;
  mkRW "_compressed/convert.py" "_1d_reshape" "indptr" "np.empty(row_size + 1, dtype=coords_dtype)" WFresh;
  mkRW "_compressed/convert.py" "_c_ordering" "c_linear" "<parameter>" WOutParam;
  mkRW "_compressed/convert.py" "_transpose" "indptr" "[]" WList;
  mkRW "_compressed/convert.py" "_transpose" "indptr" "np.empty(row_size + 1, dtype=coords_dtype)" WFresh;
  mkRW "_compressed/convert.py" "unravel_index" "out" "np.zeros(len(shape), dtype=np.intp)" WFresh;
  mkRW "_compressed/convert.py" "_convert_coords" "new_linear" "<parameter>" WOutParam;
  mkRW "_compressed/convert.py" "_convert_coords" "new_coords" "<parameter>" WOutParam;
  mkRW "_compressed/indexing.py" "getitem" "indptr" "np.empty(row_size + 1, dtype=x.indptr.dtype)" WFresh;
  mkRW "_compressed/indexing.py" "getitem" "indptr" "<item 2 of> arg" WFresh;
  mkRW "_compressed/indexing.py" "getitem" "indptr" "None" WList;
  mkRW "_compressed/indexing.py" "getitem" "indptr" "np.empty(shape[0] + 1, dtype=x.indptr.dtype)" WFresh;
  mkRW "_compressed/indexing.py" "getitem" "indptr" "None" WList;
  mkRW "_compressed/indexing.py" "getitem" "indptr" "np.empty(shape[0] + 1, dtype=x.indptr.dtype)" WFresh;
  mkRW "_compressed/indexing.py" "getitem" "reordered_key" "[Nones_removed[i] for i in x._axis_order]" WList;
  mkRW "_compressed/indexing.py" "getitem" "reordered_key" "List(reordered_key)" WList;
  mkRW "_compressed/indexing.py" "getitem" "shape_key" "np.zeros(len(x.shape), dtype=np.intp)" WFresh;
  mkRW "_compressed/indexing.py" "getitem" "compressed_axes" "np.array(compressed_axes)" WFresh;
  mkRW "_compressed/indexing.py" "getitem" "compressed_axes" "tuple(compressed_axes)" WList;
  mkRW "_compressed/indexing.py" "getitem" "compressed_axes" "shape_key[compressed_inds]" WFresh;
  mkRW "_compressed/indexing.py" "getitem" "compressed_axes" "(0,)" WList;
  mkRW "_compressed/indexing.py" "getitem" "compressed_axes" "(0,)" WList;
  mkRW "_compressed/indexing.py" "getitem" "compressed_axes" "None" WList;
  mkRW "_compressed/indexing.py" "getitem" "compressed_inds" "np.zeros(len(x.shape), dtype=np.bool_)" WFresh;
  mkRW "_compressed/indexing.py" "getitem" "uncompressed_inds" "np.zeros(len(x.shape), dtype=np.bool_)" WFresh;
  mkRW "_compressed/indexing.py" "get_slicing_selection" "indptr" "<parameter>" WOutParam;
  mkRW "_compressed/indexing.py" "get_array_selection" "indptr" "<parameter>" WOutParam].

(* the generated table and the reviewed table are equal as sets: a changed binding (x.coords.copy() replaced by an
   alias), a new in-place write, or a deleted private copy (data = data.copy()) all break it *)
Definition writes_reviewedb : bool :=
  forallb (fun s => existsb (write_matches s) reviewed_writes) inplace_sites
  && forallb (fun r => existsb (fun s => write_matches s r) inplace_sites) reviewed_writes.
