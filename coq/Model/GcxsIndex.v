(* Model/GcxsIndex.v — the selection kernels of sparse/numba_backend/_compressed/indexing.py:
   get_slicing_selection (per row either the linear two-pointer filter or the binary-search walk),
   get_array_selection (one binary search per requested column) and get_single_element, with the
   same loop structure.  `while` loops run on explicit fuel; reads of the nopython kernels are not
   bounds-checked, so every read is checked here and an out-of-range read is an explicit outcome.
   Definitions only.

   A selection is the list of (position in arr_indices/arr_data, position in col) pairs a row
   contributes, in the order the kernel appends them.  The `path` argument of the slicing kernel
   abstracts the size test `current_row.size < col.size` to an ARBITRARY choice per row. *)
From Coq Require Import ZArith List Bool.
From Verif Require Import Py Shape CooIndex.
Import ListNotations.
Open Scope Z_scope.

Inductive sel (A : Type) := SOk (a : A) | SOutOfFuel | SOutOfBounds.
Arguments SOk {A} a.
Arguments SOutOfFuel {A}.
Arguments SOutOfBounds {A}.

Definition sbind {A B} (m : sel A) (f : A -> sel B) : sel B :=
  match m with SOk a => f a | SOutOfFuel => SOutOfFuel | SOutOfBounds => SOutOfBounds end.

(* a checked read r[i]; Python's r[-1] is the last element *)
Definition rd (l : list Z) (i : nat) : sel Z :=
  match nth_error l i with Some v => SOk v | None => SOutOfBounds end.
Definition rd_last (l : list Z) : sel Z := rd l (length l - 1) .

Definition pairs := list (nat * nat).

(* ---- linear filtering:  while col_count < col.size and count < current_row.size: ... *)
Fixpoint linear_loop (fuel : nat) (row col : list Z) (start : nat) (count cc : nat) (acc : pairs) : sel pairs :=
  match fuel with
  | O => SOutOfFuel
  | S f =>
    if ((cc <? length col) && (count <? length row))%nat then
      sbind (rd_last row) (fun rl =>
      sbind (rd col cc) (fun cv =>
      sbind (rd row count) (fun rv =>
      sbind (rd_last col) (fun cl =>
        if (rl <? cv) || (cl <? rv) then SOk acc
        else if rv =? cv then linear_loop f row col start (S count) (S cc) (acc ++ [((count + start)%nat, cc)])
        else if rv <? cv then linear_loop f row col start (S count) cc acc
        else linear_loop f row col start count (S cc) acc))))
    else SOk acc
  end.

Definition linear_row (row col : list Z) (start : nat) : sel pairs :=
  linear_loop (S (length row + length col)) row col start 0 0 [].

(* ---- binary searches.  Inner loop: skip the requested columns smaller than current_row[size] *)
Fixpoint skip_loop (fuel : nat) (row col : list Z) (size cc : nat) : sel nat :=
  match fuel with
  | O => SOutOfFuel
  | S f =>
    if ((cc <? length col) && (size <? length row))%nat then
      sbind (rd col cc) (fun cv =>
      sbind (rd row size) (fun rv =>
        if cv <? rv then skip_loop f row col size (S cc) else SOk cc))
    else SOk cc
  end.

Fixpoint binary_loop (fuel : nat) (row col : list Z) (start : nat) (size cc : nat) (acc : pairs) : sel pairs :=
  match fuel with
  | O => SOutOfFuel
  | S f =>
    if (cc <? length col)%nat then
      sbind (skip_loop (S (length col)) row col size cc) (fun cc1 =>
      if (length col <=? cc1)%nat then SOk acc
      else
        sbind (rd_last row) (fun rl =>
        sbind (rd col cc1) (fun cv =>
        if rl <? cv then SOk acc
        else
          sbind (rd row size) (fun rs =>
          sbind (rd_last col) (fun cl =>
          if cl <? rs then SOk acc
          else
            let s := (size + searchsorted_left (skipn size row) cv)%nat in
            (* if not (s >= current_row.size or current_row[s] != col[col_count]) *)
            if (length row <=? s)%nat then binary_loop f row col start s (S cc1) acc
            else
              sbind (rd row s) (fun rv =>
                if rv =? cv then binary_loop f row col start (S s) (S cc1) (acc ++ [((s + start)%nat, cc1)])
                else binary_loop f row col start s (S cc1) acc))))))
    else SOk acc
  end.

Definition binary_row (row col : list Z) (start : nat) : sel pairs :=
  binary_loop (S (length col)) row col start 0 0 [].

(* ---- get_array_selection: one search per requested column *)
Definition array_row (row col : list Z) (start : nat) : sel pairs :=
  match row with
  | [] => SOk []
  | _ =>
    SOk (flat_map (fun c =>
           let s := searchsorted_left row (nth c col 0) in
           if (length row <=? s)%nat then []
           else if nth s row 0 =? nth c col 0 then [((s + start)%nat, c)] else [])
         (seq 0 (length col)))
  end.

(* ---- the kernels over all (start, end) rows: selection in append order and the new indptr *)
Fixpoint over_rows (f : list Z -> nat -> sel pairs) (arr_indices : list Z) (rows : list (nat * nat))
         (last : Z) : sel (pairs * list Z) :=
  match rows with
  | [] => SOk ([], [])
  | (a, b) :: r =>
    sbind (f (seg arr_indices a b) a) (fun ps =>
    let nxt := last + Z.of_nat (length ps) in
    sbind (over_rows f arr_indices r nxt) (fun rest =>
    SOk (ps ++ fst rest, nxt :: snd rest)))
  end.

Definition slicing_selection (path : nat -> bool) (arr_indices : list Z) (rows : list (nat * nat)) (col : list Z)
  : sel (pairs * list Z) :=
  (* path i = true: row i takes the linear filter *)
  let fix go (i : nat) (rows : list (nat * nat)) (last : Z) : sel (pairs * list Z) :=
    match rows with
    | [] => SOk ([], [])
    | (a, b) :: r =>
      let row := seg arr_indices a b in
      sbind (if path i then linear_row row col a else binary_row row col a) (fun ps =>
      let nxt := last + Z.of_nat (length ps) in
      sbind (go (S i) r nxt) (fun rest => SOk (ps ++ fst rest, nxt :: snd rest)))
    end in
  sbind (go 0%nat rows 0) (fun r => SOk (fst r, 0 :: snd r)).

(* the choice the code makes: current_row.size < col.size *)
Definition code_path (arr_indices : list Z) (rows : list (nat * nat)) (col : list Z) (i : nat) : bool :=
  let '(a, b) := nth i rows (0%nat, 0%nat) in (length (seg arr_indices a b) <? length col)%nat.

Definition array_selection (arr_indices : list Z) (rows : list (nat * nat)) (col : list Z) : sel (pairs * list Z) :=
  sbind (over_rows (fun row a => array_row row col a) arr_indices rows 0) (fun r => SOk (fst r, 0 :: snd r)).

(* ---- the filter spec: for every requested column, in order, the position of that value in the row *)
Fixpoint find_pos (row : list Z) (v : Z) (k : nat) : option nat :=
  match row with
  | [] => None
  | x :: r => if x =? v then Some k else find_pos r v (S k)
  end.

Definition row_spec (row col : list Z) (start : nat) : pairs :=
  flat_map (fun c => match find_pos row (nth c col 0) 0 with
                     | Some p => [((p + start)%nat, c)]
                     | None => []
                     end) (seq 0 (length col)).

Fixpoint strictly_incr (l : list Z) : bool :=
  match l with
  | [] => true
  | a :: r => match r with [] => true | b :: _ => (a <? b) && strictly_incr r end
  end.

(* ---- get_single_element: row/col of the flattened key, one binary search *)
Definition single_element {V} (data : list V) (indices indptr : list Z) (fill : V) (row col : Z) : V :=
  let a := Z.to_nat (nth (Z.to_nat row) indptr 0) in
  let b := Z.to_nat (nth (Z.to_nat row + 1) indptr 0) in
  let cur := seg indices a b in
  let item := searchsorted_left cur col in
  if (length cur <=? item)%nat then fill
  else if nth item cur 0 =? col then nth (item + a) data fill else fill.
