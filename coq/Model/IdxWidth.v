(* Model/IdxWidth.v — every coordinate computation that /repo performs IN THE STORED INDEX DTYPE,
   re-stated over typed arrays (Lib/MachInt.v).  The arithmetic itself and the capacity guards /
   dtype re-choices are the GENERATED definitions of Gen/S_idxwidth.v (regenerated from the source
   on every run); this file only wires them in the order the code does.  Definitions only.

   Reading guide: a model function takes the dtype [d] of the operand's coordinate array;
   [d = DInf] is the reference run ("the widest index type": nothing overflows, nothing wraps),
   [d = DInt t] the run in the w-bit type t.  A coordinate row is a [list Z]. *)
From Coq Require Import ZArith List Bool.
From Verif Require Import Py MachInt S_idxwidth.
Import ListNotations.
Open Scope Z_scope.

(* a guard body translated by py2v is `Raise ValueError`; anything else means the source changed *)
Definition guard_exc {A} (g : res pyv) : res A :=
  match g with Raise e => Raise e | Ok _ => Raise OtherError end.
Definition dec_dty (r : res pyv) : res dty :=
  match r with
  | Ok v => match pyv_dty v with Some d => Ok d | None => Raise OtherError end
  | Raise e => Raise e
  end.
(* fragments with `result=[name]` return a 1-tuple *)
Definition dec_dty1 (r : res pyv) : res dty :=
  match r with
  | Ok (VTuple [v]) => dec_dty (Ok v)
  | Ok _ => Raise OtherError
  | Raise e => Raise e
  end.

Definition zmax (l : list Z) : Z := fold_right Z.max 0 l.
Definition zsum (l : list Z) : Z := fold_right Z.add 0 l.

(* ---------------------------------------------------------------- _utils.can_store, get_out_dtype *)
Definition can_store := s_can_store.
Definition get_out_dtype (d : dty) (z : Z) : res dty := dec_dty (g_get_out_dtype (dty_pyv d) (VInt z)).

(* ---------------------------------------------------------------- COO.__init__(…, idx_dtype=) *)
Definition m_ctor (idx : option dty) (mshape : Z) (c : tarr) : res tarr :=
  match idx with
  | None => Ok c
  | Some d => if negb (can_store d mshape) then guard_exc g_ctor_guard else Ok (astype d c)
  end.

(* ---------------------------------------------------------------- _coo/common.concatenate
   xs: per operand (extent along `axis`, coordinate row along `axis`); all operands share the
   dtype d; mo: the largest extent of the other axes. *)
Definition concat_dtype (d : dty) (m : Z) : res dty :=
  if negb (can_store d m) then dec_dty1 (g_concat_upcast (dty_pyv d) (VInt m)) else Ok d.

Fixpoint concat_segs (d : dty) (dim : Z) (xs : list (Z * list Z)) : res (list Z) :=
  match xs with
  | [] => Ok []
  | (n, seg) :: r =>
      s <- (if s_concat_skip_zero && (dim =? 0) then Ok seg
            else rmap tv (s_concat_add (mkT d seg) dim)) ;;
      rest <- concat_segs d (dim + n) r ;;
      Ok (s ++ rest)
  end.

Definition m_concat (d : dty) (mo : Z) (xs : list (Z * list Z)) : res tarr :=
  let m := Z.max mo (zsum (map fst xs)) in
  d' <- concat_dtype d m ;;
  vs <- concat_segs d' 0 (map (fun x => (fst x, map (wr d') (snd x))) xs) ;;
  Ok (mkT d' vs).

(* ---------------------------------------------------------------- _coo/common.stack: the rows keep
   their values; np.stack promotes them with the new intp row *)
Definition m_stack_dtype (d : dty) : dty := promote d (DInt s_stack_new_row).
(* sorted=(axis == 0): for axis 0 the constructor does not sort, and float64 coordinates go through
   unnoticed (the result is a COO whose coordinates are floats); otherwise the sort refuses them *)
Definition m_stack (d : dty) (axis0 : bool) : res dty :=
  match m_stack_dtype d with
  | DFloat => if axis0 then Ok DFloat else Raise TypeError
  | p => Ok p
  end.

(* ---------------------------------------------------------------- _coo/common.flip (one axis) *)
Definition m_flip (d : dty) (n : Z) (c : list Z) : res tarr :=
  r <- s_flip_map n (mkT d c) ;; Ok (assign_into d r).

(* ---------------------------------------------------------------- _coo/common.roll
   the per-axis capacity test of the guard (generated): the shift and extent+shift are storable *)
Definition roll_axis_ok (d : dty) (n sh : Z) : res bool :=
  rmap truthy (g_roll_axis_ok (dty_pyv d) (VInt sh) (VInt n)).

(* scalar shift, one axis; n = a.shape[ax].  The scalar became an element of np.full(len(axis), shift):
   a NumPy scalar of type np_int_type shift (int64; uint64 for a shift in 2^63 .. 2^64-1) *)
Definition m_roll (d : dty) (n sh : Z) (c : list Z) : res tarr :=
  ok <- roll_axis_ok d n sh ;;
  if negb ok then guard_exc g_roll_guard
  else
    match (t <- (if s_roll_scalar_shift_is_np64 then (fun a k => s_roll_add_np a (np_int_type k) k)
                 else s_roll_add_py) (mkT d c) sh ;;
           s_roll_mod t n) with
    | Raise TypeError => s_roll_handler d (mkT d c)
    | r => r
    end.

(* tuple of shifts as long as the tuple of axes: the shifts stay Python ints.
   rows: (extent, shift, coordinate row) per rolled axis *)
Fixpoint roll_all_ok (d : dty) (rows : list (Z * Z * list Z)) : res bool :=
  match rows with
  | [] => Ok true
  | (n, sh, _) :: r => ok <- roll_axis_ok d n sh ;; if ok then roll_all_ok d r else Ok false
  end.
Fixpoint roll_rows (d : dty) (rows : list (Z * Z * list Z)) : res (list tarr) :=
  match rows with
  | [] => Ok []
  | (n, sh, c) :: r =>
      x <- (t <- s_roll_add_py (mkT d c) sh ;; s_roll_mod t n) ;;
      rest <- roll_rows d r ;;
      Ok (x :: rest)
  end.
Definition m_roll_tuple (d : dty) (rows : list (Z * Z * list Z)) : res (list tarr) :=
  ok <- roll_all_ok d rows ;;
  if negb ok then guard_exc g_roll_guard
  else match roll_rows d rows with
       | Raise TypeError => Raise OtherError      (* not reachable with Python-int shifts *)
       | r => r
       end.

(* ---------------------------------------------------------------- _coo/indexing.getitem, one slice
   (start, stop, step) is the slice AFTER normalize_index; the mask kernels compare in intp *)
Definition sel_mask (start stop step c : Z) : bool :=
  if 0 <? step then (start <=? c) && (c <? stop) && ((c - start) mod step =? 0)
  else (stop <? c) && (c <=? start) && ((start - c) mod (- step) =? 0).

(* one sliced axis of extent n, full slices on the other axes.  When the sliced entry is itself the full
   slice (0, n, 1) every entry is, and getitem returns the operand unchanged (identity shortcut):
   coordinates AND dtype stay as they are; otherwise the masked coordinates go through the map *)
Definition m_getitem (d : dty) (n start stop step : Z) (c : list Z) : res tarr :=
  if s_getitem_identity n start stop step then Ok (mkT d c)
  else s_getitem_map (mkT d (filter (sel_mask start stop step) c)) start step.

(* ---------------------------------------------------------------- COO.reshape
   lin: np.ravel_multi_index of the old coordinates (intp); rows are returned first axis first *)
Definition reshape_dtype (d : dty) (shape : list Z) : res dty :=
  if negb (match shape with [] => true | _ => false end) && negb (can_store d (zmax shape))
  then dec_dty1 (g_reshape_choice (dty_pyv d) (VInt (zmax shape))) else Ok d.

Fixpoint digit_rows (digit : dty -> list Z -> Z -> Z -> tarr) (d : dty) (lin : list Z) (stride : Z)
         (rshape : list Z) : list tarr :=
  match rshape with
  | [] => []
  | dim :: r => digit d lin stride dim :: digit_rows digit d lin (stride * dim) r
  end.

Definition m_reshape (d : dty) (lin : list Z) (shape : list Z) : res (list tarr) :=
  d' <- reshape_dtype d shape ;;
  Ok (rev (digit_rows s_reshape_digit d' lin 1 (rev shape))).

(* ---------------------------------------------------------------- core._calc_counts_invidx + reduceat *)
Fixpoint group_starts (prev i : Z) (g : list Z) : list Z :=
  match g with
  | [] => []
  | x :: r => if x =? prev then group_starts prev (i + 1) r else i :: group_starts x (i + 1) r
  end.
Definition starts (g : list Z) : list Z :=
  match g with [] => [] | x :: r => 0 :: group_starts x 1 r end.
Fixpoint diffs (st : list Z) (n : Z) : list Z :=
  match st with
  | [] => []
  | a :: r => (match r with b :: _ => b - a | [] => n - a end) :: diffs r n
  end.

(* (inv_idx, counts) as the kernel returns them: cast to the dtype of `groups` *)
Definition m_counts_invidx (d : dty) (g : list Z) : tarr * tarr :=
  let st := starts g in
  (s_counts_cast d (mkT (DInt i64) st),
   s_counts_cast d (mkT (DInt i64) (diffs st (Z.of_nat (length g))))).

Definition slice_sum (x : list Z) (a b : Z) : Z :=
  zsum (firstn (Z.to_nat (b - a)) (skipn (Z.to_nat a) x)).
Fixpoint reduceat_go (x : list Z) (n : Z) (idx : list Z) : list Z :=
  match idx with
  | [] => []
  | a :: r => (match r with
               | b :: _ => if a <? b then slice_sum x a b else nth (Z.to_nat a) x 0
               | [] => slice_sum x a n
               end) :: reduceat_go x n r
  end.
(* np.can_cast(dtype, intp, 'safe') — what ufunc.reduceat demands of its index array *)
Definition safe_intp (d : dty) : bool :=
  match d with DInt t => sg t || (bits t <? 64) | DFloat => false | DInf => true end.
(* np.add.reduceat(x, idx) *)
Definition m_reduceat (idx : tarr) (x : list Z) : res (list Z) :=
  let n := Z.of_nat (length x) in
  if negb (safe_intp (tdt idx)) then Raise TypeError
  else if existsb (fun a => (a <? 0) || (n <=? a)) (tv idx) then Raise IndexError
  else Ok (reduceat_go x n (tv idx)).

(* _grouped_reduce + the coordinate selection of _reduce_return: [(group coordinate, sum)] *)
Definition m_grouped_sum (d : dty) (g x : list Z) : res (list (Z * Z)) :=
  let inv := fst (m_counts_invidx d g) in
  s <- m_reduceat inv x ;;
  Ok (combine (map (fun i => nth (Z.to_nat i) g 0) (tv inv)) s).

(* ---------------------------------------------------------------- triu / tril masks
   r: coords[-2], c: coords[-1] *)
Definition m_triu (d : dty) (r c : list Z) (k : Z) : res (list bool) := s_triu_mask (mkT d r) (mkT d c) k.
Definition m_tril (d : dty) (r c : list Z) (k : Z) : res (list bool) := s_tril_mask (mkT d r) (mkT d c) k.

(* ---------------------------------------------------------------- kron / pad: promoted arithmetic;
   float coordinates are refused by the constructor's sort (np.ravel_multi_index) *)
Definition ctor_int (a : tarr) : res tarr :=
  match tdt a with DFloat => Raise TypeError | _ => Ok a end.
Definition m_kron (d : dty) (a : list Z) (bs : Z) (b : list Z) : res tarr :=
  r <- s_kron_map (mkT d a) bs (mkT d b) ;; ctor_int r.
Definition m_pad (d : dty) (c : list Z) (p : Z) : res tarr :=
  r <- s_pad_map (mkT d c) p ;; ctor_int r.

(* ---------------------------------------------------------------- GCXS._from_coo
   m = max(max(compressed_shape), nnz) *)
Definition m_from_coo_dtype (idx : option dty) (xd : dty) (m : Z) : res dty :=
  match idx with
  | Some d => if negb (can_store d m) then guard_exc g_from_coo_guard else Ok d
  | None => dec_dty1 (g_from_coo_choice (dty_pyv xd) (VInt m))
  end.

Fixpoint count_eq (v : Z) (l : list Z) : Z :=
  match l with [] => 0 | x :: r => (if x =? v then 1 else 0) + count_eq v r end.
Fixpoint cumsum_from (acc : Z) (l : list Z) : list Z :=
  match l with [] => [] | x :: r => (acc + x) :: cumsum_from (acc + x) r end.
Definition zrange (n : Z) : list Z := map Z.of_nat (seq 0 (Z.to_nat n)).

(* lin: sorted linear positions in the (rows, cols) compressed shape; result (indices, indptr) *)
Definition m_from_coo (idx : option dty) (xd : dty) (rows cols : Z) (lin : list Z) : res (tarr * tarr) :=
  d <- m_from_coo_dtype idx xd (Z.max (Z.max rows cols) (Z.of_nat (length lin))) ;;
  let indices := s_from_coo_digit d lin 1 cols in
  let rowc := s_from_coo_digit d lin cols rows in
  let counts := map (fun r => count_eq r (tv rowc)) (zrange rows) in
  Ok (indices, assign_into d (mkT (DInt i64) (0 :: cumsum_from 0 counts))).

(* ---------------------------------------------------------------- _compressed/common.concatenate|stack:
   splice of the index-pointer arrays.  ptrs: (indptr, nnz) of every operand *)
Definition gcxs_join_dtype (d : dty) (needed : Z) : res dty :=
  if negb (can_store d needed) then dec_dty1 (g_gcxs_concat_upcast (dty_pyv d) (VInt needed)) else Ok d.
(* needed = max(total_nnz, indptr.shape[0] - 1) (generated) *)
Definition gcxs_join_needed (total plen : Z) : res Z :=
  match g_gcxs_join_needed (VInt total) (VInt plen) with
  | Ok (VInt z) => Ok z
  | Ok _ => Raise OtherError
  | Raise e => Raise e
  end.
(* length of np.concatenate([p0, p1[1:], p2[1:], ...]) *)
Definition joined_len (ptrs : list (list Z * Z)) : Z :=
  match ptrs with
  | [] => 0
  | (p0, _) :: r => Z.of_nat (length p0) + zsum (map (fun p => Z.of_nat (length (tl (fst p)))) r)
  end.

(* segment j receives, in order, `+= nnz_0`, …, `+= nnz_(j-1)` *)
Fixpoint add_all (seg : tarr) (offs : list Z) : res tarr :=
  match offs with
  | [] => Ok seg
  | o :: r => s <- s_gcxs_concat_add seg o ;; add_all s r
  end.
Fixpoint join_tail (d : dty) (prev : list Z) (segs : list (list Z * Z)) : res (list Z) :=
  match segs with
  | [] => Ok []
  | (p, nz) :: r =>
      s <- add_all (mkT d (map (wr d) (tl p))) prev ;;
      rest <- join_tail d (prev ++ [nz]) r ;;
      Ok (tv s ++ rest)
  end.
Definition m_gcxs_join (d : dty) (ptrs : list (list Z * Z)) : res tarr :=
  (* needed = max(total_nnz, indptr.shape[0] - 1): the dtype also has to hold the row numbers *)
  needed <- gcxs_join_needed (zsum (map snd ptrs)) (joined_len ptrs) ;;
  d' <- gcxs_join_dtype d needed ;;
  match ptrs with
  | [] => Ok (mkT d' [])
  | (p0, n0) :: r => t <- join_tail d' [n0] r ;; Ok (mkT d' (map (wr d') p0 ++ t))
  end.

(* ---------------------------------------------------------------- convert.uncompress_dimension:
   the row number of every stored element, written into an array of indptr's dtype *)
Fixpoint rows_of (i : Z) (ptr : list Z) : list Z :=
  match ptr with
  | a :: ((b :: _) as r) => repeat i (Z.to_nat (b - a)) ++ rows_of (i + 1) r
  | _ => []
  end.
Definition m_uncompress (d : dty) (indptr : list Z) : tarr := s_uncompress_store d (rows_of 0 indptr).

(* ---------------------------------------------------------------- convert._transpose (change_compressed_axes,
   transpose, reshape of a GCXS): xd is the dtype of x.indices; (R, C) the new compressed shape; rc / cc
   the new row / column coordinate of every stored element (computed by the kernel in intp), in the new
   storage order.  Result: (indices, indptr), both in the dtype chosen for max(R, C, nnz). *)
Definition transpose_dtype (xd : dty) (R C nnz : Z) : res dty :=
  dec_dty (g_transpose_dtype (dty_pyv xd) (VInt (Z.max R C)) (VInt nnz)).
Definition m_transpose (xd : dty) (R C : Z) (rc cc : list Z) : res (tarr * tarr) :=
  d <- transpose_dtype xd R C (Z.of_nat (length rc)) ;;
  let rows := s_transpose_store d rc in
  let counts := map (fun r => count_eq r (tv rows)) (zrange R) in
  Ok (s_transpose_store d cc, assign_into d (mkT (DInt i64) (0 :: cumsum_from 0 counts))).

(* ---------------------------------------------------------------- named domain clauses (used by the theorems of
   Proofs/IdxWidthP.v and by the judge of Corr/C15Judge.v) *)
(* every index type except uint64 (uint64 (+) intp promotes to float64) *)
Definition not_u64 (t : ity) : bool := sg t || (bits t <? 64).
(* the row count of an index pointer fits its dtype (what uncompress_dimension relies on) *)
Definition uncompress_clause (t : ity) (indptr : list Z) : bool :=
  fits (DInt t) (Z.of_nat (length indptr) - 1).

(* ---------------------------------------------------------------- COO.__init__ canonicalisation
   (sorted=False, has_duplicates=True): _sort_indices then _sum_duplicates.  Both decide on np.diff of
   linear_loc()'s result, whose dtype is the generated s_linear_loc_dtype (intp for every stored dtype).
   ps: (linear position, data) per given element; result: the stored elements in canonical order. *)
Definition lin_arr (d : dty) (ndim : Z) (lin : list Z) : tarr := mkT (s_linear_loc_dtype d ndim) lin.
Definition m_sorted_test (d : dty) (ndim : Z) (lin : list Z) : bool := s_already_sorted (lin_arr d ndim lin).
Definition m_dup_mask (d : dty) (ndim : Z) (lin : list Z) : list bool := s_dup_mask (lin_arr d ndim lin).

(* np.argsort(kind="mergesort"): stable *)
Fixpoint insert_stable (p : Z * Z) (l : list (Z * Z)) : list (Z * Z) :=
  match l with
  | [] => [p]
  | q :: r => if fst q <=? fst p then q :: insert_stable p r else p :: q :: r
  end.
Definition stable_sort (l : list (Z * Z)) : list (Z * Z) := fold_left (fun acc p => insert_stable p acc) l [].

(* np.add.reduceat over the groups that start where the mask says "differs from the previous one" *)
Fixpoint dedup (cur : option (Z * Z)) (ps : list (Z * Z)) (starts : list bool) : list (Z * Z) :=
  match ps, starts with
  | p :: r, s :: sr =>
      match cur with
      | None => dedup (Some p) r sr
      | Some c => if s then c :: dedup (Some p) r sr else dedup (Some (fst c, snd c + snd p)) r sr
      end
  | _, _ => match cur with Some c => [c] | None => [] end
  end.

Definition m_canon (d : dty) (ndim : Z) (ps : list (Z * Z)) : list (Z * Z) :=
  let s1 := if m_sorted_test d ndim (map fst ps) then ps else stable_sort ps in
  dedup None s1 (true :: m_dup_mask d ndim (map fst s1)).

(* ---------------------------------------------------------------- _dot, COO @ COO: CSR row pointer of an
   operand (rows = shape[0], rc = its row coordinates), allocated in the generated s_dot_indptr_dtype *)
Definition m_dot_indptr (d : dty) (rows : Z) (rc : list Z) : tarr :=
  assign_into (s_dot_indptr_dtype d)
              (mkT (DInt i64) (0 :: cumsum_from 0 (map (fun r => count_eq r rc) (zrange rows)))).

(* ---------------------------------------------------------------- COO.__init__ on an array without stored
   elements: the coordinate dtype that results from a supplied (empty) coordinate array of dtype d *)
Definition m_ctor_empty_dtype (d : dty) : dty := s_ctor_empty_dtype d.

(* ---------------------------------------------------------------- _diagonal_idx (Numba kernel): which stored
   elements lie on the diagonal `offset` of the axis pair; a1 / a2: their coordinates on axis1 / axis2 *)
Definition m_diagonal_mask (d : dty) (a1 a2 : list Z) (offset : Z) : list bool :=
  s_diagonal_mask (mkT d a1) (mkT d a2) offset.

(* ---------------------------------------------------------------- GCXS._reduce_calc: row numbers of the array
   re-compressed over the kept axes (x = self.change_compressed_axes(...), through convert._transpose):
   xd = dtype of self.indices, d_self = dtype of self.indptr, (R, C) = x's compressed shape *)
Definition m_gcxs_reduce_rows (xd d_self : dty) (R C nnz : Z) : res tarr :=
  d_x <- transpose_dtype xd R C nnz ;;
  Ok (s_gcxs_reduce_rows d_self d_x R).

(* ---------------------------------------------------------------- broadcasting (_get_expanded_coords_data):
   the positions 0..n-1 along a broadcast axis of extent n, as stored in `expanded_coords` *)
Definition m_broadcast_positions (d : dty) (n : Z) : tarr :=
  assign_into (s_expanded_coords_dtype d) (mkT (DInt i64) (zrange_ n)).
