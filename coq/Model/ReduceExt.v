(* Model/ReduceExt.v — reductions built on SparseArray.reduce (property C03): the nan-reductions
   (`_coo/common.py: nanreduce` = `_replace_nan` then reduce) and `SparseArray.mean` / `var` as the
   compositions the code performs.  Definitions only (proofs in Proofs/ReduceExtP.v).

   Element-wise steps (`where(isnan(x), identity, x)`, `true_divide(num, den)`, `self - arrmean`,
   `x * x`) are calls of `elemwise`, whose algorithm is the subject of C01; here they are modelled by
   what C01/C06 establish of their result: the canonical pruned array with the element-wise dense
   meaning and the fill value `func(fills)` (that representation is unique, Proofs/COOP.v
   canonical_unique).  [coo_map] is that array for a unary function; [coo_sqdev] for
   (self - arrmean)^2 with arrmean broadcast along the reduced axes. *)
From Coq Require Import ZArith List Bool.
From Verif Require Import Py PyExt PyReduce Shape COO GCXS G_reduce S_reduce NpReduce Reduce.
Import ListNotations.
Open Scope Z_scope.

Section Ext.
  Variable V : Type.
  Variable veqb : V -> V -> bool.

  (* elemwise(func, x) for a unary func: apply to the data and to the fill, drop what equals the new fill *)
  Definition coo_map (r : V -> V) (c : coo V) : coo V :=
    let f' := r (c_fill c) in
    let es := filter (fun e => negb (veqb (snd e) f')) (map (fun e => (fst e, r (snd e))) (entries c)) in
    mkCOO (c_shape c) (map fst es) (map snd es) f'.

  Definition rres_map (r : V -> V) (x : rres V) : rres V :=
    match x with RArr c => RArr (coo_map r c) | RScalar v => RScalar (r v) end.

  (* ---------------------------------------------------------------- nan-reductions *)
  Variable isnan : V -> bool.

  (* _replace_nan(array, value) = where(np.isnan(array), value, array) *)
  Definition replace_nan (value : V) (c : coo V) : coo V :=
    coo_map (fun v => if isnan v then value else v) c.

  Variable op : V -> V -> V.
  Variable cast : V -> V.
  Variable sup : option (V -> Z -> V).
  Variable ident : option V.

  (* nanreduce(x, method, identity=None, axis, keepdims): the identity defaults to method.identity;
     a ufunc without identity (None) cannot replace NaN: TypeError in NumPy's where *)
  Definition nanreduce (identity : option V) (ax : axis_arg) (keepdims : bool) (x : coo V) : res (rres V) :=
    match (match identity with Some v => Some v | None => ident end) with
    | Some v => reduce_coo V veqb op cast sup ident ax keepdims (replace_nan v x)
    | None => Raise TypeError
    end.
End Ext.

Arguments coo_map {V}.
Arguments rres_map {V}.

(* ================================================================== mean / var *)
Section MeanVar.
  Variable V : Type.
  Variable veqb : V -> V -> bool.
  Variable add sub mul : V -> V -> V.
  Variable zero : V.
  Variable scale : V -> Z -> V.          (* fill * count: the super-ufunc of add *)
  Variable divn : V -> Z -> V.           (* true_divide by an integer *)

  Definition sum_coo := reduce_coo V veqb add (fun v => v) (Some scale) (Some zero).

  (* self.shape[a] with Python's negative indexing *)
  Definition py_shape_at (sh : shape) (a : Z) : res Z :=
    let n := zlen sh in
    if (0 <=? a) && (a <? n) then Ok (nth (Z.to_nat a) sh 0)
    else if (- n <=? a) && (a <? 0) then Ok (nth (Z.to_nat (a + n)) sh 0)
    else Raise IndexError.

  Fixpoint prod_shape_at (sh : shape) (axes : list Z) : res Z :=
    match axes with
    | [] => Ok 1
    | a :: r => d <- py_shape_at sh a ;; p <- prod_shape_at sh r ;; Ok (d * p)
    end.

  (* SparseArray.mean (dtype handling: Model/Reduce.v mean_dtypes):
       axis None -> all axes; an int -> (axis,);  den = prod(shape[i] for i in axis)  (raw axes)
       num = self.sum(axis, keepdims);  true_divide(num, den) *)
  Definition mean_coo (ax : axis_arg) (keepdims : bool) (x : coo V) : res (rres V) :=
    let sh := c_shape x in
    let raw := match ax with AxNone => zrange (zlen sh) | AxInt a => [a] | AxTuple l => l end in
    den <- prod_shape_at sh raw ;;
    num <- sum_coo (AxTuple raw) keepdims x ;;
    Ok (rres_map veqb (fun v => divn v den) num).

  (* the index of the keepdims array that ix broadcasts against *)
  Definition bcast_idx (axes : list Z) (ix : idx) : idx :=
    map (fun p => if mem_z (fst p) axes then 0 else snd p) (combine (zrange (zlen ix)) ix).

  (* x = self - arrmean; x = x * x : canonical pruned array of the squared deviations *)
  Definition coo_sqdev (axes : list Z) (x m : coo V) : coo V :=
    let h := fun ix => let d := sub (den x ix) (den m (bcast_idx axes ix)) in mul d d in
    let f' := let d := sub (c_fill x) (c_fill m) in mul d d in
    from_dense veqb (mkDense (c_shape x) (tabulate (c_shape x) h)) f'.

  (* SparseArray.var:
       axis = normalize_axis(axis); None -> all axes; rcount = prod(shape[a] for a in axis)
       arrmean = self.sum(axis, keepdims=True) / rcount
       x = (self - arrmean)^2;  ret = x.sum(axis, keepdims);  ret / max(rcount - ddof, 0) *)
  Definition var_coo (ddof : Z) (ax : axis_arg) (keepdims : bool) (x : coo V) : res (rres V) :=
    let sh := c_shape x in
    let n := zlen sh in
    nax <- norm_axes n ax ;;
    let axes := match nax with None => zrange n | Some l => l end in
    rcount <- prod_shape_at sh axes ;;
    s1 <- sum_coo (AxTuple axes) true x ;;
    match s1 with
    | RScalar _ => Raise OtherError                 (* 0-d input: not modelled *)
    | RArr m0 =>
      let arrmean := coo_map veqb (fun v => divn v rcount) m0 in
      let x2 := coo_sqdev axes x arrmean in
      ret <- sum_coo (AxTuple axes) keepdims x2 ;;
      Ok (rres_map veqb (fun v => divn v (Z.max (rcount - ddof) 0)) ret)
    end.
End MeanVar.
