(* Model/GcxsGetitem.v — sparse/numba_backend/_compressed/indexing.getitem, the GCXS wrapper around
   the selection kernels of Model/GcxsIndex.v, with the same branch structure:
     ndim <= 1     x.tocoo()[key], back through GCXS.from_coo            (Model/Convert.v, Model/CooIndex.v)
     ndim >= 2     normalize_index; a key with None: the COO route as well (fix a4762ef); the full-slice shortcut; get_single_element for all-integer keys;
                   otherwise: shape / compressed / uncompressed bookkeeping, reordering of the key by
                   _axis_order, convert_to_flat of the compressed and of the uncompressed part,
                   get_slicing_selection (all column selectors ascending) or get_array_selection,
                   re-splitting of the linear positions (`uncompressed // size`, `% size`,
                   bincount + cumsum) when only compressed or only uncompressed axes survive,
                   re-insertion of the None axes, `compressed_axes = None` for a 1-d result.
   Definitions only.

   convert_to_flat/compute_flat (an odometer over the leading selectors adding strides to a tiled copy
   of the last one) is given by its list meaning flat_sums — the row-major enumeration of all sums —
   and validated against the jitted kernel by the kernel-level correspondence. *)
From Coq Require Import ZArith List Bool.
From Verif Require Import Py PySlice Shape COO GCXS Convert NpIndex CooIndex GcxsIndex.
Import ListNotations.
Open Scope Z_scope.

(* transform_shape: strides of a row-major shape *)
Fixpoint shape_bins (sh : shape) : list Z :=
  match sh with
  | [] => []
  | _ :: r => size r :: shape_bins r
  end.

(* all sums of one element per list, first list slowest *)
Fixpoint flat_sums (incs : list (list Z)) : list Z :=
  match incs with
  | [] => [0]
  | l :: r => flat_map (fun a => map (Z.add a) (flat_sums r)) l
  end.

Fixpoint scale_all (inds : list (list Z)) (bins : list Z) : list (list Z) :=
  match inds, bins with
  | l :: r, b :: bs => map (Z.mul b) l :: scale_all r bs
  | _, _ => []
  end.

Definition convert_to_flat (inds : list (list Z)) (sh : shape) : list Z :=
  flat_sums (scale_all inds (shape_bins sh)).

(* what one normalised entry selects along its axis (ints become one-element arrays, slices aranges) *)
Definition key_vals (e : nentry) : list Z :=
  match e with
  | NInt i => [i]
  | NSlice s e' st => range_list s e' st
  | NArr l => l
  | NNone => []
  end.

Definition is_nint (e : nentry) : bool := match e with NInt _ => true | _ => false end.
Definition not_nnone (e : nentry) : bool := negb (is_nnone e).

(* is_sorted: strictly ascending *)
Fixpoint is_sorted_strict (l : list Z) : bool :=
  match l with
  | [] => true
  | a :: r => match r with [] => true | b :: _ => (a <? b) && is_sorted_strict r end
  end.

Definition pos_entry (e : nentry) : bool :=
  match e with
  | NSlice _ _ st => negb (st <? 0)
  | NArr l => is_sorted_strict l
  | _ => true
  end.

Definition entry_len (e : nentry) : Z :=
  match e with
  | NSlice s e' st => slice_len s e' st
  | NArr l => Z.of_nat (length l)
  | _ => 0
  end.

Fixpoint insert_nth {A} (n : nat) (x : A) (l : list A) : list A :=
  match n, l with
  | O, _ => x :: l
  | S n', a :: r => a :: insert_nth n' x r
  | S _, [] => [x]
  end.

(* for i in range(len(key)): if key[i] is None: shape.insert(i, 1); compressed_axes[compressed_axes >= i] += 1 *)
Fixpoint reinsert_none (key : list nentry) (i : nat) (sh : shape) (ca : list Z) : shape * list Z :=
  match key with
  | [] => (sh, ca)
  | NNone :: r =>
    reinsert_none r (S i) (insert_nth i 1 sh) (map (fun a => if Z.of_nat i <=? a then a + 1 else a) ca)
  | _ :: r => reinsert_none r (S i) sh ca
  end.

Definition gather_n {A} (l : list A) (d : A) (axes : list Z) : list A := map (fun a => nth (Z.to_nat a) l d) axes.

Section GG.
  Variable V : Type.
  Variable veqb : V -> V -> bool.
  Variable add : V -> V -> V.

  Inductive ggres := GGScalar (v : V) | GGArr (g : gcxs V).

  Definition sel_res (r : sel (pairs * list Z)) : res (pairs * list Z) :=
    match r with SOk a => Ok a | _ => Raise RuntimeError end.

  (* ndim >= 2 *)
  Definition gcxs_getitem_nd (g : gcxs V) (ix : index) : res ggres :=
    let sh := g_shape g in
    let ca := g_caxes g in
    let ndim := Z.of_nat (length sh) in
    key <- normalize_index ix sh ;;
    if all_full key sh then Ok (GGArr g)
    else if forallb is_nint key then
      (* get_single_element *)
      let ord := axis_order ndim ca in
      let k := gather_n (flat_map key_vals key) 0 ord in
      let ind := ravel (reordered_shape sh ca) k in
      let cs := col_size sh ca in
      Ok (GGScalar (single_element (g_data g) (g_indices g) (g_indptr g) (g_fill g) (ind / cs) (ind mod cs)))
    else
      let nr := filter not_nnone key in
      let kept := map (fun e => negb (is_nint e)) nr in                       (* per axis: survives *)
      let shape0 := map entry_len (filter (fun e => negb (is_nint e)) nr) in
      let axes := zrange ndim in
      let comp_inds := filter (fun a => nth (Z.to_nat a) kept false && mem_z a ca) axes in
      let unc_inds := filter (fun a => nth (Z.to_nat a) kept false && negb (mem_z a ca)) axes in
      (* shape_key[i] = number of surviving axes before i *)
      let shape_key := fun a => Z.of_nat (length (filter (fun b => b) (firstn (Z.to_nat a) kept))) in
      let ord := axis_order ndim ca in
      let axisptr := length ca in
      let rkey := gather_n nr NNone ord in
      let pos_slice := forallb pos_entry (skipn axisptr rkey) in
      let vals := map key_vals rkey in
      let rsh := reordered_shape sh ca in
      let rows := convert_to_flat (firstn axisptr vals) (firstn axisptr rsh) in
      let cols := convert_to_flat (skipn axisptr vals) (skipn axisptr rsh) in
      let starts := map (fun r => Z.to_nat (nth (Z.to_nat r) (g_indptr g) 0)) rows in
      let ends := map (fun r => Z.to_nat (nth (S (Z.to_nat r)) (g_indptr g) 0)) rows in
      let any_c := negb (match comp_inds with [] => true | _ => false end) in
      let any_u := negb (match unc_inds with [] => true | _ => false end) in
      let '(caxes1, row_size1) :=
        if any_c then (map shape_key comp_inds, size (map (fun a => nth (Z.to_nat (shape_key a)) shape0 0) comp_inds))
        else ([0], 1) in
      let '(caxes2, row_size2) := if any_u then (caxes1, row_size1) else ([0], Z.of_nat (length starts)) in
      (* the kernel writes indptr[i + 1] for every selected row into a buffer of row_size + 1 entries *)
      if negb (row_size2 =? Z.of_nat (length starts)) then Raise RuntimeError
      else
        let rws := combine starts ends in
        s <- sel_res (if pos_slice then slicing_selection (code_path (g_indices g) rws cols) (g_indices g) rws cols
                      else array_selection (g_indices g) rws cols) ;;
        let '(ps, indptr1) := s in
        let data' := map (fun p : nat * nat => nth (fst p) (g_data g) (g_fill g)) ps in
        let indices1 := map (fun p : nat * nat => Z.of_nat (snd p)) ps in
        let sz := size (tl shape0) in
        let one_d := (length shape0 =? 1)%nat in
        (* no surviving axis at all (integers and None only): `shape[0]` of an empty shape array *)
        if negb any_u && (length shape0 =? 0)%nat then Raise IndexError
        else
        let '(indices2, indptr2) :=
          if any_u then (indices1, indptr1)
          else
            let unc := row_numbers indptr1 in
            if one_d then (unc, [])
            else (map (fun u => u mod sz) unc, indptr_of (map (fun u => u / sz) unc) (hd 0 shape0)) in
        let '(indices3, indptr3) :=
          if any_c then (indices2, indptr2)
          else if one_d then (indices2, [])
          else (map (fun u => u mod sz) indices2, indptr_of (map (fun u => u / sz) indices2) (hd 0 shape0)) in
        let '(shape', caxes') := reinsert_none key 0 shape0 caxes2 in
        let caxes'' := if (length shape' =? 1)%nat then [] else caxes' in
        Ok (GGArr (mkGCXS shape' caxes'' data' indices3 indptr3 (g_fill g))).

  (* x.tocoo()[key], back through GCXS.from_coo (default compressed axes) *)
  Definition coo_route (kf : nat -> nat) (g : gcxs V) (ix : index) : res ggres :=
    r <- getitem kf (gcxs_tocoo veqb add g) ix ;;
    match r with
    | GScalar v => Ok (GGScalar v)
    | GArr y => ca' <- resolve_axes (c_shape y) None ;; Ok (GGArr (gcxs_from_coo y ca'))
    end.

  (* getitem (after fix a4762ef): ndim <= 1 goes through COO; for ndim >= 2 a key holding None (after
     normalize_index) goes through COO too — `GCXS.from_coo(x.tocoo()[orig_key])` — and the n-d code only sees
     keys without None (its re-insertion loop for None axes is still in the source, and in gcxs_getitem_nd,
     but is no longer reached with a None) *)
  Definition gcxs_getitem (kf : nat -> nat) (g : gcxs V) (ix : index) : res ggres :=
    match g_shape g with
    | [] | [_] => coo_route kf g ix
    | _ =>
      key <- normalize_index ix (g_shape g) ;;
      if existsb is_nnone key then coo_route kf g ix else gcxs_getitem_nd g ix
    end.
End GG.

Arguments GGScalar {V}.
Arguments GGArr {V}.
