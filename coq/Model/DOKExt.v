(* Model/DOKExt.v — C12, extension: the parts of DOK.__setitem__ / the DOK life cycle around the
   state machine of Model/DOK.v.
     dok_cast    `value = np.asarray(value, dtype=self.dtype)`, the first statement of __setitem__,
                 for integer and boolean dtypes (elements: Z, booleans 0 / 1)
     hstep       histories that mix assignments (of raw, not yet cast values) with the round trip
                 d = DOK.from_coo(d.asformat("coo"))  (COO.from_iter and DOK.from_coo as modelled
                 by agent c05 in Model/Convert.v: from_iter_pairs, dok_items_of_coo)
     real_getitem  reads through the real path: Model/DokGetitem.v's dok_getitem (agent c02b):
                 self.asformat("coo")[key] with the whole COO indexing machinery, then from_coo
   Definitions only. *)
From Coq Require Import ZArith List Bool.
From Verif Require Import Py Shape COO NpIndex CooIndex Convert DokGetitem NpAssign DOK.
Import ListNotations.
Open Scope Z_scope.

(* np.asarray(value, dtype): like NumPy's assignment conversion (Spec: np_cast), except that a
   NumPy integer scalar is cast like a 0-d array: it wraps instead of raising OverflowError *)
Definition dok_cast (dt : dtype) (raw : rawval) : option (res (list Z * list Z)) :=
  match raw with
  | RNpInt z => Some (Ok ([], [cast_int dt z]))
  | _ => np_cast dt false raw
  end.

(* domain clause: a NumPy integer scalar that does not fit the dtype, assigned through a basic
   index (NumPy raises OverflowError there; np.asarray wraps) *)
Definition npint_fits (dt : dtype) (adv : bool) (raw : rawval) : bool :=
  match raw, dt with
  | RNpInt z, DInt _ _ => adv || dt_unsigned dt || dt_fits dt z
  | _, _ => true
  end.

(* domain clause: not a one-element array (ndim > 0) assigned to one ELEMENT (one integer per
   axis) of a BOOLEAN DOK: NumPy takes its truth value, _setitem raises ValueError (for the
   integer dtypes NumPy refuses it too) *)
Definition np_value_id (dt : dtype) (sh : shape) (k : key) (vsh : list Z) : bool :=
  match vsh with
  | [] => true
  | _ => negb (dt_is_bool dt && elem_key sh k && forallb (Z.eqb 1) vsh)
  end.

Inductive hop :=
| HAssign (k : key) (raw : rawval)
| HRoundtrip.

Definition roundtrip (sh : shape) (fill : Z) (st : state Z) : state Z :=
  match from_iter_pairs Z.eqb Z.add sh st fill with
  | Ok c => dok_items_of_coo c
  | Raise _ => st                     (* asformat raised: d keeps its dict *)
  end.

Definition hstep (dt : dtype) (sh : shape) (fill : Z) (st : state Z) (o : hop) : state Z :=
  match o with
  | HAssign k raw =>
    match dok_cast dt raw with
    | Some (Ok (vsh, vflat)) => step Z.eqb sh fill st (k, arr_of_flat vsh vflat)
    | _ => st                         (* np.asarray raised: nothing else happens *)
    end
  | HRoundtrip => roundtrip sh fill st
  end.

Definition hrun (dt : dtype) (sh : shape) (fill : Z) (ops : list hop) : state Z :=
  fold_left (hstep dt sh fill) ops [].

(* the same history on a NumPy array of that dtype (the round trip is n = n.copy()) *)
Definition np_hstep (dt : dtype) (sh : shape) (a : idx -> Z) (o : hop) : idx -> Z :=
  match o with
  | HAssign k raw =>
    match np_cast dt (key_adv k) raw with
    | Some (Ok v) => let v' := np_value dt sh k v in np_assign sh a (k, arr_of_flat (fst v') (snd v'))
    | _ => a
    end
  | HRoundtrip => a
  end.

Definition np_hrun (dt : dtype) (sh : shape) (fill : Z) (ops : list hop) : idx -> Z :=
  fold_left (np_hstep dt sh) ops (np_full fill).

(* the domain of one step: the cast is described and the two conversions agree; the cast
   assignment is in the domain of Model/DOK.v (an assignment whose conversion raises
   OverflowError is in the domain: both sides leave the array alone) *)
Definition hop_dom (dt : dtype) (sh : shape) (o : hop) : bool :=
  match o with
  | HAssign k raw =>
    npint_fits dt (key_adv k) raw &&
    match np_cast dt (key_adv k) raw with
    | Some (Ok (vsh, vflat)) => np_value_id dt sh k vsh && op_dom sh (k, arr_of_flat vsh vflat)
    | Some (Raise _) => true
    | None => false
    end
  | HRoundtrip => true
  end.

(* reads through the real path *)
Definition real_getitem (kf : nat -> nat) (sh : shape) (fill : Z) (st : state Z) (ix : index)
  : res (dres Z) :=
  dok_getitem Z Z.eqb Z.add kf sh st fill ix.
