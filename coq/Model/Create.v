(* Model/Create.v — eye / full / zeros / ones / empty / *_like / asarray as the code builds them.
   `eye` is assembled from the GENERATED scalar arithmetic Gen/S_create.v:s_eye_arith (regenerated from
   _common.eye on every run): data_length and the first element of the row- and column-coordinate
   rows; the untranslated tail of the function (checked verbatim by tools/sitegen/create.py) stacks
   the two rows, attaches the scalar 1 and calls COO(..., shape=(N, M), has_duplicates=False,
   sorted=True), i.e. stores the coordinates as given.  Definitions only. *)
From Coq Require Import ZArith List Bool.
From Verif Require Import Py PyExt PyCreate S_create Shape COO.
Import ListNotations.
Open Scope Z_scope.

Definition oz (o : option Z) : pyv := match o with None => VNone | Some z => VInt z end.

Section Create.
  Variable V : Type.
  Variable zero one : V.

  (* ---------------------------------------------------------------- full and friends *)
  (* full(shape, fill_value): empty storage, the fill carries the value *)
  Definition full (sh : shape) (fv : V) : coo V := mkCOO sh [] [] fv.
  Definition zeros (sh : shape) : coo V := full sh zero.
  Definition ones (sh : shape) : coo V := full sh one.
  Definition empty (sh : shape) : coo V := full sh zero.           (* empty = zeros in the code *)
  (* *_like(a, shape=None): a.shape if shape is None else shape *)
  Definition like_shape (a : coo V) (sh : option shape) : shape :=
    match sh with None => c_shape a | Some s => s end.
  Definition full_like (a : coo V) (fv : V) (sh : option shape) : coo V := full (like_shape a sh) fv.
  Definition zeros_like a sh := full_like a zero sh.
  Definition ones_like a sh := full_like a one sh.
  Definition empty_like a sh := full_like a zero sh.

  (* asarray(ndarray / list / scalar) = COO.from_numpy(np.asarray(obj)):
       fill_value = _zero_of_dtype(x.dtype) if x.shape else x
     i.e. fill 0 and the positions that differ from 0 stored — except for a 0-d input, whose value becomes
     the fill of an array that stores nothing;
     asarray(sparse array) = obj.asformat(format).astype(dtype, copy): the same array (the dtype is an opaque
     tag here; that the result carries the requested dtype and class is compared with NumPy by the campaign) *)
  Definition asarray_dense (veqb : V -> V -> bool) (d : dense V) : coo V :=
    match d_shape d, d_flat d with
    | [], v :: _ => mkCOO [] [] [] v
    | _, _ => from_dense veqb d zero
    end.
  Definition asarray_sparse (a : coo V) : coo V := a.

  (* ---------------------------------------------------------------- eye *)
  (* the two coordinate rows np.arange(L) + n0 and np.arange(L) + m0, stacked *)
  Definition diag_coords (L n0 m0 : Z) : list idx := map (fun i => [n0 + i; m0 + i]) (zrange L).

  Definition eye (N : Z) (M : option Z) (k : Z) : option (coo V) :=
    match s_eye_arith (VInt N) (oz M) (VInt k) with
    | Ok (VTuple [VInt n; VInt m]) => Some (zeros [n; m])          (* data_length == 0: zeros((N, M)) *)
    | Ok (VTuple [VInt n; VInt m; VInt L; VInt n0; VInt m0]) =>
        Some (mkCOO [n; m] (diag_coords L n0 m0) (map (fun _ => one) (zrange L)) zero)
    | _ => None
    end.

  (* which path the generated arithmetic took: 0 zeros-shortcut | 1 k>0 | 2 k<0 | 3 k=0 | 9 error *)
  Definition eye_tag (N : Z) (M : option Z) (k : Z) : Z :=
    match s_eye_arith (VInt N) (oz M) (VInt k) with
    | Ok (VTuple [_; _]) => 0
    | Ok (VTuple [_; _; _; _; _]) => if 0 <? k then 1 else if k <? 0 then 2 else 3
    | _ => 9
    end.
End Create.

Arguments full {V}.
Arguments zeros {V}.
Arguments ones {V}.
Arguments empty {V}.
Arguments like_shape {V}.
Arguments full_like {V}.
Arguments zeros_like {V}.
Arguments ones_like {V}.
Arguments empty_like {V}.
Arguments asarray_dense {V}.
Arguments asarray_sparse {V}.
Arguments eye {V}.
