(* Model/Npz.v — persistence and copying of COO / GCXS arrays (property C14).  Definitions only
   (proofs: Proofs/NpzP.v; statements: Props/C14.v).

   What is transcribed, and from where:
     save_npz / load_npz     sparse/numba_backend/_io.py.  Everything that is a *table* in that code (which
                             members are written for which exact class, which members each load attempt reads
                             and in which order, which constructor parameter each member feeds, the constant
                             constructor flags, np.load's allow_pickle, the testzip guard, read / write modes of the members, the
                             exception caught and the handler's action) is NOT written here: it is Gen/S_npz.v, regenerated from the AST on every
                             run by tools/sitegen/npz.py.  This file interprets those tables.
     COO.__init__            the part the load path and the Numba boxing path run (_coo/core.py)
     GCXS.__init__           the tuple-argument path, with _utils.check_compressed_axes (_compressed/compressed.py)
     pickle / copy           COO.__getstate__/__setstate__ (lists from S_npz.v), default object state for the GCXS
                             family, copy.copy / copy.deepcopy over a small heap of buffers
     Numba boxing            unbox_COO / box_COO of _coo/numba_extension.py as a four-field native record; the
                             shape tuple is typed by the *coordinate* dtype (COOType.shape_type), so every extent
                             is reduced modulo 2^w on the way in

   Element values are an arbitrary type V (opaque tokens: any dtype, NaN / inf / -0.0 fills are just tokens).
   KeyError inside a `try` of load_npz is the [None] of [option (res _)]; every other exception is a [Raise]
   of Lib/Py.v.  [Unmodelled] marks inputs the transcription does not cover (only non-canonical input of the
   COO constructor with sorted=False); the modelled code never raises NotImplementedError itself. *)
From Coq Require Import ZArith List Bool String.
From Verif Require Import Py Shape COO S_npz.
Import ListNotations.
Open Scope Z_scope.

Definition len {A} (l : list A) : Z := Z.of_nat (List.length l).
Definition nonempty {A} (l : list A) : bool := match l with [] => false | _ => true end.
Definition Unmodelled {A} : res A := Raise NotImplementedError.

(* member / attribute / parameter names *)
Definition s_data := "data"%string.
Definition s_shape := "shape"%string.
Definition s_fill := "fill_value"%string.
Definition s_coords := "coords"%string.
Definition s_indices := "indices"%string.
Definition s_indptr := "indptr"%string.
Definition s_axes := "compressed_axes"%string.     (* public property and npz member *)
Definition s_axes_attr := "_compressed_axes"%string. (* instance attribute *)
Definition s_cache := "_cache"%string.
Definition s_sorted := "sorted"%string.
Definition s_has_dups := "has_duplicates"%string.
Definition s_KeyError := "KeyError"%string.

Definition exc_of_string (s : string) : exc :=
  if String.eqb s "ValueError" then ValueError
  else if String.eqb s "RuntimeError" then RuntimeError
  else if String.eqb s "TypeError" then TypeError
  else if String.eqb s "IndexError" then IndexError
  else OtherError.

Fixpoint assoc {A} (k : string) (l : list (string * A)) : option A :=
  match l with
  | [] => None
  | (k', v) :: r => if String.eqb k k' then Some v else assoc k r
  end.

Fixpoint strictly_increasing (l : list Z) : bool :=
  match l with
  | [] => true
  | a :: r => match r with [] => true | b :: _ => (a <? b) && strictly_increasing r end
  end.

Section Npz.
  Variable V : Type.

  Record gcxs := mkGCXS {
    g_shape : shape;
    g_axes : option (list Z);      (* None for 0-d / 1-d arrays *)
    g_data : list V;
    g_indices : list Z;
    g_indptr : list Z;             (* () / [] for 0-d / 1-d arrays *)
    g_fill : V
  }.

  (* an array together with its exact class *)
  Inductive arr := ACoo (c : coo V) | AGcxs (k : klass) (g : gcxs).
  Definition class_of (x : arr) : klass := match x with ACoo _ => KCOO | AGcxs k _ => k end.
  (* the class tag of a GCXS payload is GCXS, CSR or CSC *)
  Definition class_ok (x : arr) : bool := match x with AGcxs KCOO _ => false | _ => true end.

  (* what np.asanyarray makes of an attribute / what np.load gives back for a member *)
  Inductive field :=
  | FData (l : list V)                 (* 1-d array of element values *)
  | FScalar (v : V)                    (* 0-d array of an element value (fill_value) *)
  | FInts (l : list Z)                 (* 1-d integer array or integer tuple (shape, indices, indptr, axes; also () ) *)
  | FMat (rows : Z) (cols : list idx)  (* 2-d integer array rows x len cols, kept column by column (coords) *)
  | FObject.                           (* None: np.asanyarray(None) is a 0-d object array, written with pickle *)

  Definition members := list (string * field).
  Definition mget (n : string) (m : members) : option field := assoc n m.
  Definition is_object (f : field) : bool := match f with FObject => true | _ => false end.

  (* ---------------------------------------------------------------- attributes *)
  Definition axes_field (a : option (list Z)) : field := match a with Some l => FInts l | None => FObject end.

  (* instance attributes (the __dict__ entries) *)
  Definition inst_attr (x : arr) (a : string) : option field :=
    match x with
    | ACoo c =>
      if String.eqb a s_coords then Some (FMat (len (c_shape c)) (c_coords c))
      else if String.eqb a s_data then Some (FData (c_data c))
      else if String.eqb a s_shape then Some (FInts (c_shape c))
      else if String.eqb a s_fill then Some (FScalar (c_fill c))
      else if String.eqb a s_cache then Some FObject
      else None
    | AGcxs _ g =>
      if String.eqb a s_data then Some (FData (g_data g))
      else if String.eqb a s_indices then Some (FInts (g_indices g))
      else if String.eqb a s_indptr then Some (FInts (g_indptr g))
      else if String.eqb a s_shape then Some (FInts (g_shape g))
      else if String.eqb a s_axes_attr then Some (axes_field (g_axes g))
      else if String.eqb a s_fill then Some (FScalar (g_fill g))
      else None
    end.

  (* public attribute read `matrix.a` (compressed_axes is a property returning _compressed_axes) *)
  Definition attr (x : arr) (a : string) : option field :=
    match x with
    | AGcxs _ _ => if String.eqb a s_axes then inst_attr x s_axes_attr else inst_attr x a
    | ACoo _ => inst_attr x a
    end.

  (* ---------------------------------------------------------------- save_npz *)
  Definition test_holds (t : cls_test) (k : klass) : bool :=
    match t with TypeIs c => klass_eqb k c | IsInstance c => klass_isinstance k c end.

  Fixpoint select_branch (bs : list (cls_test * list (string * string * write_mode))) (k : klass)
    : list (string * string * write_mode) :=
    match bs with
    | [] => []
    | (t, ms) :: r => if test_holds t k then ms else select_branch r k
    end.

  (* (member, attribute, how it is written) *)
  Definition save_table (k : klass) : list (string * string * write_mode) :=
    map (fun na => (fst na, snd na, WPlain)) save_base ++ select_branch save_branches k.

  Fixpoint collect (x : arr) (tbl : list (string * string * write_mode)) : res members :=
    match tbl with
    | [] => Ok []
    | (n, a, mode) :: r =>
      match attr x a with
      | None => Raise OtherError                       (* AttributeError *)
      | Some f =>
        ms <- collect x r ;;
        match mode with
        | WPlain => Ok ((n, f) :: ms)
        | WIfNotNone => if is_object f then Ok ms else Ok ((n, f) :: ms)
        | WNoneAsEmpty => Ok ((n, if is_object f then FInts [] else f) :: ms)   (* () becomes an empty array *)
        end
      end
    end.

  (* the members np.savez(_compressed) is handed; the `compressed` flag selects the container encoding only *)
  Definition save_members (x : arr) : res members :=
    ms <- collect x (save_table (class_of x)) ;;
    if negb save_allow_pickle && existsb (fun nf => is_object (snd nf)) ms then Raise ValueError else Ok ms.

  (* ---------------------------------------------------------------- constructors *)
  (* COO(coords, data, shape, sorted=, has_duplicates=, fill_value=) with array arguments *)
  Definition coo_ctor (sorted has_dups : bool) (sh : shape) (rows : Z) (cols : list idx) (data : list V) (fill : V)
    : res (coo V) :=
    (* if shape and not self.coords.size: self.coords = np.zeros((len(shape), 0)) *)
    let '(rows, cols) := if nonempty sh && (rows * len cols =? 0) then (len sh, []) else (rows, cols) in
    (* SparseArray.__init__ *)
    if negb (forallb (fun d => 0 <=? d) sh) then Raise ValueError
    else if nonempty sh && negb (len data =? len cols) then Raise ValueError
    else if nonempty sh && negb (len sh =? rows) then Raise ValueError
    else
      let c := mkCOO sh cols data fill in
      if sorted && negb has_dups then Ok c
      else
        (* _sort_indices / _sum_duplicates: linear_loc = np.ravel_multi_index raises on an out-of-range
           coordinate; both return at once when the linearised coordinates are strictly increasing *)
        if negb (forallb (in_rangeb sh) cols) then Raise ValueError
        else if sorted_strict (c_coords c) then Ok c
        else Unmodelled.

  (* _utils.check_compressed_axes(ndim, axes) for an integer sequence *)
  Definition check_compressed_axes (ndim : Z) (ca : list Z) : res unit :=
    if len ca =? ndim then Raise ValueError                          (* cannot compress all axes *)
    else if negb (strictly_increasing ca) then Raise ValueError      (* axes must be sorted without repeats *)
    else if negb (nonempty ca) then Raise ValueError                 (* min(()) *)
    else if negb (forallb (fun a => (0 <=? a) && (a <? ndim)) ca) then Raise ValueError   (* axis out of range *)
    else Ok tt.

  (* _compressed_shape[0]: the number of compressed rows = product of the extents of the compressed axes *)
  Definition compressed_rows (sh : shape) (ca : list Z) : Z :=
    fold_right Z.mul 1 (map (fun a => nth (Z.to_nat a) sh 0) ca).

  (* GCXS((data, indices, indptr), shape=, fill_value=, compressed_axes=) *)
  Definition gcxs_ctor (sh : shape) (axes : option (list Z)) (data : list V) (indices indptr : list Z) (fill : V)
    : res gcxs :=
    _ <- match axes with None => Ok tt | Some ca => check_compressed_axes (len sh) ca end ;;
    let axes := if len sh =? 1 then None else axes in
    (* if self.compressed_axes is not None and len(self.indptr) != self._compressed_shape[0] + 1: raise ValueError *)
    match axes with
    | Some ca => if negb (len indptr =? compressed_rows sh ca + 1) then Raise ValueError
                 else Ok (mkGCXS sh axes data indices indptr fill)
    | None => Ok (mkGCXS sh axes data indices indptr fill)
    end.

  (* ---------------------------------------------------------------- load_npz *)
  (* the reads of one try-block; None = KeyError.  An ROptionalNone read of an absent member yields None instead of
     raising *)
  Fixpoint do_reads (names : list (string * read_mode)) (m : members) : option (res unit) :=
    match names with
    | [] => Some (Ok tt)
    | (n, mode) :: r =>
      match mget n m with
      | None => match mode with ROptionalNone => do_reads r m | _ => None end
      | Some FObject => if load_allow_pickle then do_reads r m else Some (Raise ValueError)
      | Some _ => do_reads r m
      end
    end.

  (* ndarray.size *)
  Definition field_size (f : field) : Z :=
    match f with
    | FData l => len l | FInts l => len l | FMat r cols => r * len cols | FScalar _ => 1 | FObject => 1
    end.

  (* the value bound by the read of member n in attempt a (after do_reads succeeded) *)
  Definition read_value (a : attempt) (m : members) (n : string) : option field :=
    match mget n m, assoc n (at_reads a) with
    | Some f, Some REmptyAsNone => if field_size f =? 0 then Some FObject else Some f   (* if v.size == 0: v = None *)
    | Some f, _ => Some f
    | None, Some ROptionalNone => Some FObject
    | None, _ => None
    end.

  Definition flag (a : attempt) (defaults : list (string * bool)) (n : string) : bool :=
    match assoc n (at_flags a) with
    | Some b => b
    | None => match assoc n defaults with Some b => b | None => false end
    end.

  Definition run_ctor (a : attempt) (m : members) : res arr :=
    let get p := match assoc p (at_args a) with Some n => read_value a m n | None => None end in
    match at_class a with
    | KCOO =>
      match get s_coords, get s_data, get s_shape, get s_fill with
      | Some (FMat r cols), Some (FData d), Some (FInts sh), Some (FScalar f) =>
        c <- coo_ctor (flag a coo_ctor_defaults s_sorted) (flag a coo_ctor_defaults s_has_dups) sh r cols d f ;;
        Ok (ACoo c)
      | _, _, _, _ => Raise TypeError       (* ill-kinded member: outside every claim *)
      end
    | KGCXS =>
      match get "arg0.0"%string, get "arg0.1"%string, get "arg0.2"%string, get s_shape, get s_fill, get s_axes with
      | Some (FData d), Some (FInts ind), Some (FInts ptr), Some (FInts sh), Some (FScalar f), Some ax =>
        match ax with
        | FInts ca => g <- gcxs_ctor sh (Some ca) d ind ptr f ;; Ok (AGcxs KGCXS g)
        | FObject => g <- gcxs_ctor sh None d ind ptr f ;; Ok (AGcxs KGCXS g)
        | _ => Raise TypeError
        end
      | _, _, _, _, _, _ => Raise TypeError
      end
    | _ => Unmodelled
    end.

  Definition run_attempt (a : attempt) (m : members) : option (res arr) :=
    match do_reads (at_reads a) m with
    | None => None
    | Some (Raise e) => Some (Raise e)
    | Some (Ok _) => Some (run_ctor a m)
    end.

  Fixpoint run_attempts (l : list attempt) (m : members) : res arr :=
    match l with
    | [] => Raise OtherError          (* would fall off the end and return None: not an array *)
    | a :: r =>
      match run_attempt a m with
      | Some x => x
      | None =>
        if String.eqb (at_caught a) s_KeyError then
          match at_action a with
          | Pass => run_attempts r m
          | RaiseExc e => Raise (exc_of_string e)
          end
        else Raise OtherError         (* the KeyError propagates *)
      end
    end.

  Definition load_members (m : members) : res arr := run_attempts load_attempts m.

  (* ---------------------------------------------------------------- container layer *)
  (* What zipfile / np.load make of a byte string:
       Unreadable         np.load itself raises (no usable central directory, not a zip file, ...)
       Archive ok view    the archive opens.  [ok] = ZipFile.testzip() finds no member whose CRC (or local header)
                          fails to verify; [view] = what the lazy member reads `fp[name]` return.  When [ok] is
                          false the view is arbitrary: zipfile checks a member's CRC only when the member is read to
                          its end, and a damaged npy header can make numpy stop early (the "read-ahead hole"), so
                          reads may return data that was never saved. *)
  Inductive file := Unreadable | Archive (ok : bool) (view : members).

  Definition load_file (f : file) : res arr :=
    match f with
    | Unreadable => Raise OtherError     (* BadZipFile / EOFError / ValueError ... : some exception from np.load *)
    | Archive ok view =>
      match load_testzip with
      | Some e => if ok then load_members view else Raise (exc_of_string e)
      | None => load_members view
      end
    end.

  Section Container.
    Variable bytes : Type.
    Variable np_savez : bool -> members -> bytes.    (* np.savez_compressed (true) / np.savez (false) *)
    Variable np_load : bytes -> file.                (* what zipfile + np.load make of the bytes *)

    Definition save_npz (compressed : bool) (x : arr) : res bytes :=
      ms <- save_members x ;; Ok (np_savez compressed ms).
    Definition load_npz (b : bytes) : res arr := load_file (np_load b).
  End Container.

  (* ---------------------------------------------------------------- well-formedness and the domain clauses *)
  Definition coo_wf (c : coo V) : bool :=
    forallb (fun d => 0 <=? d) (c_shape c)
    && (len (c_data c) =? len (c_coords c))
    && forallb (fun ix : idx => len ix =? len (c_shape c)) (c_coords c).

  Definition axes_ok (ndim : Z) (ca : list Z) : bool :=
    negb (len ca =? ndim) && strictly_increasing ca && nonempty ca
    && forallb (fun a => (0 <=? a) && (a <? ndim)) ca.

  Definition zl_eqb : list Z -> list Z -> bool :=
    fix go l1 l2 := match l1, l2 with
                    | [], [] => true
                    | a :: r1, b :: r2 => (a =? b) && go r1 r2
                    | _, _ => false end.

  Definition gcxs_wf (k : klass) (g : gcxs) : bool :=
    match g_axes g with
    | None => len (g_shape g) <=? 1
    | Some ca => (2 <=? len (g_shape g)) && axes_ok (len (g_shape g)) ca
                 && (len (g_indptr g) =? compressed_rows (g_shape g) ca + 1)    (* enforced by GCXS.__init__ *)
    end
    && match k with
       | KCOO => false
       | KGCXS => true
       | KCSR => (len (g_shape g) =? 2) && match g_axes g with Some ca => zl_eqb ca [0] | None => false end
       | KCSC => (len (g_shape g) =? 2) && match g_axes g with Some ca => zl_eqb ca [1] | None => false end
       end.

  Definition wf (x : arr) : bool :=
    match x with ACoo c => coo_wf c | AGcxs k g => gcxs_wf k g end.

  (* what a round trip through npz gives back: the same array; a CSR / CSC comes back as a plain GCXS with the same
     compressed axes, data, indices, indptr, shape and fill (the class of format is kept, not the subclass) *)
  Definition as_saved (x : arr) : arr :=
    match x with ACoo c => ACoo c | AGcxs _ g => AGcxs KGCXS g end.

  (* ---------------------------------------------------------------- pickle *)
  Inductive pstate := STuple (l : list field) | SDict (d : members).

  Definition init_attrs (k : klass) : list string :=
    match k with KCOO => coo_init_attrs | _ => gcxs_init_attrs end.

  Fixpoint fields_of (x : arr) (names : list string) : option (list field) :=
    match names with
    | [] => Some []
    | n :: r => match inst_attr x n, fields_of x r with
                | Some f, Some fs => Some (f :: fs)
                | _, _ => None end
    end.

  Definition dict_of (x : arr) : option members :=
    match fields_of x (init_attrs (class_of x)) with
    | Some fs => Some (combine (init_attrs (class_of x)) fs)
    | None => None
    end.

  (* object.__reduce_ex__: (copyreg.__newobj__, (cls,), state) with state = __getstate__() if defined, else __dict__ *)
  Definition getstate (x : arr) : res pstate :=
    match class_of x with
    | KCOO => match fields_of x coo_getstate with Some fs => Ok (STuple fs) | None => Raise OtherError end
    | _ => match dict_of x with Some d => Ok (SDict d) | None => Raise OtherError end
    end.

  Definition arr_of_dict (k : klass) (d : members) : res arr :=
    match k with
    | KCOO =>
      match mget s_coords d, mget s_data d, mget s_shape d, mget s_fill d with
      | Some (FMat _ cols), Some (FData dt), Some (FInts sh), Some (FScalar f) => Ok (ACoo (mkCOO sh cols dt f))
      | _, _, _, _ => Raise OtherError
      end
    | _ =>
      match mget s_data d, mget s_indices d, mget s_indptr d, mget s_shape d, mget s_axes_attr d, mget s_fill d with
      | Some (FData dt), Some (FInts ind), Some (FInts ptr), Some (FInts sh), Some ax, Some (FScalar f) =>
        match ax with
        | FInts ca => Ok (AGcxs k (mkGCXS sh (Some ca) dt ind ptr f))
        | FObject => Ok (AGcxs k (mkGCXS sh None dt ind ptr f))
        | _ => Raise OtherError
        end
      | _, _, _, _, _, _ => Raise OtherError
      end
    end.

  (* cls.__new__(cls) followed by __setstate__(state) (COO) or __dict__.update(state) (GCXS family) *)
  Definition setstate_dict (k : klass) (st : pstate) : res members :=
    match k, st with
    | KCOO, STuple fs =>
      if (List.length fs =? List.length coo_setstate)%nat
      then Ok (combine coo_setstate fs ++ map (fun a => (a, FObject)) coo_setstate_reset)
      else Raise ValueError              (* tuple unpacking *)
    | KCOO, SDict _ => Raise ValueError
    | _, SDict d => Ok d
    | _, STuple _ => Raise TypeError
    end.

  Definition setstate (k : klass) (st : pstate) : res arr :=
    d <- setstate_dict k st ;; arr_of_dict k d.

  Definition pickle_roundtrip_of (x : arr) : res arr :=
    st <- getstate x ;; setstate (class_of x) st.

  (* ---------------------------------------------------------------- copy, over a heap of buffers *)
  Inductive slot := Ref (id : Z) | Imm (f : field).
  Record heap := mkHeap { h_next : Z; h_bufs : list (Z * field) }.
  Definition hobj := list (string * slot).

  Fixpoint hget (id : Z) (b : list (Z * field)) : option field :=
    match b with [] => None | (i, f) :: r => if i =? id then Some f else hget id r end.

  (* the attributes that hold ndarrays *)
  Definition buffer_attr (a : string) : bool :=
    String.eqb a s_coords || String.eqb a s_data || String.eqb a s_indices || String.eqb a s_indptr.

  Definition alloc (h : heap) (f : field) : heap * Z :=
    (mkHeap (h_next h + 1) ((h_next h, f) :: h_bufs h), h_next h).

  Fixpoint alloc_obj (h : heap) (d : members) : heap * hobj :=
    match d with
    | [] => (h, [])
    | (a, f) :: r =>
      if buffer_attr a then
        let '(h1, id) := alloc h f in
        let '(h2, o) := alloc_obj h1 r in (h2, (a, Ref id) :: o)
      else
        let '(h2, o) := alloc_obj h r in (h2, (a, Imm f) :: o)
    end.

  Definition deref (h : heap) (s : slot) : option field :=
    match s with Ref id => hget id (h_bufs h) | Imm f => Some f end.

  Fixpoint obj_dict (h : heap) (o : hobj) : option members :=
    match o with
    | [] => Some []
    | (a, s) :: r => match deref h s, obj_dict h r with
                     | Some f, Some d => Some ((a, f) :: d)
                     | _, _ => None end
    end.

  Definition refs (o : hobj) : list Z :=
    flat_map (fun as_ => match snd as_ with Ref id => [id] | Imm _ => [] end) o.

  (* the state object handed from __reduce_ex__ to the reconstructor: a tuple of attribute values (COO) or the
     instance dict; its entries are the very objects the instance refers to *)
  Fixpoint slots_of (o : hobj) (names : list string) : option (list slot) :=
    match names with
    | [] => Some []
    | n :: r => match assoc n o, slots_of o r with
                | Some s, Some ss => Some (s :: ss)
                | _, _ => None end
    end.

  (* copy.deepcopy of one state entry: an ndarray gets a fresh buffer, immutable scalars / tuples / None stay *)
  Definition deepcopy_slot (h : heap) (s : slot) : heap * slot :=
    match s with
    | Ref id => match hget id (h_bufs h) with
                | Some f => let '(h1, id1) := alloc h f in (h1, Ref id1)
                | None => (h, Ref id)         (* dangling: excluded by heap_wf *)
                end
    | Imm f => (h, Imm f)
    end.

  Fixpoint deepcopy_slots (h : heap) (ss : list slot) : heap * list slot :=
    match ss with
    | [] => (h, [])
    | s :: r => let '(h1, s1) := deepcopy_slot h s in
                let '(h2, r1) := deepcopy_slots h1 r in (h2, s1 :: r1)
    end.

  (* copy.copy(x) / copy.deepcopy(x) through __reduce_ex__(4): state, (deep)copied state, reconstruction.
     COO: state = __getstate__() tuple, rebuilt by __setstate__ (which also resets the listed attributes to None).
     GCXS family: state = the instance __dict__ (deepcopy of a dict copies the values under the same keys), the
     reconstructor updates the new instance's __dict__ with it. *)
  Definition state_attrs (k : klass) (o : hobj) : list string :=
    match k with KCOO => coo_getstate | _ => map fst o end.

  Definition copy_obj (deep : bool) (k : klass) (h : heap) (o : hobj) : option (heap * hobj) :=
    match k with
    | KCOO =>
      match slots_of o coo_getstate with
      | None => None                 (* AttributeError *)
      | Some ss =>
        let '(h1, ss1) := if deep then deepcopy_slots h ss else (h, ss) in
        if (List.length ss1 =? List.length coo_setstate)%nat then
          Some (h1, combine coo_setstate ss1 ++ map (fun a => (a, Imm FObject)) coo_setstate_reset)
        else None                    (* tuple unpacking fails *)
      end
    | _ =>
      let '(h1, ss1) := if deep then deepcopy_slots h (map snd o) else (h, map snd o) in
      Some (h1, combine (map fst o) ss1)
    end.

  (* every buffer the object refers to is allocated *)
  Definition slot_ok (h : heap) (s : slot) : Prop :=
    match s with Ref id => id < h_next h /\ exists f, hget id (h_bufs h) = Some f | Imm _ => True end.
  Definition heap_wf (h : heap) (o : hobj) : Prop := Forall (slot_ok h) (map snd o).

  Definition obj_arr (k : klass) (h : heap) (o : hobj) : res arr :=
    match obj_dict h o with Some d => arr_of_dict k d | None => Raise OtherError end.

  (* an in-place write into one buffer *)
  Definition hwrite (h : heap) (id : Z) (f : field) : heap := mkHeap (h_next h) ((id, f) :: h_bufs h).

  (* ---------------------------------------------------------------- Numba boxing of COO *)
  (* reduction of an integer into a w-bit integer type (two's complement when signed) *)
  Definition wrap (w : Z) (signed : bool) (z : Z) : Z :=
    let m := z mod 2 ^ w in
    if signed && (2 ^ (w - 1) <=? m) then m - 2 ^ w else m.

  (* the native value of one unboxed attribute; dt = (bit width, signedness) of the coordinate dtype *)
  Definition native_of (dt : Z * bool) (name : string) (f : field) : field :=
    match assoc name nb_dtype_source, f with
    | Some src, FInts l =>
      if String.eqb name s_shape && String.eqb src "coords_dtype"
      then FInts (map (wrap (fst dt) (snd dt)) l) else f
    | _, _ => f
    end.

  Fixpoint nb_unbox (dt : Z * bool) (x : arr) (names : list string) : res members :=
    match names with
    | [] => Ok []
    | n :: r => match inst_attr x n with
                | None => Raise OtherError
                | Some f => ms <- nb_unbox dt x r ;; Ok ((n, native_of dt n f) :: ms)
                end
    end.

  (* box_COO: COO(coords_obj, data_obj, shape_obj, fill_value=fill_value_obj) with the constructor's defaults *)
  Definition nb_box (nat : members) : res arr :=
    let params := combine [s_coords; s_data; s_shape] nb_box_args ++ nb_box_kwargs in
    let get p := match assoc p params with Some n => mget n nat | None => None end in
    match nb_box_class with
    | KCOO =>
      match get s_coords, get s_data, get s_shape, get s_fill with
      | Some (FMat r cols), Some (FData d), Some (FInts sh), Some (FScalar f) =>
        let dflt n := match assoc n coo_ctor_defaults with Some b => b | None => false end in
        c <- coo_ctor (dflt s_sorted) (dflt s_has_dups) sh r cols d f ;; Ok (ACoo c)
      | _, _, _, _ => Raise TypeError
      end
    | _ => Unmodelled
    end.

  Definition nb_roundtrip (dt : Z * bool) (c : coo V) : res arr :=
    nat <- nb_unbox dt (ACoo c) nb_unbox_fields ;; nb_box nat.

  (* impl_COO: `COO(coords, data, shape)` written inside a Numba-compiled function.  The three native values are
     stored into the record (fill_value := zero of the data dtype), which is boxed on return.  The record's shape
     member is typed UniTuple(coordinate dtype, ndim) while the argument tuple is typed by its own elements (intp for
     Python ints; the empty tuple has the distinct type Tuple(())).  Since /repo eb8a9b8 the store goes through an
     explicit tuple-to-tuple cast (nb_construct_shape_cast) and the member is a tuple of intp, so it is always well
     typed; a raw store is well typed only when the two machine representations coincide, otherwise compilation fails
     with a TypeError. *)
  Definition nb_construct_typed (dt : Z * bool) (sh : shape) : bool :=
    if nb_construct_shape_cast then true            (* an explicit tuple-to-tuple cast: always well typed *)
    else nonempty sh
         && match assoc s_shape nb_dtype_source with
            | Some src => if String.eqb src "coords_dtype" then fst dt =? 64 else true   (* intp elements *)
            | None => false
            end.
  Definition nb_construct (zero : V) (dt : Z * bool) (c : coo V) : res arr :=
    if nb_construct_typed dt (c_shape c) then
      nb_box [(s_coords, FMat (len (c_shape c)) (c_coords c)); (s_data, FData (c_data c));
              (s_shape, FInts (c_shape c)); (s_fill, FScalar zero)]
    else Raise TypeError.

End Npz.

Arguments mkGCXS {V}.
Arguments g_shape {V}.
Arguments g_axes {V}.
Arguments g_data {V}.
Arguments g_indices {V}.
Arguments g_indptr {V}.
Arguments g_fill {V}.
Arguments ACoo {V}.
Arguments AGcxs {V}.
Arguments class_of {V}.
Arguments FData {V}.
Arguments FScalar {V}.
Arguments FInts {V}.
Arguments FMat {V}.
Arguments FObject {V}.
Arguments Unreadable {V}.
Arguments Archive {V}.
Arguments STuple {V}.
Arguments SDict {V}.
Arguments Ref {V}.
Arguments Imm {V}.
Arguments mkHeap {V}.
Arguments h_next {V}.
Arguments h_bufs {V}.
