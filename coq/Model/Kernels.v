(* Model/Kernels.v — fuelled, bounds-checked transcriptions of the loop kernels property C18
   anchors in.  Conventions:
     * every `while` of the source is a recursion on explicit fuel that answers OutOfFuel when the
       fuel runs out; a kernel takes ONE fuel argument F and hands every loop instance it starts a
       budget of F iterations (so "run F <> OutOfFuel" says: no loop instance needs more than F
       iterations; the total work is then bounded by the product over the nesting depth);
     * `for` over range/arrays is structural recursion;
     * every array read/write goes through a checked access that answers OutOfBounds (nopython
       kernels perform no bounds checks: an out-of-bounds access is memory corruption, not an
       IndexError).  Negative indices wrap around once, as Numba compiles them;
     * integer division by zero answers DivZero;
     * float comparisons whose operands the model does not carry are answers of an oracle.
   Definitions only (proofs: Proofs/KernelsP.v). *)
From Coq Require Import ZArith List Bool QArith.
From Verif Require Import Py PyExt PyValid S_validators.
Import ListNotations.
Open Scope Z_scope.

Inductive kres (A : Type) := Done (a : A) | OutOfFuel | OutOfBounds | DivZero.
Arguments Done {A} a.
Arguments OutOfFuel {A}.
Arguments OutOfBounds {A}.
Arguments DivZero {A}.

Definition kbind {A B} (m : kres A) (f : A -> kres B) : kres B :=
  match m with Done a => f a | OutOfFuel => OutOfFuel | OutOfBounds => OutOfBounds | DivZero => DivZero end.

Notation "x <~ m ;; k" := (kbind m (fun x => k))
  (at level 61, m at next level, right associativity).
Notation "' p <~ m ;; k" := (kbind m (fun p => k))
  (at level 61, p pattern, m at next level, right associativity).

Definition zlen {A} (l : list A) : Z := Z.of_nat (length l).

(* truth of a loop test that was translated from the source (Gen/S_validators.v) *)
Definition py_true (r : res pyv) : bool := match r with Ok v => truthy v | Raise _ => false end.

(* a[i] with Numba's wrap-around of negative indices and NO further check in the source *)
Definition rd {A} (l : list A) (i : Z) : kres A :=
  let j := if i <? 0 then i + zlen l else i in
  if (j <? 0) || (zlen l <=? j) then OutOfBounds
  else match nth_error l (Z.to_nat j) with Some v => Done v | None => OutOfBounds end.

Fixpoint set_nth {A} (n : nat) (l : list A) (v : A) : list A :=
  match l, n with
  | [], _ => []
  | _ :: r, O => v :: r
  | x :: r, S n' => x :: set_nth n' r v
  end.

(* a[i] = f(a[i]) *)
Definition upd {A} (l : list A) (i : Z) (f : A -> kres A) : kres (list A) :=
  let j := if i <? 0 then i + zlen l else i in
  if (j <? 0) || (zlen l <=? j) then OutOfBounds
  else match nth_error l (Z.to_nat j) with
       | Some v => w <~ f v ;; Done (set_nth (Z.to_nat j) l w)
       | None => OutOfBounds end.

Definition wr {A} (l : list A) (i : Z) (v : A) : kres (list A) := upd l i (fun _ => Done v).

(* 2-d arrays are lists of rows *)
Definition rd2 (m : list (list Z)) (i j : Z) : kres Z := r <~ rd m i ;; rd r j.
Definition upd2 (m : list (list Z)) (i j : Z) (f : Z -> Z) : kres (list (list Z)) :=
  upd m i (fun r => upd r j (fun v => Done (f v))).

Definition zrange (n : Z) : list Z := map Z.of_nat (seq 0 (Z.to_nat n)).
Definition zeros2 (R C : Z) : list (list Z) := repeat (repeat 0 (Z.to_nat C)) (Z.to_nat R).

(* a[lo:hi] on a 1-d array with non-negative bounds (clipped, never out of bounds) *)
Definition slice {A} (l : list A) (lo hi : Z) : list A :=
  firstn (Z.to_nat (hi - lo)) (skipn (Z.to_nat lo) l).

(* ================================================================= _common._dot_coo_ndarray
     out = np.zeros(out_shape); didx1 = 0
     while didx1 < len(data1) and out_shape[1] > 0:          <- GENERATED test sv_dcn_outer_test
         oidx1 = coords1[0, didx1]; didx1_curr = didx1
         for oidx2 in range(out_shape[1]):
             didx1 = didx1_curr
             while didx1 < len(data1) and coords1[0, didx1] == oidx1:
                 out[oidx1, oidx2] += data1[didx1] * array2[oidx2, coords1[1, didx1]]
                 didx1 += 1
     return out
   rows = coords1[0], cols = coords1[1]; array2 is the TRANSPOSED second operand (C x K). *)
Section DotCooNdarray.
  Variables (rows cols data : list Z) (arr2 : list (list Z)) (R C : Z).
  Variable F : nat.

  Fixpoint dcn_inner (fuel : nat) (oidx1 oidx2 didx1 : Z) (out : list (list Z))
    : kres (Z * list (list Z)) :=
    match fuel with
    | O => OutOfFuel
    | S f =>
      if didx1 <? zlen data then
        r <~ rd rows didx1 ;;
        if r =? oidx1 then
          d <~ rd data didx1 ;;
          c <~ rd cols didx1 ;;
          b <~ rd2 arr2 oidx2 c ;;
          out' <~ upd2 out oidx1 oidx2 (fun v => v + d * b) ;;
          dcn_inner f oidx1 oidx2 (didx1 + 1) out'
        else Done (didx1, out)
      else Done (didx1, out)
    end.

  Fixpoint dcn_for (cs : list Z) (oidx1 didx1_curr didx1 : Z) (out : list (list Z))
    : kres (Z * list (list Z)) :=
    match cs with
    | [] => Done (didx1, out)
    | oidx2 :: cs' =>
      '(d, out') <~ dcn_inner F oidx1 oidx2 didx1_curr out ;;
      dcn_for cs' oidx1 didx1_curr d out'
    end.

  Fixpoint dcn_outer (fuel : nat) (didx1 : Z) (out : list (list Z)) : kres (list (list Z)) :=
    match fuel with
    | O => OutOfFuel
    | S f =>
      if py_true (sv_dcn_outer_test (VInt didx1) (VInt (zlen data)) (VInt C)) then
        oidx1 <~ rd rows didx1 ;;
        '(d, out') <~ dcn_for (zrange C) oidx1 didx1 didx1 out ;;
        dcn_outer f d out'
      else Done out
    end.

  Definition dot_coo_ndarray : kres (list (list Z)) := dcn_outer F 0 (zeros2 R C).
End DotCooNdarray.

(* ================================================================= _common._dot_coo_ndarray (sparse result)
     didx1 = 0
     while didx1 < len(data1) and out_shape[1] > 0:          <- GENERATED test sv_dcs_outer_test
         current_row = coords1[0, didx1]; cur_didx1 = didx1; oidx2 = 0
         while oidx2 < out_shape[1]:
             cur_didx1 = didx1; data_curr = 0
             while cur_didx1 < len(data1) and coords1[0, cur_didx1] == current_row:
                 data_curr += data1[cur_didx1] * array2[oidx2, coords1[1, cur_didx1]]
                 cur_didx1 += 1
             if data_curr != 0: out_data.append(data_curr); out_coords.append((current_row, oidx2))
             oidx2 += 1
         didx1 = cur_didx1
   The outputs are growing lists (no pre-sized buffer); entries are (row, col, value). *)
Section DotCooNdarraySparse.
  Variables (rows cols data : list Z) (arr2 : list (list Z)) (C : Z).
  Variable F : nat.

  Fixpoint dcs_inner (fuel : nat) (current_row oidx2 cur acc : Z) : kres (Z * Z) :=
    match fuel with
    | O => OutOfFuel
    | S f =>
      if cur <? zlen data then
        r <~ rd rows cur ;;
        if r =? current_row then
          d <~ rd data cur ;;
          c <~ rd cols cur ;;
          b <~ rd2 arr2 oidx2 c ;;
          dcs_inner f current_row oidx2 (cur + 1) (acc + d * b)
        else Done (cur, acc)
      else Done (cur, acc)
    end.

  Fixpoint dcs_mid (fuel : nat) (current_row didx1 cur oidx2 : Z) (out : list (Z * Z * Z))
    : kres (Z * list (Z * Z * Z)) :=
    match fuel with
    | O => OutOfFuel
    | S f =>
      if oidx2 <? C then
        '(cur', acc) <~ dcs_inner F current_row oidx2 didx1 0 ;;
        let out' := if acc =? 0 then out else out ++ [(current_row, oidx2, acc)] in
        dcs_mid f current_row didx1 cur' (oidx2 + 1) out'
      else Done (cur, out)
    end.

  Fixpoint dcs_outer (fuel : nat) (didx1 : Z) (out : list (Z * Z * Z)) : kres (list (Z * Z * Z)) :=
    match fuel with
    | O => OutOfFuel
    | S f =>
      if py_true (sv_dcs_outer_test (VInt didx1) (VInt (zlen data)) (VInt C)) then
        current_row <~ rd rows didx1 ;;
        '(cur, out') <~ dcs_mid F current_row didx1 didx1 0 out ;;
        dcs_outer f cur out'
      else Done out
    end.

  Definition dot_coo_ndarray_sparse : kres (list (Z * Z * Z)) := dcs_outer F 0 [].
End DotCooNdarraySparse.

(* ================================================================= _common._dot_ndarray_coo
     out = np.zeros(out_shape)
     for oidx1 in range(out_shape[0]):
         for didx2 in range(len(data2)):
             oidx2 = coords2[1, didx2]
             out[oidx1, oidx2] += array1[oidx1, coords2[0, didx2]] * data2[didx2]
   `for` loops only: no fuel.  crow = coords2[0], ccol = coords2[1]. *)
Section DotNdarrayCoo.
  Variables (arr1 : list (list Z)) (crow ccol data : list Z) (R C : Z).

  Fixpoint dnc_row (ds : list Z) (oidx1 : Z) (out : list (list Z)) : kres (list (list Z)) :=
    match ds with
    | [] => Done out
    | didx2 :: ds' =>
      oidx2 <~ rd ccol didx2 ;;
      k <~ rd crow didx2 ;;
      a <~ rd2 arr1 oidx1 k ;;
      d <~ rd data didx2 ;;
      out' <~ upd2 out oidx1 oidx2 (fun v => v + a * d) ;;
      dnc_row ds' oidx1 out'
    end.

  Fixpoint dnc_rows (rs : list Z) (out : list (list Z)) : kres (list (list Z)) :=
    match rs with
    | [] => Done out
    | oidx1 :: rs' => out' <~ dnc_row (zrange (zlen data)) oidx1 out ;; dnc_rows rs' out'
    end.

  Definition dot_ndarray_coo : kres (list (list Z)) := dnc_rows (zrange R) (zeros2 R C).
End DotNdarrayCoo.

(* ================================================================= _common._dot_ndarray_coo (sparse result)
     for oidx1 in range(out_shape[0]):
         data_curr = 0; current_col = 0
         for didx2 in range(len(data2)):
             if coords2[0, didx2] != current_col:
                 if data_curr != 0: append(data_curr, [oidx1, current_col]); data_curr = 0
                 current_col = coords2[0, didx2]
             data_curr += array1[oidx1, coords2[1, didx2]] * data2[didx2]
         if data_curr != 0: append(data_curr, [oidx1, current_col]) *)
Section DotNdarrayCooSparse.
  Variables (arr1 : list (list Z)) (c0 c1 data : list Z) (R : Z).

  Fixpoint dncs_row (ds : list Z) (oidx1 data_curr current_col : Z) (out : list (Z * Z * Z))
    : kres (Z * Z * list (Z * Z * Z)) :=
    match ds with
    | [] => Done (data_curr, current_col, out)
    | didx2 :: ds' =>
      g <~ rd c0 didx2 ;;
      let '(dc, cc, out1) :=
        if negb (g =? current_col)
        then (if negb (data_curr =? 0) then (0, g, out ++ [(oidx1, current_col, data_curr)])
              else (data_curr, g, out))
        else (data_curr, current_col, out) in
      k <~ rd c1 didx2 ;;
      a <~ rd2 arr1 oidx1 k ;;
      d <~ rd data didx2 ;;
      dncs_row ds' oidx1 (dc + a * d) cc out1
    end.

  Fixpoint dncs_rows (rs : list Z) (out : list (Z * Z * Z)) : kres (list (Z * Z * Z)) :=
    match rs with
    | [] => Done out
    | oidx1 :: rs' =>
      '(dc, cc, out1) <~ dncs_row (zrange (zlen data)) oidx1 0 0 out ;;
      dncs_rows rs' (if negb (dc =? 0) then out1 ++ [(oidx1, cc, dc)] else out1)
    end.

  Definition dot_ndarray_coo_sparse : kres (list (Z * Z * Z)) := dncs_rows (zrange R) [].
End DotNdarrayCooSparse.

(* ================================================================= np.searchsorted as Numba compiles it
     n = len(a); lo = 0; hi = n
     while hi > lo:
         mid = (lo + hi) >> 1
         if a[mid] < v (side='left') / a[mid] <= v (side='right'): lo = mid + 1
         else: hi = mid
     return lo *)
Fixpoint bsearch (right : bool) (fuel : nat) (a : list Z) (v lo hi : Z) : kres Z :=
  match fuel with
  | O => OutOfFuel
  | S f =>
    if lo <? hi then
      let mid := (lo + hi) / 2 in
      x <~ rd a mid ;;
      if (if right then x <=? v else x <? v) then bsearch right f a v (mid + 1) hi
      else bsearch right f a v lo mid
    else Done lo
  end.

Definition searchsorted (right : bool) (F : nat) (a : list Z) (v : Z) : kres Z :=
  bsearch right F a v 0 (zlen a).

(* ================================================================= _compressed/indexing.get_slicing_selection
   One row of the outer `for` (current_row = arr_indices[start:end]); returns the positions
   appended to ind_list and to indices, in order.
   linear filtering (current_row.size < col.size):
     count = col_count = nnz = 0
     while col_count < col.size and count < current_row.size:
         if current_row[-1] < col[col_count] or current_row[count] > col[-1]: break
         if current_row[count] == col[col_count]: nnz += 1; append(count + start, col_count); count += 1; col_count += 1
         elif current_row[count] < col[col_count]: count += 1
         else: col_count += 1 *)
Section SlicingSelection.
  Variables (row col : list Z) (start : Z).
  Variable F : nat.

  Fixpoint gss_linear (fuel : nat) (count col_count : Z) (out : list (Z * Z)) : kres (list (Z * Z)) :=
    match fuel with
    | O => OutOfFuel
    | S f =>
      if (col_count <? zlen col) && (count <? zlen row) then
        rl <~ rd row (-1) ;;
        cc <~ rd col col_count ;;
        brk <~ (if rl <? cc then Done true
                else rc <~ rd row count ;; cl <~ rd col (-1) ;; Done (cl <? rc)) ;;
        if (brk : bool) then Done out
        else
          rc <~ rd row count ;;
          if rc =? cc then gss_linear f (count + 1) (col_count + 1) (out ++ [(count + start, col_count)])
          else if rc <? cc then gss_linear f (count + 1) col_count out
          else gss_linear f count (col_count + 1) out
      else Done out
    end.

  (* binary searches (current_row.size >= col.size):
     prev = size = col_count = 0
     while col_count < len(col):
         while col_count < len(col) and size < len(current_row) and col[col_count] < current_row[size]:
             col_count += 1
         if col_count >= len(col): break
         if current_row[-1] < col[col_count] or current_row[size] > col[-1]: break
         s = np.searchsorted(current_row[size:], col[col_count]); size += s; s += prev
         if not (s >= current_row.size or current_row[s] != col[col_count]):
             inds.append(s + start); indices.append(col_count); size += 1
         prev = size; col_count += 1 *)
  Fixpoint gss_skip (fuel : nat) (size col_count : Z) : kres Z :=
    match fuel with
    | O => OutOfFuel
    | S f =>
      if (col_count <? zlen col) && (size <? zlen row) then
        cc <~ rd col col_count ;;
        rs <~ rd row size ;;
        if cc <? rs then gss_skip f size (col_count + 1) else Done col_count
      else Done col_count
    end.

  Fixpoint gss_binary (fuel : nat) (prev size col_count : Z) (out : list (Z * Z)) : kres (list (Z * Z)) :=
    match fuel with
    | O => OutOfFuel
    | S f =>
      if col_count <? zlen col then
        col_count <~ gss_skip F size col_count ;;
        if zlen col <=? col_count then Done out
        else
          rl <~ rd row (-1) ;;
          cc <~ rd col col_count ;;
          brk <~ (if rl <? cc then Done true
                  else rs <~ rd row size ;; cl <~ rd col (-1) ;; Done (cl <? rs)) ;;
          if (brk : bool) then Done out
          else
            s0 <~ searchsorted false F (skipn (Z.to_nat size) row) cc ;;
            let size1 := size + s0 in
            let s := s0 + prev in
            hit <~ (if zlen row <=? s then Done false
                    else x <~ rd row s ;; Done (x =? cc)) ;;
            if (hit : bool)
            then gss_binary f (size1 + 1) (size1 + 1) (col_count + 1) (out ++ [(s + start, col_count)])
            else gss_binary f size1 size1 (col_count + 1) out
      else Done out
    end.

  Definition slicing_selection_row : kres (list (Z * Z)) :=
    if zlen row <? zlen col then gss_linear F 0 0 [] else gss_binary F 0 0 0 [].
End SlicingSelection.

(* ================================================================= _umath._match_arrays
     if len(a) == 0 or len(b) == 0: return [], []
     nb = len(b); ib = 0; match = 0
     for ia, j in enumerate(a):
         if j == b[match]: ib = match
         while ib < nb and j >= b[ib]:
             if j == b[ib]:
                 append(ia, ib)
                 if b[match] < b[ib]: match = ib
             ib += 1 *)
Section MatchArrays.
  Variables (b : list Z).
  Variable F : nat.

  Fixpoint ma_inner (fuel : nat) (ia j ib mtch : Z) (out : list (Z * Z)) : kres (Z * Z * list (Z * Z)) :=
    match fuel with
    | O => OutOfFuel
    | S f =>
      if ib <? zlen b then
        x <~ rd b ib ;;
        if x <=? j then
          if j =? x then
            bm <~ rd b mtch ;;
            ma_inner f ia j (ib + 1) (if bm <? x then ib else mtch) (out ++ [(ia, ib)])
          else ma_inner f ia j (ib + 1) mtch out
        else Done (ib, mtch, out)
      else Done (ib, mtch, out)
    end.

  Fixpoint ma_for (a : list Z) (ia ib mtch : Z) (out : list (Z * Z)) : kres (list (Z * Z)) :=
    match a with
    | [] => Done out
    | j :: a' =>
      bm <~ rd b mtch ;;
      let ib0 := if j =? bm then mtch else ib in
      '(ib', mtch', out') <~ ma_inner F ia j ib0 mtch out ;;
      ma_for a' (ia + 1) ib' mtch' out'
    end.

  Definition match_arrays (a : list Z) : kres (list (Z * Z)) :=
    match a, b with
    | [], _ => Done []
    | _, [] => Done []
    | _, _ => ma_for a 0 0 0 []
    end.
End MatchArrays.

(* ================================================================= _coo/indexing._compute_mask, the narrowing loop
     starts = [0]; stops = [coords.shape[1]]; n_matches = coords.shape[1]; i = 0
     while i < len(indices):
         n_pairs = len(starts); n_current_slices = len(range(i0, i1, i2 of indices[i])) * n_pairs + 2
         if n_current_slices * log(n_current_slices / max(n_pairs, 1)) > n_matches + n_pairs: break
         starts, stops, n_matches = _get_mask_pairs(starts, stops, coords[i], indices[i])
         i += 1
   The float comparison is the GENERATED expression sv_cm_break read over exact rationals with an abstract
   logarithm lg (the theorems need only: lg x >= 1 for x >= 3, which ln satisfies).  _get_mask_pairs:
     for j in range(len(starts_old)):
         for p_match in range(idx[0], idx[1], idx[2]):
             start = searchsorted(c[starts_old[j]:stops_old[j]], p_match, 'left') + starts_old[j]
             stop  = searchsorted(c[starts_old[j]:stops_old[j]], p_match, 'right') + starts_old[j]
             if start != stop: starts.append(start); stops.append(stop); n_matches += stop - start *)
(* exact rationals with an abstract logarithm: the carrier on which the extracted float test is read *)
Definition qops (lg : Q -> Q) : fops :=
  {| ft := Q; f_of_Z := inject_Z; f_mul := Qmult; f_div := Qdiv; f_add := Qplus;
     f_max := fun a b => if Qle_bool a b then b else a;
     f_log := lg; f_gt := fun a b => negb (Qle_bool a b) |}.

(* the GENERATED cost test of _compute_mask (Gen/S_validators.v: sv_cm_n_current_slices, sv_cm_break):
   rlen = len(range(i0, i1, i2 of indices[i])), n_pairs = len(starts), n_matches as carried by the loop *)
Definition cm_break (lg : Q -> Q) (rlen n_pairs n_matches : Z) : bool :=
  match sv_cm_n_current_slices (VInt rlen) (VInt n_pairs) with
  | Ok (VInt ncs) => sv_cm_break (qops lg) (inject_Z ncs) (inject_Z n_pairs) (inject_Z n_matches)
  | _ => true
  end.

Section ComputeMask.
  Variable F : nat.
  Variable lg : Q -> Q.

  Fixpoint gmp_matches (c : list Z) (lo hi : Z) (ps : list Z) (acc : list (Z * Z)) : kres (list (Z * Z)) :=
    match ps with
    | [] => Done acc
    | p :: ps' =>
      a <~ searchsorted false F (slice c lo hi) p ;;
      z <~ searchsorted true F (slice c lo hi) p ;;
      gmp_matches c lo hi ps' (if a + lo =? z + lo then acc else acc ++ [(a + lo, z + lo)])
    end.

  Fixpoint get_mask_pairs (pairs : list (Z * Z)) (c : list Z) (ps : list Z) (acc : list (Z * Z))
    : kres (list (Z * Z)) :=
    match pairs with
    | [] => Done acc
    | (lo, hi) :: r => acc' <~ gmp_matches c lo hi ps acc ;; get_mask_pairs r c ps acc'
    end.

  (* n_matches += stop - start for every appended pair *)
  Definition pairs_total (pairs : list (Z * Z)) : Z := fold_right (fun p t => (snd p - fst p) + t) 0 pairs.

  (* coords: one list per axis; ranges: range(i0, i1, i2 of indices[i]) per axis, already expanded.
     Returns the index of the first axis not narrowed, the pairs, and the log of the narrowing steps
     actually executed: (len(range), n_pairs, n_matches) at the time of each cost test that said "go on";
     the step then performs len(range) * n_pairs pairs of binary searches. *)
  Fixpoint cm_loop (fuel : nat) (i : nat) (coords : list (list Z)) (ranges : list (list Z))
           (pairs : list (Z * Z)) (n_matches : Z) (log : list (Z * Z * Z))
    : kres (nat * list (Z * Z) * list (Z * Z * Z)) :=
    match fuel with
    | O => OutOfFuel
    | S f =>
      match coords, ranges with
      | c :: coords', ps :: ranges' =>
        if cm_break lg (zlen ps) (zlen pairs) n_matches then Done (i, pairs, log)
        else pairs' <~ get_mask_pairs pairs c ps [] ;;
             cm_loop f (S i) coords' ranges' pairs' (pairs_total pairs') (log ++ [(zlen ps, zlen pairs, n_matches)])
      | _, _ => Done (i, pairs, log)
      end
    end.

  Definition compute_mask_narrow (nnz : Z) (coords ranges : list (list Z)) : kres (nat * list (Z * Z) * list (Z * Z * Z)) :=
    cm_loop F 0 coords ranges [(0, nnz)] nnz [].
End ComputeMask.

(* ================================================================= _utils.algA
     arr = np.zeros(n); arr[-1] = -1; i = 0; top = N - n
     while n >= 2:
         V = random(); S = 0; quot = top / N
         while quot > V: S += 1; top -= 1; N -= 1; quot *= top / N
         arr[i] = arr[i - 1] + S + 1; i += 1; N -= 1; n -= 1
     S = intp(N * random()); arr[i] = arr[i - 1] + S + 1; i += 1
   Floats: `quot` is a product of factors top/N; the model carries only whether it is exactly 0
   (some factor had top = 0; 0/N = 0 and x*0 = 0 are exact in IEEE arithmetic) — then `quot > V`
   is false because V = random() >= 0.  Otherwise the comparison is the oracle's k-th answer.
   `top / N` with N = 0 answers DivZero.  The last draw is an oracle integer u (clamped by intp to
   [0, N) is NOT assumed: the value is used as is). *)
Section AlgA.
  Variable F : nat.
  Variable gt : nat -> bool.       (* answers to `quot > V` when quot <> 0, in order of evaluation *)
  Variable last_draw : Z.

  (* returns (S, top, N, k) *)
  Fixpoint algA_inner (fuel : nat) (qzero : bool) (S_ top N : Z) (k : nat) : kres (Z * Z * Z * nat) :=
    match fuel with
    | O => OutOfFuel
    | S f =>
      if negb qzero && gt k then
        let top' := top - 1 in
        let N' := N - 1 in
        if N' =? 0 then DivZero
        else algA_inner f (qzero || (top' =? 0)) (S_ + 1) top' N' (S k)
      else Done (S_, top, N, if qzero then k else S k)
    end.

  Fixpoint algA_outer (fuel : nat) (n N top i : Z) (arr : list Z) (k : nat) : kres (list Z) :=
    match fuel with
    | O => OutOfFuel
    | S f =>
      if 2 <=? n then
        if N =? 0 then DivZero else
        '(S_, top', N', k') <~ algA_inner F (top =? 0) 0 top N k ;;
        p <~ rd arr (i - 1) ;;
        arr' <~ wr arr i (p + S_ + 1) ;;
        algA_outer f (n - 1) (N' - 1) top' (i + 1) arr' k'
      else
        p <~ rd arr (i - 1) ;;
        wr arr i (p + last_draw + 1)
    end.

  Definition algA (n N : Z) : kres (list Z) :=
    arr <~ wr (repeat 0 (Z.to_nat n)) (-1) (-1) ;;
    algA_outer F n N (N - n) 0 arr 0.
End AlgA.

(* ================================================================= _utils.algD
     n = n + 1; qu1 = N - n + 1; Vprime = exp(log(random()) / n); i = 0
     arr = np.zeros(n - 1); arr[-1] = -1
     while n > 1:
         nmin1inv = 1 / (n - 1)
         while True:
             while True:
                 X = N * (1 - Vprime); S = intp(X)
                 if qu1 > S: break
                 Vprime = exp(log(random()) / n)
             y1 = ...; Vprime = y1 * (1 - X / N) * (qu1 / (qu1 - S))
             if Vprime <= 1: break
             y2 = 1; top = N - 1
             if n - 1 > S: bottom = N - n; limit = N - S
             else: bottom = N - S - 1; limit = qu1
             t = N - 1
             while t >= limit: y2 *= top / bottom; top -= 1; bottom -= 1; t -= 1
             if y1 * exp(log(y2) / nmin1inv) <= N / (N - X): Vprime = ...; break
             Vprime = exp(log(random()) / n)
         arr[i] = arr[i - 1] + S + 1; i += 1; N = N - S - 1; n -= 1; qu1 = qu1 - S
   Oracle: the k-th evaluation of S = intp(X) yields draw k = (S, b1, b2): the integer S, the
   answer to `Vprime <= 1` and the answer to the second acceptance test should they be reached
   with this S.  The integer loop `while t >= limit` is transcribed (its float body is dropped);
   `top / bottom` with bottom = 0 answers DivZero. *)
Section AlgD.
  Variable F : nat.
  Variable draw : nat -> Z * bool * bool.

  Fixpoint algD_tloop (fuel : nat) (t limit bottom : Z) : kres unit :=
    match fuel with
    | O => OutOfFuel
    | S f =>
      if limit <=? t then
        if bottom =? 0 then DivZero else algD_tloop f (t - 1) limit (bottom - 1)
      else Done tt
    end.

  (* innermost `while True`: draw until qu1 > S; returns (S, b1, b2, k) *)
  Fixpoint algD_draw (fuel : nat) (qu1 : Z) (k : nat) : kres (Z * bool * bool * nat) :=
    match fuel with
    | O => OutOfFuel
    | S f =>
      let '(S_, b1, b2) := draw k in
      if S_ <? qu1 then Done (S_, b1, b2, S k) else algD_draw f qu1 (S k)
    end.

  (* the rejection loop; returns (S, k) *)
  Fixpoint algD_reject (fuel : nat) (n N qu1 : Z) (k : nat) : kres (Z * nat) :=
    match fuel with
    | O => OutOfFuel
    | S f =>
      '(S_, b1, b2, k') <~ algD_draw F qu1 k ;;
      if qu1 - S_ =? 0 then DivZero else
      if (b1 : bool) then Done (S_, k')
      else
        let '(bottom, limit) := if S_ <? n - 1 then (N - n, N - S_) else (N - S_ - 1, qu1) in
        _ <~ algD_tloop F (N - 1) limit bottom ;;
        if (b2 : bool) then Done (S_, k') else algD_reject f n N qu1 k'
    end.

  Fixpoint algD_outer (fuel : nat) (n N qu1 i : Z) (arr : list Z) (k : nat) : kres (list Z) :=
    match fuel with
    | O => OutOfFuel
    | S f =>
      if 1 <? n then
        '(S_, k') <~ algD_reject F n N qu1 k ;;
        p <~ rd arr (i - 1) ;;
        arr' <~ wr arr i (p + S_ + 1) ;;
        algD_outer f (n - 1) (N - S_ - 1) (qu1 - S_) (i + 1) arr' k'
      else Done arr
    end.

  Definition algD (n0 N : Z) : kres (list Z) :=
    let n := n0 + 1 in
    arr <~ wr (repeat 0 (Z.to_nat (n - 1))) (-1) (-1) ;;
    algD_outer F n N (N - n + 1) 0 arr 0.
End AlgD.

(* ================================================================= _coo/common._sort_coo, the group scan
     prev_group = -1; group_first_idx = -1
     for idx, group in enumerate(np.append(group_coords, -1)):
         if group == prev_group: continue
         if prev_group != -1:
             group_size = idx - group_first_idx
             ... sort data[group_first_idx:idx]; indices = arange(group_size);
             for pos in range(group_size): if <fill precedes data[pos]>: indices[pos:] += fill_count; break
             result_indices[group_first_idx:idx] = indices
         prev_group = group; group_first_idx = idx
   `for` loops only.  Returns the (first, last) index pairs of the slices written into
   result_indices (pre-sized to len(group_coords)); a slice outside the buffer is OutOfBounds. *)
Fixpoint sort_scan (gs : list Z) (idx prev first n : Z) (acc : list (Z * Z)) : kres (list (Z * Z)) :=
  match gs with
  | [] => Done acc
  | g :: gs' =>
    if g =? prev then sort_scan gs' (idx + 1) prev first n acc
    else if negb (prev =? -1) then
      if (first <? 0) || (n <? idx) then OutOfBounds
      else sort_scan gs' (idx + 1) g idx n (acc ++ [(first, idx)])
    else sort_scan gs' (idx + 1) g idx n acc
  end.

Definition sort_coo_scan (group_coords : list Z) : kres (list (Z * Z)) :=
  sort_scan (group_coords ++ [-1]) 0 (-1) (-1) (zlen group_coords) [].

(* ================================================================= GCXS product kernels (_common.py)
   All loops are `for` loops (no fuel).  The iteration space of a row — the sequence of (k, value)
   pairs the two innermost loops visit — is defined only by input arrays the loop bodies never
   write to, so it is materialised first (csr_row_pairs / csc_col_pairs) and the bodies then run
   over that list: the same reads and writes in the same order.

   _csr_csr_count_nnz:
     mask = np.full(n_col, -1); nnz = 0
     for i in range(n_row):
         row_nnz = 0
         for j in a_indices[a_indptr[i]:a_indptr[i+1]]:
             for k in b_indices[b_indptr[j]:b_indptr[j+1]]:
                 if mask[k] != i: mask[k] = i; row_nnz += 1
         nnz += row_nnz *)

(* if mask[k] != i: mask[k] = i; cnt += 1     for k in ks *)
Fixpoint mask_count (ks : list Z) (i : Z) (mask : list Z) (cnt : Z) : kres (list Z * Z) :=
  match ks with
  | [] => Done (mask, cnt)
  | k :: ks' =>
    m <~ rd mask k ;;
    if m =? i then mask_count ks' i mask cnt
    else mask' <~ wr mask k i ;; mask_count ks' i mask' (cnt + 1)
  end.

Definition zip {A B} := @combine A B.

(* for (k, bv) in zip(b_indices[lo:hi], b_data[lo:hi]) for each (j, av) of the a-row: (k, av * bv) *)
Fixpoint csr_pairs_js (b_indices b_data b_indptr : list Z) (js : list (Z * Z)) : kres (list (Z * Z)) :=
  match js with
  | [] => Done []
  | (j, av) :: js' =>
    lo <~ rd b_indptr j ;;
    hi <~ rd b_indptr (j + 1) ;;
    rest <~ csr_pairs_js b_indices b_data b_indptr js' ;;
    Done (map (fun kb => (fst kb, av * snd kb)) (zip (slice b_indices lo hi) (slice b_data lo hi)) ++ rest)
  end.

Definition csr_row_pairs (a_indices a_data a_indptr b_indices b_data b_indptr : list Z) (i : Z)
  : kres (list (Z * Z)) :=
  lo <~ rd a_indptr i ;;
  hi <~ rd a_indptr (i + 1) ;;
  csr_pairs_js b_indices b_data b_indptr (zip (slice a_indices lo hi) (slice a_data lo hi)).

Section CsrCsr.
  Variables (a_indices a_data a_indptr b_indices b_data b_indptr : list Z) (n_row n_col : Z).

  (* the count kernel never looks at the data: it is run with a_data := a_indices, b_data := b_indices *)
  Fixpoint ccn_rows (is : list Z) (mask : list Z) (nnz : Z) : kres Z :=
    match is with
    | [] => Done nnz
    | i :: is' =>
      ps <~ csr_row_pairs a_indices a_indices a_indptr b_indices b_indices b_indptr i ;;
      '(mask', nnz') <~ mask_count (map fst ps) i mask nnz ;;
      ccn_rows is' mask' nnz'
    end.

  Definition csr_csr_count_nnz : kres Z :=
    ccn_rows (zrange n_row) (repeat (-1) (Z.to_nat n_col)) 0.
End CsrCsr.

(* _dot_csr_csr, per row i:
     head = -2; length = 0; next_[:] = -1
     for (k, v) in pairs: sums[k] += v
                          if next_[k] == -1: next_[k] = head; head = k; length += 1
     for _ in range(length):
         if next_[head] != -1: indices[nnz] = head; data[nnz] = sums[head]; nnz += 1      (guarded = true)
         temp = head; head = next_[head]; next_[temp] = -1; sums[temp] = 0
     order = argsort(indices[indptr[i]:nnz]); permute indices and data of the segment; indptr[i+1] = nnz
   _dot_csc_ndarray_sparse runs the same insertion / drain (its linked list lives in `mask`, the write
   in the drain is unconditional: guarded = false). *)
Fixpoint ll_insert (ps : list (Z * Z)) (nx sums : list Z) (head len : Z) : kres (list Z * list Z * Z * Z) :=
  match ps with
  | [] => Done (nx, sums, head, len)
  | (k, v) :: ps' =>
    s <~ rd sums k ;;
    sums' <~ wr sums k (s + v) ;;
    x <~ rd nx k ;;
    if x =? -1 then nx' <~ wr nx k head ;; ll_insert ps' nx' sums' k (len + 1)
    else ll_insert ps' nx sums' head len
  end.

Fixpoint ll_drain (guarded : bool) (n : nat) (head : Z) (nx sums indices data : list Z) (nnz : Z)
  : kres (list Z * list Z * list Z * list Z * Z) :=
  match n with
  | O => Done (nx, sums, indices, data, nnz)
  | S n' =>
    x <~ rd nx head ;;
    '(indices', data', nnz') <~
      (if negb guarded || negb (x =? -1) then
         ind' <~ wr indices nnz head ;;
         s <~ rd sums head ;;
         dat' <~ wr data nnz s ;;
         Done (ind', dat', nnz + 1)
       else Done (indices, data, nnz)) ;;
    nx' <~ wr nx head (-1) ;;
    sums' <~ wr sums head 0 ;;
    ll_drain guarded n' x nx' sums' indices' data' nnz'
  end.

(* argsort of a segment's column indices and the permutation of both arrays: insertion sort on pairs
   (the keys of a segment are distinct, so every sorting algorithm gives the same answer) *)
Fixpoint ins_pair (p : Z * Z) (l : list (Z * Z)) : list (Z * Z) :=
  match l with
  | [] => [p]
  | q :: r => if fst p <=? fst q then p :: l else q :: ins_pair p r
  end.
Definition sort_pairs (l : list (Z * Z)) : list (Z * Z) := fold_right ins_pair [] l.

(* a[lo:hi] = vals  (lo, hi inside the buffer, len(vals) = hi - lo) *)
Definition set_slice {A} (l : list A) (lo : Z) (vals : list A) : list A :=
  firstn (Z.to_nat lo) l ++ vals ++ skipn (Z.to_nat lo + length vals) l.

Definition sort_segment (indices data : list Z) (lo hi : Z) : list Z * list Z :=
  let seg := sort_pairs (zip (slice indices lo hi) (slice data lo hi)) in
  (set_slice indices lo (map fst seg), set_slice data lo (map snd seg)).

Section DotCsrCsr.
  Variables (a_indices a_data a_indptr b_indices b_data b_indptr : list Z) (n_row n_col : Z).

  Fixpoint dcc_rows (is : list Z) (nx sums indices data indptr : list Z) (nnz : Z)
    : kres (list Z * list Z * list Z) :=
    match is with
    | [] => Done (data, indices, indptr)
    | i :: is' =>
      let nx0 := repeat (-1) (length nx) in                                   (* next_[:] = -1 *)
      ps <~ csr_row_pairs a_indices a_data a_indptr b_indices b_data b_indptr i ;;
      '(nx1, sums1, head, len) <~ ll_insert ps nx0 sums (-2) 0 ;;
      '(nx2, sums2, indices2, data2, nnz2) <~ ll_drain true (Z.to_nat len) head nx1 sums1 indices data nnz ;;
      start <~ rd indptr i ;;
      let '(indices3, data3) := sort_segment indices2 data2 start nnz2 in
      indptr' <~ wr indptr (i + 1) nnz2 ;;
      dcc_rows is' nx2 sums2 indices3 data3 indptr' nnz2
    end.

  Definition dot_csr_csr : kres (list Z * list Z * list Z) :=
    cnt <~ csr_csr_count_nnz a_indices a_indptr b_indices b_indptr n_row n_col ;;
    indptr <~ wr (repeat 0 (Z.to_nat (n_row + 1))) 0 0 ;;
    dcc_rows (zrange n_row) (repeat (-1) (Z.to_nat n_col)) (repeat 0 (Z.to_nat n_col))
             (repeat 0 (Z.to_nat cnt)) (repeat 0 (Z.to_nat cnt)) indptr 0.
End DotCsrCsr.

(* _csc_ndarray_count_nnz / _dot_csc_ndarray_sparse: a (n x K) column-compressed, b (K x C) dense.
   Column i of the result visits, for every j with b[j, i] != 0, the stored rows of column j of a:
     count:  for k in a_indices[a_indptr[j]:a_indptr[j+1]]: if b[j,i] != 0 and mask[k] != i: ...
     fill:   u = b[j,i]; if u != 0: for k in range(a_indptr[j], a_indptr[j+1]): ind = a_indices[k]; v = a_data[k] ...
   (the fill kernel indexes a_indices / a_data directly: each access is checked) *)
Fixpoint gather2 (a_indices a_data : list Z) (ks : list Z) (u : Z) : kres (list (Z * Z)) :=
  match ks with
  | [] => Done []
  | k :: ks' =>
    ind <~ rd a_indices k ;;
    v <~ rd a_data k ;;
    rest <~ gather2 a_indices a_data ks' u ;;
    Done ((ind, u * v) :: rest)
  end.

Definition zrange2 (lo hi : Z) : list Z := map (fun t => lo + t) (zrange (hi - lo)).

Section CscNdarray.
  Variables (a_indices a_data a_indptr : list Z) (b : list (list Z)) (a_rows bK bC : Z).

  (* count kernel's view of column i (slices: clipped) *)
  Fixpoint csc_count_ks (js : list Z) (i : Z) : kres (list Z) :=
    match js with
    | [] => Done []
    | j :: js' =>
      lo <~ rd a_indptr j ;;
      hi <~ rd a_indptr (j + 1) ;;
      u <~ (if zlen (slice a_indices lo hi) =? 0 then Done 0 else rd2 b j i) ;;     (* b[j, i] is read inside the k loop *)
      rest <~ csc_count_ks js' i ;;
      Done ((if u =? 0 then [] else slice a_indices lo hi) ++ rest)
    end.

  Fixpoint cscn_cols (is : list Z) (mask indptr : list Z) (nnz : Z) : kres (list Z * Z) :=
    match is with
    | [] => Done (indptr, nnz)
    | i :: is' =>
      ks <~ csc_count_ks (zrange bK) i ;;
      '(mask', nnz') <~ mask_count ks i mask nnz ;;
      indptr' <~ wr indptr (i + 1) nnz' ;;
      cscn_cols is' mask' indptr' nnz'
    end.

  Definition csc_ndarray_count_nnz (indptr : list Z) : kres (list Z * Z) :=
    cscn_cols (zrange bC) (repeat (-1) (Z.to_nat a_rows)) indptr 0.

  (* fill kernel's view of column i (direct indexing: checked) *)
  Fixpoint csc_fill_pairs (js : list Z) (i : Z) : kres (list (Z * Z)) :=
    match js with
    | [] => Done []
    | j :: js' =>
      u <~ rd2 b j i ;;
      here <~ (if u =? 0 then Done []
               else lo <~ rd a_indptr j ;; hi <~ rd a_indptr (j + 1) ;; gather2 a_indices a_data (zrange2 lo hi) u) ;;
      rest <~ csc_fill_pairs js' i ;;
      Done (here ++ rest)
    end.

  Fixpoint dcns_cols (is : list Z) (mask sums indices data : list Z) (nnz : Z) : kres (list Z * list Z) :=
    match is with
    | [] => Done (data, indices)
    | i :: is' =>
      ps <~ csc_fill_pairs (zrange bK) i ;;
      '(mask1, sums1, head, len) <~ ll_insert ps mask sums (-2) 0 ;;
      '(mask2, sums2, indices2, data2, nnz2) <~ ll_drain false (Z.to_nat len) head mask1 sums1 indices data nnz ;;
      let '(indices3, data3) := sort_segment indices2 data2 nnz nnz2 in
      dcns_cols is' mask2 sums2 indices3 data3 nnz2
    end.

  Definition dot_csc_ndarray_sparse : kres (list Z * list Z * list Z) :=
    '(indptr, cnt) <~ csc_ndarray_count_nnz (repeat 0 (Z.to_nat (bC + 1))) ;;
    indptr' <~ wr indptr 0 0 ;;
    '(data, indices) <~ dcns_cols (zrange bC) (repeat (-1) (Z.to_nat a_rows)) (repeat 0 (Z.to_nat a_rows))
                                  (repeat 0 (Z.to_nat cnt)) (repeat 0 (Z.to_nat cnt)) 0 ;;
    Done (data, indices, indptr').
End CscNdarray.

(* ================================================================= _compressed/convert.py
   uncompress_dimension(indptr):
     uncompressed = np.empty(indptr[-1]); for i in range(len(indptr) - 1): uncompressed[indptr[i]:indptr[i+1]] = i
   (slice assignment clips to the buffer: it cannot go out of bounds; indptr[-1] on an empty indptr can) *)
Definition fill_slice (l : list Z) (lo hi v : Z) : list Z :=
  let lo' := Z.min (Z.max 0 lo) (zlen l) in
  let hi' := Z.min (Z.max lo' hi) (zlen l) in
  firstn (Z.to_nat lo') l ++ repeat v (Z.to_nat (hi' - lo')) ++ skipn (Z.to_nat hi') l.

Fixpoint uncompress_rows (is : list Z) (indptr out : list Z) : kres (list Z) :=
  match is with
  | [] => Done out
  | i :: is' =>
    lo <~ rd indptr i ;; hi <~ rd indptr (i + 1) ;;
    uncompress_rows is' indptr (fill_slice out lo hi i)
  end.

Definition uncompress_dimension (indptr : list Z) : kres (list Z) :=
  n <~ rd indptr (-1) ;;
  if n <? 0 then OutOfBounds      (* np.empty of a negative length *)
  else uncompress_rows (zrange (zlen indptr - 1)) indptr (repeat 0 (Z.to_nat n)).

(* unravel_index(n, shape):
     out = zeros(len(shape)); i = 1
     while i < len(shape) and n > 0: cur = prod(shape[i:]); out[i-1] = n // cur; n -= out[i-1] * cur; i += 1
     out[-1] = n *)
Definition zprod (l : list Z) : Z := fold_right Z.mul 1 l.

Fixpoint unravel_loop (fuel : nat) (i n : Z) (shape out : list Z) : kres (list Z) :=
  match fuel with
  | O => OutOfFuel
  | S f =>
    if (i <? zlen shape) && (0 <? n) then
      let cur := zprod (skipn (Z.to_nat i) shape) in
      if cur =? 0 then DivZero else
      out' <~ wr out (i - 1) (n / cur) ;;
      unravel_loop f (i + 1) (n - (n / cur) * cur) shape out'
    else wr out (-1) n
  end.

Definition unravel_index (F : nat) (n : Z) (shape : list Z) : kres (list Z) :=
  unravel_loop F 1 n shape (repeat 0 (length shape)).

(* ravel_multi_index(arr, shape): total = sum(a * prod(shape[i:]) for i, a in enumerate(arr[:-1], 1)) + arr[-1] *)
Fixpoint ravel_loop (arr : list Z) (i : Z) (shape : list Z) (total : Z) : Z :=
  match arr with
  | [] => total
  | a :: r => ravel_loop r (i + 1) shape (total + a * zprod (skipn (Z.to_nat i) shape))
  end.

Definition ravel_multi_index (arr shape : list Z) : kres Z :=
  lst <~ rd arr (-1) ;;
  Done (ravel_loop (removelast arr) 1 shape 0 + lst).

Fixpoint gather (a : list Z) (idx : list Z) : kres (list Z) :=
  match idx with
  | [] => Done []
  | k :: r => v <~ rd a k ;; t <~ gather a r ;; Done (v :: t)
  end.

(* _linearize: for i, n in enumerate(x_indices):
     current = unravel_index(n, shape); current_t = current[new_axis_order]
     new_linear[i] = ravel_multi_index(current_t, new_reordered_shape)
     new_coords[:, i] = unravel_index(new_linear[i], new_compressed_shape)         (two rows) *)
Fixpoint linearize_loop (F : nat) (xs : list Z) (i : Z) (shape order rshape cshape : list Z)
         (lin c0 c1 : list Z) : kres (list Z * list Z * list Z) :=
  match xs with
  | [] => Done (lin, c0, c1)
  | n :: xs' =>
    cur <~ unravel_index F n shape ;;
    cur_t <~ gather cur order ;;
    l <~ ravel_multi_index cur_t rshape ;;
    lin' <~ wr lin i l ;;
    col <~ unravel_index F l cshape ;;
    if negb (zlen col =? 2) then OutOfBounds else
    r0 <~ rd col 0 ;; r1 <~ rd col 1 ;;
    c0' <~ wr c0 i r0 ;; c1' <~ wr c1 i r1 ;;
    linearize_loop F xs' (i + 1) shape order rshape cshape lin' c0' c1'
  end.

Definition linearize (F : nat) (x_indices shape order rshape cshape : list Z) : kres (list Z * list Z * list Z) :=
  let z := repeat 0 (length x_indices) in
  linearize_loop F x_indices 0 shape order rshape cshape z z z.
