(* Model/SortSearchSrc.v — the source text Model/SortSearch.v was transcribed from (one string per
   line of the normalised function definition).  Props/C10.v proves that the text regenerated from
   /repo on every run (Gen/S_sortsearch.v) is equal to it. *)
From Coq Require Import String List.
Import ListNotations.
Open Scope string_scope.

Definition pinned_sort_coo : list string := [
  "@numba.jit(nopython=True, nogil=True)";
  "def _sort_coo(coords: np.ndarray, data: np.ndarray, fill_value: float, sort_axis_len: int, descending: bool) -> tuple[np.ndarray, np.ndarray]:";
  "    assert coords.shape[0] == 2";
  "    group_coords = coords[0, :]";
  "    sort_coords = coords[1, :]";
  "    data = data.copy()";
  "    result_indices = np.empty_like(sort_coords)";
  "    prev_group = -1";
  "    group_first_idx = -1";
  "    group_last_idx = -1";
  "    for idx, group in enumerate(np.append(group_coords, -1)):";
  "        if group == prev_group:";
  "            continue";
  "        if prev_group != -1:";
  "            group_last_idx = idx";
  "            group_slice = slice(group_first_idx, group_last_idx)";
  "            group_size = group_last_idx - group_first_idx";
  "            if group_size > 1:";
  "                data[group_slice] = np.sort(data[group_slice])";
  "                if descending:";
  "                    data[group_slice] = data[group_slice][::-1]";
  "            fill_value_count = sort_axis_len - group_size";
  "            indices = np.arange(group_size)";
  "            for pos in range(group_size):";
  "                if not descending and fill_value < data[group_slice][pos] or (descending and fill_value > data[group_slice][pos]):";
  "                    indices[pos:] += fill_value_count";
  "                    break";
  "            result_indices[group_first_idx:group_last_idx] = indices";
  "        prev_group = group";
  "        group_first_idx = idx";
  "    return (np.vstack((group_coords, result_indices)), data)"
].

Definition pinned_compute_minmax_args : list string := [
  "@numba.jit(nopython=True, nogil=True)";
  "def _compute_minmax_args(coords: np.ndarray, data: np.ndarray, reduce_size: int, fill_value: float, max_mode_flag: bool) -> tuple[np.ndarray, np.ndarray]:";
  "    assert coords.shape[0] == 2";
  "    reduce_coords = coords[0, :]";
  "    index_coords = coords[1, :]";
  "    result_indices = np.unique(index_coords)";
  "    result_data = []";
  "    for result_index in np.nditer(result_indices):";
  "        mask = index_coords == result_index";
  "        masked_reduce_coords = reduce_coords[mask]";
  "        masked_data = data[mask]";
  "        compared_data = operator.gt(masked_data, fill_value) if max_mode_flag else operator.lt(masked_data, fill_value)";
  "        if np.any(compared_data) or len(masked_data) == reduce_size:";
  "            best_arg = np.argmax(masked_data) if max_mode_flag else np.argmin(masked_data)";
  "            result_data.append(masked_reduce_coords[best_arg])";
  "        else:";
  "            current_coord = np.array(-1, dtype=np.intp)";
  "            found = False";
  "            masked_reduce_coords = masked_reduce_coords[masked_data != fill_value]";
  "            for idx, new_coord in enumerate(np.nditer(np.sort(masked_reduce_coords))):";
  "                if new_coord - current_coord > 1:";
  "                    result_data.append(idx)";
  "                    found = True";
  "                    break";
  "                current_coord = new_coord.astype(np.intp)";
  "            if not found:";
  "                result_data.append(current_coord + 1)";
  "    return (result_indices, np.array(result_data, dtype=np.intp))"
].

Definition pinned_unique_counts : list string := [
  "def unique_counts(x, /):";
  "    x = _validate_coo_input(x)";
  "    x = x.flatten()";
  "    values, counts = np.unique(x.data, return_counts=True)";
  "    if x.nnz < x.size and np.any(values == x.fill_value):";
  "        counts[values == x.fill_value] += x.size - x.nnz";
  "    elif x.nnz < x.size:";
  "        values = np.concatenate([[x.fill_value], values])";
  "        counts = np.concatenate([[x.size - x.nnz], counts])";
  "        sorted_indices = np.argsort(values)";
  "        values = values[sorted_indices]";
  "        counts = counts[sorted_indices]";
  "    return UniqueCountsResult(values, counts)"
].

Definition pinned_unique_values : list string := [
  "def unique_values(x, /):";
  "    x = _validate_coo_input(x)";
  "    x = x.flatten()";
  "    values = np.unique(x.data)";
  "    if x.nnz < x.size:";
  "        values = np.unique(np.concatenate([[x.fill_value], values]))";
  "    return values"
].

Definition pinned_sort : list string := [
  "def sort(x, /, *, axis=-1, descending=False, stable=False):";
  "    from .._common import moveaxis";
  "    from .core import COO";
  "    x = _validate_coo_input(x)";
  "    if stable:";
  "        raise ValueError(""`stable=True` isn't currently supported."")";
  "    axis = normalize_axis(axis, x.ndim)";
  "    original_ndim = x.ndim";
  "    if x.ndim == 1:";
  "        x = x[None, :]";
  "        axis = -1";
  "    x = moveaxis(x, source=axis, destination=-1)";
  "    x_shape = x.shape";
  "    x = x.reshape((reduce(operator.mul, x_shape[:-1], 1), x_shape[-1]))";
  "    new_coords, new_data = _sort_coo(x.coords, x.data, x.fill_value, sort_axis_len=x_shape[-1], descending=descending)";
  "    x = COO(new_coords, new_data, x.shape, has_duplicates=False, sorted=True, fill_value=x.fill_value)";
  "    x = x.reshape(x_shape[:-1] + (x_shape[-1],))";
  "    x = moveaxis(x, source=-1, destination=axis)";
  "    return x if original_ndim == x.ndim else x.squeeze(0)"
].

Definition pinned_arg_minmax_common : list string := [
  "def _arg_minmax_common(x: SparseArray, axis: int | None, keepdims: bool, mode: str):";
  "    assert mode in ('max', 'min')";
  "    max_mode_flag = mode == 'max'";
  "    x = _validate_coo_input(x)";
  "    if not isinstance(axis, int | type(None)):";
  "        raise ValueError(f""`axis` must be `int` or `None`, but it's: {type(axis)}."")";
  "    if isinstance(axis, int) and axis >= x.ndim:";
  "        raise ValueError(f'`axis={axis}` is out of bounds for array of dimension {x.ndim}.')";
  "    if x.ndim == 0:";
  "        raise ValueError(""Input array must be at least 1-D, but it's 0-D."")";
  "    if axis is not None:";
  "        axis = normalize_axis(axis, x.ndim)";
  "    if x.size == 0 if axis is None else x.shape[axis] == 0:";
  "        raise ValueError(f'attempt to get arg{mode} of an empty sequence')";
  "    axis_none_original_ndim: int | None = None";
  "    if axis is None:";
  "        axis_none_original_ndim = x.ndim";
  "        x = x.reshape(-1)[:, None]";
  "        axis = 0";
  "    input_1d = axis_none_original_ndim is None and x.ndim == 1";
  "    if axis == 0 and x.ndim == 1:";
  "        x = x[:, None]";
  "    new_transpose = list(range(x.ndim))";
  "    new_transpose.insert(0, new_transpose.pop(axis))";
  "    new_transpose = tuple(new_transpose)";
  "    new_shape = list(x.shape)";
  "    new_shape.insert(0, new_shape.pop(axis))";
  "    new_shape = tuple(new_shape)";
  "    x = x.transpose(new_transpose)";
  "    x = x.reshape((new_shape[0], reduce(operator.mul, new_shape[1:], 1)))";
  "    result_indices, result_data = _compute_minmax_args(x.coords.copy(), x.data.copy(), reduce_size=x.shape[0], fill_value=x.fill_value, max_mode_flag=max_mode_flag)";
  "    from .core import COO";
  "    result = COO(result_indices, result_data, shape=(x.shape[1],), fill_value=0, prune=True)";
  "    result = result.reshape((1, *new_shape[1:]))";
  "    new_transpose = list(range(result.ndim))";
  "    new_transpose.insert(axis, new_transpose.pop(0))";
  "    result = result.transpose(new_transpose)";
  "    if axis_none_original_ndim is not None:";
  "        result = result.reshape([1 for _ in range(axis_none_original_ndim)])";
  "        return result if keepdims else result.squeeze()";
  "    if input_1d:";
  "        result = result.reshape((1,))";
  "    return result if keepdims else result.squeeze(axis)"
].

Definition pinned_argwhere : list string := [
  "def argwhere(a):";
  "    return np.transpose(a.nonzero())"
].

Definition pinned_where : list string := [
  "def where(condition, x=None, y=None):";
  "    from .._umath import elemwise";
  "    x_given = x is not None";
  "    y_given = y is not None";
  "    if not (x_given or y_given):";
  "        check_zero_fill_value(condition)";
  "        condition = asCOO(condition, name=str(np.where))";
  "        return tuple(condition.coords[:, condition.data != 0])";
  "    if x_given != y_given:";
  "        raise ValueError('either both or neither of x and y should be given')";
  "    return elemwise(np.where, condition, x, y)"
].

Definition pinned_COO_nonzero : list string := [
  "def nonzero(self):";
  "    check_zero_fill_value(self)";
  "    if self.ndim == 0:";
  "        raise ValueError('`nonzero` is undefined for `self.ndim == 0`.')";
  "    return tuple(self.coords[:, self.data != 0])"
].
