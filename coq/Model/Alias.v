(* Model/Alias.v — a tiny effect language for "does this function write into a buffer of one of
   its arguments?", its store semantics, and the boolean checker.

   A summary (generated per function by tools/sitegen/alias.py into Gen/S_alias.v) is a list of
     Bind v Fresh           v may hold a newly allocated buffer (np.zeros, .copy(), arithmetic, ...)
     Bind v (Alias a f)     v may hold field f of argument a  (x.coords, x.data, the array itself, ...)
     Bind v (View w)        v may hold whatever w holds        (basic slice, reshape, attribute, unknown call)
     Write v                some buffer held by v is modified in place
   Variables are SSA-like names; one variable may be bound several times (joins, loops).

   Semantics: the statements of a summary may execute in ANY order and ANY number of times (a
   schedule is a list of statement positions) — this over-approximates every control flow of the
   function.  A variable denotes the set of buffers it may hold; Bind adds to it; Write replaces
   the contents of every buffer of the set by whatever the write oracle says.  Argument buffers
   [ABuf a f] and allocated buffers [FBuf n] are distinct by construction.  No proofs here. *)
From Coq Require Import NArith List Bool String.
Import ListNotations.

Definition var := N.

Inductive src := Fresh | Alias (arg field : N) | View (w : var).
Inductive stmt := Bind (v : var) (s : src) | Write (v : var).

Record summary := mk_summary { s_name : string; s_body : list stmt }.

(* short constructors used by the generated table *)
Definition bF (v : var) : stmt := Bind v Fresh.
Definition bA (v : var) (a f : N) : stmt := Bind v (Alias a f).
Definition bV (v w : var) : stmt := Bind v (View w).
Definition wR (v : var) : stmt := Write v.

(* ------------------------------------------------------------------ checker *)
Definition vmem (v : var) (l : list var) : bool := existsb (N.eqb v) l.

(* variables bound directly to an argument *)
Fixpoint seeds (b : list stmt) : list var :=
  match b with
  | [] => []
  | Bind v (Alias _ _) :: r => if vmem v (seeds r) then seeds r else v :: seeds r
  | _ :: r => seeds r
  end.

(* one round of propagation along Bind v (View w) *)
Definition propagate (b : list stmt) (T : list var) : list var :=
  fold_left (fun T st => match st with
                         | Bind v (View w) => if vmem w T && negb (vmem v T) then v :: T else T
                         | _ => T
                         end) b T.

Fixpoint iterate (n : nat) (b : list stmt) (T : list var) : list var :=
  match n with
  | O => T
  | S k => let T' := propagate b T in
           if Nat.eqb (List.length T') (List.length T) then T else iterate k b T'
  end.

(* the set of variables that may hold an argument buffer *)
Definition tainted (b : list stmt) : list var := iterate (List.length b) b (seeds b).

(* T is closed under the bindings of b *)
Definition closed_b (b : list stmt) (T : list var) : bool :=
  forallb (fun st => match st with
                     | Bind v (Alias _ _) => vmem v T
                     | Bind v (View w) => implb (vmem w T) (vmem v T)
                     | _ => true
                     end) b.

Definition no_tainted_write (b : list stmt) (T : list var) : bool :=
  forallb (fun st => match st with Write v => negb (vmem v T) | _ => true end) b.

(* accepted: no Write reaches a buffer aliased to an argument.  (Closedness of the computed set is
   re-checked rather than proved, so an insufficient iteration count can only reject.) *)
Definition body_safe (b : list stmt) : bool :=
  let T := tainted b in closed_b b T && no_tainted_write b T.

Definition summary_safe (s : summary) : bool := body_safe (s_body s).

(* ------------------------------------------------------------------ semantics *)
Inductive buf := ABuf (a f : N) | FBuf (n : N).

Definition buf_eqb (x y : buf) : bool :=
  match x, y with
  | ABuf a f, ABuf a' f' => N.eqb a a' && N.eqb f f'
  | FBuf n, FBuf n' => N.eqb n n'
  | _, _ => false
  end.

Definition bmem (x : buf) (l : list buf) : bool := existsb (buf_eqb x) l.

Section Sem.
  Variable C : Type.                        (* contents of a buffer *)

  Record state := {
    env : var -> list buf;                  (* buffers a variable may hold *)
    store : buf -> C;
    next : N                                (* allocation counter *)
  }.

  Definition upd (e : var -> list buf) (v : var) (l : list buf) : var -> list buf :=
    fun x => if N.eqb x v then l else e x.

  (* wr step b old = the new contents of buffer b written at this step (it may leave it unchanged) *)
  Definition exec_stmt (wr : nat -> buf -> C -> C) (step : nat) (st : state) (s : stmt) : state :=
    match s with
    | Bind v Fresh =>
      {| env := upd (env st) v (FBuf (next st) :: env st v); store := store st; next := N.succ (next st) |}
    | Bind v (Alias a f) =>
      {| env := upd (env st) v (ABuf a f :: env st v); store := store st; next := next st |}
    | Bind v (View w) =>
      {| env := upd (env st) v (env st w ++ env st v); store := store st; next := next st |}
    | Write v =>
      {| env := env st;
         store := fun b => if bmem b (env st v) then wr step b (store st b) else store st b;
         next := next st |}
    end.

  Fixpoint exec (body : list stmt) (wr : nat -> buf -> C -> C) (sched : list nat) (step : nat) (st : state) : state :=
    match sched with
    | [] => st
    | i :: r =>
      exec body wr r (S step)
           (match nth_error body i with Some s => exec_stmt wr step st s | None => st end)
    end.

  (* the statements once each, in the order written *)
  Definition exec_seq (body : list stmt) (wr : nat -> buf -> C -> C) (st : state) : state :=
    exec body wr (seq 0 (List.length body)) 0 st.

  Definition start (sto : buf -> C) : state := {| env := fun _ => []; store := sto; next := 0%N |}.
End Sem.

(* ------------------------------------------------------------------ the explicit out= target *)
(* objects are attribute dictionaries in a heap; SparseArray._make_shallow_copy_of(self, other) is
   `self.__dict__ = other.__dict__.copy()`: object self gets other's attribute bindings (the same
   buffers, not copies); no other object and no buffer changes. *)
Section Out.
  Variable D : Type.                      (* attribute dictionaries *)
  Definition oheap := nat -> D.
  Definition shallow_copy_of (h : oheap) (self other : nat) : oheap :=
    fun i => if Nat.eqb i self then h other else h i.
End Out.

Arguments env {C} s.
Arguments store {C} s.
Arguments next {C} s.
