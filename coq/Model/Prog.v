(* Model/Prog.v — property C06, part 2: programs = compositions of operations over an abstract
   signature (creation / unary / binary / n-ary operations on arrays, each carrying its
   parameters), their evaluation, and the instance whose operations are built from the
   constructor of Model/Ctor.v with the flags of the call sites they transcribe.
   Definitions only. *)
From Coq Require Import String ZArith List Bool.
From Verif Require Import Shape COO GCXS Ctor.
Import ListNotations.
Open Scope Z_scope.

(* ------------------------------------------------------------------ abstract programs *)

Section Prog.
  Variable A : Type.                         (* arrays *)
  Variables O0 O1 O2 ON : Type.              (* operations with their parameters, by arity *)
  (* None = the operation raises (invalid parameters); nothing is returned *)
  Variable sem0 : O0 -> option A.
  Variable sem1 : O1 -> A -> option A.
  Variable sem2 : O2 -> A -> A -> option A.
  Variable semN : ON -> list A -> option A.

  Inductive prog :=
  | PInput (n : nat)                         (* n-th operand of the program *)
  | PCreate (o : O0)
  | PUn (o : O1) (p : prog)
  | PBin (o : O2) (p q : prog)
  | PNary (o : ON) (ps : list prog).

  Fixpoint eval (env : list A) (p : prog) : option A :=
    match p with
    | PInput n => nth_error env n
    | PCreate o => sem0 o
    | PUn o p => match eval env p with Some a => sem1 o a | None => None end
    | PBin o p q =>
      match eval env p, eval env q with Some a, Some b => sem2 o a b | _, _ => None end
    | PNary o ps =>
      match (fix evs (l : list prog) : option (list A) :=
               match l with
               | [] => Some []
               | p :: r => match eval env p, evs r with Some a, Some t => Some (a :: t) | _, _ => None end
               end) ps with
      | Some l => semN o l
      | None => None
      end
    end.

  Fixpoint eval_list (env : list A) (l : list prog) : option (list A) :=
    match l with
    | [] => Some []
    | p :: r => match eval env p, eval_list env r with Some a, Some t => Some (a :: t) | _, _ => None end
    end.

  Fixpoint depth (p : prog) : nat :=
    match p with
    | PInput _ | PCreate _ => O
    | PUn _ p => S (depth p)
    | PBin _ p q => S (Nat.max (depth p) (depth q))
    | PNary _ ps => S (fold_right (fun p m => Nat.max (depth p) m) O ps)
    end.
End Prog.

Arguments PInput {O0 O1 O2 ON}.
Arguments PCreate {O0 O1 O2 ON}.
Arguments PUn {O0 O1 O2 ON}.
Arguments PBin {O0 O1 O2 ON}.
Arguments PNary {O0 O1 O2 ON}.

(* ------------------------------------------------------------------ the constructor-level instance *)

Open Scope string_scope.

(* flags of a call site as recorded in the justification table (tied to the source by
   Props.C06.all_promises_justified); nothing promised when the site is not in the table *)
Definition site_flags (file func : string) (ord : Z) (prune : bool) : flags :=
  match find_entry file func ord with
  | Some e => entry_flags e prune
  | None => mkFlags false true prune
  end.

Definition fl_triu := site_flags "_coo/common.py" "triu" 0 false.
Definition fl_reshape := site_flags "_coo/core.py" "COO.reshape" 0 false.
Definition fl_concat0 := site_flags "_coo/common.py" "concatenate" 1 false.   (* sorted=(axis == 0), axis = 0 *)
Definition fl_full := site_flags "_common.py" "full" 0 false.
(* COO(coords, data, shape, prune=True): the defaults, nothing promised *)
Definition fl_plain_prune := mkFlags false true true.

Close Scope string_scope.

Section CooOps.
  Variable V : Type.
  Variable veqb : V -> V -> bool.
  Variable add : V -> V -> V.

  Notation ctor := (coo_ctor V veqb add).

  Definition shape_okb (sh : shape) : bool := forallb (fun d => 0 <=? d) sh.

  Inductive cop0 :=
  | CFull (sh : shape) (fill : V)             (* sparse.full / zeros: no stored entries *)
  | CFromDense (d : dense V) (fill : V).      (* COO.from_numpy *)

  Inductive cop1 :=
  | UFilter (p : idx -> V -> bool)            (* triu / tril / mask selections *)
  | UReshape (sh' : shape)                    (* COO.reshape *)
  | UNormalize.                               (* COO(x.coords, x.data, x.shape, prune=True) *)

  Inductive cop2 :=
  | BAdd                                      (* COO(coords_a ++ coords_b, data_a ++ data_b, prune=True):
                                                 duplicates are summed = element-wise + for fill 0 *)
  | BConcat0.                                 (* concatenate((a, b), axis=0) *)

  Inductive copN := NConcat0.                 (* concatenate(arrays, axis=0) *)

  Definition csem0 (o : cop0) : option (coo V) :=
    match o with
    | CFull sh fill => if shape_okb sh then Some (ctor fl_full [] [] sh fill) else None
    | CFromDense d fill => Some (from_dense veqb d fill)
    end.

  Definition csem1 (o : cop1) (c : coo V) : option (coo V) :=
    match o with
    | UFilter p =>
      let es := filter (fun e => p (fst e) (snd e)) (entries c) in
      Some (ctor fl_triu (map fst es) (map snd es) (c_shape c) (c_fill c))
    | UReshape sh' =>
      if shape_okb sh' && (size sh' =? size (c_shape c)) then
        Some (ctor fl_reshape (map (fun k => unravel sh' (ravel (c_shape c) k)) (c_coords c))
                   (c_data c) sh' (c_fill c))
      else None
    | UNormalize => Some (ctor fl_plain_prune (c_coords c) (c_data c) (c_shape c) (c_fill c))
    end.

  Definition concat0 (l : list (coo V)) : option (coo V) :=
    match l with
    | [] => None
    | a0 :: _ =>
      let tail := tl (c_shape a0) in
      if forallb (fun c => match c_shape c with d :: t => (0 <=? d) && idx_eqb t tail | [] => false end
                           && veqb (c_fill c) (c_fill a0)) l then
        let blocks := map (fun c => (hd 0 (c_shape c), c_coords c)) l in
        Some (ctor fl_concat0 (offset_concat 0 blocks) (concat (map (@c_data V) l))
                   (total_extent blocks :: tail) (c_fill a0))
      else None
    end.

  Definition csem2 (o : cop2) (a b : coo V) : option (coo V) :=
    match o with
    | BAdd =>
      if idx_eqb (c_shape a) (c_shape b) && veqb (c_fill a) (c_fill b) then
        Some (ctor fl_plain_prune (c_coords a ++ c_coords b) (c_data a ++ c_data b) (c_shape a) (c_fill a))
      else None
    | BConcat0 => concat0 [a; b]
    end.

  Definition csemN (o : copN) (l : list (coo V)) : option (coo V) :=
    match o with NConcat0 => concat0 l end.

  Definition cprog := prog cop0 cop1 cop2 copN.
  Definition ceval := eval (coo V) cop0 cop1 cop2 copN csem0 csem1 csem2 csemN.

  (* number of in-range positions whose value differs from the fill *)
  Definition count_nonfill (c : coo V) : Z :=
    Z.of_nat (length (filter (fun ix => negb (veqb (den c ix) (c_fill c))) (all_indices (c_shape c)))).
End CooOps.
