(* Model/ElemwiseApi.v — the element-wise core at the level of the public API:
   (a) operands in any sparse format: _Elemwise.__init__ converts every SparseArray operand with
       .asformat(COO) (Model/Convert.v: to_coo), runs the COO core (Model/Elemwise.v) and converts the
       result with .asformat(out_type, **out_kwargs) — except for the zero-extent shortcut;
   (b) objects: statements that bind a new object (the result of an operation, or of astype) and
       statements that overwrite an existing object in place (in-place operators, out=):
       SparseArray._make_shallow_copy_of re-binds the attributes of exactly the target object
       (Model/Alias.v: shallow_copy_of).  Definitions only. *)
From Coq Require Import ZArith List Bool.
From Verif Require Import Py Shape COO GCXS NpElemwise S_umath Elemwise Alias Convert.
Import ListNotations.
Open Scope Z_scope.

Section Api.
  Variable V : Type.
  Variable veqb : V -> V -> bool.
  Variable add : V -> V -> V.             (* only used by COO.from_iter on duplicate dict keys (never on a dict) *)
  Variable vzero : V.
  Variable f : list V -> V.
  Variable scal : nat -> bool.            (* operand positions holding a Python / NumPy scalar *)
  Variable srt : list Z -> list nat.

  Inductive api_arg := AArr (x : repr V) | ADn (d : dense V).

  Definition arg_afmt (a : api_arg) : afmt :=
    match a with
    | AArr (RCoo _) => ACoo
    | AArr (RGcxs g) => AGcxs (g_caxes g)
    | AArr (RDok _ _ _) => ADok
    | _ => AOther
    end.

  (* `arg.asformat(COO)` for sparse operands; scalars and ndarrays are kept *)
  Definition to_operand (a : api_arg) : res (operand V) :=
    match a with
    | AArr x => c <- to_coo veqb add x ;; Ok (OSp c)
    | ADn d => Ok (ODn d)
    end.

  (* .asformat(out_type, **out_kwargs) *)
  Definition hop_of (o : ofmt) : Convert.fmt :=
    match o with OutCoo => FCoo | OutGcxs oa => FGcxs oa | OutDok => FDok end.

  Definition elemwise_api (args : list api_arg) : res (repr V + dense V) :=
    match out_format (map arg_afmt args) with
    | None => Raise ValueError
    | Some o =>
      ops <- mapM to_operand args ;;
      match elemwise_sc V veqb vzero f scal srt ops with
      | OutErr e => Raise e
      | OutDense d => Ok (inr d)
      | OutSparse r => x <- convert veqb add (hop_of (result_format o (c_shape r))) (RCoo r) ;; Ok (inl x)
      end
    end.

  (* the operand's value at index q of the broadcast shape *)
  Definition api_val (a : api_arg) (q : idx) : V :=
    match a with
    | AArr x => den_r x (bcast_idx (shape_r x) q)
    | ADn d => dense_get vzero d (bcast_idx (d_shape d) q)
    end.

  Definition api_shape (a : api_arg) : shape := match a with AArr x => shape_r x | ADn d => d_shape d end.
End Api.

Arguments AArr {V}.
Arguments ADn {V}.

(* ------------------------------------------------------------------ objects and in-place forms *)
Section Store.
  Variable V : Type.
  Variable veqb : V -> V -> bool.
  Variable vzero : V.
  Variable srt : list Z -> list nat.

  (* operands of a statement: a variable or a literal scalar *)
  Inductive ref := RVar (v : nat) | RLit (c : V).

  Inductive stmt :=
  | SOp (g : list V -> V) (args : list ref)                  (* v_new = g(args)                       *)
  | SInplace (t : nat) (g : list V -> V) (args : list ref)   (* t op= ... / np.g(args, out=t) / x.round(out=t) *)
  | SAstype (src : nat) (same_dtype copy : bool).            (* v_new = src.astype(dtype, copy=copy), value-preserving *)

  (* variables name objects; objects live in a heap (Model/Alias.v: an attribute dictionary per object) *)
  Record state := mkState { s_env : list nat; s_heap : oheap (option (operand V)); s_next : nat }.

  Definition lookup_var (st : state) (v : nat) : option (operand V) :=
    match nth_error (s_env st) v with Some o => s_heap st o | None => None end.

  Definition lookup_ref (st : state) (r : ref) : option (operand V) :=
    match r with RVar v => lookup_var st v | RLit c => Some (ODn (mkDense [] [c])) end.

  Fixpoint all_some {A} (l : list (option A)) : option (list A) :=
    match l with
    | [] => Some []
    | Some a :: r => match all_some r with Some t => Some (a :: t) | None => None end
    | None :: _ => None
    end.

  Definition one_step (g : list V -> V) (args : list (operand V)) : option (operand V) :=
    if existsb (is_sparse V) args then
      match elemwise V veqb vzero g srt args with OutSparse r => Some (OSp r) | _ => None end
    else Some (ODn (mkDense [] [g (map (fun a => operand_at V vzero a []) args)])).

  Definition put (h : oheap (option (operand V))) (o : nat) (a : operand V) : oheap (option (operand V)) :=
    fun i => if Nat.eqb i o then Some a else h i.

  (* None = the step raised *)
  Definition exec_stmt (st : state) (s : stmt) : option state :=
    match s with
    | SOp g args =>
      match all_some (map (lookup_ref st) args) with
      | Some ops =>
        match one_step g ops with
        | Some a => Some (mkState (s_env st ++ [s_next st]) (put (s_heap st) (s_next st) a) (S (s_next st)))
        | None => None
        end
      | None => None
      end
    | SInplace t g args =>
      match nth_error (s_env st) t, lookup_var st t, all_some (map (lookup_ref st) args) with
      | Some ot, Some old, Some ops =>
        match one_step g ops with
        | Some a =>
          if list_eq_dec Z.eq_dec (op_shape V a) (op_shape V old) then
            (* the result is a new object; then `out._make_shallow_copy_of(result)` *)
            let h1 := put (s_heap st) (s_next st) a in
            Some (mkState (s_env st) (shallow_copy_of _ h1 ot (s_next st)) (S (s_next st)))
          else None                                             (* non-broadcastable output operand *)
        | None => None
        end
      | _, _, _ => None
      end
    | SAstype src same copy =>
      match nth_error (s_env st) src, lookup_var st src with
      | Some os, Some a =>
        let o' := astype_object os (s_next st) same copy in
        match one_step (fun l => hd vzero l) [a] with            (* the trip through the core with the identity *)
        | Some a' =>
          Some (mkState (s_env st ++ [o'])
                        (if Nat.eqb o' os then s_heap st else put (s_heap st) (s_next st) a') (S (s_next st)))
        | None => None
        end
      | _, _ => None
      end
    end.

  Fixpoint exec (st : state) (p : list stmt) : option state :=
    match p with
    | [] => Some st
    | s :: r => match exec_stmt st s with Some st' => exec st' r | None => None end
    end.
End Store.

Arguments RVar {V}.
Arguments RLit {V}.
