(* Model/SparseOps.v — property C16 (sparse stays sparse).

   A self-contained SPARSE-ONLY reference implementation of the operation families of the
   property on [coo Z] (Model/COO.v): every function works on the list of stored entries only
   and never enumerates [all_indices] of a shape, so it can be evaluated (vm_compute) on arrays
   with 10^18 logical elements.  Each operation [op] is written in traced form [op_tr], returning
   the result together with the lengths of EVERY entry list it builds (the operand entry lists,
   every intermediate, the result); [cost_of] is the maximum of that trace.  Index tuples (length
   = number of axes) are the elements of those lists and are not counted.
   Proofs/SparseOpsP.v proves (a) [mem_bound_<op>]: the cost is bounded by the numbers of stored
   elements (plus the inherent row count for the GCXS-like form) — independently of [size (shape)] —
   and (b) [<op>_sparse_den]: the result has the NumPy meaning ([den]), so that the reference is a
   legitimate oracle for astronomically large shapes.

   The reviewed list of dense-allocation sites of the source (tie (i) of DESIGN §4/C16) is in
   Model/DenseSites.v, so that the correspondence judge does not depend on the generated table.
   Definitions only. *)
From Coq Require Import ZArith List Bool.
From Verif Require Import Shape COO.
Import ListNotations.
Open Scope Z_scope.

Definition ent := (idx * Z)%type.
Definition zlen {A} (l : list A) : Z := Z.of_nat (length l).

Definition of_entries (sh : shape) (es : list ent) (fill : Z) : coo Z :=
  mkCOO sh (map fst es) (map snd es) fill.

Definition traced := (coo Z * list Z)%type.
Definition cost_of {A} (t : A * list Z) : Z := fold_right Z.max 0 (snd t).

Definition memb (k : idx) (ks : list idx) : bool := existsb (idx_eqb k) ks.
Definition storedb (es : list ent) (k : idx) : bool :=
  match lookup es k with Some _ => true | None => false end.
Definition zsum (l : list Z) : Z := fold_right Z.add 0 l.

(* keep the first occurrence of every tuple *)
Definition dedup (l : list idx) : list idx :=
  fold_right (fun k acc => if memb k acc then acc else k :: acc) [] l.

(* ------------------------------------------------------------------ element-wise *)

(* unary function / scalar operand: new fill = f fill *)
Definition sp_map_tr (f : Z -> Z) (x : coo Z) : traced :=
  let ex := entries x in
  let r := map (fun kv => (fst kv, f (snd kv))) ex in
  (of_entries (c_shape x) r (f (c_fill x)), [zlen ex; zlen r]).
Definition sp_map f x := fst (sp_map_tr f x).

(* two operands of the same shape: union of the stored positions, new fill = f fill fill *)
Definition sp_zip_tr (f : Z -> Z -> Z) (x y : coo Z) : traced :=
  let ex := entries x in
  let ey := entries y in
  let a := map (fun kv => (fst kv, f (snd kv) (den y (fst kv)))) ex in
  let yo := filter (fun kv => negb (storedb ex (fst kv))) ey in
  let b := map (fun kv => (fst kv, f (c_fill x) (snd kv))) yo in
  let r := b ++ a in
  (of_entries (c_shape x) r (f (c_fill x) (c_fill y)), [zlen ex; zlen ey; zlen a; zlen yo; zlen b; zlen r]).
Definition sp_zip f x y := fst (sp_zip_tr f x y).

(* second operand read through an index map h (broadcasting of a (1,N,1)-like operand, or any
   gather), for functions f that the fill of x annihilates:  f fill_x w  does not depend on w
   (x * y with fill_x = 0).  Only the stored positions of x can be non-fill. *)
Definition sp_zipl_tr (f : Z -> Z -> Z) (h : idx -> idx) (x y : coo Z) : traced :=
  let ex := entries x in
  let r := map (fun kv => (fst kv, f (snd kv) (den y (h (fst kv))))) ex in
  (of_entries (c_shape x) r (f (c_fill x) (c_fill y)), [zlen ex; zlen (entries y); zlen r]).
Definition sp_zipl f h x y := fst (sp_zipl_tr f h x y).

(* index of the broadcast operand of shape shy that position ix of the result reads *)
Definition bcast_idx (shy : shape) (ix : idx) : idx :=
  let ix' := skipn (length ix - length shy) ix in
  map (fun di => if fst di =? 1 then 0 else snd di) (combine shy ix').

(* ------------------------------------------------------------------ coordinate maps *)

(* keep the entries whose coordinates satisfy p, move them to g(coordinates) *)
Definition sp_remap_tr (sh' : shape) (p : idx -> bool) (g : idx -> idx) (x : coo Z) : traced :=
  let ex := entries x in
  let a := filter (fun kv => p (fst kv)) ex in
  let r := map (fun kv => (g (fst kv), snd kv)) a in
  (of_entries sh' r (c_fill x), [zlen ex; zlen a; zlen r]).
Definition sp_remap sh' p g x := fst (sp_remap_tr sh' p g x).

(* transpose: result axis j is source axis perm[j] *)
Definition permute (perm : list nat) (k : idx) : idx := map (fun a => nth a k 0) perm.
Definition is_permb (perm : list nat) (n : nat) : bool :=
  (length perm =? n)%nat && forallb (fun a => existsb (Nat.eqb a) perm) (seq 0 n).
Definition sp_transpose_tr (perm : list nat) (x : coo Z) : traced :=
  sp_remap_tr (permute perm (c_shape x)) (fun _ => true) (permute perm) x.
Definition sp_transpose perm x := fst (sp_transpose_tr perm x).

(* reshape: same row-major linear position *)
Definition sp_reshape_tr (sh' : shape) (x : coo Z) : traced :=
  sp_remap_tr sh' (fun _ => true) (fun k => unravel sh' (ravel (c_shape x) k)) x.
Definition sp_reshape sh' x := fst (sp_reshape_tr sh' x).

(* basic indexing: per axis an integer or a normalised slice (start, step <> 0, number of
   selected positions); trailing axes need a full slice entry *)
Inductive asel := AInt (i : Z) | ASlice (start step len : Z).

Fixpoint sel_match (sel : list asel) (k : idx) : bool :=
  match sel, k with
  | [], [] => true
  | AInt i :: s, c :: k' => (c =? i) && sel_match s k'
  | ASlice st sp n :: s, c :: k' =>
      ((c - st) mod sp =? 0) && (0 <=? (c - st) / sp) && ((c - st) / sp <? n) && sel_match s k'
  | _, _ => false
  end.

Fixpoint sel_map (sel : list asel) (k : idx) : idx :=
  match sel, k with
  | AInt _ :: s, _ :: k' => sel_map s k'
  | ASlice st sp _ :: s, c :: k' => (c - st) / sp :: sel_map s k'
  | _, _ => []
  end.

(* the source position that result position ix reads *)
Fixpoint sel_src (sel : list asel) (ix : idx) : idx :=
  match sel with
  | [] => []
  | AInt i :: s => i :: sel_src s ix
  | ASlice st sp _ :: s =>
      match ix with j :: ix' => (st + sp * j) :: sel_src s ix' | [] => [] end
  end.

Fixpoint sel_shape (sel : list asel) : shape :=
  match sel with
  | [] => []
  | AInt _ :: s => sel_shape s
  | ASlice _ _ n :: s => n :: sel_shape s
  end.

Definition sel_okb (sel : list asel) : bool :=
  forallb (fun a => match a with AInt _ => true | ASlice _ sp n => negb (sp =? 0) && (0 <=? n) end) sel.

Definition sp_getitem_tr (sel : list asel) (x : coo Z) : traced :=
  sp_remap_tr (sel_shape sel) (sel_match sel) (sel_map sel) x.
Definition sp_getitem sel x := fst (sp_getitem_tr sel x).

(* ------------------------------------------------------------------ joining *)

Definition shift_axis (a : nat) (off : Z) (k : idx) : idx :=
  firstn a k ++ match skipn a k with c :: r => (c + off) :: r | [] => [] end.

Definition sp_concat_tr (a : nat) (x y : coo Z) : traced :=
  let da := nth a (c_shape x) 0 in
  let ex := entries x in
  let ey := entries y in
  let b := map (fun kv => (shift_axis a da (fst kv), snd kv)) ey in
  let r := ex ++ b in
  (of_entries (shift_axis a (nth a (c_shape y) 0) (c_shape x)) r (c_fill x), [zlen ex; zlen ey; zlen b; zlen r]).
Definition sp_concat a x y := fst (sp_concat_tr a x y).

(* stack = concatenate after inserting a length-1 axis (a reshape) *)
Definition insert_at (a : nat) (v : Z) (k : idx) : idx := firstn a k ++ v :: skipn a k.
Definition sp_stack_tr (a : nat) (x y : coo Z) : traced :=
  let x1 := sp_reshape_tr (insert_at a 1 (c_shape x)) x in
  let y1 := sp_reshape_tr (insert_at a 1 (c_shape y)) y in
  let r := sp_concat_tr a (fst x1) (fst y1) in
  (fst r, snd x1 ++ snd y1 ++ snd r).
Definition sp_stack a x y := fst (sp_stack_tr a x y).

(* ------------------------------------------------------------------ reductions over an axis subset *)

(* mask: one boolean per axis, true = the axis is reduced *)
Fixpoint kept (mask : list bool) (k : idx) : idx :=
  match mask, k with
  | m :: ms, c :: k' => if m then kept ms k' else c :: kept ms k'
  | _, _ => []
  end.
Fixpoint red (mask : list bool) (k : idx) : idx :=
  match mask, k with
  | m :: ms, c :: k' => if m then c :: red ms k' else red ms k'
  | _, _ => []
  end.
(* the full index with kept coordinates jx and reduced coordinates r *)
Fixpoint merge (mask : list bool) (jx r : idx) : idx :=
  match mask with
  | [] => []
  | true :: ms => match r with c :: r' => c :: merge ms jx r' | [] => [] end
  | false :: ms => match jx with c :: j' => c :: merge ms j' r | [] => [] end
  end.

Definition group (mask : list bool) (es : list ent) (jx : idx) : list ent :=
  filter (fun kv => idx_eqb (kept mask (fst kv)) jx) es.

Definition sum_value (mask : list bool) (es : list ent) (fill R : Z) (jx : idx) : Z :=
  let g := group mask es jx in zsum (map snd g) + fill * (R - zlen g).

Definition max_value (mask : list bool) (es : list ent) (fill R : Z) (jx : idx) : Z :=
  let g := group mask es jx in
  match map snd g with
  | [] => fill
  | v :: vs => let m := fold_left Z.max vs v in if zlen g <? R then Z.max m fill else m
  end.

(* grouping by the kept coordinates; the positions of a group that are not stored hold the fill,
   their number is (product of the reduced extents) - (size of the group) *)
Definition sp_reduce_tr (value : list bool -> list ent -> Z -> Z -> idx -> Z) (newfill : Z -> Z -> Z)
           (mask : list bool) (x : coo Z) : traced :=
  let ex := entries x in
  let R := size (red mask (c_shape x)) in
  let kk := map (fun kv => kept mask (fst kv)) ex in
  let ks := dedup kk in
  let r := map (fun jx => (jx, value mask ex (c_fill x) R jx)) ks in
  (of_entries (kept mask (c_shape x)) r (newfill (c_fill x) R),
   [zlen ex; zlen kk; zlen ks; zlen r] ++ map (fun jx => zlen (group mask ex jx)) ks).

Definition sp_sum_tr := sp_reduce_tr sum_value (fun fill R => fill * R).
Definition sp_sum mask x := fst (sp_sum_tr mask x).
Definition sp_max_tr := sp_reduce_tr max_value (fun fill _ => fill).
(* M is the maximum of the (non-empty) list l *)
Definition is_max (M : Z) (l : list Z) : Prop := In M l /\ forall v, In v l -> v <= M.
Definition sp_max mask x := fst (sp_max_tr mask x).

(* ------------------------------------------------------------------ 2-d product on entry lists *)

Definition mm_value (ex : list ent) (y : coo Z) (ij : idx) : Z :=
  let i := nth 0 ij 0 in let j := nth 1 ij 0 in
  zsum (map (fun kv => snd kv * den y [nth 1 (fst kv) 0; j])
            (filter (fun kv => nth 0 (fst kv) 0 =? i) ex)).

Definition sp_matmul_tr (x y : coo Z) : traced :=
  let ex := entries x in
  let ey := entries y in
  let cand := flat_map (fun kv1 =>
                map (fun kv2 => [nth 0 (fst kv1) 0; nth 1 (fst kv2) 0])
                    (filter (fun kv2 => nth 0 (fst kv2) 0 =? nth 1 (fst kv1) 0) ey)) ex in
  let ks := dedup cand in
  let r := map (fun ij => (ij, mm_value ex y ij)) ks in
  (of_entries [nth 0 (c_shape x) 0; nth 1 (c_shape y) 0] r 0,
   [zlen ex; zlen ey; zlen cand; zlen ks; zlen r]).
Definition sp_matmul x y := fst (sp_matmul_tr x y).

(* ------------------------------------------------------------------ COO <-> GCXS-like rows *)

(* mask: true = compressed axis.  Row number = row-major position of the compressed coordinates,
   column number = row-major position of the others; a row is its list of (column, value). *)
Definition crows := list (list (Z * Z)).

Definition row_of (mask : list bool) (sh : shape) (k : idx) : Z := ravel (red mask sh) (red mask k).
Definition col_of (mask : list bool) (sh : shape) (k : idx) : Z := ravel (kept mask sh) (kept mask k).

Definition rows_of_coo_tr (mask : list bool) (x : coo Z) : crows * list Z :=
  let sh := c_shape x in
  let ex := entries x in
  let rs := zrange (size (red mask sh)) in
  let rows := map (fun r => map (fun kv => (col_of mask sh (fst kv), snd kv))
                                (filter (fun kv => row_of mask sh (fst kv) =? r) ex)) rs in
  (rows, [zlen ex; zlen rs; zlen rows] ++ map zlen rows).
Definition rows_of_coo mask x := fst (rows_of_coo_tr mask x).

Definition coo_of_rows_tr (mask : list bool) (sh : shape) (fill : Z) (rows : crows) : traced :=
  let rs := zrange (zlen rows) in
  let tagged := combine rs rows in
  let es := flat_map (fun rr => map (fun cv => (merge mask (unravel (kept mask sh) (fst cv))
                                                              (unravel (red mask sh) (fst rr)), snd cv))
                                     (snd rr)) tagged in
  (of_entries sh es fill, [zlen rows; zlen rs; zlen tagged; zlen es]).
Definition coo_of_rows mask sh fill rows := fst (coo_of_rows_tr mask sh fill rows).

(* the three arrays of the compressed form (indptr has one entry per row plus one) *)
Definition indptr_of (rows : crows) : list Z :=
  let fix go (acc : Z) (l : crows) := match l with [] => [acc] | r :: t => acc :: go (acc + zlen r) t end in
  go 0 rows.
Definition indices_of (rows : crows) : list Z := map fst (concat rows).
Definition data_of (rows : crows) : list Z := map snd (concat rows).

(* ------------------------------------------------------------------ comparison on the union of supports *)

(* two arrays have the same dense meaning everywhere iff they have the same fill and agree on
   every stored position of either (checked without enumerating the shape) *)
Definition same_denb (a b : coo Z) : bool :=
  (c_fill a =? c_fill b)
  && forallb (fun k => den a k =? den b k) (c_coords a)
  && forallb (fun k => den a k =? den b k) (c_coords b).

(* ------------------------------------------------------------------ well-formed operands *)

(* what the den-theorems ask of an operand: non-negative extents, stored coordinates in range and
   pairwise distinct, one datum per coordinate (sortedness is NOT required) *)
Fixpoint nodupb (l : list idx) : bool :=
  match l with [] => true | a :: r => negb (memb a r) && nodupb r end.

Definition wfb (x : coo Z) : bool :=
  forallb (fun d => 0 <=? d) (c_shape x)
  && forallb (in_rangeb (c_shape x)) (c_coords x)
  && nodupb (c_coords x)
  && (length (c_data x) =? length (c_coords x))%nat.
