(* Model/SortSearch.v — executable transcription of the searching / sorting / set functions of
   sparse/numba_backend/_coo/common.py (`_sort_coo`, `sort`, `_compute_minmax_args`,
   `_arg_minmax_common`, `unique_values`, `unique_counts`, `where` with one argument, `argwhere`)
   and `_coo/core.py:COO.nonzero`, with the branch structure of the source, over integer data.
   Definitions only; proofs are in Proofs/SortSearchP.v.  The calls the code makes to NumPy
   (np.sort, np.argmax/argmin, np.unique, np.argsort) are the list functions of Spec/NpSort.v.
   Not modelled: dtypes, NaN ordering, complex data, the reshape/transpose memo. *)
From Coq Require Import ZArith List Bool.
From Verif Require Import Py Shape COO NpSort.
Import ListNotations.
Open Scope Z_scope.

(* ------------------------------------------------------------------ small helpers *)
Definition znth (l : list Z) (k : Z) : Z := nth (Z.to_nat k) l 0.
Definition iota (n : nat) : list Z := map Z.of_nat (seq 0 n).
Definition zlen {A} (l : list A) : Z := Z.of_nat (length l).
Definition zip2 (a b : list Z) : list idx := map (fun p => [fst p; snd p]) (combine a b).

(* list.pop(i) and list.insert(i, v) with Python's treatment of negative positions *)
Definition py_pop (l : list Z) (i : Z) : res (Z * list Z) :=
  let n := zlen l in
  let j := if i <? 0 then i + n else i in
  if (j <? 0) || (n <=? j) then Raise IndexError
  else Ok (znth l j, remove_nth l (Z.to_nat j)).
Definition py_insert (l : list Z) (i v : Z) : list Z :=
  let n := zlen l in
  let j := Z.to_nat (if i <? 0 then Z.max 0 (i + n) else Z.min i n) in
  firstn j l ++ v :: skipn j l.

(* ------------------------------------------------------------------ _sort_coo *)

(* the test of the `for pos in range(group_size)` loop: the fill value comes before data[pos] *)
Definition fill_before (desc : bool) (fill d : Z) : bool :=
  (negb desc && (fill <? d)) || (desc && (fill >? d)).

Fixpoint arange_from (a : Z) (n : nat) : list Z :=
  match n with O => [] | S n' => a :: arange_from (a + 1) n' end.

(* indices = arange(group_size); at the first pos where the fill comes before data[pos]:
   indices[pos:] += fill_value_count; break *)
Fixpoint place (desc : bool) (fill fc : Z) (l : list Z) (pos : Z) : list Z :=
  match l with
  | [] => []
  | d :: r => if fill_before desc fill d
              then map (fun k => k + fc) (arange_from pos (length l))
              else pos :: place desc fill fc r (pos + 1)
  end.

(* one closed group: (result_indices[first:last], data[first:last]) *)
Definition sort_group (desc : bool) (fill len : Z) (cur : list Z) : list Z * list Z :=
  let size := zlen cur in
  let sorted := if 1 <? size then (let s := np_sort cur in if desc then rev s else s) else cur in
  (place desc fill (len - size) sorted 0, sorted).

(* positions the loop never writes: data unchanged, result_indices = np.empty_like garbage (0 here;
   reachable only when a group coordinate is -1, which no COO array has) *)
Definition unwritten (cur : list Z) : list Z * list Z := (map (fun _ => 0) cur, cur).

(* the scan `for idx, group in enumerate(np.append(group_coords, -1))`; prev = prev_group,
   cur = data[group_first_idx:idx] of the group that is open; returns the pair
   (result_indices, data) from group_first_idx on *)
Fixpoint sort_scan (desc : bool) (fill len : Z) (gs ds : list Z) (prev : Z) (cur : list Z)
  : list Z * list Z :=
  match gs, ds with
  | g :: gs', d :: ds' =>
    if g =? prev then sort_scan desc fill len gs' ds' prev (cur ++ [d])          (* continue *)
    else
      let '(i1, d1) := if negb (prev =? -1) then sort_group desc fill len cur else unwritten cur in
      let '(i2, d2) := sort_scan desc fill len gs' ds' g [d] in
      (i1 ++ i2, d1 ++ d2)
  | _, _ =>                                                                      (* the sentinel -1 *)
    if -1 =? prev then unwritten cur else sort_group desc fill len cur
  end.

(* returns (group_coords, result_indices, data); sort_coords only gives the length *)
Definition sort_coo (gc sc data : list Z) (fill len : Z) (desc : bool) : list Z * list Z * list Z :=
  let '(ri, d) := sort_scan desc fill len gc data (-1) [] in (gc, ri, d).

(* ------------------------------------------------------------------ COO plumbing used by the wrappers *)

Definition ndimZ (x : coo Z) : Z := zlen (c_shape x).

(* COO.__init__ with sorted=False: stable sort of the entries by row-major position *)
Fixpoint insert_entry (e : idx * Z) (l : list (idx * Z)) : list (idx * Z) :=
  match l with
  | [] => [e]
  | y :: r => if lex_ltb (fst y) (fst e) then y :: insert_entry e r else e :: l
  end.
Definition sort_entries (es : list (idx * Z)) : list (idx * Z) := fold_right insert_entry [] es.

(* COO.transpose(axes), axes already normalised and a permutation *)
Definition ss_transpose (x : coo Z) (axes : list Z) : coo Z :=
  if idx_eqb axes (iota (length (c_shape x))) then x
  else
    let es := sort_entries (combine (map (fun ix => map (znth ix) axes) (c_coords x)) (c_data x)) in
    mkCOO (map (znth (c_shape x)) axes) (map fst es) (map snd es) (c_fill x).

(* COO.reshape(shape): identity shortcut, -1 inference in integer arithmetic (ValueError when the
   known extents multiply to 0 or do not divide the size), size check, linear relocation *)
Definition ss_reshape (x : coo Z) (shape : list Z) : res (coo Z) :=
  if idx_eqb (c_shape x) shape then Ok x
  else
    let sz := size (c_shape x) in
    shape' <- (if existsb (Z.eqb (-1)) shape then
                 let known := size (filter (fun d => negb (d =? -1)) shape) in
                 if (known =? 0) || negb (sz mod known =? 0) then Raise ValueError
                 else Ok (map (fun d => if d =? -1 then sz / known else d) shape)
               else Ok shape) ;;
    if negb (sz =? size shape') then Raise ValueError
    else Ok (mkCOO shape' (map (fun ix => unravel shape' (ravel (c_shape x) ix)) (c_coords x))
                   (c_data x) (c_fill x)).

(* x[None, :] on a 1-d array, x[:, None] on a 1-d array *)
Definition newaxis_front (x : coo Z) : coo Z :=
  mkCOO (1 :: c_shape x) (map (cons 0) (c_coords x)) (c_data x) (c_fill x).
Definition newaxis_back (x : coo Z) : coo Z :=
  mkCOO (c_shape x ++ [1]) (map (fun ix => ix ++ [0]) (c_coords x)) (c_data x) (c_fill x).

(* COO.squeeze(): every axis of extent 1 is removed *)
Fixpoint keep_non1 {A} (sh : list Z) (l : list A) : list A :=
  match sh, l with
  | d :: sh', a :: l' => if d =? 1 then keep_non1 sh' l' else a :: keep_non1 sh' l'
  | _, _ => []
  end.
Definition ss_squeeze (x : coo Z) : coo Z :=
  mkCOO (keep_non1 (c_shape x) (c_shape x)) (map (keep_non1 (c_shape x)) (c_coords x)) (c_data x) (c_fill x).

(* COO.squeeze(axis) with one integer axis: ValueError unless that axis has extent 1 *)
Definition ss_squeeze_axis (x : coo Z) (ax : Z) : res (coo Z) :=
  if negb (znth (c_shape x) ax =? 1) then Raise ValueError
  else Ok (mkCOO (remove_nth (c_shape x) (Z.to_nat ax))
                 (map (fun ix => remove_nth ix (Z.to_nat ax)) (c_coords x)) (c_data x) (c_fill x)).

(* COO(..., prune=True) *)
Definition ss_prune (x : coo Z) : coo Z :=
  let es := filter (fun e => negb (snd e =? c_fill x)) (combine (c_coords x) (c_data x)) in
  mkCOO (c_shape x) (map fst es) (map snd es) (c_fill x).

(* _common.moveaxis(a, source, destination) with integer arguments *)
Definition ss_moveaxis (x : coo Z) (src dst : Z) : res (coo Z) :=
  let nd := ndimZ x in
  match norm_axis nd src, norm_axis nd dst with
  | Some s, Some d =>
    let order := filter (fun n => negb (n =? Z.of_nat s)) (iota (length (c_shape x))) in
    Ok (ss_transpose x (py_insert order (Z.of_nat d) (Z.of_nat s)))
  | _, _ => Raise ValueError
  end.

(* ------------------------------------------------------------------ sort *)

Definition ss_sort (x0 : coo Z) (axis0 : Z) (desc : bool) : res (coo Z) :=
  let ond := ndimZ x0 in
  match norm_axis ond axis0 with                          (* axis = normalize_axis(axis, x.ndim) *)
  | None => Raise ValueError
  | Some ax0 =>
    let '(x, axis) := if ond =? 1 then (newaxis_front x0, -1) else (x0, Z.of_nat ax0) in
    x1 <- ss_moveaxis x axis (-1) ;;
    let xsh := c_shape x1 in
    let L := last xsh 0 in
    x2 <- ss_reshape x1 [size (removelast xsh); L] ;;
    let '(gc, ri, d) := sort_coo (map (fun ix => znth ix 0) (c_coords x2))
                                 (map (fun ix => znth ix 1) (c_coords x2)) (c_data x2) (c_fill x2) L desc in
    let x3 := mkCOO (c_shape x2) (zip2 gc ri) d (c_fill x2) in
    x4 <- ss_reshape x3 xsh ;;
    x5 <- ss_moveaxis x4 (-1) axis ;;
    if ndimZ x5 =? ond then Ok x5 else ss_squeeze_axis x5 0
  end.

(* ------------------------------------------------------------------ _compute_minmax_args *)

(* the search for the first unstored position: current_coord = -1; for idx, new_coord in
   enumerate(sorted coords): if new_coord - current_coord > 1: answer idx; ... else current + 1 *)
Fixpoint first_gap (l : list Z) (cur idx : Z) : Z :=
  match l with
  | [] => cur + 1
  | c :: r => if 1 <? c - cur then idx else first_gap r c (idx + 1)
  end.

(* coords[0] = reduce coordinates, coords[1] = index coordinates (one trace per distinct value) *)
Definition minmax_args (rc ic data : list Z) (rsize fill : Z) (maxm : bool) : list Z * list Z :=
  let ri := np_unique ic in
  (ri,
   map (fun k =>
          let m := filter (fun t => fst t =? k) (combine ic (combine rc data)) in
          let mrc := map (fun t => fst (snd t)) m in
          let md := map (fun t => snd (snd t)) m in
          if existsb (fun d => better maxm d fill) md || (zlen md =? rsize)
          then znth mrc (np_argbest maxm md)                       (* best value is a stored value *)
          else                                                     (* best value is the fill value; a stored
                                                                      value equal to it counts as a fill value *)
            first_gap (np_sort (map fst (filter (fun p => negb (snd p =? fill)) (combine mrc md)))) (-1) 0)
       ri).

(* ------------------------------------------------------------------ _arg_minmax_common *)

(* the part of _arg_minmax_common between "move `axis` to the front" and the transposition back:
   x has at least two axes here, axis is non-negative *)
Definition arg_core (maxm : bool) (x : coo Z) (axis : Z) : res (coo Z) :=
  '(a, rest) <- py_pop (iota (length (c_shape x))) axis ;;
  '(s, srest) <- py_pop (c_shape x) axis ;;
  let xt := ss_transpose x (a :: rest) in
  xr <- ss_reshape xt [s; size srest] ;;
  let '(ri, rd) := minmax_args (map (fun ix => znth ix 0) (c_coords xr))
                               (map (fun ix => znth ix 1) (c_coords xr)) (c_data xr) s (c_fill xr) maxm in
  let r := ss_prune (mkCOO [size srest] (map (fun i => [i]) ri) rd 0) in
  r1 <- ss_reshape r (1 :: srest) ;;
  '(h, t) <- py_pop (iota (length (c_shape r1))) 0 ;;
  Ok (ss_transpose r1 (py_insert t axis h)).

Definition ss_argminmax (maxm : bool) (x0 : coo Z) (axis0 : option Z) (keepdims : bool) : res (coo Z) :=
  let nd0 := ndimZ x0 in
  if (match axis0 with Some a => nd0 <=? a | None => false end) then Raise ValueError
  else if nd0 =? 0 then Raise ValueError
  else
    axisn <- match axis0 with                              (* axis = normalize_axis(axis, x.ndim) *)
             | None => Ok None
             | Some a => match norm_axis nd0 a with
                         | None => Raise ValueError
                         | Some ax => Ok (Some (Z.of_nat ax))
                         end
             end ;;
    if (match axisn with None => size (c_shape x0) =? 0 | Some a => znth (c_shape x0) a =? 0 end)
    then Raise ValueError                                  (* attempt to get argmax of an empty sequence *)
    else
      '(x, axis, orig) <- match axisn with
                          | None => xf <- ss_reshape x0 [-1] ;; Ok (newaxis_back xf, 0, Some nd0)
                          | Some a => Ok (x0, a, None)
                          end ;;
      let input_1d := (match orig with None => true | Some _ => false end) && (ndimZ x =? 1) in
      let x := if (axis =? 0) && (ndimZ x =? 1) then newaxis_back x else x in
      r2 <- arg_core maxm x axis ;;
      match orig with
      | Some n =>
        r3 <- ss_reshape r2 (map (fun _ => 1) (seq 0 (Z.to_nat n))) ;;
        Ok (if keepdims then r3 else ss_squeeze r3)
      | None =>
        r3 <- (if input_1d then ss_reshape r2 [1] else Ok r2) ;;
        if keepdims then Ok r3 else ss_squeeze_axis r3 axis
      end.

(* ------------------------------------------------------------------ unique_values / unique_counts *)

Definition ss_unique_values (x : coo Z) : list Z :=
  let values := np_unique (c_data x) in
  if zlen (c_coords x) <? size (c_shape x) then np_unique (c_fill x :: values) else values.

(* l[idxs]  (NumPy fancy indexing with an index array) *)
Definition gather (idxs l : list Z) : list Z := map (fun i => nth (Z.to_nat i) l 0) idxs.

Definition ss_unique_counts (x : coo Z) : list Z * list Z :=
  let '(values, counts) := np_unique_counts (c_data x) in
  let nnz := zlen (c_coords x) in
  let sz := size (c_shape x) in
  if (nnz <? sz) && existsb (Z.eqb (c_fill x)) values then
    (* counts[values == x.fill_value] += x.size - x.nnz *)
    (values, map (fun vc => if fst vc =? c_fill x then snd vc + (sz - nnz) else snd vc) (combine values counts))
  else if nnz <? sz then
    let values1 := c_fill x :: values in
    let counts1 := (sz - nnz) :: counts in
    let sorted_indices := np_argsort values1 in
    (* values = values[sorted_indices]; counts = counts[sorted_indices] *)
    (gather sorted_indices values1, gather sorted_indices counts1)
  else (values, counts).

(* ------------------------------------------------------------------ nonzero / argwhere / where(cond) *)

(* self.coords[:, self.data != 0] *)
Definition nz_coords (x : coo Z) : list idx :=
  map fst (filter (fun e => negb (snd e =? 0)) (combine (c_coords x) (c_data x))).

(* COO.nonzero: check_zero_fill_value, ndim = 0 rejected, then tuple(self.coords[:, self.data != 0]) *)
Definition ss_nonzero (x : coo Z) : res (list (list Z)) :=
  if negb (c_fill x =? 0) then Raise ValueError
  else if ndimZ x =? 0 then Raise ValueError
  else Ok (columns (length (c_shape x)) (nz_coords x)).

(* argwhere(a) = np.transpose(a.nonzero()): the index tuples of the stored non-zero values *)
Definition ss_argwhere (x : coo Z) : res (list idx) :=
  if negb (c_fill x =? 0) then Raise ValueError
  else if ndimZ x =? 0 then Raise ValueError
  else Ok (nz_coords x).

(* where(condition): check_zero_fill_value, asCOO, tuple(condition.coords[:, condition.data != 0]) *)
Definition ss_where1 (x : coo Z) : res (list (list Z)) :=
  if negb (c_fill x =? 0) then Raise ValueError
  else Ok (columns (length (c_shape x)) (nz_coords x)).
