(* Model/Threads.v — C13: the shared mutable state that read-only operations of pydata/sparse touch,
   and its interleaved execution by any number of threads.

   Shared state (per process):
     * heap / dd  : the per-array `_cache = defaultdict(lambda: deque(maxlen=N))`.  Deque objects live
                    in [heap] (identity = position); [dd] maps a cache name (array x "transpose" /
                    "reshape", encoded as Z) to a deque id.  A deque carries CPython's mutation counter
                    [dstate] (collections.deque's `state` field, bumped by every append).
                    A cache NAME stands for a defaultdict object, not for an array object: the copy
                    constructor `COO(x)` copies x's __dict__, so x and the copy hold the SAME defaultdict and
                    calls on either are calls on the same names (two "different" arrays, one set of deques);
                    `COO(x, fill_value=v)` installs a fresh defaultdict (own names).  The harness measures
                    which objects share (identity of `_cache`) and names the calls accordingly.
     * attrs      : the `_csr` / `_csc` attribute memos of cache-enabled arrays (per array OBJECT: a copy
                    has its own attributes).
     * memo       : the `cache = {}` dicts of `_memoize_dtype` (all factories folded into one key space).
     * operands   : the operands' own storage.  No action writes it (that the kernels only read their
                    operands and write private buffers is C11's theorem, not re-proved here).

   A thread executes a list of calls.  Each call is cut into atomic actions at every point where
   the interpreter may switch threads between two Python-level steps (finer than CPython 3.12 really
   cuts: the theorems hold for every schedule of the finer cut, hence for every real one):
     DefaultGet   d = cache[name]                  (hit: one C call;  miss: the factory lambda is a
     DefaultStore cache[name] = deque(maxlen=N)     Python frame, so the store is a separate step and
                                                    OVERWRITES whatever another thread stored meanwhile)
     IterStart    it = iter(d)            or, in the snapshot variant,  it = iter(tuple(d))
     IterNext     next(it): a dequeiter raises RuntimeError("deque mutated during iteration") when
                  d.state differs from the state remembered at IterStart (checked BEFORE exhaustion,
                  as dequeiter_next does); a tuple iterator never raises
     Compare      `if k == key: return v`
     Compute      the pure computation of the result from the operands
     Append       d.append((key, result))   (d looked up again through DefaultGet/DefaultStore)
     AttrGet/AttrSet, DictHas/DictGet/DictSet.
   The position inside a call is a [pc]; [action_of] names the action a pc is about to perform, so a
   thread IS the list of actions [trace] reads off.  A schedule is a list of thread ids; [run sched]
   executes one action of the named thread per entry.

   Which variant of the lookup loop, the deque bound and the last stage of tocsc are NOT chosen here:
   they come from Gen/S_threads.v, regenerated from /repo's AST on every run ([src_config]). *)
From Coq Require Import ZArith List Bool.
From Verif Require Import Py S_threads.
Import ListNotations.
Open Scope Z_scope.

(* ---------------------------------------------------------------- configuration *)
Inductive site := STranspose | SReshape.

Record config := mkConfig {
  snap_transpose : bool;     (* COO.transpose iterates a snapshot of the deque *)
  snap_reshape : bool;       (* COO.reshape iterates a snapshot of the deque *)
  maxlen : nat;              (* deque(maxlen=...) *)
  csc_via_csr : bool;        (* last stage of tocsc is self.tocsr().tocsc() *)
  buffers_fresh : bool;      (* every buffer that is written in place after a call produced it is a fresh allocation:
                                the array todense/maybe_densify/__array__ hand to the caller (never a view of the
                                operand), and the array _grouped_reduce hands to SparseArray.reduce, which applies
                                its fill correction to it in place (never the operand's data) *)
  memo_clear_bound : option nat   (* None: the dtype memo never removes an entry (what the code does);
                                     Some n: a miss clears the dict when it holds >= n entries (a variant) *)
}.

Definition snap (cfg : config) (s : site) : bool :=
  match s with STranspose => snap_transpose cfg | SReshape => snap_reshape cfg end.

Definition all_snapshot (cfg : config) : bool := snap_transpose cfg && snap_reshape cfg.

(* what /repo's source says now *)
Definition src_config : config :=
  mkConfig transpose_lookup_snapshot reshape_lookup_snapshot cache_maxlen tocsc_final_via_tocsr
           (todense_result_fresh && densify_paths_via_todense && grouped_reduce_result_fresh)
           (if memo_no_deletion then None else Some 0%nat).

(* ---------------------------------------------------------------- shared state *)
Record deque := mkDeque { items : list (Z * Z); dstate : Z }.

Record shared := mkShared {
  heap : list deque;
  dd : list (Z * nat);
  attrs : list (Z * Z);
  memo : list (Z * Z);
  operands : list Z
}.

Definition empty_shared (ops : list Z) : shared := mkShared [] [] [] [] ops.

Fixpoint alookup {A} (k : Z) (l : list (Z * A)) : option A :=
  match l with
  | [] => None
  | (k', v) :: r => if k =? k' then Some v else alookup k r
  end.

Fixpoint upd_nth {A} (n : nat) (x : A) (l : list A) : list A :=
  match l, n with
  | [], _ => []
  | _ :: r, O => x :: r
  | a :: r, S m => a :: upd_nth m x r
  end.

(* keep the last n elements *)
Definition lastn {A} (n : nat) (l : list A) : list A := skipn (length l - n) l.

Definition deque_append (n : nat) (e : Z * Z) (d : deque) : deque :=
  mkDeque (lastn n (items d ++ [e])) (dstate d + 1).

(* ---------------------------------------------------------------- calls, iterators, program counters *)
Definition akey (arr : Z) (csc : bool) : Z := 2 * arr + (if csc then 1 else 0).

Inductive call :=
| CCache (s : site) (name key : Z)   (* x.transpose(axes) / x.reshape(shape), x cache-enabled; key encodes (x, op, args) *)
| CAttr (arr : Z) (csc : bool)       (* x.tocsr() / x.tocsc(), x cache-enabled *)
| CMemo (key : Z)                    (* a _memoize_dtype-wrapped kernel factory applied to a dtype tuple *)
| CPure (key : Z)                    (* any other read-only operation: no shared mutable state *)
| CDenseWrite (key : Z).             (* produce a buffer from a shared operand, then write into it in place: either
                                        the library itself (reduce: data = _grouped_reduce(...); data[mask] = ...) or
                                        d = x.todense() (or maybe_densify / np.asarray) of a shared operand, followed by
                                        the CALLER writing into d in place (d -= c): legitimate, d is the caller's *)

Definition ckey (c : call) : Z :=
  match c with CCache _ _ k => k | CAttr a w => akey a w | CMemo k => k | CPure k => k | CDenseWrite k => k end.

Inductive iter :=
| ItDirect (id : nat) (st : Z) (counter pos : nat)   (* dequeiter: deque, remembered state, items left, index *)
| ItSnap (rest : list (Z * Z)).                       (* iterator of tuple(d) / list(d) / d.copy() *)

Inductive pc :=
| PIdle
| PcGet (s : site) (name key : Z)
| PcStore (s : site) (name key : Z)
| PcIterStart (s : site) (name key : Z) (id : nat)
| PcNext (s : site) (name key : Z) (first : bool) (it : iter)
| PcBody (s : site) (name key : Z) (it : iter) (item : Z * Z)
| PcCompute (s : site) (name key : Z)
| PcGet2 (s : site) (name key v : Z)
| PcStore2 (s : site) (name key v : Z)
| PcAppend (s : site) (name key v : Z) (id : nat)
| PaGet (arr : Z) (w sub : bool)           (* try: return self._csr *)
| PaPartner (arr : Z) (w sub : bool)       (* try: self._csr = self._csc.tocsr()  — the read of the partner *)
| PaConvSet (arr : Z) (w sub : bool) (v : Z)   (* ... the store of the converted partner *)
| PaReget (arr : Z) (w sub : bool)         (* return self._csr *)
| PaSub (arr : Z)                          (* self._csc = csc = self.tocsr().tocsc(): enter the inner tocsr *)
| PaCompute (arr : Z) (w sub : bool)       (* ... = self._tocsr() *)
| PaSet (arr : Z) (w sub : bool) (v : Z)   (* self._csr = csr = <v>; return csr *)
| PmHas (key : Z)
| PmGet (key : Z)
| PmCompute (key : Z)
| PmSet (key v : Z)
| PpCompute (key : Z)
| PdDense (key : Z)                        (* d = x.todense() *)
| PdWrite (key : Z) (view : bool).         (* d -= c  — d is a view of the operand's storage iff [view] *)

Inductive action :=
| Next_call | DefaultGet | DefaultStore | IterStart | IterNext | Compare | Compute
| Append | AttrGet | AttrSet | DictHas | DictGet | DictSet | Enter | Densify | WriteOwnResult.

Definition action_of (p : pc) : action :=
  match p with
  | PIdle => Next_call
  | PcGet _ _ _ | PcGet2 _ _ _ _ => DefaultGet
  | PcStore _ _ _ | PcStore2 _ _ _ _ => DefaultStore
  | PcIterStart _ _ _ _ => IterStart
  | PcNext _ _ _ _ _ => IterNext
  | PcBody _ _ _ _ _ => Compare
  | PcCompute _ _ _ | PaCompute _ _ _ | PmCompute _ | PpCompute _ => Compute
  | PcAppend _ _ _ _ _ => Append
  | PaGet _ _ _ | PaPartner _ _ _ | PaReget _ _ _ => AttrGet
  | PaConvSet _ _ _ _ | PaSet _ _ _ _ => AttrSet
  | PaSub _ => Enter
  | PmHas _ => DictHas
  | PmGet _ => DictGet
  | PmSet _ _ => DictSet
  | PdDense _ => Densify
  | PdWrite _ _ => WriteOwnResult
  end.

Record thread := mkThread {
  pcs : pc;
  todo : list call;
  outs : list (call * res Z)     (* newest first *)
}.

Definition start (c : call) : pc :=
  match c with
  | CCache s n k => PcGet s n k
  | CAttr a w => PaGet a w false
  | CMemo k => PmHas k
  | CPure k => PpCompute k
  | CDenseWrite k => PdDense k
  end.

Definition finished (t : thread) : bool :=
  match pcs t, todo t with PIdle, [] => true | _, _ => false end.

Section Step.
  Variable cfg : config.
  Variable f : Z -> Z.              (* the value of a call: a pure function of its key (operands are immutable) *)
  Variable conv : Z -> Z -> Z.      (* conv k v: the scipy conversion producing attribute k from the partner's value v *)

  Definition ret (t : thread) (c : call) (r : res Z) : thread :=
    mkThread PIdle (todo t) ((c, r) :: outs t).
  Definition goto (t : thread) (p : pc) : thread := mkThread p (todo t) (outs t).

  (* return from the (possibly inner) attribute protocol with value v *)
  Definition aret (t : thread) (arr : Z) (w sub : bool) (v : Z) : thread :=
    if sub then goto t (PaSet arr true false (conv (akey arr true) v))
    else ret t (CAttr arr w) (Ok v).

  Definition set_heap (sh : shared) (h : list deque) : shared :=
    mkShared h (dd sh) (attrs sh) (memo sh) (operands sh).
  Definition new_deque (sh : shared) (name : Z) : shared :=
    mkShared (heap sh ++ [mkDeque [] 0]) ((name, length (heap sh)) :: dd sh) (attrs sh) (memo sh) (operands sh).
  Definition set_attr (sh : shared) (k v : Z) : shared :=
    mkShared (heap sh) (dd sh) ((k, v) :: attrs sh) (memo sh) (operands sh).
  Definition set_memo (sh : shared) (k v : Z) : shared :=
    mkShared (heap sh) (dd sh) (attrs sh) ((k, v) :: memo sh) (operands sh).
  (* an in-place write that reaches the operands' storage (only through a result that is a view of it) *)
  Definition write_operands (sh : shared) (v : Z) : shared :=
    mkShared (heap sh) (dd sh) (attrs sh) (memo sh) (v :: operands sh).
  Definition clear_memo (sh : shared) : shared :=
    mkShared (heap sh) (dd sh) (attrs sh) [] (operands sh).
  (* the miss path of the memo wrapper before it computes: nothing in the code; `cache.clear()` in the variant *)
  Definition memo_evict (sh : shared) : shared :=
    match memo_clear_bound cfg with
    | Some n => if Nat.leb n (length (memo sh)) then clear_memo sh else sh
    | None => sh
    end.

  Definition iter_next (sh : shared) (it : iter) : res (option ((Z * Z) * iter)) :=
    match it with
    | ItSnap [] => Ok None
    | ItSnap (e :: r) => Ok (Some (e, ItSnap r))
    | ItDirect id st counter pos =>
      match nth_error (heap sh) id with
      | None => Raise OtherError
      | Some d =>
        if negb (dstate d =? st) then Raise RuntimeError
        else match counter with
             | O => Ok None
             | S c => match nth_error (items d) pos with
                      | Some e => Ok (Some (e, ItDirect id st c (S pos)))
                      | None => Raise OtherError
                      end
             end
      end
    end.

  Definition step_thread (sh : shared) (t : thread) : shared * thread :=
    match pcs t with
    | PIdle =>
      match todo t with
      | [] => (sh, t)
      | c :: r => (sh, mkThread (start c) r (outs t))
      end
    (* ---- transpose / reshape on a cache-enabled array *)
    | PcGet s n k =>
      match alookup n (dd sh) with
      | Some id => (sh, goto t (PcIterStart s n k id))
      | None => (sh, goto t (PcStore s n k))
      end
    | PcStore s n k => (new_deque sh n, goto t (PcIterStart s n k (length (heap sh))))
    | PcIterStart s n k id =>
      match nth_error (heap sh) id with
      | None => (sh, ret t (CCache s n k) (Raise OtherError))
      | Some d =>
        let it := if snap cfg s then ItSnap (items d)
                  else ItDirect id (dstate d) (length (items d)) 0 in
        (sh, goto t (PcNext s n k true it))
      end
    | PcNext s n k _ it =>
      match iter_next sh it with
      | Raise e => (sh, ret t (CCache s n k) (Raise e))
      | Ok None => (sh, goto t (PcCompute s n k))
      | Ok (Some (e, it')) => (sh, goto t (PcBody s n k it' e))
      end
    | PcBody s n k it e =>
      if fst e =? k then (sh, ret t (CCache s n k) (Ok (snd e)))
      else (sh, goto t (PcNext s n k false it))
    | PcCompute s n k => (sh, goto t (PcGet2 s n k (f k)))
    | PcGet2 s n k v =>
      match alookup n (dd sh) with
      | Some id => (sh, goto t (PcAppend s n k v id))
      | None => (sh, goto t (PcStore2 s n k v))
      end
    | PcStore2 s n k v => (new_deque sh n, goto t (PcAppend s n k v (length (heap sh))))
    | PcAppend s n k v id =>
      match nth_error (heap sh) id with
      | None => (sh, ret t (CCache s n k) (Raise OtherError))
      | Some d => (set_heap sh (upd_nth id (deque_append (maxlen cfg) (k, v) d) (heap sh)),
                   ret t (CCache s n k) (Ok v))
      end
    (* ---- tocsr / tocsc on a cache-enabled array *)
    | PaGet a w sub =>
      match alookup (akey a w) (attrs sh) with
      | Some v => (sh, aret t a w sub v)
      | None => (sh, goto t (PaPartner a w sub))
      end
    | PaPartner a w sub =>
      match alookup (akey a (negb w)) (attrs sh) with
      | Some v => (sh, goto t (PaConvSet a w sub (conv (akey a w) v)))
      | None => if w && csc_via_csr cfg then (sh, goto t (PaSub a))
                else (sh, goto t (PaCompute a w sub))
      end
    | PaConvSet a w sub v => (set_attr sh (akey a w) v, goto t (PaReget a w sub))
    | PaReget a w sub =>
      match alookup (akey a w) (attrs sh) with
      | Some v => (sh, aret t a w sub v)
      | None => (sh, ret t (CAttr a (if sub then true else w)) (Raise OtherError))
      end
    | PaSub a => (sh, goto t (PaGet a false true))
    | PaCompute a w sub => (sh, goto t (PaSet a w sub (f (akey a w))))
    | PaSet a w sub v => (set_attr sh (akey a w) v, aret t a w sub v)
    (* ---- _memoize_dtype *)
    | PmHas k =>
      match alookup k (memo sh) with
      | Some _ => (sh, goto t (PmGet k))
      | None => (sh, goto t (PmCompute k))
      end
    | PmGet k =>
      match alookup k (memo sh) with
      | Some v => (sh, ret t (CMemo k) (Ok v))
      | None => (sh, ret t (CMemo k) (Raise OtherError))
      end
    | PmCompute k => (memo_evict sh, goto t (PmSet k (f k)))
    | PmSet k v => (set_memo sh k v, ret t (CMemo k) (Ok v))
    (* ---- everything else *)
    | PpCompute k => (sh, ret t (CPure k) (Ok (f k)))
    (* ---- densify, then the caller post-processes ITS result in place *)
    | PdDense k => (sh, goto t (PdWrite k (negb (buffers_fresh cfg))))
    | PdWrite k view => (if view then write_operands sh (f k) else sh, ret t (CDenseWrite k) (Ok (f k)))
    end.

  (* ---------------------------------------------------------------- interleaving *)
  Definition state := (shared * list thread)%type.

  Definition step_at (i : nat) (st : state) : state :=
    match nth_error (snd st) i with
    | None => st
    | Some t => let '(sh', t') := step_thread (fst st) t in (sh', upd_nth i t' (snd st))
    end.

  Definition run (sched : list nat) (st : state) : state :=
    fold_left (fun st i => step_at i st) sched st.

  Definition init (ops : list Z) (progs : list (list call)) : state :=
    (empty_shared ops, map (fun p => mkThread PIdle p []) progs).

  (* the outcomes of thread i, oldest first *)
  Definition outputs (st : state) : list (list (call * res Z)) :=
    map (fun t => rev (outs t)) (snd st).

  Definition all_outputs (st : state) : list (call * res Z) := concat (outputs st).

  Definition is_ok (c : call) (r : res Z) : bool :=
    match r with Ok v => v =? f (ckey c) | Raise _ => false end.
  Definition is_runtime_error (r : res Z) : bool :=
    match r with Raise RuntimeError => true | _ => false end.

  Definition all_finished (st : state) : bool := forallb finished (snd st).

  (* the actions a thread performs under a schedule (its "list of atomic actions") *)
  Fixpoint trace (sched : list nat) (st : state) : list (nat * action) :=
    match sched with
    | [] => []
    | i :: r =>
      match nth_error (snd st) i with
      | None => trace r st
      | Some t => (i, action_of (pcs t)) :: trace r (step_at i st)
      end
    end.

  (* ---------------------------------------------------------------- CPython 3.12 granularity
     tools/sched.py can only switch threads where the interpreter can: at `line` events of the
     protocol's source lines.  [point p] says that such a line starts at p; a coarse schedule entry
     runs the named thread up to its next point.  Every coarse run is a run (Proofs: coarse_is_run). *)
  Definition point (p : pc) : bool :=
    match p with
    | PcGet _ _ _ | PcStore _ _ _ | PcBody _ _ _ _ _ | PcGet2 _ _ _ _ | PcStore2 _ _ _ _ => true
    | PcNext _ _ _ first _ => negb first
    | PaGet _ _ _ | PaPartner _ _ _ | PaReget _ _ _ | PaSub _ => true
    | PaCompute _ _ _ => true
    | PmHas _ | PmGet _ | PmCompute _ | PmSet _ _ => true
    | _ => false
    end.

  Definition settled (i : nat) (st : state) : bool :=
    match nth_error (snd st) i with
    | None => true
    | Some t => point (pcs t) || finished t
    end.

  Fixpoint settle (fuel : nat) (i : nat) (st : state) : state :=
    match fuel with
    | O => st
    | S n => if settled i st then st else settle n i (step_at i st)
    end.

  Definition coarse_fuel (st : state) : nat :=
    fold_left (fun n t => (n + (24 + 2 * maxlen cfg) * (1 + length (todo t)))%nat) (snd st) 24%nat.

  Definition run_coarse (sched : list nat) (st : state) : state :=
    fold_left (fun st i => settle (coarse_fuel st) i (step_at i st)) sched st.

  (* run every thread to completion, one after the other (what the scheduler does after the schedule) *)
  Definition drain (st : state) : state :=
    fold_left (fun st i => run (repeat i (coarse_fuel st)) st) (seq 0 (length (snd st))) st.
End Step.

(* the witness schedule of the deque race (finding D13, repaired in /repo by iterating a snapshot), in
   coarse form; tools/props/c13.py reads it and replays it against the implementation on every run
   (it must fail there exactly when the generated configuration says "direct"): thread 1 fills the cache with key 10, thread 0 starts looking up key 11
   and is suspended inside the loop, thread 1 inserts key 12, thread 0 calls next(). *)
Definition d13_site : site := if transpose_lookup_snapshot then SReshape else STranspose.
Definition d13_threads (s : site) : list (list call) :=
  [[CCache s 0 11]; [CCache s 0 10; CCache s 0 12]].
Definition d13_sched : list nat := [1; 1; 1; 1; 0; 0; 0; 1; 1; 1; 1; 0]%nat.
Definition d13_witness : list (list call) * list nat := (d13_threads d13_site, d13_sched).

(* the protocol as it would be after the candidate fix (iterate a snapshot in both methods) *)
Definition fixed_config : config :=
  mkConfig true true (maxlen src_config) (csc_via_csr src_config) (buffers_fresh src_config)
           (memo_clear_bound src_config).
