(* Model/Slicing.v — slice normalisation as the code performs it: the composition of the
   *generated* fragments (Gen/G_slicing.v, regenerated from /repo on every run). *)
From Coq Require Import ZArith List Bool.
From Verif Require Import Py PyExt G_slicing PySlice.
Import ListNotations.
Open Scope Z_scope.

Definition oz (o : option Z) : pyv := match o with None => VNone | Some z => VInt z end.

(* what normalize_index does to one slice entry facing an axis of extent dim *)
Definition normalize_slice (sl : pyv) (dim : Z) : res pyv :=
  a <- g_replace_none sl (VInt dim) ;;
  b <- g_posify_index (VInt dim) a ;;
  g_clip_slice b (VInt dim).

(* what normalize_index does to one integer entry *)
Definition normalize_int (i : Z) (dim : Z) : res pyv :=
  _ <- g_check_index (VInt i) (VInt dim) ;;
  a <- g_replace_none (VInt i) (VInt dim) ;;
  b <- g_posify_index (VInt dim) a ;;
  g_clip_slice b (VInt dim).

(* the index list denoted by a normalised slice *)
Definition selects (r : res pyv) : option (list Z) :=
  match r with
  | Ok (VSlice (VInt s) (VInt e) (VInt st)) => Some (range_list s e st)
  | _ => None
  end.
