(* Model/Extract.v — the structural extractors of _coo/common.py as the code runs them
   (definitions only): triu, tril, diagonal (+ _diagonal_idx), diagonalize, take.
   The mask predicates, the guards, the shape arithmetic and the constructor flags are the
   GENERATED definitions of Gen/S_join.v; the `*_src` instances at the end are what the C09
   theorems talk about.
   take: the code builds an index tuple and calls COO.__getitem__ (property C02); what is
   modelled here is the RESULT of that getitem for one integer or one 1-d integer list on one
   axis (selected entries, renumbered, in canonical order), not the getitem algorithm. *)
From Coq Require Import ZArith List Bool.
From Verif Require Import Py PyExt Shape COO NpIndex CooIndex NpJoin G_join S_join Join.
Import ListNotations.
Open Scope Z_scope.

(* truth value of a generated 3-argument scalar predicate on integers (an exception counts as false) *)
Definition pred3 (p : pyv -> pyv -> pyv -> res pyv) (a b c : Z) : bool :=
  match p (VInt a) (VInt b) (VInt c) with Ok v => truthy v | Raise _ => false end.

Definition as_Z (r : res pyv) : res Z :=
  match r with Ok (VInt z) => Ok z | Ok _ => Raise TypeError | Raise e => Raise e end.

(* Python's l[i] on a tuple / on the first axis of an array: negative i counts from the end *)
Definition py_nth (l : list Z) (i : Z) : Z :=
  nth (Z.to_nat (if i <? 0 then i + Z.of_nat (length l) else i)) l 0.
Definition py_index (l : list Z) (i : Z) : res Z :=
  let n := Z.of_nat (length l) in
  if (- n <=? i) && (i <? n) then Ok (py_nth l i) else Raise IndexError.

Section Extract.
  Variable V : Type.
  Variable veqb : V -> V -> bool.
  Variable vzero : V.
  Variable vadd : V -> V -> V.

  (* ---------------------------------------------------------------- triu / tril
       check_zero_fill_value(x); if not x.ndim >= 2: raise NotImplementedError
       mask = <keep>(x.coords[-2], x.coords[-1], k); COO(coords[:, mask], data[mask], shape=x.shape, flags) *)
  Definition coo_tri (keep : pyv -> pyv -> pyv -> res pyv) (guard : pyv -> res pyv)
             (fl : ctor_flags) (checks_zero : bool) (x : coo V) (k : Z) : res (coo V) :=
    if checks_zero && negb (veqb (c_fill x) vzero) then Raise ValueError else
    _ <- guard (VInt (ndim_of V x)) ;;
    let es := filter (fun e => pred3 keep (py_nth (fst e) (-2)) (py_nth (fst e) (-1)) k) (entries x) in
    coo_ctor V veqb vadd (fl_sorted fl 0) (fl_has_duplicates fl 0) (fl_prune fl 0)
             (fill_of V vzero (fl_fill fl) (c_fill x)) (c_shape x) (map fst es) (map snd es).

  (* ---------------------------------------------------------------- diagonal
       if a.shape[axis1] != a.shape[axis2]: raise ValueError
       diag_axes = [axis for axis in range(ndim) if <other>(axis, axis1, axis2)] + [axis1]
       diag_shape = [a.shape[axis] for axis in diag_axes]; diag_shape[-1] = <last_extent>(diag_shape[-1], offset)
       diag_idx = positions i with <match>(coords[axis1][i], coords[axis2][i], offset)
       pos_axes = diag_axes[:-1] + [<pos_axis>(axis1, axis2, offset)]
       COO([a.coords[axis][diag_idx] for axis in pos_axes], a.data[diag_idx], diag_shape, fill_value=...)
     (the body after the axis normalisation; a.shape[i] / a.coords[i] are Python indexing) *)
  Definition coo_diagonal_core (fl : ctor_flags) (x : coo V) (offset axis1 axis2 : Z) : res (coo V) :=
    let sh := c_shape x in
    d1 <- py_index sh axis1 ;;
    d2 <- py_index sh axis2 ;;
    _ <- site_diagonal_guard (VInt d1) (VInt d2) ;;
    let others := filter (fun ax => pred3 site_diagonal_other_axis ax axis1 axis2)
                         (zrange (Z.of_nat (length sh))) in
    let dsh0 := map (py_nth sh) (others ++ [axis1]) in
    lst <- as_Z (site_diagonal_last_extent (VInt (last dsh0 0)) (VInt offset)) ;;
    let dsh := removelast dsh0 ++ [lst] in
    pos <- as_Z (site_diagonal_pos_axis (VInt axis1) (VInt axis2) (VInt offset)) ;;
    let pos_axes := others ++ [pos] in
    let es := filter (fun e => pred3 site_diagonal_match (py_nth (fst e) axis1) (py_nth (fst e) axis2) offset)
                     (entries x) in
    if lst <? 0 then Raise ValueError else
    coo_ctor V veqb vadd (fl_sorted fl 0) (fl_has_duplicates fl 0) (fl_prune fl 0)
             (fill_of V vzero (fl_fill fl) (c_fill x)) dsh
             (map (fun e => map (py_nth (fst e)) pos_axes) es) (map snd es).

  (* axis1 = normalize_axis(axis1, a.ndim); axis2 = normalize_axis(axis2, a.ndim);
     if axis1 == axis2: raise ValueError; then the body above *)
  Definition coo_diagonal (fl : ctor_flags) (checks_zero : bool) (ndim_expr : pyv -> res pyv)
             (same_axis_guard : pyv -> pyv -> res pyv) (x : coo V) (offset axis1 axis2 : Z) : res (coo V) :=
    if checks_zero && negb (veqb (c_fill x) vzero) then Raise ValueError else
    a1 <- norm_axis ndim_expr axis1 (ndim_of V x) ;;
    a2 <- norm_axis ndim_expr axis2 (ndim_of V x) ;;
    _ <- same_axis_guard (VInt a1) (VInt a2) ;;
    coo_diagonal_core fl x offset a1 a2.

  (* ---------------------------------------------------------------- diagonalize
       diag_shape = a.shape + (a.shape[axis],); diag_coords = vstack([a.coords, a.coords[axis]]) *)
  Definition coo_diagonalize (fl : ctor_flags) (checks_zero : bool) (x : coo V) (axis : Z) : res (coo V) :=
    if checks_zero && negb (veqb (c_fill x) vzero) then Raise ValueError else
    d <- py_index (c_shape x) axis ;;
    coo_ctor V veqb vadd (fl_sorted fl 0) (fl_has_duplicates fl 0) (fl_prune fl 0)
             (fill_of V vzero (fl_fill fl) (c_fill x)) (c_shape x ++ [d])
             (map (fun c => c ++ [py_nth c axis]) (c_coords x)) (c_data x).

  (* ---------------------------------------------------------------- take, on the real getitem path
       axis = normalize_axis(axis, x.ndim); full_index = (slice(None),) * axis + (indices, ...); x[full_index]
     with COO.__getitem__ as transcribed in Model/CooIndex.v (property C02); kf is that model's choice of
     mask strategy (irrelevant for the result: C02 mask_strategy_irrelevant) *)
  Definition take_index (k : nat) (e : ientry) : index := repeat full_slice k ++ [e; IEllipsis].

  Definition coo_take_getitem (kf : nat -> nat) (x : coo V) (e : ientry) (axis : Z) : res (gres V) :=
    ax <- norm_axis (fun n => Ok n) axis (ndim_of V x) ;;
    getitem kf x (take_index (Z.to_nat ax) e).

  (* `if axis is None: x = x.flatten(); return x[indices]` *)
  Definition coo_take_getitem_opt (kf : nat -> nat) (x : coo V) (e : ientry) (axis : option Z) : res (gres V) :=
    match axis with
    | Some a => coo_take_getitem kf x e a
    | None => getitem kf (coo_flatten V x) [e]
    end.

  (* ---------------------------------------------------------------- take (result of getitem)
       axis = normalize_axis(axis, x.ndim); x[(slice(None),) * axis + (indices, ...)] *)
  Definition wrap_index (n i : Z) : res Z :=
    if (- n <=? i) && (i <? n) then Ok (wrap n i) else Raise IndexError.

  Fixpoint wrap_all (n : Z) (l : list Z) : res (list Z) :=
    match l with
    | [] => Ok []
    | i :: r => j <- wrap_index n i ;; t <- wrap_all n r ;; Ok (j :: t)
    end.

  Definition coo_take_int (x : coo V) (i : Z) (axis : Z) : res (coo V) :=
    ax <- norm_axis (fun n => Ok n) axis (ndim_of V x) ;;
    let k := Z.to_nat ax in
    j <- wrap_index (nth k (c_shape x) 0) i ;;
    let es := filter (fun e => nth k (fst e) 0 =? j) (entries x) in
    Ok (mkCOO (del k (c_shape x)) (map (fun e => del k (fst e)) es) (map snd es) (c_fill x)).

  (* the entries picked by position p of the index list, renumbered to p *)
  Fixpoint take_gather (k : nat) (p : Z) (js : list Z) (es : list (idx * V)) : list (idx * V) :=
    match js with
    | [] => []
    | j :: r => map (fun e => (upd k (fun _ => p) (fst e), snd e))
                    (filter (fun e => nth k (fst e) 0 =? j) es) ++ take_gather k (p + 1) r es
    end.

  Definition coo_take_list (x : coo V) (indices : list Z) (axis : Z) : res (coo V) :=
    ax <- norm_axis (fun n => Ok n) axis (ndim_of V x) ;;
    let k := Z.to_nat ax in
    js <- wrap_all (nth k (c_shape x) 0) indices ;;
    let sh := upd k (fun _ => Z.of_nat (length indices)) (c_shape x) in
    let es := sort_by V (ravel sh) (take_gather k 0 js (entries x)) in
    Ok (mkCOO sh (map fst es) (map snd es) (c_fill x)).
End Extract.

(* ------------------------------------------------------------------ named domain clause (true = inside the domain)
   diagonal_nonsquare: the code requires a.shape[axis1] == a.shape[axis2] (documented ValueError), NumPy
   returns the shorter diagonal; a1, a2 are the normalised axes *)
Definition diagonal_nonsquare (sh : shape) (a1 a2 : nat) : bool := nth a1 sh 0 =? nth a2 sh 0.

(* ------------------------------------------------------------------ instances for the source as it is now *)
Definition triu_flags : ctor_flags :=
  mkFlags site_triu_sorted site_triu_has_duplicates site_triu_prune site_triu_fill.
Definition tril_flags : ctor_flags :=
  mkFlags site_tril_sorted site_tril_has_duplicates site_tril_prune site_tril_fill.
Definition diagonal_flags : ctor_flags :=
  mkFlags site_diagonal_sorted site_diagonal_has_duplicates site_diagonal_prune site_diagonal_fill.
Definition diagonalize_flags : ctor_flags :=
  mkFlags site_diagonalize_sorted site_diagonalize_has_duplicates site_diagonalize_prune site_diagonalize_fill.

Section Instances.
  Variable V : Type.
  Variable veqb : V -> V -> bool.
  Variable vzero : V.
  Variable vadd : V -> V -> V.

  Definition coo_triu_src : coo V -> Z -> res (coo V) :=
    coo_tri V veqb vzero vadd site_triu_keep site_triu_ndim_guard triu_flags site_triu_checks_zero_fill.
  Definition coo_tril_src : coo V -> Z -> res (coo V) :=
    coo_tri V veqb vzero vadd site_tril_keep site_tril_ndim_guard tril_flags site_tril_checks_zero_fill.
  Definition coo_diagonal_src : coo V -> Z -> Z -> Z -> res (coo V) :=
    coo_diagonal V veqb vzero vadd diagonal_flags site_diagonal_checks_zero_fill site_diagonal_axis_ndim
                 site_diagonal_same_axis_guard.
  Definition coo_diagonalize_src : coo V -> Z -> res (coo V) :=
    coo_diagonalize V veqb vzero vadd diagonalize_flags site_diagonalize_checks_zero_fill.
End Instances.
