(* Model/GCXS.v — the GCXS (generalised CSR/CSC) representation, its well-formedness and its
   dense meaning.  Definitions only.  (data, indices, indptr) + shape + compressed axes: the
   array is viewed as a (row_size x col_size) matrix whose rows run over the compressed axes
   (in the order given) and whose columns run over the remaining axes in increasing order;
   1-d arrays have no compressed axes (indices are the coordinates, indptr is unused). *)
From Coq Require Import ZArith List Bool.
From Verif Require Import Shape COO.
Import ListNotations.
Open Scope Z_scope.

Section GCXS.
  Variable V : Type.

  Record gcxs := mkGCXS {
    g_shape : shape;
    g_caxes : list Z;          (* compressed axes; [] for ndim <= 1 (the code stores None) *)
    g_data : list V;
    g_indices : list Z;
    g_indptr : list Z;
    g_fill : V
  }.

  Definition znth {A} (l : list A) (i : Z) (d : A) : A := nth (Z.to_nat i) l d.

  Definition mem_z (x : Z) (l : list Z) : bool := existsb (Z.eqb x) l.

  (* compressed axes first (as given), then the other axes in increasing order *)
  Definition axis_order (ndim : Z) (caxes : list Z) : list Z :=
    caxes ++ filter (fun a => negb (mem_z a caxes)) (zrange ndim).

  Definition reordered_shape (sh : shape) (caxes : list Z) : shape :=
    map (fun a => znth sh a 0) (axis_order (Z.of_nat (length sh)) caxes).

  Definition row_size (sh : shape) (caxes : list Z) : Z :=
    size (map (fun a => znth sh a 0) caxes).
  Definition col_size (sh : shape) (caxes : list Z) : Z :=
    size (skipn (length caxes) (reordered_shape sh caxes)).

  (* place the entries of tuple t (given in axis_order) back at their original axes *)
  Definition unpermute (order : list Z) (t : idx) : idx :=
    map (fun a => match find (fun p => fst p =? a) (combine order t) with
                  | Some (_, v) => v | None => 0 end)
        (zrange (Z.of_nat (length order))).

  Fixpoint strictly_increasing (l : list Z) : bool :=
    match l with
    | [] => true
    | a :: r => match r with [] => true | b :: _ => (a <? b) && strictly_increasing r end
    end.

  Fixpoint nondecreasing (l : list Z) : bool :=
    match l with
    | [] => true
    | a :: r => match r with [] => true | b :: _ => (a <=? b) && nondecreasing r end
    end.

  Definition slice_list {A} (l : list A) (lo hi : Z) : list A :=
    firstn (Z.to_nat (hi - lo)) (skipn (Z.to_nat lo) l).

  (* rows: the index lists of every row, cut out by consecutive indptr entries *)
  Fixpoint rows_of {A} (l : list A) (indptr : list Z) : list (list A) :=
    match indptr with
    | a :: ((b :: _) as r) => slice_list l a b :: rows_of l r
    | _ => []
    end.

  Fixpoint NoDupb (l : list Z) : bool :=
    match l with [] => true | a :: r => negb (mem_z a r) && NoDupb r end.

  Definition gcxs_wfb (g : gcxs) : bool :=
    let sh := g_shape g in
    let nnz := Z.of_nat (length (g_data g)) in
    forallb (fun d => 0 <=? d) sh &&
    match sh with
    | [] => (* 0-d: at most one stored element; the code keeps an empty (0, nnz) coords array *)
            (length (g_data g) <=? 1)%nat && match g_indices g with [] => true | _ => false end
    | [d] => (length (g_indices g) =? length (g_data g))%nat
             && match g_caxes g with [] => true | _ => false end
             && forallb (fun i => (0 <=? i) && (i <? d)) (g_indices g)
             && strictly_increasing (g_indices g)
    | _ =>
      let ca := g_caxes g in
      let ndim := Z.of_nat (length sh) in
      (length (g_indices g) =? length (g_data g))%nat &&
      negb (match ca with [] => true | _ => false end) &&
      forallb (fun a => (0 <=? a) && (a <? ndim)) ca &&
      (Z.of_nat (length ca) <? ndim) &&
      NoDupb ca &&
      (Z.of_nat (length (g_indptr g)) =? row_size sh ca + 1) &&
      (znth (g_indptr g) 0 (-1) =? 0) &&
      (znth (g_indptr g) (row_size sh ca) (-1) =? nnz) &&
      nondecreasing (g_indptr g) &&
      forallb (fun i => (0 <=? i) && (i <? col_size sh ca)) (g_indices g) &&
      forallb strictly_increasing (rows_of (g_indices g) (g_indptr g))
    end.

  (* entries (index tuple, value) in storage order *)
  Definition row_numbers (indptr : list Z) : list Z :=
    (* row number of every stored position: row r repeated indptr[r+1]-indptr[r] times *)
    let fix go (r : Z) (l : list Z) :=
      match l with
      | a :: ((b :: _) as t) => repeat r (Z.to_nat (b - a)) ++ go (r + 1) t
      | _ => []
      end in go 0 indptr.

  Definition gcxs_coords (g : gcxs) : list idx :=
    let sh := g_shape g in
    match sh with
    | [] => map (fun _ => []) (g_data g)
    | [_] => map (fun i => [i]) (g_indices g)
    | _ =>
      let ca := g_caxes g in
      let ord := axis_order (Z.of_nat (length sh)) ca in
      let rsh := reordered_shape sh ca in
      let cs := col_size sh ca in
      map (fun rc => unpermute ord (unravel rsh (fst rc * cs + snd rc)))
          (combine (row_numbers (g_indptr g)) (g_indices g))
    end.

  Definition gcxs_as_coo (g : gcxs) : coo V :=
    mkCOO (g_shape g) (gcxs_coords g) (g_data g) (g_fill g).

  Definition gden (g : gcxs) (ix : idx) : V := den (gcxs_as_coo g) ix.
End GCXS.

Arguments mkGCXS {V}.
Arguments g_shape {V}.
Arguments g_caxes {V}.
Arguments g_data {V}.
Arguments g_indices {V}.
Arguments g_indptr {V}.
Arguments g_fill {V}.
Arguments gcxs_wfb {V}.
Arguments gcxs_coords {V}.
Arguments gcxs_as_coo {V}.
Arguments gden {V}.
