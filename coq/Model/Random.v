(* Model/Random.v — sparse.random as the code runs it.
   * the argument guards, the nnz computation and the five-way branch chain are the GENERATED
     Gen/S_create.v:s_random_plan (regenerated from _utils.random on every run); it returns the final
     nnz and a symbolic plan (which sampler with which arguments);
   * the three kernels reverse / algA / algD are transcribed by hand with the same loop structure.
     Their floating-point tests are NOT modelled: they are answers of an oracle, constrained only by
     what IEEE arithmetic guarantees structurally —
       algA: `quot > V` cannot hold once top = 0 (quot = 0, V >= 0); the last draw
             intp(N * random()) lies in [0, N);
       algD: S = intp(X) >= 0 (0 <= Vprime <= 1); everything else (which candidate is accepted) is free;
       Generator.choice(a, 1) lies in [0, a).
     An oracle answer that contradicts such a fact is clamped to the nearest structurally possible
     one, so every oracle denotes a structurally possible run and every such run is denoted.
   * pre-sized output buffers with sequential writes are modelled by the list of values written;
     a run that would write outside the buffer or leave it partly unwritten is None/padded exactly
     as commented at `reverse`.
   Definitions only. *)
From Coq Require Import ZArith List Bool.
From Verif Require Import Py PyExt PyCreate S_create Shape COO NpCreate.
Import ListNotations.
Open Scope Z_scope.

Definition hd0 (l : list Z) : Z := match l with [] => 0 | x :: _ => x end.

(* an integer drawn "uniformly below N": floor(N * u) for u in [0,1), or Generator.choice(N) *)
Definition draw_below (N u : Z) : Z := Z.max 0 (Z.min u (N - 1)).

(* np.arange(i, N) *)
Definition arange2 (i N : Z) : list Z := map (fun t => i + t) (zrange (N - i)).

(* ------------------------------------------------------------------ reverse(inv, N)
     a = np.zeros(N - len(inv)); j = k = 0
     for i in range(N):
         if j == len(inv): a[k:] = np.arange(i, N); break
         if i == inv[j]: j += 1
         else: a[k] = i; k += 1
   inv is consumed from the front (j), the writes a[k] are sequential (k).  Returns the values
   written in order and whether the loop left through the slice assignment. *)
Fixpoint reverse_loop (cnt : nat) (i N : Z) (inv : list Z) : list Z * bool :=
  match cnt with
  | O => ([], false)
  | S c =>
    match inv with
    | [] => (arange2 i N, true)
    | x :: inv' =>
      if i =? x then reverse_loop c (i + 1) N inv'
      else let '(l, b) := reverse_loop c (i + 1) N inv in (i :: l, b)
    end
  end.

(* the buffer has L = N - len(inv) cells: a negative L is np.zeros' ValueError; a slice assignment
   must fill the rest exactly; without it, unwritten cells stay 0 and a write beyond the end is
   out of bounds (unchecked in nopython mode) *)
Definition reverse (inv : list Z) (N : Z) : option (list Z) :=
  let L := N - Z.of_nat (length inv) in
  if L <? 0 then None else
  let '(w, brk) := reverse_loop (Z.to_nat N) 0 N inv in
  let lw := Z.of_nat (length w) in
  if brk then (if lw =? L then Some w else None)
  else (if lw <=? L then Some (w ++ repeat 0 (Z.to_nat (L - lw))) else None).

(* ------------------------------------------------------------------ algA(n, N, random_state)
     arr = zeros(n); arr[-1] = -1; i = 0; top = N - n
     while n >= 2:
         V = random(); S = 0; quot = top / N
         while quot > V: S += 1; top -= 1; N -= 1; quot *= top / N
         arr[i] = arr[i-1] + S + 1; i += 1; N -= 1; n -= 1
     S = intp(N * random()); arr[i] = arr[i-1] + S + 1
   Oracle: one integer per outer iteration = how many consecutive times `quot > V` comes out true
   (cut short when top reaches 0), then one integer for the last draw. *)
Fixpoint algA_inner (c : nat) (S_ top N : Z) : Z * Z * Z :=
  match c with
  | O => (S_, top, N)
  | S c' => if 0 <? top then algA_inner c' (S_ + 1) (top - 1) (N - 1) else (S_, top, N)
  end.

(* k = remaining outer iterations; last = arr[i-1]; returns (values written, last, N, rest of oracle) *)
Fixpoint algA_loop (k : nat) (reqs : list Z) (last top N : Z) : list Z * Z * Z * list Z :=
  match k with
  | O => ([], last, N, reqs)
  | S k' =>
    let '(S_, top', N') := algA_inner (Z.to_nat (hd0 reqs)) 0 top N in
    let v := last + S_ + 1 in
    let '(l, last', N'', r) := algA_loop k' (tl reqs) v top' (N' - 1) in
    (v :: l, last', N'', r)
  end.

(* n < 1: np.zeros(n<0) raises / arr[-1] on an empty buffer is out of bounds *)
Definition algA (n N : Z) (reqs : list Z) : option (list Z) :=
  if n <? 1 then None else
  let '(l, last, N', r) := algA_loop (Z.to_nat (n - 1)) reqs (-1) (N - n) N in
  Some (l ++ [last + draw_below N' (hd0 r) + 1]).

(* ------------------------------------------------------------------ algD(n, N, random_state)
   per selected element: candidates S = intp(X) are proposed until one has qu1 > S and passes the
   first (`Vprime <= 1`) or the second (`y1 * ... <= N / (N - X)`) acceptance test; then
     arr[i] = arr[i-1] + S + 1; N = N - S - 1; n -= 1; qu1 = qu1 - S.
   Oracle: one event (S, first test, second test) per evaluation of S = intp(X).  The list is the
   fuel: None = the stream ended before the kernel returned. *)
Definition ev := (Z * bool * bool)%type.

Fixpoint algD_pick (evs : list ev) (qu1 : Z) : option (Z * list ev) :=
  match evs with
  | [] => None
  | (s, b1, b2) :: r =>
    let S_ := Z.max 0 s in
    if qu1 >? S_ then
      (if b1 then Some (S_, r) else if b2 then Some (S_, r) else algD_pick r qu1)
    else algD_pick r qu1
  end.

Fixpoint algD_loop (k : nat) (evs : list ev) (last N qu1 : Z) : option (list Z) :=
  match k with
  | O => Some []
  | S k' =>
    match algD_pick evs qu1 with
    | None => None
    | Some (S_, r) =>
      let v := last + S_ + 1 in
      match algD_loop k' r v (N - S_ - 1) (qu1 - S_) with
      | None => None
      | Some l => Some (v :: l)
      end
    end
  end.

Definition algD (n N : Z) (evs : list ev) : option (list Z) :=
  if n <? 1 then None else algD_loop (Z.to_nat n) evs (-1) N (N - n).

(* ------------------------------------------------------------------ the sampling plan *)
Record oracle := mkO { o_pick : Z; o_A : list Z; o_D : list ev }.

(* random_state.choice(a, size): sampling WITH replacement; only sizes 0 and 1 are modelled (the
   branch chain never asks for more: RandomP.plan_shape) *)
Definition choice (a k u : Z) : option (list Z) :=
  if k =? 0 then Some [] else if k =? 1 then Some [draw_below a u] else None.

(* the symbolic plan built by the generated chain (Lib/PyCreate.v), decoded *)
Inductive base := BAll (a : Z) | BChoice (a k : Z) | BD (n a : Z) | BA (n a : Z).
Inductive plan := PBase (b : base) | PRev (b : base) (a : Z).

Definition decode_base (p : pyv) : option base :=
  match p with
  | VTuple [VInt 0; VInt a] => Some (BAll a)
  | VTuple [VInt 1; VInt a; VInt k] => Some (BChoice a k)
  | VTuple [VInt 3; VInt n; VInt a] => Some (BD n a)
  | VTuple [VInt 4; VInt n; VInt a] => Some (BA n a)
  | _ => None
  end.

Definition decode_plan (p : pyv) : option plan :=
  match p with
  | VTuple [VInt 2; inner; VInt a] =>
    match decode_base inner with Some b => Some (PRev b a) | None => None end
  | _ => match decode_base p with Some b => Some (PBase b) | None => None end
  end.

Definition sample_base (b : base) (o : oracle) : option (list Z) :=
  match b with
  | BAll a => Some (zrange a)                      (* np.arange(elements) *)
  | BChoice a k => choice a k (o_pick o)
  | BD n a => algD n a (o_D o)
  | BA n a => algA n a (o_A o)
  end.

Definition sample_of_plan (p : plan) (o : oracle) : option (list Z) :=
  match p with
  | PBase b => sample_base b o
  | PRev b a => match sample_base b o with Some inv => reverse inv a | None => None end
  end.

(* 0 all | 1 choice | 3 algD | 4 algA | 21 / 23 / 24 reverse of choice / algD / algA *)
Definition base_tag (b : base) : Z :=
  match b with BAll _ => 0 | BChoice _ _ => 1 | BD _ _ => 3 | BA _ _ => 4 end.
Definition plan_tag (p : plan) : Z :=
  match p with PBase b => base_tag b | PRev b _ => 20 + base_tag b end.

(* ------------------------------------------------------------------ sparse.random *)
(* density as a dyadic rational m * 2^e (exactly the float), or None when not given *)
Definition dyadic := (Z * Z)%type.
Definition density_default : dyadic := (5764607523034235, -59).       (* the float 0.01 *)

(* -1: < 0 (NaN is passed as such) | 0: in [0,1) | 1: = 1 | 2: > 1 *)
Definition density_class (d : dyadic) : Z :=
  let '(m, e) := d in
  if m <? 0 then -1 else
  let c := if 0 <=? e then (m * 2 ^ e ?= 1) else (m ?= 2 ^ (- e)) in
  match c with Lt => 0 | Eq => 1 | Gt => 2 end.

Definition ozr (o : option Z) : pyv := match o with None => VNone | Some z => VInt z end.

Definition random_plan (dens : option dyadic) (nnz : option Z) (elements : Z) : res pyv :=
  let d := match dens with Some d => d | None => density_default end in
  let prod := int_mul_f64 elements (fst d) (snd d) in
  s_random_plan (ozr (option_map density_class dens)) (ozr nnz) (VInt elements) (VInt prod) VNone VNone.

(* what each branch of the chain may ask of a sampler, given the final nnz = n, elements = el and
   the density class dc: executable, also evaluated by the correspondence judge *)
Definition plan_okb (n el dc : Z) (p : plan) : bool :=
  match p with
  | PBase (BAll a) => (a =? el) && ((n =? el) || (1 <=? dc))
  | PBase (BChoice a k) => (a =? el) && (k =? n) && (n <? 2) && (n <? el)
  | PBase (BD m a) => (a =? el) && (m =? n) && (2 <=? n) && (10 * n <? el)
  | PBase (BA m a) => (a =? el) && (m =? n) && (2 <=? n) && (2 * n <=? el) && (el <=? 10 * n)
  | PRev (BChoice a k) a' => (a =? el) && (a' =? el) && (k =? el - n) && (k =? 1) && (2 <=? n)
  | PRev (BD m a) a' => (a =? el) && (a' =? el) && (m =? el - n) && (2 <=? m) && (10 * m <? el)
  | PRev (BA m a) a' =>
      (a =? el) && (a' =? el) && (m =? el - n) && (2 <=? m) && (2 * m <? el) && (el <=? 10 * m)
  | PRev (BAll _) _ => false
  end.

Definition dcv (dc : option Z) : Z := match dc with Some d => d | None => 0 end.

(* the number of elements the caller asked for: nnz, or int(elements * density) in binary64 *)
Definition requested (dens : option dyadic) (nnz : option Z) (elements : Z) : Z :=
  match nnz with
  | Some k => k
  | None => let d := match dens with Some d => d | None => density_default end in
            int_mul_f64 elements (fst d) (snd d)
  end.

Section Random.
  Variable V : Type.

  (* data = data_rvs(nnz) is the sampler's output, stored as is;
     COO(ind[None, :], data, shape=elements, fill_value).reshape(shape): linear positions unravelled *)
  Definition random_coo (sh : shape) (dens : option dyadic) (nnz : option Z) (o : oracle)
             (data : list V) (fv : V) : option (coo V) :=
    match random_plan dens nnz (size sh) with
    | Ok (VTuple [VInt n; p]) =>
      match decode_plan p with
      | Some pl =>
        match sample_of_plan pl o with
        | Some ind =>
          if (length data =? length ind)%nat
          then Some (mkCOO sh (map (unravel sh) ind) data fv)
          else None                                    (* the constructor's ValueError *)
        | None => None
        end
      | None => None
      end
    | _ => None
    end.
End Random.

Arguments random_coo {V}.

Definition random_nnz_tag (dens : option dyadic) (nnz : option Z) (elements : Z) : option (Z * Z) :=
  match random_plan dens nnz elements with
  | Ok (VTuple [VInt n; p]) =>
    match decode_plan p with Some pl => Some (n, plan_tag pl) | None => None end
  | _ => None
  end.
