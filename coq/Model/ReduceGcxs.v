(* Model/ReduceGcxs.v — the index-pointer arithmetic of GCXS._reduce_calc (property C03), over
   Model/GCXS.v and the conversion model Model/Convert.v (change_compressed_axes).  Definitions only
   (proofs in Proofs/ReduceIndptrP.v).

       x = self.change_compressed_axes(compressed_axes)          (Convert.gcxs_change_axes)
       idx = np.diff(x.indptr) != 0
       indptr = x.indptr[:-1][idx]                               (group starts)
       indices = np.arange(x._compressed_shape[0])[idx]          (row numbers of the stored rows)
       data = method.reduceat(x.data, indptr)
       counts = x.indptr[1:][idx] - x.indptr[:-1][idx]
       n_cols = x._compressed_shape[1] *)
From Coq Require Import ZArith List Bool.
From Verif Require Import Py PyExt PyReduce Shape COO GCXS Convert NpReduce Reduce.
Import ListNotations.
Open Scope Z_scope.

(* (start, row, count) of every row with a non-empty slice [indptr[r], indptr[r+1]) *)
Fixpoint gcxs_groups_go (r : Z) (indptr : list Z) : list (Z * Z * Z) :=
  match indptr with
  | a :: ((b :: _) as t) =>
    if negb (b - a =? 0) then (a, r, b - a) :: gcxs_groups_go (r + 1) t else gcxs_groups_go (r + 1) t
  | _ => []
  end.
Definition gcxs_groups (indptr : list Z) : list (Z * Z * Z) := gcxs_groups_go 0 indptr.

Section IP.
  Variable V : Type.
  Variable op : V -> V -> V.
  Variable cast : V -> V.

  (* (data, counts, row numbers, n_cols) on the re-compressed array x *)
  Definition gcxs_ip_calc (x : gcxs V) : res (list V * list Z * list Z * Z) :=
    let gr := gcxs_groups (g_indptr x) in
    data <- reduceat V op (g_fill x) (map cast (g_data x)) (map (fun t => fst (fst t)) gr) ;;
    Ok (data, map snd gr, map (fun t => snd (fst t)) gr, col_size (g_shape x) (g_caxes x)).

  (* GCXS._reduce_calc, re-compression path, for the normalised axes *)
  Definition gcxs_recompress_calc (g : gcxs V) (axes : list Z) : res (list V * list Z * list Z * Z) :=
    gcxs_ip_calc (gcxs_change_axes g (kept_axes (zlen (g_shape g)) axes)).
End IP.
