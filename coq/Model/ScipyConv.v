(* Model/ScipyConv.v — the scipy.sparse boundary (property C05).  Definitions only.

   A small model of what scipy hands over and takes back:
     * a csr_matrix / csc_matrix is its three arrays (data, indices, indptr) + a 2-d shape;
       `has_canonical_format` = inside every row (csr) / column (csc) the indices are strictly
       increasing (sorted, no duplicates);
     * `sum_duplicates()` of a non-canonical matrix is modelled by its result: the canonical matrix of
       the same orientation whose entries are the sums of the values given for each position (scipy
       itself is external; this model is compared with real scipy on every run by the construction
       stream of tools/props/c05.py, canonical and non-canonical input);
     * a coo_matrix is (row, col, data) + the flag.
   The decisions the code takes at the boundary (when to re-canonicalise, which compressed axis a
   csr/csc matrix becomes, which constructor flags a coo_matrix gets, which scipy class a GCXS
   becomes) are the generated definitions of Gen/S_scipyconv.v.  Format changes inside scipy
   (csr <-> csc <-> coo by scipy's own asformat) are not modelled. *)
From Coq Require Import ZArith List Bool.
From Verif Require Import Py Shape COO GCXS S_scipyconv Convert.
Import ListNotations.
Open Scope Z_scope.

Section Scipy.
  Variable V : Type.
  Variable veqb : V -> V -> bool.
  Variable add : V -> V -> V.
  Variable zero : V.

  Record scs := mkSCS {
    sc_csc : bool;              (* false: csr_matrix, true: csc_matrix *)
    sc_shape : shape;
    sc_data : list V;
    sc_indices : list Z;
    sc_indptr : list Z
  }.

  (* the compressed axis GCXS.from_scipy_sparse gives the matrix *)
  Definition sc_axis (m : scs) : Z := s_from_scipy_axis (sc_csc m).

  (* GCXS((x.data, x.indices, x.indptr), shape=x.shape, compressed_axes=…, fill_value=None) *)
  Definition sc_as_gcxs (m : scs) : gcxs V :=
    mkGCXS (sc_shape m) [sc_axis m] (sc_data m) (sc_indices m) (sc_indptr m) zero.

  (* what scipy's own constructor validation guarantees: a 2-d shape, one pointer per major index
     plus one, starting at 0, non-decreasing, ending at nnz; minor indices in range *)
  Definition sc_structb (m : scs) : bool :=
    let sh := sc_shape m in
    let ca := [sc_axis m] in
    (length sh =? 2)%nat && shape_okb sh
    && (length (sc_indices m) =? length (sc_data m))%nat
    && (Z.of_nat (length (sc_indptr m)) =? row_size sh ca + 1)
    && (znth (sc_indptr m) 0 (-1) =? 0)
    && (znth (sc_indptr m) (row_size sh ca) (-1) =? Z.of_nat (length (sc_data m)))
    && nondecreasing (sc_indptr m)
    && forallb (fun i => (0 <=? i) && (i <? col_size sh ca)) (sc_indices m).

  (* scipy: x.has_canonical_format *)
  Definition sc_canonicalb (m : scs) : bool :=
    forallb strictly_increasing (rows_of (sc_indices m) (sc_indptr m)).

  (* the (row, col) positions of the stored values, in storage order *)
  Definition sc_coords (m : scs) : list idx :=
    map (fun rc => if sc_csc m then [snd rc; fst rc] else [fst rc; snd rc])
        (combine (row_numbers (sc_indptr m)) (sc_indices m)).

  (* scipy: x.sum_duplicates() — modelled by its result *)
  Definition sc_sum_duplicates (m : scs) : scs :=
    let c := coo_make veqb add false true false (sc_shape m) (sc_coords m) (sc_data m) zero in
    let g := gcxs_from_coo c [sc_axis m] in
    mkSCS (sc_csc m) (sc_shape m) (g_data g) (g_indices g) (g_indptr g).

  (* compressed._canonical_scipy *)
  Definition canonical_scipy (m : scs) : scs :=
    if s_canonical_scipy_recanon (sc_canonicalb m) then sc_sum_duplicates m else m.

  (* the CALLER's matrix after _canonical_scipy returned: scipy's sum_duplicates() works in place, so the
     operand itself is rewritten unless the function rebinds x to a fresh copy first *)
  Definition scipy_operand_after (m : scs) : scs :=
    if s_canonical_scipy_recanon (sc_canonicalb m) && negb s_canonical_scipy_copies_first
    then sc_sum_duplicates m else m.

  (* GCXS.from_scipy_sparse (csr or csc input), CSR.from_scipy_sparse (csr), CSC.from_scipy_sparse (csc) *)
  Definition gcxs_from_scipy (m : scs) : gcxs V := sc_as_gcxs (canonical_scipy m).

  (* GCXS.to_scipy_sparse: zero fill and 2-d only; the arrays are passed as they are *)
  Definition gcxs_to_scipy (g : gcxs V) : res scs :=
    if negb (veqb (g_fill g) zero) then Raise ValueError
    else match g_shape g with
         | [_; _] => Ok (mkSCS (negb (s_to_scipy_is_csr (mem_z 0 (g_caxes g)))) (g_shape g)
                               (g_data g) (g_indices g) (g_indptr g))
         | _ => Raise ValueError
         end.

  (* COO.from_scipy_sparse of a coo_matrix with flag has_canonical_format *)
  Definition coo_from_scipy (flag : bool) (sh : shape) (coords : list idx) (data : list V) : coo V :=
    coo_make veqb add (s_coo_from_scipy_sorted flag) (s_coo_from_scipy_hasdup flag) false sh coords data zero.

  (* COO.to_scipy_sparse: (data, (row, col)) with the flag the code sets; zero fill and 2-d only *)
  Definition coo_to_scipy (c : coo V) : res (bool * shape * list idx * list V) :=
    if negb (veqb (c_fill c) zero) then Raise ValueError
    else match c_shape c with
         | [_; _] => Ok (s_coo_to_scipy_flag, c_shape c, c_coords c, c_data c)
         | _ => Raise ValueError
         end.
End Scipy.

Arguments mkSCS {V}.
Arguments sc_csc {V}.
Arguments sc_shape {V}.
Arguments sc_data {V}.
Arguments sc_indices {V}.
Arguments sc_indptr {V}.
Arguments sc_axis {V}.
Arguments sc_as_gcxs {V}.
Arguments sc_structb {V}.
Arguments sc_canonicalb {V}.
Arguments sc_coords {V}.
Arguments sc_sum_duplicates {V}.
Arguments canonical_scipy {V}.
Arguments scipy_operand_after {V}.
Arguments gcxs_from_scipy {V}.
Arguments gcxs_to_scipy {V}.
Arguments coo_from_scipy {V}.
Arguments coo_to_scipy {V}.
