(* Model/DokGetitem.v — DOK.__getitem__ (sparse/numba_backend/_dok.py, after fixes e6d97fc / e0a1c30 / b72190a),
   with the same branch structure:
     a NON-EMPTY key made of index sequences only: NotImplementedError unless there is one sequence per axis;
       then _fancy_key = check_index on every (sequence, extent), sanitize_index, posify_index — the helpers of
       normalize_index, in the same order, which is all normalize_index does to such a key (no Ellipsis, nothing to
       pad, replace_none / clip_slice leave arrays alone): IndexError for an entry out of bounds or a mask of the
       wrong length, masks become positions, negatives wrap; IndexError unless the sequences have one length; then
       _fancy_getitem: new_data[i] = data[k_i] for the rows k_i (the i-th tuple of zip over the key) PRESENT in the
       dict, result of shape (len(key[0]),);
     every other key, the empty key () included: self.asformat("coo")[key] (COO.from_iter: Model/Convert.v — 0-d
       DOKs included; the COO getitem: Model/CooIndex.v), a sparse result is converted back with DOK.from_coo.
   Definitions only. *)
From Coq Require Import ZArith List Bool.
From Verif Require Import Py Shape COO GCXS Convert NpIndex CooIndex.
Import ListNotations.
Open Scope Z_scope.

Section DG.
  Variable V : Type.
  Variable veqb : V -> V -> bool.
  Variable add : V -> V -> V.

  Inductive dres := DScalar (v : V) | DArr (sh : shape) (items : list (idx * V)) (fill : V).

  (* k in self.data / self.data[k] *)
  Fixpoint dict_get (items : list (idx * V)) (k : idx) : option V :=
    match items with
    | [] => None
    | (k', v) :: r => if idx_eqb k' k then Some v else dict_get r k
    end.

  (* all(isinstance(k, Iterable) for k in key), on a non-empty key *)
  Definition fancy_key (ix : index) : bool :=
    match ix with [] => false | _ => forallb is_iarr ix end.

  (* the index sequences after _fancy_key *)
  Definition narr_lists (nix : list nentry) : list (list Z) :=
    flat_map (fun e => match e with NArr l => [l] | _ => [] end) nix.

  Definition zip_key (ls : list (list Z)) (i : nat) : idx := map (fun l => nth i l 0) ls.

  Definition dok_fancy (items : list (idx * V)) (fill : V) (ls : list (list Z)) : res dres :=
    match ls with
    | [] => Raise IndexError
    | l0 :: _ =>
      if negb (forallb (fun l => (length l =? length l0)%nat) ls) then Raise IndexError
      else Ok (DArr [Z.of_nat (length l0)]
                    (flat_map (fun i => match dict_get items (zip_key ls i) with
                                        | Some v => [([Z.of_nat i], v)]
                                        | None => []
                                        end) (seq 0 (length l0)))
                    fill)
    end.

  Definition dok_getitem (kf : nat -> nat) (sh : shape) (items : list (idx * V)) (fill : V) (ix : index) : res dres :=
    if fancy_key ix then
      if negb (length ix =? length sh)%nat then Raise NotImplementedError
      else nix <- normalize_index ix sh ;; dok_fancy items fill (narr_lists nix)
    else
      c <- from_iter_pairs veqb add sh items fill ;;
      r <- getitem kf c ix ;;
      match r with
      | GScalar v => Ok (DScalar v)
      | GArr y => Ok (DArr (c_shape y) (dok_items_of_coo y) (c_fill y))
      end.
End DG.

Arguments DScalar {V}.
Arguments DArr {V}.
