(* Model/DokGetitem.v — DOK.__getitem__ (sparse/numba_backend/_dok.py), with the same branch structure:
     a key made of iterables only (also the empty key) takes _fancy_getitem: NotImplementedError unless
       there is one index sequence per axis, IndexError unless they have one length, then
       new_data[i] = data[k_i] for the rows k_i (the i-th tuple of zip over the key) PRESENT in the dict (no wrapping of
       negatives, no bounds check; booleans hash as 0/1), result of shape (len(key[0]),);
     every other key: self.asformat("coo")[key] (COO.from_iter: Model/Convert.v; the COO getitem:
       Model/CooIndex.v), a sparse result is converted back with DOK.from_coo.
   Definitions only. *)
From Coq Require Import ZArith List Bool.
From Verif Require Import Py Shape COO GCXS Convert NpIndex CooIndex.
Import ListNotations.
Open Scope Z_scope.

Section DG.
  Variable V : Type.
  Variable veqb : V -> V -> bool.
  Variable add : V -> V -> V.

  Inductive dres := DScalar (v : V) | DArr (sh : shape) (items : list (idx * V)) (fill : V).

  (* k in self.data / self.data[k] *)
  Fixpoint dict_get (items : list (idx * V)) (k : idx) : option V :=
    match items with
    | [] => None
    | (k', v) :: r => if idx_eqb k' k then Some v else dict_get r k
    end.

  Definition arr_of (e : ientry) : option (list Z) :=
    match e with
    | IArr l => Some l
    | IBArr b => Some (map (fun x : bool => if x then 1 else 0) b)
    | _ => None
    end.

  Fixpoint all_arrays_of (ix : index) : option (list (list Z)) :=
    match ix with
    | [] => Some []
    | e :: r => match arr_of e, all_arrays_of r with Some l, Some ls => Some (l :: ls) | _, _ => None end
    end.

  Definition zip_key (ls : list (list Z)) (i : nat) : idx := map (fun l => nth i l 0) ls.

  Definition dok_fancy (sh : shape) (items : list (idx * V)) (fill : V) (ls : list (list Z)) : res dres :=
    if negb (length ls =? length sh)%nat then Raise NotImplementedError
    else match ls with
         | [] => Raise IndexError                        (* len(key[0]) on the empty key *)
         | l0 :: _ =>
           if negb (forallb (fun l => (length l =? length l0)%nat) ls) then Raise IndexError
           else Ok (DArr [Z.of_nat (length l0)]
                         (flat_map (fun i => match dict_get items (zip_key ls i) with
                                             | Some v => [([Z.of_nat i], v)]
                                             | None => []
                                             end) (seq 0 (length l0)))
                         fill)
         end.

  Definition dok_getitem (kf : nat -> nat) (sh : shape) (items : list (idx * V)) (fill : V) (ix : index) : res dres :=
    match all_arrays_of ix with
    | Some ls => dok_fancy sh items fill ls
    | None =>
      c <- from_iter_pairs veqb add sh items fill ;;
      r <- getitem kf c ix ;;
      match r with
      | GScalar v => Ok (DScalar v)
      | GArr y => Ok (DArr (c_shape y) (dok_items_of_coo y) (c_fill y))
      end
    end.
End DG.

Arguments DScalar {V}.
Arguments DArr {V}.
