(* Spec/NpDot.v — what NumPy means by a matrix product and by tensordot, on the mathematical
   object: a dense array is a shape and a function from index tuples to values.  The element
   type is any carrier with a zero, an addition and a multiplication. *)
From Coq Require Import ZArith List Bool.
From Verif Require Import Shape.
Import ListNotations.
Open Scope Z_scope.

(* the algebra the theorems need of the element type (Z, and exact arithmetic in general, has it;
   floating point does not: rounding is outside the model) *)
Record comm_semiring {V : Type} (vzero : V) (vadd vmul : V -> V -> V) : Prop := {
  sr_add_0_l : forall x, vadd vzero x = x;
  sr_add_comm : forall x y, vadd x y = vadd y x;
  sr_add_assoc : forall x y z, vadd x (vadd y z) = vadd (vadd x y) z;
  sr_mul_0_l : forall x, vmul vzero x = vzero;
  sr_mul_0_r : forall x, vmul x vzero = vzero;
  sr_mul_comm : forall x y, vmul x y = vmul y x
}.

Lemma Z_comm_semiring : comm_semiring 0 Z.add Z.mul.
Proof. constructor; intros; auto with zarith. Qed.

Section NpDot.
  Variable V : Type.
  Variable vzero : V.
  Variable vadd vmul : V -> V -> V.

  (* f 0 + (f 1 + (... + (f (n-1) + 0))) *)
  Definition vsum (l : list V) : V := fold_right vadd vzero l.
  Definition sum_over (n : Z) (f : Z -> V) : V := vsum (map f (zrange n)).
  Definition sum_idx (sh : shape) (f : idx -> V) : V := vsum (map f (all_indices sh)).

  (* np.matmul / np.dot of an (m x n) by an (n x p) matrix:  (a @ b)[i, k] = sum_j a[i, j] * b[j, k] *)
  Definition np_matmul2 (n : Z) (a b : Z -> Z -> V) : Z -> Z -> V :=
    fun i k => sum_over n (fun j => vmul (a i j) (b j k)).

  (* np.dot of two 1-d arrays: the lengths must agree *)
  Fixpoint zip_mul (a b : list V) : list V :=
    match a, b with x :: a', y :: b' => vmul x y :: zip_mul a' b' | _, _ => [] end.
  Definition np_dot_1d (a b : list V) : option V :=
    if (length a =? length b)%nat then Some (vsum (zip_mul a b)) else None.   (* None: ValueError *)

  (* dense arrays *)
  Record arr := mkArr { a_shape : shape; a_at : idx -> V }.

  Definition nthZ (l : list Z) (i : Z) : Z := nth (Z.to_nat i) l 0.

  (* np.transpose(a, perm): result axis t is a's axis perm[t] *)
  Definition put_axes (perm : list Z) (ix : idx) (n : nat) : idx :=
    (* the index tuple of a (n axes) whose entry at axis perm[t] is ix[t] *)
    map (fun ax => match find (fun p => fst p =? ax) (combine perm ix) with
                   | Some (_, v) => v | None => 0 end) (zrange (Z.of_nat n)).
  Definition np_transpose (perm : list Z) (a : arr) : arr :=
    mkArr (map (nthZ (a_shape a)) perm) (fun ix => a_at a (put_axes perm ix (length (a_shape a)))).

  (* np.reshape (C order): same row-major position *)
  Definition np_reshape (sh : shape) (a : arr) : arr :=
    mkArr sh (fun ix => a_at a (unravel (a_shape a) (ravel sh ix))).

  Definition mat_of (a : arr) : Z -> Z -> V := fun i j => a_at a [i; j].
  Definition arr_of_mat (m p : Z) (f : Z -> Z -> V) : arr :=
    mkArr [m; p] (fun ix => match ix with [i; k] => f i k | _ => vzero end).

  (* np.tensordot(a, b, (axes_a, axes_b)): the free axes of a (in order), then the free axes of b;
       out[ia ++ ib] = sum over c in the contracted index space of a[ia, c placed] * b[c placed, ib] *)
  Definition free_axes (nd : nat) (axes : list Z) : list Z :=
    filter (fun k => negb (existsb (Z.eqb k) axes)) (zrange (Z.of_nat nd)).
  Definition np_tensordot (a b : arr) (axes_a axes_b : list Z) : arr :=
    let fa := free_axes (length (a_shape a)) axes_a in
    let fb := free_axes (length (a_shape b)) axes_b in
    let sa := map (nthZ (a_shape a)) fa in
    let sb := map (nthZ (a_shape b)) fb in
    let sc := map (nthZ (a_shape a)) axes_a in
    mkArr (sa ++ sb)
          (fun ix =>
             let ia := firstn (length fa) ix in
             let ib := skipn (length fa) ix in
             sum_idx sc (fun c =>
               vmul (a_at a (put_axes (fa ++ axes_a) (ia ++ c) (length (a_shape a))))
                    (a_at b (put_axes (axes_b ++ fb) (c ++ ib) (length (a_shape b)))))).

  (* np.einsum with ONE operand, "lhs->rhs" (labels are integers; rhs: distinct labels of lhs):
       out[o] = sum over the index tuples ix of the operand on which positions with equal labels carry equal
                coordinates and whose coordinates at the output labels are o, of a[ix]. *)
  Definition pos_of (lhs : list Z) (lab : Z) : nat :=
    (fix go (l : list Z) (p : nat) := match l with [] => p | x :: r => if x =? lab then p else go r (S p) end) lhs 0%nat.
  Definition es_consistent (lhs : list Z) (ix : idx) : bool :=
    forallb (fun p => forallb (fun q => implb (nth p lhs 0 =? nth q lhs 0) (nth p ix 0 =? nth q ix 0))
                              (seq 0 (length lhs))) (seq 0 (length lhs)).
  Definition es_proj (lhs rhs : list Z) (ix : idx) : idx := map (fun lab => nth (pos_of lhs lab) ix 0) rhs.
  Definition np_einsum1 (lhs rhs : list Z) (a : arr) : arr :=
    mkArr (es_proj lhs rhs (a_shape a))
          (fun o => sum_idx (a_shape a)
                      (fun ix => if es_consistent lhs ix && idx_eqb (es_proj lhs rhs ix) o then a_at a ix else vzero)).

  (* np.kron of two arrays with the same number of axes: shape = the products of the extents,
       out[ix] = a[ix // b.shape] * b[ix % b.shape]   (per axis) *)
  Definition kdiv (bs : shape) (ix : idx) : idx := map (fun p => fst p / snd p) (combine ix bs).
  Definition kmod (bs : shape) (ix : idx) : idx := map (fun p => fst p mod snd p) (combine ix bs).
  Definition np_kron (a b : arr) : arr :=
    mkArr (map (fun p => fst p * snd p) (combine (a_shape a) (a_shape b)))
          (fun ix => vmul (a_at a (kdiv (a_shape b) ix)) (a_at b (kmod (a_shape b) ix))).

  (* np.matmul on stacks of matrices: a has shape sha ++ [m; n], b has shape shb ++ [n; p], the batch shapes
     sha, shb have the same length and broadcast (an extent 1 is repeated):
       out[t ++ [i; k]] = sum_j a[bc sha t ++ [i; j]] * b[bc shb t ++ [j; k]] *)
  Definition bcast_idx (sh : shape) (t : idx) : idx := map (fun p => if fst p =? 1 then 0 else snd p) (combine sh t).
  Definition np_matmul_batch (sha shb : shape) (n : Z) (a b : idx -> V) : idx -> V :=
    fun ix =>
      let nb := length sha in
      let t := firstn nb ix in
      match skipn nb ix with
      | [i; k] => sum_over n (fun j => vmul (a (bcast_idx sha t ++ [i; j])) (b (bcast_idx shb t ++ [j; k])))
      | _ => vzero
      end.

  (* row-major table of a matrix-valued function *)
  Definition mat_flat (m p : Z) (f : Z -> Z -> V) : list V :=
    flat_map (fun i => map (fun k => f i k) (zrange p)) (zrange m).
End NpDot.

Arguments mkArr {V}.
Arguments a_shape {V}.
Arguments a_at {V}.
