(* Spec/NpSort.v — what NumPy (and the Array API `descending` flag) mean by sort, argmax/argmin,
   unique_values, unique_counts, nonzero, argwhere on a DENSE integer array (shape + row-major
   flat data).  Part 1: the 1-d primitives the sparse code itself calls (np.sort, np.argmax,
   np.unique, np.argsort) as executable list functions, with the declarative reading used in the
   theorems.  Part 2: the array-level meaning (per line along an axis, keepdims, axis=None).
   Integer data only: NaN ordering and complex numbers are not described here. *)
From Coq Require Import ZArith List Bool Sorting.Sorted Sorting.Permutation.
From Verif Require Import Py Shape COO.
Import ListNotations.
Open Scope Z_scope.

(* ------------------------------------------------------------------ 1-d primitives *)

(* np.sort on a 1-d integer array (stable insertion sort; for integers every sorting
   algorithm gives the same list, see SortSearchP.sorted_perm_unique) *)
Fixpoint insert (x : Z) (l : list Z) : list Z :=
  match l with
  | [] => [x]
  | y :: r => if x <=? y then x :: l else y :: insert x r
  end.
Definition np_sort (l : list Z) : list Z := fold_right insert [] l.

(* order in the requested direction *)
Definition ord_le (desc : bool) (a b : Z) : Prop := if desc then b <= a else a <= b.
Definition np_sort_dir (desc : bool) (l : list Z) : list Z := if desc then rev (np_sort l) else np_sort l.

(* declarative reading: l' is l sorted in the given direction *)
Definition is_sort_of (desc : bool) (l l' : list Z) : Prop :=
  Sorted (ord_le desc) l' /\ Permutation l l'.

(* np.argmax / np.argmin of a non-empty 1-d array: position of the FIRST occurrence of the
   extremum (scan keeping the best so far, replaced only by a strictly better value) *)
Definition better (maxm : bool) (a b : Z) : bool := if maxm then a >? b else a <? b.
Fixpoint arg_scan (maxm : bool) (l : list Z) (i bi bv : Z) : Z :=
  match l with
  | [] => bi
  | v :: r => if better maxm v bv then arg_scan maxm r (i + 1) i v else arg_scan maxm r (i + 1) bi bv
  end.
Definition np_argbest (maxm : bool) (l : list Z) : Z :=
  match l with [] => 0 | v :: r => arg_scan maxm r 1 0 v end.

(* declarative reading on a line given as a function on [0, n) *)
Definition strictly_better (maxm : bool) (a b : Z) : Prop := if maxm then b < a else a < b.
Definition first_best_on (maxm : bool) (f : Z -> Z) (n i : Z) : Prop :=
  0 <= i < n
  /\ (forall j, 0 <= j < n -> ~ strictly_better maxm (f j) (f i))
  /\ (forall j, 0 <= j < i -> strictly_better maxm (f i) (f j)).

(* np.unique: ascending, without repeats *)
Fixpoint dedup (l : list Z) : list Z :=
  match l with
  | [] => []
  | x :: r => match r with
              | [] => [x]
              | y :: _ => if x =? y then dedup r else x :: dedup r
              end
  end.
Definition np_unique (l : list Z) : list Z := dedup (np_sort l).
Definition countz (v : Z) (l : list Z) : Z := Z.of_nat (length (filter (Z.eqb v) l)).
Definition np_unique_counts (l : list Z) : list Z * list Z :=
  let vs := np_unique l in (vs, map (fun v => countz v l) vs).

(* np.argsort (stable; ties do not occur where the theorems use it) *)
Fixpoint insert_kv (x : Z * Z) (l : list (Z * Z)) : list (Z * Z) :=
  match l with
  | [] => [x]
  | y :: r => if fst x <=? fst y then x :: l else y :: insert_kv x r
  end.
Definition np_argsort (l : list Z) : list Z :=
  map snd (fold_right insert_kv [] (combine l (zrange (Z.of_nat (length l))))).

(* ------------------------------------------------------------------ dense arrays *)

Definition dget (d : dense Z) (ix : idx) : Z := nth (Z.to_nat (ravel (d_shape d) ix)) (d_flat d) 0.
Definition set_at (ix : idx) (ax : nat) (k : Z) : idx := firstn ax ix ++ k :: skipn (S ax) ix.
Definition line (d : dense Z) (ax : nat) (ix : idx) : list Z :=
  map (fun k => dget d (set_at ix ax k)) (zrange (nth ax (d_shape d) 0)).

(* axis normalisation: NumPy raises AxisError (a ValueError and an IndexError) out of range *)
Definition norm_axis (ndim axis : Z) : option nat :=
  if (- ndim <=? axis) && (axis <? ndim)
  then Some (Z.to_nat (if axis <? 0 then axis + ndim else axis)) else None.

(* np.sort(d, axis) / Array-API sort(d, axis=, descending=) *)
Definition np_sort_axis (d : dense Z) (axis : Z) (desc : bool) : res (dense Z) :=
  let sh := d_shape d in
  match norm_axis (Z.of_nat (length sh)) axis with
  | None => Raise ValueError
  | Some ax =>
    Ok (mkDense sh (map (fun ix => nth (Z.to_nat (nth ax ix 0)) (np_sort_dir desc (line d ax ix)) 0)
                        (all_indices sh)))
  end.

Definition replace_nth {A} (l : list A) (n : nat) (a : A) : list A := firstn n l ++ a :: skipn (S n) l.
Definition remove_nth {A} (l : list A) (n : nat) : list A := firstn n l ++ skipn (S n) l.

(* np.argmax / np.argmin (d, axis=None|k, keepdims=) *)
Definition np_argbest_axis (maxm : bool) (d : dense Z) (axis : option Z) (keepdims : bool) : res (dense Z) :=
  let sh := d_shape d in
  match axis with
  | None =>
    if size sh =? 0 then Raise ValueError
    else Ok (mkDense (if keepdims then map (fun _ => 1) sh else []) [np_argbest maxm (d_flat d)])
  | Some a =>
    match norm_axis (Z.of_nat (length sh)) a with
    | None => Raise ValueError
    | Some ax =>
      if nth ax sh 0 =? 0 then Raise ValueError
      else
        let ksh := replace_nth sh ax 1 in
        Ok (mkDense (if keepdims then ksh else remove_nth sh ax)
                    (map (fun ix => np_argbest maxm (line d ax ix)) (all_indices ksh)))
    end
  end.

(* np.unique_values / np.unique_counts flatten first *)
Definition np_unique_values (d : dense Z) : list Z := np_unique (d_flat d).
Definition np_unique_counts_arr (d : dense Z) : list Z * list Z := np_unique_counts (d_flat d).

(* np.argwhere(d): the index tuples of the non-zero elements in row-major order;
   np.nonzero(d) / np.where(d): the same as a tuple of ndim columns *)
Definition np_argwhere (d : dense Z) : list idx :=
  map fst (filter (fun p => negb (snd p =? 0)) (combine (all_indices (d_shape d)) (d_flat d))).
Definition columns (ndim : nat) (l : list idx) : list (list Z) :=
  map (fun k => map (fun ix => nth k ix 0) l) (seq 0 ndim).
Definition np_nonzero (d : dense Z) : list (list Z) := columns (length (d_shape d)) (np_argwhere d).
