(* Spec/NpIndex.v — NumPy's meaning of x[index] on the mathematical object (shape + function
   from index tuples), for the index grammar of property C02:
     integers, slices, None, Ellipsis, one 1-D integer or boolean array, or several adjacent
     1-D integer arrays of equal length (integers, if mixed in, adjacent to them).
   np_index sh ix = Ok (sh', g) : the result has shape sh' and result[j] = x[g j];
                  = Raise IndexError / ValueError when NumPy rejects the index.
   Basic indexing: numpy/_core/src/multiarray/mapping.c (prepare_index, get_view_from_index);
   advanced indexing with the subspace kept in place: the "all advanced indices adjacent" rule of
   the NumPy indexing documentation.  Slices are CPython's (Spec/PySlice.v). *)
From Coq Require Import ZArith List Bool.
From Verif Require Import Py Shape PySlice.
Import ListNotations.
Open Scope Z_scope.

Inductive ientry :=
| IInt (z : Z)
| ISlice (a b c : option Z)
| INone
| IEllipsis
| IArr (l : list Z)
| IBArr (l : list bool).
Definition index := list ientry.

Definition is_ell (e : ientry) : bool := match e with IEllipsis => true | _ => false end.
Definition is_new (e : ientry) : bool := match e with INone => true | _ => false end.
Definition is_iint (e : ientry) : bool := match e with IInt _ => true | _ => false end.
Definition is_iarr (e : ientry) : bool := match e with IArr _ | IBArr _ => true | _ => false end.
(* entries that consume one axis of the indexed array *)
Definition consumes (e : ientry) : bool := match e with INone | IEllipsis => false | _ => true end.
Definition countb {A} (p : A -> bool) (l : list A) : Z := Z.of_nat (length (filter p l)).

Definition full_slice : ientry := ISlice None None None.

(* ---- 1. Ellipsis / missing trailing axes become full slices *)
Fixpoint subst_ellipsis (fill : list ientry) (ix : index) : index :=
  match ix with
  | [] => []
  | IEllipsis :: r => fill ++ r
  | e :: r => e :: subst_ellipsis fill r
  end.

Definition expand (ndim : Z) (ix : index) : res index :=
  if 1 <? countb is_ell ix then Raise IndexError            (* an index can only have a single ellipsis *)
  else
    let extra := ndim - countb consumes ix in
    if extra <? 0 then Raise IndexError                     (* too many indices for array *)
    else
      let fill := repeat full_slice (Z.to_nat extra) in
      Ok (if 0 <? countb is_ell ix then subst_ellipsis fill ix else ix ++ fill).

(* ---- 2. every entry against the axis it faces *)
Inductive rentry :=
| RInt (i : Z)            (* axis removed, source coordinate i *)
| RSel (l : list Z)       (* slice: result axis of length |l|, source coordinate l[j] *)
| RNew                    (* new axis of length 1 *)
| RAdv (l : list Z).      (* index array (negatives wrapped): shares ONE result axis with the other arrays *)

Definition in_bounds (d i : Z) : bool := (- d <=? i) && (i <? d).
Definition wrap (d i : Z) : Z := if i <? 0 then i + d else i.

Fixpoint nonzero_from (k : Z) (l : list bool) : list Z :=
  match l with
  | [] => []
  | b :: r => (if b then [k] else []) ++ nonzero_from (k + 1) r
  end.

Definition resolve1 (d : Z) (e : ientry) : res rentry :=
  match e with
  | IInt z => if in_bounds d z then Ok (RInt (wrap d z)) else Raise IndexError
  | ISlice a b c =>
    match slice_selects a b c d with
    | Some l => Ok (RSel l)
    | None => Raise ValueError                               (* slice step cannot be zero *)
    end
  | IArr l => if forallb (in_bounds d) l then Ok (RAdv (map (wrap d) l)) else Raise IndexError
  | IBArr l =>
    (* a boolean index must have the length of the axis — except that NumPy (2.x, mapping.c) lets a
       boolean array of size 0 through on any axis (it selects nothing) *)
    if (Z.of_nat (length l) =? d) || (Z.of_nat (length l) =? 0) then Ok (RAdv (nonzero_from 0 l))
    else Raise IndexError
  | INone | IEllipsis => Raise OtherError                    (* not reached: handled by the callers *)
  end.

Fixpoint resolve (sh : shape) (ix : index) : res (list rentry) :=
  match ix with
  | [] => Ok []
  | INone :: r => rs <- resolve sh r ;; Ok (RNew :: rs)
  | e :: r =>
    match sh with
    | [] => Raise IndexError
    | d :: sh' => re <- resolve1 d e ;; rs <- resolve sh' r ;; Ok (re :: rs)
    end
  end.

(* ---- 3. the index arrays are broadcast to one length (length-1 arrays stretch) *)
Definition adv_lens (rs : list rentry) : list Z :=
  flat_map (fun r => match r with RAdv l => [Z.of_nat (length l)] | _ => [] end) rs.

Definition bcast_len (lens : list Z) : res Z :=
  let n := fold_right (fun a b => if a =? 1 then b else a) 1 lens in
  if forallb (fun a => (a =? n) || (a =? 1)) lens then Ok n else Raise IndexError.

Definition stretch (n : Z) (r : rentry) : rentry :=
  match r with
  | RAdv [v] => RAdv (repeat v (Z.to_nat n))
  | _ => r
  end.

Definition broadcast (rs : list rentry) : res (list rentry) :=
  n <- bcast_len (adv_lens rs) ;; Ok (map (stretch n) rs).

(* ---- 4. result shape and the source index of every result index *)
Fixpoint out_shape_aux (seen : bool) (rs : list rentry) : shape :=
  match rs with
  | [] => []
  | RInt _ :: r => out_shape_aux seen r
  | RSel l :: r => Z.of_nat (length l) :: out_shape_aux seen r
  | RNew :: r => 1 :: out_shape_aux seen r
  | RAdv l :: r => if seen then out_shape_aux true r else Z.of_nat (length l) :: out_shape_aux true r
  end.

Definition zat (l : list Z) (i : Z) : Z := nth (Z.to_nat i) l 0.

(* a = the coordinate along the shared array axis once it has been read off the result index *)
Fixpoint src_aux (a : option Z) (rs : list rentry) (j : idx) : idx :=
  match rs with
  | [] => []
  | RInt i :: r => i :: src_aux a r j
  | RSel l :: r => zat l (hd 0 j) :: src_aux a r (tl j)
  | RNew :: r => src_aux a r (tl j)
  | RAdv l :: r =>
    match a with
    | Some q => zat l q :: src_aux a r j
    | None => zat l (hd 0 j) :: src_aux (Some (hd 0 j)) r (tl j)
    end
  end.

Definition out_shape := out_shape_aux false.
Definition src_of := src_aux None.

Definition np_index (sh : shape) (ix : index) : res (shape * (idx -> idx)) :=
  ex <- expand (Z.of_nat (length sh)) ix ;;
  rs <- resolve sh ex ;;
  rs' <- broadcast rs ;;
  Ok (out_shape rs', src_of rs').

(* NumPy returns a scalar (not a 0-d array) exactly when every entry is an integer and every axis is indexed *)
Definition np_scalar (sh : shape) (ix : index) : bool :=
  forallb is_iint ix && (length ix =? length sh)%nat.

(* ---- the grammar of the property (where "the result axis stays in place" is NumPy's rule):
   no array at all; or exactly one array (integer or boolean); or several integer arrays of ONE
   length — and in the last two cases the integers and arrays form one contiguous block of the index. *)
Fixpoint drop_while {A} (p : A -> bool) (l : list A) : list A :=
  match l with [] => [] | a :: r => if p a then drop_while p r else l end.

Definition is_advlike (e : ientry) : bool := is_iint e || is_iarr e.
Definition is_ibarr (e : ientry) : bool := match e with IBArr _ => true | _ => false end.

Definition arr_lens (ix : index) : list Z :=
  flat_map (fun e => match e with IArr l => [Z.of_nat (length l)] | _ => [] end) ix.

Definition in_grammar (ix : index) : bool :=
  let narr := countb is_iarr ix in
  if narr =? 0 then true
  else
    let rest := drop_while is_advlike (drop_while (fun e => negb (is_advlike e)) ix) in
    negb (existsb is_advlike rest)
    && ((narr =? 1) || negb (existsb is_ibarr ix))
    && (match arr_lens ix with [] => true | n :: r => forallb (Z.eqb n) r end).
