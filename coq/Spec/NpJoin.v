(* Spec/NpJoin.v — NumPy's meaning of the joining and structural-extraction functions
   (np.concatenate, np.stack, np.triu, np.tril, np.diagonal, np.take, and sparse's own
   `diagonalize`, which has no NumPy counterpart and is specified by its docstring) on the
   mathematical object: a dense array is a shape together with a total function from index
   tuples to values (only in-range tuples matter).  Element values are an arbitrary type V. *)
From Coq Require Import ZArith List Bool.
From Verif Require Import Shape COO.
Import ListNotations.
Open Scope Z_scope.

(* ---------------------------------------------------------------- index-tuple surgery *)

(* apply f to position k (no effect when k is out of range) *)
Fixpoint upd (k : nat) (f : Z -> Z) (l : list Z) : list Z :=
  match l, k with
  | [], _ => []
  | x :: r, O => f x :: r
  | x :: r, S k' => x :: upd k' f r
  end.

(* insert v so that it ends up at position k (appended when k is past the end) *)
Fixpoint ins (k : nat) (v : Z) (l : list Z) : list Z :=
  match k, l with
  | O, _ => v :: l
  | S k', x :: r => x :: ins k' v r
  | S _, [] => [v]
  end.

(* delete position k (no effect when k is out of range) *)
Fixpoint del (k : nat) (l : list Z) : list Z :=
  match l, k with
  | [], _ => []
  | _ :: r, O => r
  | x :: r, S k' => x :: del k' r
  end.

Definition zsum (l : list Z) : Z := fold_right Z.add 0 l.

(* NumPy's axis normalisation: -ndim <= axis < ndim, negative axes count from the end;
   None = numpy.exceptions.AxisError *)
Definition np_norm_axis (axis ndim : Z) : option nat :=
  if (- ndim <=? axis) && (axis <? ndim)
  then Some (Z.to_nat (if axis <? 0 then axis + ndim else axis))
  else None.

Section NpJoin.
  Variable V : Type.

  Record darr := mkD { da_shape : shape; da_f : idx -> V }.

  Definition ext (k : nat) (a : darr) : Z := nth k (da_shape a) 0.

  (* ------------------------------------------------------------ np.concatenate(arrays, axis=k)
     arrays = a :: r, all of the same shape except along axis k.  Position i along axis k
     belongs to the first member whose extent exceeds what is left of i. *)
  Fixpoint np_concat_f (k : nat) (a : darr) (r : list darr) (ix : idx) : V :=
    match r with
    | [] => da_f a ix
    | b :: r' => if nth k ix 0 <? ext k a then da_f a ix
                 else np_concat_f k b r' (upd k (fun i => i - ext k a) ix)
    end.

  Definition np_concatenate (k : nat) (a : darr) (r : list darr) : darr :=
    mkD (upd k (fun _ => zsum (map (ext k) (a :: r))) (da_shape a)) (np_concat_f k a r).

  (* np.concatenate(arrays, axis=None): the members are flattened (row-major) first *)
  Definition np_flatten (a : darr) : darr :=
    mkD [size (da_shape a)] (fun ix => da_f a (unravel (da_shape a) (nth 0 ix 0))).

  Definition np_concatenate_none (a : darr) (r : list darr) : darr :=
    np_concatenate 0 (np_flatten a) (map np_flatten r).

  (* ------------------------------------------------------------ np.stack(arrays, axis=k)
     all members have the same shape; the new axis k selects the member *)
  Definition np_stack (k : nat) (a : darr) (r : list darr) : darr :=
    mkD (ins k (Z.of_nat (length (a :: r))) (da_shape a))
        (fun ix => da_f (nth (Z.to_nat (nth k ix 0)) (a :: r) a) (del k ix)).

  (* ------------------------------------------------------------ np.triu / np.tril (ndim >= 2)
     triu keeps m[..., i, j] where j - i >= k, tril where j - i <= k; the rest is zero *)
  Variable zero : V.

  Definition row_of (ix : idx) : Z := nth (length ix - 2)%nat ix 0.
  Definition col_of (ix : idx) : Z := nth (length ix - 1)%nat ix 0.

  Definition np_triu (k : Z) (a : darr) : darr :=
    mkD (da_shape a) (fun ix => if k <=? col_of ix - row_of ix then da_f a ix else zero).

  Definition np_tril (k : Z) (a : darr) : darr :=
    mkD (da_shape a) (fun ix => if col_of ix - row_of ix <=? k then da_f a ix else zero).

  (* ------------------------------------------------------------ np.diagonal(a, offset, axis1, axis2)
     a1 <> a2 normalised axes.  The two axes are removed and the diagonal becomes the LAST axis:
       out[rest..., i] = a[..., axis1 = i + max(0,-offset), ..., axis2 = i + max(0,offset), ...] *)
  Definition diag_len (n1 n2 offset : Z) : Z :=
    if 0 <=? offset then Z.max 0 (Z.min n1 (n2 - offset)) else Z.max 0 (Z.min (n1 + offset) n2).

  (* put v1 at axis a1 and v2 at axis a2 of the result, the entries of rest at the other axes *)
  Definition embed2 (a1 a2 : nat) (v1 v2 : Z) (rest : idx) : idx :=
    if (a1 <? a2)%nat then ins a2 v2 (ins a1 v1 rest) else ins a1 v1 (ins a2 v2 rest).

  Definition del2 (a1 a2 : nat) (l : list Z) : list Z :=
    if (a1 <? a2)%nat then del a1 (del a2 l) else del a2 (del a1 l).

  Definition np_diagonal (offset : Z) (a1 a2 : nat) (a : darr) : darr :=
    let sh := da_shape a in
    mkD (del2 a1 a2 sh ++ [diag_len (nth a1 sh 0) (nth a2 sh 0) offset])
        (fun ix => let i := last ix 0 in
                   da_f a (embed2 a1 a2 (i + Z.max 0 (- offset)) (i + Z.max 0 offset) (removelast ix))).

  (* ------------------------------------------------------------ sparse.diagonalize(a, axis=k)
     (docstring: "the new dimension is appended at the end"; inverse of diagonal):
       out[ix..., j] = a[ix...] if ix[k] = j else 0 *)
  Definition np_diagonalize (k : nat) (a : darr) : darr :=
    mkD (da_shape a ++ [nth k (da_shape a) 0])
        (fun ix => let base := removelast ix in
                   if nth k base 0 =? last ix 0 then da_f a base else zero).

  (* ------------------------------------------------------------ np.take(a, indices, axis=k)
     indices a 1-d list of in-range (possibly negative) positions, or one integer (then axis k
     disappears) *)
  Definition wrap (n i : Z) : Z := if i <? 0 then i + n else i.

  Definition np_take_list (k : nat) (indices : list Z) (a : darr) : darr :=
    let n := nth k (da_shape a) 0 in
    mkD (upd k (fun _ => Z.of_nat (length indices)) (da_shape a))
        (fun ix => da_f a (upd k (fun j => wrap n (nth (Z.to_nat j) indices 0)) ix)).

  Definition np_take_int (k : nat) (i : Z) (a : darr) : darr :=
    let n := nth k (da_shape a) 0 in
    mkD (del k (da_shape a)) (fun ix => da_f a (ins k (wrap n i) ix)).

  (* row-major table of a dense array (for comparison with concrete results) *)
  Definition da_flat (a : darr) : list V := map (da_f a) (all_indices (da_shape a)).
End NpJoin.

Arguments mkD {V}.
Arguments da_shape {V}.
Arguments da_f {V}.
Arguments ext {V}.
Arguments np_concat_f {V}.
Arguments np_concatenate {V}.
Arguments np_flatten {V}.
Arguments np_concatenate_none {V}.
Arguments np_stack {V}.
Arguments np_triu {V}.
Arguments np_tril {V}.
Arguments np_diagonal {V}.
Arguments np_diagonalize {V}.
Arguments np_take_list {V}.
Arguments np_take_int {V}.
Arguments da_flat {V}.

(* the dense array a COO denotes *)
Definition darr_of_coo {V} (c : coo V) : darr V := mkD (c_shape c) (den c).
