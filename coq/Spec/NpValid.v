(* Spec/NpValid.v — which arguments NumPy rejects (property C18), on plain integers and shapes.
   Each definition is the acceptance condition NumPy documents / implements for the argument class:
     np_axis_ok       numpy.lib.array_utils.normalize_axis_index: -ndim <= axis < ndim
     np_axes_ok       normalize_axis_tuple: every axis in range and no axis repeated (after wrapping)
     np_perm_ok       ndarray.transpose(axes): additionally len(axes) == ndim
     np_index_ok      integer index i on an axis of extent dim: -dim <= i < dim
     np_reshape_ok    reshape to a shape without -1: equal element counts
     np_broadcast     broadcasting of two shapes (right-aligned; extents equal or one of them 1)
     np_broadcast_to  numpy.broadcast_to(x, shape): x.ndim <= len(shape) and each aligned extent of
                      x equals the target's or is 1
     np_contract_ok   tensordot/dot over axis lists: equally many axes, equal extents pairwise *)
From Coq Require Import ZArith List Bool.
Import ListNotations.
Open Scope Z_scope.

Definition np_axis_ok (a ndim : Z) : bool := (- ndim <=? a) && (a <? ndim).
Definition np_axis_norm (a ndim : Z) : Z := if a <? 0 then a + ndim else a.

Fixpoint np_mem (x : Z) (l : list Z) : bool :=
  match l with [] => false | y :: r => (x =? y) || np_mem x r end.
Fixpoint np_nodupb (l : list Z) : bool :=
  match l with [] => true | x :: r => negb (np_mem x r) && np_nodupb r end.

Definition np_axes_ok (axes : list Z) (ndim : Z) : bool :=
  forallb (fun a => np_axis_ok a ndim) axes && np_nodupb (map (fun a => np_axis_norm a ndim) axes).

Definition np_perm_ok (axes : list Z) (ndim : Z) : bool :=
  np_axes_ok axes ndim && (Z.of_nat (length axes) =? ndim).

Definition np_index_ok (i dim : Z) : bool := (- dim <=? i) && (i <? dim).

Definition prod (sh : list Z) : Z := fold_right Z.mul 1 sh.

Definition np_reshape_ok (size : Z) (sh : list Z) : bool := size =? prod sh.

(* on reversed shapes (last axis first) *)
Fixpoint bc_rev (a b : list Z) : option (list Z) :=
  match a, b with
  | [], r => Some r
  | r, [] => Some r
  | x :: a', y :: b' =>
    if (x =? y) || (x =? 1) || (y =? 1)
    then match bc_rev a' b' with Some t => Some ((if x =? 1 then y else x) :: t) | None => None end
    else None
  end.

Definition np_broadcast (s1 s2 : list Z) : option (list Z) :=
  match bc_rev (rev s1) (rev s2) with Some t => Some (rev t) | None => None end.

Fixpoint bct_rev (a b : list Z) : bool :=
  match a, b with
  | [], _ => true
  | _ :: _, [] => false
  | x :: a', y :: b' => ((x =? y) || (x =? 1)) && bct_rev a' b'
  end.

Definition np_broadcast_to (s target : list Z) : option (list Z) :=
  if bct_rev (rev s) (rev target) then Some target else None.

Fixpoint np_contract_ok (ea eb : list Z) : bool :=
  match ea, eb with
  | [], [] => true
  | x :: a, y :: b => (x =? y) && np_contract_ok a b
  | _, _ => false
  end.
