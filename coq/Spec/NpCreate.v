(* Spec/NpCreate.v — NumPy's meaning of the creation functions on the mathematical object
   (shape + function from index tuples to values), and what "a sample of n positions of an
   N-element array" means.  No reference to the implementation. *)
From Coq Require Import ZArith List Bool.
From Verif Require Import Shape.
Import ListNotations.
Open Scope Z_scope.

Section NpCreate.
  Variable V : Type.
  Variable zero one : V.

  (* np.eye(N, M, k)[i, j] = 1 if j - i = k else 0 ; shape (N, M) *)
  Definition np_eye_shape (N M : Z) : shape := [N; M].
  Definition np_eye (k : Z) (ix : idx) : V :=
    match ix with
    | [i; j] => if j - i =? k then one else zero
    | _ => zero
    end.

  (* np.full(shape, v)[ix] = v ; zeros / ones / *_like are instances; np.empty is unconstrained
     (any values), the code chooses zeros *)
  Definition np_full (v : V) (ix : idx) : V := v.
  Definition np_zeros := np_full zero.
  Definition np_ones := np_full one.

  (* row-major flat contents, for comparing with ndarray.ravel() *)
  Definition flat (sh : shape) (f : idx -> V) : list V := map f (all_indices sh).
End NpCreate.

Arguments np_eye {V}.
Arguments np_full {V}.
Arguments flat {V}.

(* ---- sampling without replacement: a list of n distinct linear positions of [0, N), ascending *)
Fixpoint increasing (l : list Z) : Prop :=
  match l with
  | [] => True
  | a :: r => match r with [] => True | b :: _ => a < b /\ increasing r end
  end.

Fixpoint increasingb (l : list Z) : bool :=
  match l with
  | [] => true
  | a :: r => match r with [] => true | b :: _ => (a <? b) && increasingb r end
  end.

Definition sample_ok (n N : Z) (l : list Z) : Prop :=
  Z.of_nat (length l) = n /\ increasing l /\ Forall (fun x => 0 <= x < N) l.

Definition sample_okb (n N : Z) (l : list Z) : bool :=
  (Z.of_nat (length l) =? n) && increasingb l && forallb (fun x => (0 <=? x) && (x <? N)) l.

(* the complement of a set of positions inside [0, N), ascending *)
Definition complement (inv : list Z) (N : Z) : list Z :=
  filter (fun i => negb (existsb (Z.eqb i) inv)) (zrange N).

(* int(elements * density) for density = m * 2^e (m >= 0): the binary64 product, rounded to
   nearest-even at 53 significant bits, then truncated.  (Exponent range is not modelled: with
   0 <= density <= 1 and elements < 2^63 there is no overflow, and a subnormal product is < 1 and
   truncates to 0 with or without the reduced precision.) *)
Definition round53 (M e : Z) : Z * Z :=
  if M <=? 0 then (0, 0) else
  let nb := Z.log2 M + 1 in
  if nb <=? 53 then (M, e) else
  let sh := nb - 53 in
  let q := M / 2 ^ sh in
  let r := M mod 2 ^ sh in
  let half := 2 ^ (sh - 1) in
  let q' := if (half <? r) || ((r =? half) && Z.odd q) then q + 1 else q in
  (q', e + sh).

Definition trunc_dyadic (me : Z * Z) : Z :=
  let '(m, e) := me in if 0 <=? e then m * 2 ^ e else m / 2 ^ (- e).

Definition int_mul_f64 (elements m e : Z) : Z :=
  let '(em, ee) := round53 elements 0 in          (* float(elements) *)
  trunc_dyadic (round53 (em * m) (ee + e)).
