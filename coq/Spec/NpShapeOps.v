(* Spec/NpShapeOps.v — NumPy's meaning of the shape-manipulation functions on the mathematical
   object: a dense array is a shape `sh` and a function `f : idx -> V` read on the in-range index
   tuples of `sh`.  Each operation gives the result shape and the result function; argument
   validity (when NumPy raises) is a separate boolean.  No sparse representation appears here. *)
From Coq Require Import ZArith List Bool.
From Verif Require Import Py Shape.
Import ListNotations.
Open Scope Z_scope.

Definition sget {A} (l : list A) (i : Z) (d : A) : A := nth (Z.to_nat i) l d.
Definition smem (x : Z) (l : list Z) : bool := existsb (Z.eqb x) l.
Fixpoint sdup (l : list Z) : bool := match l with [] => false | a :: r => smem a r || sdup r end.
Definition slen {A} (l : list A) : Z := Z.of_nat (length l).

(* ---------------------------------------------------------------- axis numbers *)

(* numpy.core.multiarray.normalize_axis_index: accepts exactly -ndim <= a < ndim *)
Definition np_normalize_axis (ndim a : Z) : res Z :=
  if (- ndim <=? a) && (a <? ndim) then Ok (a mod ndim) else Raise ValueError.

(* a valid `axes` argument of transpose: a permutation of 0..ndim-1 (already normalised) *)
Definition is_perm (ndim : Z) (axes : list Z) : bool :=
  (slen axes =? ndim) && forallb (fun a => (0 <=? a) && (a <? ndim)) axes && negb (sdup axes).

(* ---------------------------------------------------------------- transpose *)

(* np.transpose(a, axes): result axis k is input axis axes[k] *)
Definition np_transpose_shape (sh : shape) (axes : list Z) : shape := map (fun a => sget sh a 0) axes.

(* position of a in l *)
Fixpoint index_of (a : Z) (l : list Z) : Z :=
  match l with [] => 0 | b :: r => if a =? b then 0 else 1 + index_of a r end.

(* the input index read by result index ix: component a of the input is component k of ix
   where axes[k] = a *)
Definition unpermute (axes : list Z) (ix : idx) : idx :=
  map (fun a => sget ix (index_of a axes) 0) (zrange (slen axes)).

Definition np_transpose {V} (axes : list Z) (f : idx -> V) : idx -> V := fun ix => f (unpermute axes ix).

Definition swap_perm (ndim a b : Z) : list Z :=
  map (fun k => if k =? a then b else if k =? b then a else k) (zrange ndim).

(* np.moveaxis(a, src, dst): result axis dst[i] is input axis src[i]; the other input axes fill
   the remaining result positions in increasing order *)
Fixpoint fill_positions (k : Z) (n : nat) (src dst rest : list Z) : list Z :=
  match n with
  | O => []
  | S n' =>
    if smem k dst then sget src (index_of k dst) 0 :: fill_positions (k + 1) n' src dst rest
    else match rest with r :: rest' => r :: fill_positions (k + 1) n' src dst rest' | [] => [] end
  end.
Definition np_moveaxis_perm (ndim : Z) (src dst : list Z) : list Z :=
  fill_positions 0 (Z.to_nat ndim) src dst (filter (fun a => negb (smem a src)) (zrange ndim)).

(* ---------------------------------------------------------------- reshape *)

(* the target after replacing a single -1: valid iff at most one -1, no other negative extent,
   sizes agree *)
Definition np_reshape_target (sh : shape) (new : list Z) : res shape :=
  let known := filter (fun d => negb (d =? -1)) new in
  let nm1 := length (filter (fun d => d =? -1) new) in
  if existsb (fun d => d <? 0) known then Raise ValueError
  else match nm1 with
  | O => if size new =? size sh then Ok new else Raise ValueError
  | S O =>
    let p := size known in
    if p =? 0 then Raise ValueError
    else if size sh mod p =? 0 then Ok (map (fun d => if d =? -1 then size sh / p else d) new)
    else Raise ValueError
  | _ => Raise ValueError
  end.

(* np.reshape (C order): same row-major position *)
Definition np_reshape {V} (sh new : shape) (f : idx -> V) : idx -> V :=
  fun ix => f (unravel sh (ravel new ix)).

(* ---------------------------------------------------------------- squeeze / expand_dims *)

(* result index -> input index: put 0 back at the removed axes (axes: sorted positions in the input) *)
Fixpoint insert_zeros (removed : list Z) (k : Z) (n : nat) (ix : idx) : idx :=
  match n with
  | O => []
  | S n' => if smem k removed then 0 :: insert_zeros removed (k + 1) n' ix
            else match ix with i :: r => i :: insert_zeros removed (k + 1) n' r | [] => [] end
  end.

Definition np_squeeze_shape (sh : shape) (removed : list Z) : shape :=
  map (fun k => sget sh k 0) (filter (fun k => negb (smem k removed)) (zrange (slen sh))).

Definition np_squeeze {V} (sh : shape) (removed : list Z) (f : idx -> V) : idx -> V :=
  fun ix => f (insert_zeros removed 0 (length sh) ix).

Definition np_expand_dims_shape (sh : shape) (a : Z) : shape :=
  firstn (Z.to_nat a) sh ++ 1 :: skipn (Z.to_nat a) sh.

Definition np_expand_dims {V} (a : Z) (f : idx -> V) : idx -> V :=
  fun ix => f (firstn (Z.to_nat a) ix ++ skipn (S (Z.to_nat a)) ix).

(* ---------------------------------------------------------------- flip / roll *)

Fixpoint mapi_aux {A B} (g : Z -> A -> B) (k : Z) (l : list A) : list B :=
  match l with [] => [] | a :: r => g k a :: mapi_aux g (k + 1) r end.
Definition mapi {A B} (g : Z -> A -> B) (l : list A) : list B := mapi_aux g 0 l.

(* np.flip(a, axes): component k is reversed iff k is among the (normalised) axes *)
Definition np_flip {V} (sh : shape) (axes : list Z) (f : idx -> V) : idx -> V :=
  fun ix => f (mapi (fun k i => if smem k axes then sget sh k 0 - 1 - i else i) ix).

(* total shift applied to axis k by the (shift, axis) pairs *)
Definition total_shift (pairs : list (Z * Z)) (k : Z) : Z :=
  fold_right (fun p acc => if snd p =? k then fst p + acc else acc) 0 pairs.

(* np.roll(a, shifts, axes): result[.., i, ..] = a[.., (i - shift) mod n, ..]; any shift *)
Definition np_roll {V} (sh : shape) (pairs : list (Z * Z)) (f : idx -> V) : idx -> V :=
  fun ix => f (mapi (fun k i => (i - total_shift pairs k) mod sget sh k 0) ix).

(* np.roll(a, s) without axis: roll the flattened array, restore the shape *)
Definition np_roll_flat {V} (sh : shape) (s : Z) (f : idx -> V) : idx -> V :=
  fun ix => f (unravel sh ((ravel sh ix - s) mod size sh)).

(* ---------------------------------------------------------------- pad (constant) *)

Definition np_pad_shape (sh : shape) (pads : list (Z * Z)) : shape :=
  map (fun dp => fst dp + fst (snd dp) + snd (snd dp)) (combine sh pads).

Definition np_pad {V} (sh : shape) (pads : list (Z * Z)) (cv : V) (f : idx -> V) : idx -> V :=
  fun ix => let src := map (fun ib => fst ib - fst (snd ib)) (combine ix pads) in
            if in_rangeb sh src then f src else cv.

(* ---------------------------------------------------------------- broadcast_to *)

(* sh broadcasts to target: not more axes, and trailing extents equal or 1 *)
Fixpoint bcast_ok_rev (s t : list Z) : bool :=
  match s, t with
  | [], _ => true
  | _ :: _, [] => false
  | a :: s', b :: t' => ((a =? b) || (a =? 1)) && bcast_ok_rev s' t'
  end.
Definition np_broadcast_ok (sh target : shape) : bool :=
  bcast_ok_rev (rev sh) (rev target) && forallb (fun d => 0 <=? d) target.

(* result index -> input index: drop the new leading axes, read position 0 on length-1 axes *)
Definition bproj (sh target : shape) (ix : idx) : idx :=
  map (fun di => if fst di =? 1 then 0 else snd di)
      (combine sh (skipn (length target - length sh) ix)).

Definition np_broadcast_to {V} (sh target : shape) (f : idx -> V) : idx -> V :=
  fun ix => f (bproj sh target ix).

(* np.broadcast_shapes of two shapes (reversed) *)
Fixpoint bshapes2_rev (s t : list Z) : option (list Z) :=
  match s, t with
  | [], r | r, [] => Some r
  | a :: s', b :: t' =>
    match bshapes2_rev s' t' with
    | None => None
    | Some r => if a =? b then Some (a :: r) else if a =? 1 then Some (b :: r)
                else if b =? 1 then Some (a :: r) else None
    end
  end.
Definition np_broadcast_shapes (shapes : list shape) : option shape :=
  match fold_left (fun acc s => match acc with None => None | Some a => bshapes2_rev a (rev s) end)
                  shapes (Some []) with
  | Some r => Some (rev r) | None => None end.
