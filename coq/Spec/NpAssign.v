(* Spec/NpAssign.v — NumPy's meaning of item assignment and item reads on the mathematical
   object: a dense array is a shape together with a total function from index tuples to
   values (only the in-range tuples matter).  Keys: tuples of integers and slices (shorter
   tuples are completed with full slices, as NumPy documents), full-dimension integer lists
   (pointwise "fancy" keys) and full-shape boolean masks.  Values: arrays (shape + function)
   broadcast against the selection, aligned at the right as NumPy does.

   An assignment x[key] = value is specified in GATHER form: the new array at ix is the
   value element that NumPy stores there if ix is selected by the key, and the old element
   otherwise.  Nothing here mentions dictionaries, recursion over the key or write order
   (except that for a repeated index in an integer-list key the last occurrence wins, which
   is what NumPy does).  [None] = NumPy raises (IndexError / ValueError). *)
From Coq Require Import ZArith List Bool.
From Verif Require Import Py Shape PySlice NpIndex.
Import ListNotations.
Open Scope Z_scope.

Section NpAssign.
  Variable V : Type.
  Variable veqb : V -> V -> bool.

  (* an array value: shape and element function *)
  Record arr := mkArr { a_shape : list Z; a_get : idx -> V }.

  Inductive kentry := KInt (i : Z) | KSlice (a b c : option Z).
  Inductive key :=
  | KBasic (es : list kentry)         (* x[e1, ..., ek], k <= ndim *)
  | KFancy (ls : list (list Z))       (* x[[..], ..., [..]] : one integer list per axis, equal lengths *)
  | KMask (m : list bool)             (* x[mask], mask of x's shape, given flat in row-major order *)
  | KIndex (ix : index).              (* x[...] with Ellipsis / None / ints / slices (Spec/NpIndex.v) *)

  (* what one key entry selects on an axis of extent dim; ANew = a None entry: a new axis of
     length 1 in the selection that consumes no axis of the array *)
  Inductive axis := AInt (k : Z) | ASel (ks : list Z) | ANew.

  Definition wrap_index (i dim : Z) : option Z :=
    if (- dim <=? i) && (i <? dim) then Some (if i <? 0 then i + dim else i) else None.

  Definition np_axis (e : kentry) (dim : Z) : option axis :=
    match e with
    | KInt i => match wrap_index i dim with Some k => Some (AInt k) | None => None end
    | KSlice a b c => match slice_selects a b c dim with Some ks => Some (ASel ks) | None => None end
    end.

  Fixpoint np_axes (es : list kentry) (sh : shape) : option (list axis) :=
    match es, sh with
    | [], [] => Some []
    | e :: es', d :: sh' =>
      match np_axis e d, np_axes es' sh' with
      | Some a, Some r => Some (a :: r)
      | _, _ => None
      end
    | _, _ => None          (* more entries than axes: IndexError *)
    end.

  Definition kfull_slice : kentry := KSlice None None None.
  Definition np_pad (es : list kentry) (sh : shape) : list kentry :=
    es ++ repeat kfull_slice (length sh - length es).

  (* shape of the selection: one extent per slice entry *)
  Fixpoint selshape (axs : list axis) : list Z :=
    match axs with
    | [] => []
    | AInt _ :: r => selshape r
    | ASel ks :: r => Z.of_nat (length ks) :: selshape r
    | ANew :: r => 1 :: selshape r
    end.

  (* position of the LAST occurrence of x in l *)
  Fixpoint last_pos {A} (eqb : A -> A -> bool) (x : A) (l : list A) : option Z :=
    match l with
    | [] => None
    | y :: r =>
      match last_pos eqb x r with
      | Some p => Some (p + 1)
      | None => if eqb y x then Some 0 else None
      end
    end.

  (* if ix is selected: its position inside the selection (one coordinate per slice entry) *)
  Fixpoint locate (axs : list axis) (ix : idx) : option (list Z) :=
    match axs with
    | [] => match ix with [] => Some [] | _ => None end
    | AInt k :: r =>
      match ix with
      | i :: t => if i =? k then locate r t else None
      | [] => None
      end
    | ASel ks :: r =>
      match ix with
      | i :: t =>
        match last_pos Z.eqb i ks, locate r t with
        | Some j, Some js => Some (j :: js)
        | _, _ => None
        end
      | [] => None
      end
    | ANew :: r =>
      match locate r ix with Some js => Some (0 :: js) | None => None end
    end.

  (* the selected index tuples in row-major order of the result (for reads) *)
  Fixpoint gather_idx (axs : list axis) : list idx :=
    match axs with
    | [] => [[]]
    | AInt k :: r => map (cons k) (gather_idx r)
    | ASel ks :: r => flat_map (fun i => map (cons i) (gather_idx r)) ks
    | ANew :: r => gather_idx r
    end.

  (* broadcasting a value of shape vs against a selection of shape ss: align at the RIGHT; a
     value extent must be 1 or equal the selection extent; surplus leading value extents must
     be 1.  (Lists are reversed so that the recursion runs from the last axis.) *)
  Fixpoint bcast_ok_r (rvs rss : list Z) : bool :=
    match rvs, rss with
    | [], _ => true
    | d :: rv, s :: rs => ((d =? 1) || (d =? s)) && bcast_ok_r rv rs
    | d :: rv, [] => (d =? 1) && bcast_ok_r rv []
    end.
  Definition bcast_ok (vs ss : list Z) : bool := bcast_ok_r (rev vs) (rev ss).

  (* the value element that lands at selection position js *)
  Fixpoint bidx_r (rvs rjs : list Z) : list Z :=
    match rvs with
    | [] => []
    | d :: rv =>
      match rjs with
      | j :: rj => (if d =? 1 then 0 else j) :: bidx_r rv rj
      | [] => 0 :: bidx_r rv []
      end
    end.
  Definition bidx (vs js : list Z) : list Z := rev (bidx_r (rev vs) (rev js)).

  (* a key without slices addresses ONE element: the value must then be 0-d (NumPy >= 2 refuses
     to convert an array with ndim > 0 to a scalar: "setting an array element with a sequence");
     otherwise the value is broadcast against the selection *)
  Definition value_fits (vs ss : list Z) : bool :=
    match ss with
    | [] => match vs with [] => true | _ => false end
    | _ => bcast_ok vs ss
    end.

  (* a general basic index: Ellipsis / missing axes become full slices (NpIndex.expand), every
     entry is resolved against the axis it faces (NpIndex.resolve); index arrays inside such a
     key are not part of this grammar *)
  Definition axis_of_rentry (r : rentry) : option axis :=
    match r with
    | RInt i => Some (AInt i)
    | RSel l => Some (ASel l)
    | RNew => Some ANew
    | RAdv _ => None
    end.
  Fixpoint axes_of_rentries (rs : list rentry) : option (list axis) :=
    match rs with
    | [] => Some []
    | r :: t => match axis_of_rentry r, axes_of_rentries t with
                | Some a, Some l => Some (a :: l)
                | _, _ => None
                end
    end.
  Definition np_index_axes (sh : shape) (ix : index) : option (list axis) :=
    match expand (Z.of_nat (length sh)) ix with
    | Ok ex => match resolve sh ex with
               | Ok rs => axes_of_rentries rs
               | Raise _ => None
               end
    | Raise _ => None
    end.

  (* elem = the key is made of one integer per axis and nothing else (NpIndex.np_scalar): an
     ELEMENT assignment, which takes a 0-d value only; every other key (an Ellipsis or a None makes
     the target a view, even a 0-d one) broadcasts an ndarray value against the selection *)
  Definition index_value_fits (elem : bool) (vs ss : list Z) : bool :=
    if elem then match vs with [] => true | _ => false end else bcast_ok vs ss.

  Definition np_setitem_axes (a : idx -> V) (axs : list axis) (elem : bool) (v : arr) : option (idx -> V) :=
    if index_value_fits elem (a_shape v) (selshape axs)
    then Some (fun ix => match locate axs ix with
                         | Some js => a_get v (bidx (a_shape v) js)
                         | None => a ix
                         end)
    else None.

  (* ---------------------------------------------------------------- assignment *)
  Definition np_setitem_basic (sh : shape) (a : idx -> V) (es : list kentry) (v : arr)
    : option (idx -> V) :=
    match np_axes (np_pad es sh) sh with
    | None => None
    | Some axs =>
      if value_fits (a_shape v) (selshape axs)
      then Some (fun ix => match locate axs ix with
                           | Some js => a_get v (bidx (a_shape v) js)
                           | None => a ix
                           end)
      else None
    end.

  (* rows of a pointwise key: row j = (l_0[j], ..., l_{n-1}[j]) *)
  Fixpoint zip_cons (l : list Z) (rows : list idx) : list idx :=
    match l, rows with
    | x :: l', r :: rows' => (x :: r) :: zip_cons l' rows'
    | _, _ => []
    end.
  Fixpoint transpose (n : nat) (ls : list (list Z)) : list idx :=
    match ls with
    | [] => repeat [] n
    | l :: r => zip_cons l (transpose n r)
    end.

  Fixpoint wrap_all (l : list Z) (dim : Z) : option (list Z) :=
    match l with
    | [] => Some []
    | i :: r => match wrap_index i dim, wrap_all r dim with
                | Some k, Some r' => Some (k :: r')
                | _, _ => None
                end
    end.
  Fixpoint wrap_lists (ls : list (list Z)) (sh : shape) : option (list (list Z)) :=
    match ls, sh with
    | [], [] => Some []
    | l :: ls', d :: sh' => match wrap_all l d, wrap_lists ls' sh' with
                            | Some l', Some r => Some (l' :: r)
                            | _, _ => None
                            end
    | _, _ => None
    end.

  (* equal-length lists only (NumPy would also broadcast a length-1 list; not covered) *)
  Definition np_rows (ls : list (list Z)) (sh : shape) : option (list idx) :=
    match ls with
    | [] => None
    | l0 :: _ =>
      if forallb (fun l => Nat.eqb (length l) (length l0)) ls
      then match wrap_lists ls sh with
           | Some ws => Some (transpose (length l0) ws)
           | None => None
           end
      else None
    end.

  (* assignment through an explicit list of target tuples (pointwise key, mask) *)
  Definition np_assign_rows (a : idx -> V) (rows : list idx) (v : arr) : option (idx -> V) :=
    if bcast_ok (a_shape v) [Z.of_nat (length rows)]
    then Some (fun ix => match last_pos idx_eqb ix rows with
                         | Some j => a_get v (bidx (a_shape v) [j])
                         | None => a ix
                         end)
    else None.

  Definition mask_rows (sh : shape) (m : list bool) : option (list idx) :=
    if Nat.eqb (length m) (length (all_indices sh))
    then Some (map fst (filter snd (combine (all_indices sh) m)))
    else None.

  Definition np_setitem (sh : shape) (a : idx -> V) (k : key) (v : arr) : option (idx -> V) :=
    match k with
    | KBasic es => np_setitem_basic sh a es v
    | KFancy ls => match np_rows ls sh with Some rows => np_assign_rows a rows v | None => None end
    | KMask m => match mask_rows sh m with Some rows => np_assign_rows a rows v | None => None end
    | KIndex ix => match np_index_axes sh ix with
                   | Some axs => np_setitem_axes a axs (np_scalar sh ix) v
                   | None => None
                   end
    end.

  (* one assignment of a history; an assignment NumPy rejects leaves the array as it was *)
  Definition np_assign (sh : shape) (a : idx -> V) (op : key * arr) : idx -> V :=
    match np_setitem sh a (fst op) (snd op) with Some a' => a' | None => a end.

  Definition np_full (fill : V) : idx -> V := fun _ => fill.

  (* ---------------------------------------------------------------- reads *)
  (* x[key]: (shape of the result, its elements in row-major order); an all-integer key gives
     shape [] and one element *)
  Definition np_getitem (sh : shape) (a : idx -> V) (k : key) : option (list Z * list V) :=
    match k with
    | KBasic es =>
      match np_axes (np_pad es sh) sh with
      | Some axs => Some (selshape axs, map a (gather_idx axs))
      | None => None
      end
    | KFancy ls =>
      match np_rows ls sh with
      | Some rows => Some ([Z.of_nat (length rows)], map a rows)
      | None => None
      end
    | KMask m =>
      match mask_rows sh m with
      | Some rows => Some ([Z.of_nat (length rows)], map a rows)
      | None => None
      end
    | KIndex ix =>
      match np_index_axes sh ix with
      | Some axs => Some (selshape axs, map a (gather_idx axs))
      | None => None
      end
    end.

  (* the array as a flat row-major list, and the number of elements different from the fill *)
  Definition np_flat (sh : shape) (a : idx -> V) : list V := map a (all_indices sh).
  Definition np_count_nonfill (sh : shape) (a : idx -> V) (fill : V) : Z :=
    Z.of_nat (length (filter (fun ix => negb (veqb (a ix) fill)) (all_indices sh))).
End NpAssign.

Arguments mkArr {V}.
Arguments a_shape {V}.
Arguments a_get {V}.
Arguments last_pos {A}.
Arguments np_setitem_basic {V}.
Arguments np_setitem_axes {V}.
Arguments np_assign_rows {V}.
Arguments np_setitem {V}.
Arguments np_assign {V}.
Arguments np_full {V}.
Arguments np_getitem {V}.
Arguments np_flat {V}.
Arguments np_count_nonfill {V}.

(* ==================================================================== values with a dtype *)
(* What `x[key] = value` does to the VALUE when x has an integer or boolean dtype (elements: Z;
   booleans are 0 / 1).  A description of NumPy (2.x) validated by the correspondence only:
     - an ndarray value is cast element-wise like C: integers wrap modulo 2^bits, floats are
       truncated toward zero (defined only when the truncation fits the dtype; NaN / inf / larger
       magnitudes are outside this description), to bool: non-zero;
     - a Python int (a weak scalar) must fit the dtype, else OverflowError; to bool: non-zero;
     - a Python float is truncated like an array element;
     - a NumPy integer scalar (np.int64(300)) assigned through a BASIC index (ints, slices,
       Ellipsis, None) is treated by ndarray.__setitem__ like a Python int (OverflowError when it
       does not fit) when the array's dtype is SIGNED; for an unsigned dtype, and through an ADVANCED
       index (integer lists, boolean mask) for any dtype, it is cast like a 0-d array (it wraps) —
       as np.asarray(np.int64(300), dtype=int8) always does.  (Observed on NumPy 2.5.)
   A float is given exactly, as a fraction n / d with d > 0 (float.as_integer_ratio()). *)
Inductive dtype := DInt (bits : Z) (signed : bool) | DBool.

Inductive rawval :=
| RPyInt (z : Z)
| RPyFloat (n d : Z)
| RNpInt (z : Z)
| RIntArr (sh : list Z) (flat : list Z)
| RFloatArr (sh : list Z) (flat : list (Z * Z)).

Definition dt_min (dt : dtype) : Z :=
  match dt with DInt w true => - 2 ^ (w - 1) | _ => 0 end.
Definition dt_max (dt : dtype) : Z :=
  match dt with DInt w true => 2 ^ (w - 1) - 1 | DInt w false => 2 ^ w - 1 | DBool => 1 end.
Definition dt_fits (dt : dtype) (z : Z) : bool := (dt_min dt <=? z) && (z <=? dt_max dt).

Definition cast_int (dt : dtype) (z : Z) : Z :=
  match dt with
  | DInt w true => (z + 2 ^ (w - 1)) mod 2 ^ w - 2 ^ (w - 1)
  | DInt w false => z mod 2 ^ w
  | DBool => if z =? 0 then 0 else 1
  end.

Definition cast_float (dt : dtype) (nd : Z * Z) : option Z :=
  let '(n, d) := nd in
  match dt with
  | DBool => Some (if n =? 0 then 0 else 1)
  | _ => let t := Z.quot n d in if dt_fits dt t then Some t else None
  end.

Fixpoint cast_floats (dt : dtype) (l : list (Z * Z)) : option (list Z) :=
  match l with
  | [] => Some []
  | x :: r => match cast_float dt x, cast_floats dt r with
              | Some a, Some b => Some (a :: b)
              | _, _ => None
              end
  end.

Definition weak_int (dt : dtype) (z : Z) : res (list Z * list Z) :=
  match dt with
  | DBool => Ok ([], [if z =? 0 then 0 else 1])
  | _ => if dt_fits dt z then Ok ([], [z]) else Raise OverflowError
  end.

Definition dt_unsigned (dt : dtype) : bool := match dt with DInt _ false => true | _ => false end.

Definition key_adv (k : key) : bool := match k with KFancy _ | KMask _ => true | _ => false end.

(* the value as ndarray.__setitem__ converts it (adv: the key is an advanced index):
   None = outside this description *)
Definition np_cast (dt : dtype) (adv : bool) (raw : rawval) : option (res (list Z * list Z)) :=
  match raw with
  | RPyInt z => Some (weak_int dt z)
  | RNpInt z => if adv || dt_unsigned dt then Some (Ok ([], [cast_int dt z])) else Some (weak_int dt z)
  | RPyFloat n d => match cast_float dt (n, d) with Some t => Some (Ok ([], [t])) | None => None end
  | RIntArr sh flat => Some (Ok (sh, map (cast_int dt) flat))
  | RFloatArr sh flat => match cast_floats dt flat with Some l => Some (Ok (sh, l)) | None => None end
  end.

(* one more dtype rule of ndarray.__setitem__ (observed on NumPy 2.5): an ELEMENT assignment
   x[i, j] = value (one integer per axis) refuses an ndarray value with ndim > 0 for the integer
   dtypes, but for the boolean dtype it takes the truth value of any array holding exactly one
   element (all extents 1) *)
Definition elem_key (sh : shape) (k : key) : bool :=
  match k with
  | KBasic es => forallb (fun e => match e with KInt _ => true | _ => false end) es
                 && Nat.eqb (length es) (length sh)
  | KIndex ix => np_scalar sh ix
  | _ => false
  end.
Definition dt_is_bool (dt : dtype) : bool := match dt with DBool => true | _ => false end.
Definition np_value (dt : dtype) (sh : shape) (k : key) (v : list Z * list Z) : list Z * list Z :=
  if dt_is_bool dt && elem_key sh k && forallb (Z.eqb 1) (fst v) then ([], snd v) else v.

(* an array value given by its shape and its elements in row-major order *)
Definition arr_of_flat (sh flat : list Z) : arr Z :=
  mkArr sh (fun ix => nth (Z.to_nat (ravel sh ix)) flat 0).
