(* Spec/PySlice.v — CPython's meaning of a slice applied to a sequence of length [len]:
   a transcription of PySlice_Unpack + PySlice_AdjustIndices (Objects/sliceobject.c) and of
   range().  Short enough to review by eye; also cross-checked against the interpreter
   (slice(a,b,c).indices(n)) by the correspondence run "pyslice". *)
From Coq Require Import ZArith List Lia.
Import ListNotations.
Open Scope Z_scope.

(* slice.indices(len) for step <> 0 ; [None] when step = 0 (ValueError) *)
Definition adjust (v : option Z) (len lower upper : Z) (dflt : Z) : Z :=
  match v with
  | None => dflt
  | Some x =>
    if x <? 0 then (if x + len <? lower then lower else x + len)
    else (if upper <? x then upper else x)
  end.

Definition slice_indices (start stop step : option Z) (len : Z) : option (Z * Z * Z) :=
  let st := match step with None => 1 | Some s => s end in
  if st =? 0 then None else
  let lower := if st <? 0 then -1 else 0 in
  let upper := if st <? 0 then len - 1 else len in
  let s := adjust start len lower upper (if st <? 0 then upper else lower) in
  let e := adjust stop len lower upper (if st <? 0 then lower else upper) in
  Some (s, e, st).

(* len(range(start, stop, step)), step <> 0 *)
Definition range_len (start stop step : Z) : Z :=
  if 0 <? step then (if start <? stop then (stop - start - 1) / step + 1 else 0)
  else (if stop <? start then (start - stop - 1) / (- step) + 1 else 0).

Definition range_list (start stop step : Z) : list Z :=
  map (fun i => start + Z.of_nat i * step) (seq 0 (Z.to_nat (range_len start stop step))).

(* the indices x[start:stop:step] selects from a sequence of length len, in order *)
Definition slice_selects (start stop step : option Z) (len : Z) : option (list Z) :=
  match slice_indices start stop step len with
  | None => None
  | Some (s, e, st) => Some (range_list s e st)
  end.
