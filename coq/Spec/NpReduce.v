(* Spec/NpReduce.v — NumPy's meaning of `ufunc.reduce(a, axis, keepdims)` (and of sum / prod / min /
   max / any / all, which are np.add / multiply / minimum / maximum / logical_or / logical_and
   .reduce) on the mathematical object: a dense array is a shape and a function from index tuples
   to values.

     * axis: None (all axes) | an int | a tuple of ints; each entry must lie in [-ndim, ndim) and is
       taken modulo ndim, entries must be distinct (numpy.exceptions.AxisError / "duplicate value in
       'axis'", both ValueError).
     * result shape: the extents of the axes that are not reduced, in order; with keepdims the
       input shape with every reduced extent replaced by 1.
     * result value at an output index: the ufunc folded over the (operand-cast) values of ALL
       input cells whose kept coordinates equal the output index, in row-major order of the input.
       [op] is associative and commutative for every ufunc the property speaks of, so the order is
       immaterial (Proofs/ReduceP.v proves the fold invariant under permutation).
     * a reduction over zero cells yields the ufunc's identity; a ufunc without identity
       (minimum, maximum) raises ValueError when the reduced extents multiply to zero. *)
From Coq Require Import ZArith List Bool.
From Verif Require Import Py Shape COO.
Import ListNotations.
Open Scope Z_scope.

(* the `axis` argument of a reduction: None | an int | a tuple of ints *)
Inductive axis_arg := AxNone | AxInt (a : Z) | AxTuple (l : list Z).

(* tuple(l[a] for a in axes) *)
Definition sel {A} (d : A) (axes : list Z) (l : list A) : list A :=
  map (fun a => nth (Z.to_nat a) l d) axes.

Definition np_mem (x : Z) (l : list Z) : bool := existsb (Z.eqb x) l.

Fixpoint np_distinct (l : list Z) : bool :=
  match l with [] => true | a :: r => negb (np_mem a r) && np_distinct r end.

(* numpy's normalize_axis_tuple *)
Definition np_norm_axis (ndim a : Z) : res Z :=
  if (- ndim <=? a) && (a <? ndim) then Ok (if a <? 0 then a + ndim else a) else Raise ValueError.

Fixpoint np_norm_list (ndim : Z) (l : list Z) : res (list Z) :=
  match l with
  | [] => Ok []
  | a :: r => z <- np_norm_axis ndim a ;; zs <- np_norm_list ndim r ;; Ok (z :: zs)
  end.

Definition np_norm_axes (ndim : Z) (ax : axis_arg) : res (list Z) :=
  match ax with
  | AxNone => Ok (zrange ndim)
  | AxInt a => z <- np_norm_axis ndim a ;; Ok [z]
  | AxTuple l => zs <- np_norm_list ndim l ;;
                 if np_distinct zs then Ok zs else Raise ValueError
  end.

(* the axes that remain, in increasing order *)
Definition np_kept (ndim : Z) (axes : list Z) : list Z :=
  filter (fun a => negb (np_mem a axes)) (zrange ndim).

(* input shape with the reduced extents replaced by 1 *)
Definition np_keep_shape (sh : shape) (axes : list Z) : shape :=
  map (fun p => if np_mem (fst p) axes then 1 else snd p)
      (combine (zrange (Z.of_nat (length sh))) sh).

Section NpReduce.
  Variable V : Type.
  Variable op : V -> V -> V.
  Variable cast : V -> V.          (* operand cast of the ufunc's loop: identity, or truth value for logical_or/and *)
  Variable ident : option V.       (* ufunc.identity *)

  (* ufunc.reduce over a list of cells *)
  Definition np_fold (vals : list V) : res V :=
    match vals with
    | [] => match ident with Some e => Ok e | None => Raise ValueError end
    | v :: r => Ok (fold_left op (map cast r) (cast v))
    end.

  (* the input cells that are folded into the output cell with kept coordinates kix *)
  Definition np_cells (sh : shape) (kept : list Z) (kix : idx) : list idx :=
    filter (fun ix => idx_eqb (sel 0 kept ix) kix) (all_indices sh).

  (* (result shape, result function) *)
  Definition np_reduce (ax : axis_arg) (keepdims : bool) (sh : shape) (f : idx -> V)
    : res (shape * (idx -> res V)) :=
    let ndim := Z.of_nat (length sh) in
    axes <- np_norm_axes ndim ax ;;
    let kept := np_kept ndim axes in
    if (size (sel 0 axes sh) =? 0) && match ident with None => true | Some _ => false end
    then Raise ValueError    (* zero-size array to reduction operation which has no identity *)
    else
      let osh := if keepdims then np_keep_shape sh axes else sel 0 kept sh in
      Ok (osh, fun oix =>
                 let kix := if keepdims then sel 0 kept oix else oix in
                 np_fold (map f (np_cells sh kept kix))).

  (* executable form on dense arrays (row-major flat data) *)
  Fixpoint seq_res (l : list (res V)) : res (list V) :=
    match l with
    | [] => Ok []
    | r :: t => v <- r ;; vs <- seq_res t ;; Ok (v :: vs)
    end.

  Definition np_reduce_dense (ax : axis_arg) (keepdims : bool) (d : dense V) (dflt : V) : res (dense V) :=
    let sh := d_shape d in
    let f := fun ix => nth (Z.to_nat (ravel sh ix)) (d_flat d) dflt in
    r <- np_reduce ax keepdims sh f ;;
    let '(osh, g) := r in
    flat <- seq_res (map g (all_indices osh)) ;;
    Ok (mkDense osh flat).
End NpReduce.

(* ------------------------------------------------------------------ mean / var (exact arithmetic)
   numpy.mean = sum / N and numpy.var = sum((a - mean)^2) / max(N - ddof, 0), N the number of reduced
   cells, over a value type with exact division by an integer (Proofs instantiate it with Qc).
   std = sqrt(var) is not rational and is not modelled. *)
Section NpMeanVar.
  Variable V : Type.
  Variable add sub mul : V -> V -> V.
  Variable zero : V.
  Variable divn : V -> Z -> V.           (* exact division by an integer count *)

  Definition np_sum := np_reduce V add (fun v => v) (Some zero).

  Definition np_mean (ax : axis_arg) (keepdims : bool) (sh : shape) (f : idx -> V)
    : res (shape * (idx -> res V)) :=
    axes <- np_norm_axes (Z.of_nat (length sh)) ax ;;
    r <- np_sum ax keepdims sh f ;;
    let '(osh, g) := r in
    Ok (osh, fun oix => v <- g oix ;; Ok (divn v (size (sel 0 axes sh)))).

  (* the index of the keepdims array that a full index broadcasts against *)
  Definition np_bcast_idx (axes : list Z) (ix : idx) : idx :=
    map (fun p => if np_mem (fst p) axes then 0 else snd p) (combine (zrange (Z.of_nat (length ix))) ix).

  Definition np_var (ddof : Z) (ax : axis_arg) (keepdims : bool) (sh : shape) (f : idx -> V)
    : res (shape * (idx -> res V)) :=
    axes <- np_norm_axes (Z.of_nat (length sh)) ax ;;
    m <- np_mean ax true sh f ;;
    let '(_, mu) := m in
    (* deviation squared; a cell whose mean is undefined cannot occur (np_sum has an identity) *)
    let dev := fun ix => match mu (np_bcast_idx axes ix) with
                         | Ok u => mul (sub (f ix) u) (sub (f ix) u)
                         | Raise _ => zero
                         end in
    r <- np_sum ax keepdims sh dev ;;
    let '(osh, g) := r in
    Ok (osh, fun oix => v <- g oix ;; Ok (divn v (Z.max (size (sel 0 axes sh) - ddof) 0))).
End NpMeanVar.
