(* Spec/NpElemwise.v — NumPy's meaning of broadcasting and of an element-wise operation, on the
   mathematical object (an array = a shape + a function from index tuples to values).

   Broadcasting (numpy.broadcast_shapes / "General Broadcasting Rules"): shapes are aligned at their
   LAST axis; the result has as many axes as the longest operand; along every axis each operand's
   extent is either 1 (or the axis is missing) or equals the result's extent, and the result's extent
   is the extent of some operand that has the axis.  An operand is read at result index q by dropping
   the leading axes it does not have and reading position 0 along its length-1 axes. *)
From Coq Require Import ZArith List Bool.
From Verif Require Import Shape COO.
Import ListNotations.
Open Scope Z_scope.

(* k-th extent counted from the LAST axis; missing axes count as 1 *)
Definition ext_from_end (s : shape) (k : nat) : Z := nth k (rev s) 1.

Definition max_ndim (shapes : list shape) : nat := fold_right (fun s m => Nat.max (length s) m) 0%nat shapes.

(* r is the NumPy broadcast of the shapes *)
Definition np_broadcast_rel (shapes : list shape) (r : shape) : Prop :=
  length r = max_ndim shapes /\
  (forall s k, In s shapes -> ext_from_end s k = 1 \/ ext_from_end s k = ext_from_end r k) /\
  (forall k, (k < length r)%nat -> exists s, In s shapes /\ (k < length s)%nat /\ ext_from_end s k = ext_from_end r k).

(* one operand shape sh broadcasts into the (result) shape r *)
Definition broadcasts_to (sh r : shape) : Prop :=
  (length sh <= length r)%nat /\
  forall k, (k < length sh)%nat -> ext_from_end sh k = 1 \/ ext_from_end sh k = ext_from_end r k.

Fixpoint map2 {A B C} (f : A -> B -> C) (l1 : list A) (l2 : list B) : list C :=
  match l1, l2 with
  | a :: r1, b :: r2 => f a b :: map2 f r1 r2
  | _, _ => []
  end.

(* numpy.broadcast_to(x, r)[q] = x[bcast_idx (shape x) q] *)
Definition bcast_idx (sh : shape) (q : idx) : idx :=
  map2 (fun d i => if d =? 1 then 0 else i) sh (skipn (length q - length sh) q).

Section Elemwise.
  Variable V : Type.

  (* a dense operand as a mathematical object *)
  Definition marr := (shape * (idx -> V))%type.

  (* value of  f(op_1, ..., op_k)  at index q of the broadcast shape *)
  Definition np_elemwise_at (f : list V -> V) (ops : list marr) (q : idx) : V :=
    f (map (fun o => snd o (bcast_idx (fst o) q)) ops).

  (* the same on concrete dense arrays (row-major flat data), for the executable comparison *)
  Definition dense_get (dflt : V) (d : dense V) (ix : idx) : V :=
    nth (Z.to_nat (ravel (d_shape d) ix)) (d_flat d) dflt.

  Definition marr_of_dense (dflt : V) (d : dense V) : marr := (d_shape d, dense_get dflt d).

  Definition np_elemwise_dense (dflt : V) (f : list V -> V) (ops : list (dense V)) (bsh : shape) : dense V :=
    mkDense bsh (map (np_elemwise_at f (map (marr_of_dense dflt) ops)) (all_indices bsh)).
End Elemwise.

Arguments np_elemwise_at {V}.
Arguments dense_get {V}.
Arguments marr_of_dense {V}.
Arguments np_elemwise_dense {V}.
