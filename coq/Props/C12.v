(* Props/C12.v — property-level statements for C12 (DOK behaves as a mutable NumPy array under
   any sequence of assignments).  Only statements, each closed by [exact] of a lemma proved in
   Proofs/DOKP.v, with Print Assumptions beneath.

   Objects:  Model/DOK.v  — [run sh fill ops] is the dict after the history [ops] of assignments
             (key, value) on DOK(sh, fill_value=fill); [abs fill st] its dense meaning; [getitem],
             [todense], [to_coo], [nnz] the reads.  The model calls the GENERATED slice
             normalisation (Gen/G_slicing.v) and the GENERATED bounds block of DOK._setitem
             (Gen/G_dok.v).
             Spec/NpAssign.v — [np_assign] NumPy's x[key] = value on a total function,
             [np_getitem], [np_flat], [np_count_nonfill].
   Elements are an arbitrary type V with a decidable equality veqb (_utils.equivalent).

   FULL STATEMENT (what the property asks; FALSE of the code as it stands):
     forall sh fill ops, shape_ok sh -> forallb (op_valid sh) ops = true ->
       forall ix, abs fill (run veqb sh fill ops) ix = fold_left (np_assign sh) ops (np_full fill) ix
   where op_valid = "NumPy accepts the assignment".  It is refuted by each of the witnesses below;
   the proved part restricts every assignment of the history to [op_dom sh] = op_valid and the
   named clauses
          nonempty_key         the key is not the empty tuple ()
          value_ndim_clause    the value has no more axes than the key has slices
          fancy_in_range       integer-list keys hold indices in [0, extent) only
          fancy_nonempty       integer-list keys are not empty
          fancy_value_clause   the value of an integer-list key is 0-d or has exactly the lists' length
          (boolean-mask keys are outside the domain altogether: the code rejects them)
   and reads to [read_dom sh] = nonempty_key / fancy_in_range / no mask.
   Keys may also be general basic indices with Ellipsis (KIndex: the model runs agent c02b's whole
   normalize_index, Model/CooIndex.v, linked to NumPy's expansion/resolution by normalize_link);
   clauses for them: index_no_newaxis (a None in an ASSIGNMENT key is rejected by _setitem; the
   property itself says "newaxis-free"), index_no_arrays (index arrays inside a basic key: outside
   the key grammar), index_no_zero_step, index_value_ndim_clause.
   EXTENSION (elements Z): histories of raw values cast to an integer / boolean dtype mixed with
   asformat("coo") / from_coo round trips (hrun / np_hrun, Model/DOKExt.v), and reads through the
   real __getitem__ path (DokGetitem.dok_getitem: COO.from_iter, the COO mask kernels for every
   cut-over schedule kf, DOK.from_coo), stated on top of C02's dok_getitem_den_partial.
   There is NO clause about slices: every start/stop/step (any sign, any size, None) is inside
   the domain — the former defects D1, D4 and the double normalisation of reads were repaired in
   /repo (f6512bb, 97946a9) and the theorems below are proved for the code as it is now. *)
From Coq Require Import ZArith List Bool.
From Verif Require Import Py PyExt G_slicing G_dok PySlice Shape Slicing COO NpIndex CooIndex CooIndexNormP
     Convert DokGetitem DokGetitemP NpAssign DOK DOKP DOKExt DOKExtP.
Import ListNotations.
Open Scope Z_scope.

Section C12.
  Variable V : Type.
  Variable veqb : V -> V -> bool.
  Hypothesis veqb_eq : forall a b, veqb a b = true <-> a = b.
  Variable fill : V.

  (* REFINEMENT: after any in-domain history the dict means the array NumPy has after the
     same assignments *)
  Theorem dok_refines_dense_partial :
    forall (sh : shape) (ops : list (key * arr V)),
      shape_ok sh -> forallb (op_dom sh) ops = true ->
      forall ix, abs fill (run veqb sh fill ops) ix = fold_left (np_assign sh) ops (np_full fill) ix.
  Proof. exact (dok_refines_dense_proof V veqb veqb_eq fill). Qed.

  (* nnz = number of elements different from the fill value *)
  Theorem dok_nnz_partial :
    forall (sh : shape) (ops : list (key * arr V)),
      shape_ok sh -> forallb (op_dom sh) ops = true ->
      nnz (run veqb sh fill ops) =
      np_count_nonfill veqb sh (fold_left (np_assign sh) ops (np_full fill)) fill.
  Proof. exact (dok_nnz_proof V veqb veqb_eq fill). Qed.

  (* assigning the fill value removes the entry: after ANY history (any keys and values at all,
     inside or outside the domain, accepted or rejected) no stored value equals the fill *)
  Theorem dok_pruned :
    forall (sh : shape) (ops : list (key * arr V)),
      Forall (fun kv => veqb (snd kv) fill = false) (run veqb sh fill ops).
  Proof. exact (dok_pruned_proof V veqb fill). Qed.

  (* x[key] after any in-domain history *)
  Theorem dok_read_spec_partial :
    forall (sh : shape) (ops : list (key * arr V)) (k : key) (r : list Z * list V),
      shape_ok sh -> forallb (op_dom sh) ops = true -> read_dom sh k = true ->
      np_getitem sh (fold_left (np_assign sh) ops (np_full fill)) k = Some r ->
      getitem sh fill (run veqb sh fill ops) k = Ok r.
  Proof. exact (dok_read_after_proof V veqb veqb_eq fill). Qed.

  (* todense() after any in-domain history *)
  Theorem dok_todense_partial :
    forall (sh : shape) (ops : list (key * arr V)),
      shape_ok sh -> forallb (op_dom sh) ops = true ->
      todense sh fill (run veqb sh fill ops) =
      np_flat sh (fold_left (np_assign sh) ops (np_full fill)).
  Proof. exact (dok_todense_after_proof V veqb veqb_eq fill). Qed.

  (* asformat("coo") after any in-domain history: canonical, pruned, same meaning, same nnz *)
  Theorem dok_tocoo_partial :
    forall (sh : shape) (ops : list (key * arr V)),
      shape_ok sh -> forallb (op_dom sh) ops = true ->
      let c := to_coo sh fill (run veqb sh fill ops) in
      canonicalb c = true /\ prunedb veqb c = true /\
      (forall ix, den c ix = fold_left (np_assign sh) ops (np_full fill) ix) /\
      COO.nnz c = np_count_nonfill veqb sh (fold_left (np_assign sh) ops (np_full fill)) fill.
  Proof. exact (dok_tocoo_after_proof V veqb veqb_eq fill). Qed.
End C12.

Print Assumptions dok_refines_dense_partial.
Print Assumptions dok_nnz_partial.
Print Assumptions dok_pruned.
Print Assumptions dok_read_spec_partial.
Print Assumptions dok_todense_partial.
Print Assumptions dok_tocoo_partial.

(* ---- the full statement is false: one witness per clause (elements: Z) ---- *)

(* d[[-1]] = 5 stores the key (-1,) *)
Theorem dok_fancy_negative_refuted :
  exists (sh : shape) (fill : Z) (op : key * arr Z) (ix : idx),
    shape_ok sh /\ op_valid sh op = true /\
    abs fill (step Z.eqb sh fill [] op) ix <> np_assign sh (np_full fill) op ix.
Proof. exact dok_fancy_negative_refuted_proof. Qed.
Print Assumptions dok_fancy_negative_refuted.

(* d[[0, 1]] = [5] is rejected (ValueError) *)
Theorem dok_fancy_value_refuted :
  exists (sh : shape) (fill : Z) (op : key * arr Z) (ix : idx),
    shape_ok sh /\ op_valid sh op = true /\
    match fst op with KFancy ls => fancy_in_range ls sh && fancy_nonempty ls | _ => false end = true /\
    abs fill (step Z.eqb sh fill [] op) ix <> np_assign sh (np_full fill) op ix.
Proof. exact dok_fancy_value_refuted_proof. Qed.
Print Assumptions dok_fancy_value_refuted.

(* d[mask] = 5 is rejected (IndexError) *)
Theorem dok_mask_refuted :
  exists (sh : shape) (fill : Z) (op : key * arr Z) (ix : idx),
    shape_ok sh /\ op_valid sh op = true /\
    abs fill (step Z.eqb sh fill [] op) ix <> np_assign sh (np_full fill) op ix.
Proof. exact dok_mask_refuted_proof. Qed.
Print Assumptions dok_mask_refuted.

(* d[0:2] = [[1, 2]] is rejected (ValueError) *)
Theorem dok_value_ndim_refuted :
  exists (sh : shape) (fill : Z) (op : key * arr Z) (ix : idx),
    shape_ok sh /\ op_valid sh op = true /\
    abs fill (step Z.eqb sh fill [] op) ix <> np_assign sh (np_full fill) op ix.
Proof. exact dok_value_ndim_refuted_proof. Qed.
Print Assumptions dok_value_ndim_refuted.

(* d[()] = 5 is rejected (NotImplementedError; IndexError on a 1-d array) *)
Theorem dok_empty_key_refuted :
  exists (sh : shape) (fill : Z) (op : key * arr Z) (ix : idx),
    shape_ok sh /\ op_valid sh op = true /\
    abs fill (step Z.eqb sh fill [] op) ix <> np_assign sh (np_full fill) op ix.
Proof. exact dok_empty_key_refuted_proof. Qed.
Print Assumptions dok_empty_key_refuted.

(* ==================================================================== extension (elements: Z) *)

(* refinement for histories of RAW values (Python ints and floats, NumPy integer scalars, integer
   and float arrays) assigned into a DOK of an integer / boolean dtype, mixed with
   d = DOK.from_coo(d.asformat("coo")) round trips *)
Theorem dok_refines_dense_ext_partial :
  forall (dt : dtype) (sh : shape) (fill : Z) (ops : list hop),
    shape_ok sh -> dtype_ok dt = true -> forallb (hop_dom dt sh) ops = true ->
    forall ix, abs fill (hrun dt sh fill ops) ix = np_hrun dt sh fill ops ix.
Proof. exact dok_refines_dense_ext_proof. Qed.
Print Assumptions dok_refines_dense_ext_partial.

Theorem dok_nnz_ext_partial :
  forall (dt : dtype) (sh : shape) (fill : Z) (ops : list hop),
    shape_ok sh -> dtype_ok dt = true -> forallb (hop_dom dt sh) ops = true ->
    nnz (hrun dt sh fill ops) = np_count_nonfill Z.eqb sh (np_hrun dt sh fill ops) fill.
Proof. exact dok_nnz_ext_proof. Qed.
Print Assumptions dok_nnz_ext_partial.

(* asformat("coo") followed by DOK.from_coo gives back the very same dict *)
Theorem dok_roundtrip_state :
  forall (dt : dtype) (sh : shape) (fill : Z) (ops : list hop),
    shape_ok sh -> sh <> [] -> dtype_ok dt = true -> forallb (hop_dom dt sh) ops = true ->
    roundtrip sh fill (hrun dt sh fill ops) = hrun dt sh fill ops.
Proof. exact dok_roundtrip_state_proof. Qed.
Print Assumptions dok_roundtrip_state.

(* dok_read_spec through the real path: for every key that is not made of index sequences only —
   integers, slices, Ellipsis, None, one index array or several (C02's coo_ix_ok) — and every
   cut-over schedule kf of the mask kernels, d[ix] after an in-domain history is NumPy's x[ix] *)
Theorem dok_real_read_partial :
  forall (kf : nat -> nat) (dt : dtype) (sh : shape) (fill : Z) (ops : list hop) (ix : index),
    shape_ok sh -> sh <> [] -> dtype_ok dt = true -> forallb (hop_dom dt sh) ops = true ->
    no_zero_step ix = true -> coo_ix_ok sh ix -> all_arrays_of ix = None ->
    match np_index sh ix with
    | Raise e => real_getitem kf sh fill (hrun dt sh fill ops) ix = Raise e /\ e = IndexError
    | Ok (sh', g) =>
      match real_getitem kf sh fill (hrun dt sh fill ops) ix with
      | Ok (DArr sh'' it' f') =>
        sh'' = sh' /\ f' = fill /\ NoDup (map fst it') /\ Forall (in_range sh') (map fst it')
        /\ forall j, in_range sh' j -> den (dok_as_coo sh'' it' f') j = np_hrun dt sh fill ops (g j)
      | Ok (DScalar v) => sh' = [] /\ v = np_hrun dt sh fill ops (g [])
      | Raise _ => False
      end
    end.
Proof. exact dok_real_read_after_proof. Qed.
Print Assumptions dok_real_read_partial.

(* ... and for keys made of one in-range integer sequence per axis (_fancy_getitem) *)
Theorem dok_real_fancy_read_partial :
  forall (kf : nat -> nat) (dt : dtype) (sh : shape) (fill : Z) (ops : list hop)
         (ls : list (list Z)) (n : nat),
    shape_ok sh -> sh <> [] -> dtype_ok dt = true -> forallb (hop_dom dt sh) ops = true ->
    fancy_ok sh ls n ->
    exists g it',
      np_index sh (map IArr ls) = Ok ([Z.of_nat n], g)
      /\ real_getitem kf sh fill (hrun dt sh fill ops) (map IArr ls) = Ok (DArr [Z.of_nat n] it' fill)
      /\ forall j, in_range [Z.of_nat n] j ->
           den (dok_as_coo [Z.of_nat n] it' fill) j = np_hrun dt sh fill ops (g j).
Proof. exact dok_real_fancy_read_after_proof. Qed.
Print Assumptions dok_real_fancy_read_partial.

(* d[None, 0] = 5 raises IndexError; NumPy assigns x[0] (the property's keys are newaxis-free) *)
Theorem dok_newaxis_refuted :
  exists (sh : shape) (fill : Z) (op : key * arr Z) (ix : idx),
    shape_ok sh /\ op_valid sh op = true /\
    abs fill (step Z.eqb sh fill [] op) ix <> np_assign sh (np_full fill) op ix.
Proof. exact dok_newaxis_refuted_proof. Qed.
Print Assumptions dok_newaxis_refuted.

(* d = DOK((3,), dtype=int8); d[0] = np.int64(300) stores 44; NumPy raises OverflowError *)
Theorem dok_npint_refuted :
  exists (dt : dtype) (sh : shape) (fill : Z) (o : hop) (ix : idx),
    shape_ok sh /\ dtype_ok dt = true /\
    abs fill (hstep dt sh fill [] o) ix <> np_hstep dt sh (np_full fill) o ix.
Proof. exact dok_npint_refuted_proof. Qed.
Print Assumptions dok_npint_refuted.
