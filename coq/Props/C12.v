(* Props/C12.v — property-level statements for C12 (DOK behaves as a mutable NumPy array under
   any sequence of assignments).  Only statements, each closed by [exact] of a lemma proved in
   Proofs/DOKP.v, with Print Assumptions beneath.

   Objects:  Model/DOK.v  — [run sh fill ops] is the dict after the history [ops] of assignments
             (key, value) on DOK(sh, fill_value=fill); [abs fill st] its dense meaning; [getitem],
             [todense], [to_coo], [nnz] the reads.  The model calls the GENERATED slice
             normalisation (Gen/G_slicing.v) and the GENERATED bounds block of DOK._setitem
             (Gen/G_dok.v).
             Spec/NpAssign.v — [np_assign] NumPy's x[key] = value on a total function,
             [np_getitem], [np_flat], [np_count_nonfill].
   Elements are an arbitrary type V with a decidable equality veqb (_utils.equivalent).

   FULL STATEMENT (what the property asks):
     forall sh fill ops, shape_ok sh -> forallb (op_valid sh) ops = true ->
       forall ix, abs fill (run veqb sh fill ops) ix = fold_left (np_assign sh) ops (np_full fill) ix
   where op_valid = "NumPy accepts the assignment".
   It is PROVED AS IT STANDS for keys of integers and slices — the empty key () included, every
   start / stop / step, scalar or array values with any number of leading axes of extent 1
   (dok_refines_dense_basic) — and for full-dimension integer-list keys (negative entries wrap, empty
   lists, repeated entries: the last wins) and boolean masks over a 1-d array with a 0-d or 1-d
   value (length-1 values broadcast).  The defects that used to restrict it were repaired in /repo:
   D1, D4, double normalisation (f6512bb, 97946a9); unnormalised index sequences, masks read as
   integers, empty lists (b72190a, 336daf5); length-1 values (d195a7a); leading axes of extent 1
   (6eae3a6); the empty key (e6d97fc).  The model describes the code as it is now; the old witnesses
   are regression Examples in Proofs/DOKP.v (dok_former_defects_fixed, dok_round7_defects_fixed).
   What is still FALSE of the code, each with a witness below, and excluded by [op_dom sh]:
          KMask, n-d            a single n-d boolean array as key is refused (dok_mask_refuted)
          fancy_value_clause    an integer-list / mask key with a value of ndim > 1, e.g. shape (1, n):
                                ValueError, pinned by the test suite (dok_fancy_value_ndim_refuted)
          view0d_clause         a 0-d VIEW as target (x[..., i] of a 1-d x) with a one-element array
                                value (dok_view0d_refuted)
          index_no_newaxis      a None in an ASSIGNMENT key (the property itself says "newaxis-free")
          index_no_arrays       index arrays inside a basic key: outside the key grammar
   Reads ([read_dom sh]): everything except an n-d mask, index arrays inside a basic key and a
   zero step (which NumPy rejects).
   General basic indices (KIndex: Ellipsis, None) run agent c02b's whole normalize_index
   (Model/CooIndex.v), linked to NumPy's expansion / resolution by normalize_link.
   EXTENSION (elements Z): histories of raw values cast to an integer / boolean dtype mixed with
   asformat("coo") / from_coo round trips (hrun / np_hrun, Model/DOKExt.v), and reads through the
   real __getitem__ path (DokGetitem.dok_getitem: COO.from_iter, the COO mask kernels for every
   cut-over schedule kf, DOK.from_coo), stated on top of C02's dok_getitem_den_partial. *)
From Coq Require Import ZArith List Bool.
From Verif Require Import Py PyExt G_slicing G_dok PySlice Shape Slicing COO NpIndex CooIndex CooIndexNormP
     Convert DokGetitem DokGetitemP NpAssign DOK DOKP DOKExt DOKExtP.
Import ListNotations.
Open Scope Z_scope.

Section C12.
  Variable V : Type.
  Variable veqb : V -> V -> bool.
  Hypothesis veqb_eq : forall a b, veqb a b = true <-> a = b.
  Variable fill : V.

  (* REFINEMENT: after any in-domain history the dict means the array NumPy has after the
     same assignments *)
  Theorem dok_refines_dense_partial :
    forall (sh : shape) (ops : list (key * arr V)),
      shape_ok sh -> forallb (op_dom sh) ops = true ->
      forall ix, abs fill (run veqb sh fill ops) ix = fold_left (np_assign sh) ops (np_full fill) ix.
  Proof. exact (dok_refines_dense_proof V veqb veqb_eq fill). Qed.

  (* the FULL statement for keys of integers and slices *)
  Theorem dok_refines_dense_basic :
    forall (sh : shape) (ops : list (key * arr V)),
      shape_ok sh -> forallb (basic_valid V sh) ops = true ->
      forall ix, abs fill (run veqb sh fill ops) ix = fold_left (np_assign sh) ops (np_full fill) ix.
  Proof. exact (dok_refines_dense_basic_proof V veqb veqb_eq fill). Qed.

  (* nnz = number of elements different from the fill value *)
  Theorem dok_nnz_partial :
    forall (sh : shape) (ops : list (key * arr V)),
      shape_ok sh -> forallb (op_dom sh) ops = true ->
      nnz (run veqb sh fill ops) =
      np_count_nonfill veqb sh (fold_left (np_assign sh) ops (np_full fill)) fill.
  Proof. exact (dok_nnz_proof V veqb veqb_eq fill). Qed.

  (* assigning the fill value removes the entry: after ANY history (any keys and values at all,
     inside or outside the domain, accepted or rejected) no stored value equals the fill *)
  Theorem dok_pruned :
    forall (sh : shape) (ops : list (key * arr V)),
      Forall (fun kv => veqb (snd kv) fill = false) (run veqb sh fill ops).
  Proof. exact (dok_pruned_proof V veqb fill). Qed.

  (* x[key] after any in-domain history *)
  Theorem dok_read_spec_partial :
    forall (sh : shape) (ops : list (key * arr V)) (k : key) (r : list Z * list V),
      shape_ok sh -> forallb (op_dom sh) ops = true -> read_dom sh k = true ->
      np_getitem sh (fold_left (np_assign sh) ops (np_full fill)) k = Some r ->
      getitem sh fill (run veqb sh fill ops) k = Ok r.
  Proof. exact (dok_read_after_proof V veqb veqb_eq fill). Qed.

  (* todense() after any in-domain history *)
  Theorem dok_todense_partial :
    forall (sh : shape) (ops : list (key * arr V)),
      shape_ok sh -> forallb (op_dom sh) ops = true ->
      todense sh fill (run veqb sh fill ops) =
      np_flat sh (fold_left (np_assign sh) ops (np_full fill)).
  Proof. exact (dok_todense_after_proof V veqb veqb_eq fill). Qed.

  (* asformat("coo") after any in-domain history: canonical, pruned, same meaning, same nnz *)
  Theorem dok_tocoo_partial :
    forall (sh : shape) (ops : list (key * arr V)),
      shape_ok sh -> forallb (op_dom sh) ops = true ->
      let c := to_coo sh fill (run veqb sh fill ops) in
      canonicalb c = true /\ prunedb veqb c = true /\
      (forall ix, den c ix = fold_left (np_assign sh) ops (np_full fill) ix) /\
      COO.nnz c = np_count_nonfill veqb sh (fold_left (np_assign sh) ops (np_full fill)) fill.
  Proof. exact (dok_tocoo_after_proof V veqb veqb_eq fill). Qed.
End C12.

Print Assumptions dok_refines_dense_partial.
Print Assumptions dok_refines_dense_basic.
Print Assumptions dok_nnz_partial.
Print Assumptions dok_pruned.
Print Assumptions dok_read_spec_partial.
Print Assumptions dok_todense_partial.
Print Assumptions dok_tocoo_partial.

(* ---- what is still false of the code: one witness per remaining clause (elements: Z) ---- *)

(* a single n-d boolean array as key: d[mask2d] = 5 is rejected (IndexError) *)
Theorem dok_mask_refuted :
  exists (sh : shape) (fill : Z) (op : key * arr Z) (ix : idx),
    shape_ok sh /\ op_valid sh op = true /\
    abs fill (step Z.eqb sh fill [] op) ix <> np_assign sh (np_full fill) op ix.
Proof. exact dok_mask_refuted_proof. Qed.
Print Assumptions dok_mask_refuted.

(* d[[0, 1]] = np.array([[5, 6]]) is rejected (ValueError: ndim of the value > 1) *)
Theorem dok_fancy_value_ndim_refuted :
  exists (sh : shape) (fill : Z) (op : key * arr Z) (ix : idx),
    shape_ok sh /\ op_valid sh op = true /\
    abs fill (step Z.eqb sh fill [] op) ix <> np_assign sh (np_full fill) op ix.
Proof. exact dok_fancy_value_ndim_refuted_proof. Qed.
Print Assumptions dok_fancy_value_ndim_refuted.

(* d = DOK((3,)); d[..., -1] = np.array([5]) is rejected (ValueError); NumPy broadcasts into the 0-d view *)
Theorem dok_view0d_refuted :
  exists (sh : shape) (fill : Z) (op : key * arr Z) (ix : idx),
    shape_ok sh /\ op_valid sh op = true /\
    abs fill (step Z.eqb sh fill [] op) ix <> np_assign sh (np_full fill) op ix.
Proof. exact dok_view0d_refuted_proof. Qed.
Print Assumptions dok_view0d_refuted.

(* ==================================================================== extension (elements: Z) *)

(* refinement for histories of RAW values (Python ints and floats, NumPy integer scalars, integer
   and float arrays) assigned into a DOK of an integer / boolean dtype, mixed with
   d = DOK.from_coo(d.asformat("coo")) round trips *)
Theorem dok_refines_dense_ext_partial :
  forall (dt : dtype) (sh : shape) (fill : Z) (ops : list hop),
    shape_ok sh -> dtype_ok dt = true -> forallb (hop_dom dt sh) ops = true ->
    forall ix, abs fill (hrun dt sh fill ops) ix = np_hrun dt sh fill ops ix.
Proof. exact dok_refines_dense_ext_proof. Qed.
Print Assumptions dok_refines_dense_ext_partial.

Theorem dok_nnz_ext_partial :
  forall (dt : dtype) (sh : shape) (fill : Z) (ops : list hop),
    shape_ok sh -> dtype_ok dt = true -> forallb (hop_dom dt sh) ops = true ->
    nnz (hrun dt sh fill ops) = np_count_nonfill Z.eqb sh (np_hrun dt sh fill ops) fill.
Proof. exact dok_nnz_ext_proof. Qed.
Print Assumptions dok_nnz_ext_partial.

(* asformat("coo") followed by DOK.from_coo gives back the very same dict *)
Theorem dok_roundtrip_state :
  forall (dt : dtype) (sh : shape) (fill : Z) (ops : list hop),
    shape_ok sh -> dtype_ok dt = true -> forallb (hop_dom dt sh) ops = true ->
    roundtrip sh fill (hrun dt sh fill ops) = hrun dt sh fill ops.
Proof. exact dok_roundtrip_state_proof. Qed.
Print Assumptions dok_roundtrip_state.

(* dok_read_spec through the real path: for every key that is not made of index sequences only —
   integers, slices, Ellipsis, None, one index array or several (C02's coo_ix_ok) — and every
   cut-over schedule kf of the mask kernels, d[ix] after an in-domain history is NumPy's x[ix] *)
Theorem dok_real_read_partial :
  forall (kf : nat -> nat) (dt : dtype) (sh : shape) (fill : Z) (ops : list hop) (ix : index),
    shape_ok sh -> dtype_ok dt = true -> forallb (hop_dom dt sh) ops = true ->
    no_zero_step ix = true -> coo_ix_ok sh ix -> fancy_key ix = false ->
    match np_index sh ix with
    | Raise e => real_getitem kf sh fill (hrun dt sh fill ops) ix = Raise e /\ e = IndexError
    | Ok (sh', g) =>
      match real_getitem kf sh fill (hrun dt sh fill ops) ix with
      | Ok (DArr sh'' it' f') =>
        sh'' = sh' /\ f' = fill /\ NoDup (map fst it') /\ Forall (in_range sh') (map fst it')
        /\ forall j, in_range sh' j -> den (dok_as_coo sh'' it' f') j = np_hrun dt sh fill ops (g j)
      | Ok (DScalar v) => sh' = [] /\ v = np_hrun dt sh fill ops (g [])
      | Raise _ => False
      end
    end.
Proof. exact dok_real_read_after_proof. Qed.
Print Assumptions dok_real_read_partial.

(* ... and for keys made of one in-range integer sequence per axis (_fancy_getitem) *)
Theorem dok_real_fancy_read_partial :
  forall (kf : nat -> nat) (dt : dtype) (sh : shape) (fill : Z) (ops : list hop)
         (ls : list (list Z)) (n : nat),
    shape_ok sh -> dtype_ok dt = true -> forallb (hop_dom dt sh) ops = true ->
    fancy_ok sh ls n ->
    exists g it',
      np_index sh (map IArr ls) = Ok ([Z.of_nat n], g)
      /\ real_getitem kf sh fill (hrun dt sh fill ops) (map IArr ls) = Ok (DArr [Z.of_nat n] it' fill)
      /\ forall j, in_range [Z.of_nat n] j ->
           den (dok_as_coo [Z.of_nat n] it' fill) j = np_hrun dt sh fill ops (g j).
Proof. exact dok_real_fancy_read_after_proof. Qed.
Print Assumptions dok_real_fancy_read_partial.

(* d[None, 0] = 5 raises IndexError; NumPy assigns x[0] (the property's keys are newaxis-free) *)
Theorem dok_newaxis_refuted :
  exists (sh : shape) (fill : Z) (op : key * arr Z) (ix : idx),
    shape_ok sh /\ op_valid sh op = true /\
    abs fill (step Z.eqb sh fill [] op) ix <> np_assign sh (np_full fill) op ix.
Proof. exact dok_newaxis_refuted_proof. Qed.
Print Assumptions dok_newaxis_refuted.

(* d = DOK((3,), dtype=int8); d[0] = np.int64(300) stores 44; NumPy raises OverflowError *)
Theorem dok_npint_refuted :
  exists (dt : dtype) (sh : shape) (fill : Z) (o : hop) (ix : idx),
    shape_ok sh /\ dtype_ok dt = true /\
    abs fill (hstep dt sh fill [] o) ix <> np_hstep dt sh (np_full fill) o ix.
Proof. exact dok_npint_refuted_proof. Qed.
Print Assumptions dok_npint_refuted.
