(* Props/C09.v — property-level statements for C09 (joining and structural extraction agree with
   NumPy).  Only statements, each closed by [exact] of a lemma proved in Proofs/JoinP.v or
   Proofs/ExtractP.v, with Print Assumptions beneath.

   Reading guide.  V is an arbitrary element type with a decidable equality veqb (the code's
   `equivalent`); `cwf V x` = x is a canonical COO (coordinates in range, strictly increasing
   row-major, one datum per coordinate) with non-negative extents; `darr_of_coo x` is the dense
   array x denotes; np_* are the NumPy meanings of Spec/NpJoin.v; np_norm_axis is NumPy's axis
   rule (negative axes count from the end).  The `*_src` functions are the models of Model/Join.v
   and Model/Extract.v instantiated with the constructor flags, guards and predicates that
   tools/sitegen/join.py and tools/py2v.py extract from /repo on every run (Gen/S_join.v,
   Gen/G_join.v) — e.g. `sorted=(axis == 0)`, `fill_value=arrays[0].fill_value`.
   "The result is again a sparse array" holds by typing: every model returns a `coo V`.

   GCXS joiners: gcxs_concat_den / gcxs_stack_den are stated for members that are canonical GCXS arrays
   (gcxs_from_coo c ca of a canonical COO c — what GCXS.from_coo and every C05 conversion produce) and use
   property C05's theorems (Proofs/ConvertG.v, ConvertP.v) for change_compressed_axes; they include
   gcxs_wfb of the result. *)
From Coq Require Import ZArith List Bool.
From Verif Require Import Py Shape COO COOP GCXS Convert ConvertG ConvertU NpIndex CooIndex NpJoin S_join Join Extract JoinP ExtractP JoinG TakeG ShapeOps ShapeOpsG JoinReshapeP.
Import ListNotations.
Open Scope Z_scope.

Section C09.
  Variable V : Type.
  Variable veqb : V -> V -> bool.
  Hypothesis veqb_eq : forall a b, veqb a b = true <-> a = b.
  Variable vzero : V.
  Variable vadd : V -> V -> V.

  (* ------------------------------------------------------------ concatenate (COO joiner) *)
  Theorem coo_concat_den :
    forall (a : coo V) (r : list (coo V)) (axis : Z) (k : nat),
      np_norm_axis axis (ndim_of V a) = Some k ->
      Forall (cwf V) (a :: r) ->
      Forall (fun x => same_off k (c_shape a) (c_shape x)) r ->        (* same extents off the axis *)
      Forall (fun x => c_fill x = c_fill a) r ->
      exists c, coo_concatenate_src V veqb vzero vadd (Some axis) (a :: r) = Ok c
        /\ join_result V c a (np_concatenate k (darr_of_coo a) (map darr_of_coo r)).
  Proof. exact (coo_concat_den_proof V veqb veqb_eq vzero vadd). Qed.

  (* this is where the promise `sorted=(axis == 0)` is discharged *)
  Theorem coo_concat_canonical :
    forall (a : coo V) (r : list (coo V)) (axis : Z) (k : nat),
      np_norm_axis axis (ndim_of V a) = Some k ->
      Forall (cwf V) (a :: r) ->
      Forall (fun x => same_off k (c_shape a) (c_shape x)) r ->
      Forall (fun x => c_fill x = c_fill a) r ->
      exists c, coo_concatenate_src V veqb vzero vadd (Some axis) (a :: r) = Ok c /\ canonical V c.
  Proof. exact (coo_concat_canonical_proof V veqb veqb_eq vzero vadd). Qed.

  (* axis=None: the members (of ANY shapes) are flattened, then joined *)
  Theorem coo_concat_none_den :
    forall (a : coo V) (r : list (coo V)),
      Forall (cwf V) (a :: r) ->
      Forall (fun x => c_fill x = c_fill a) r ->
      exists c, coo_concatenate_src V veqb vzero vadd None (a :: r) = Ok c
        /\ canonical V c
        /\ join_result V c a (np_concatenate_none (darr_of_coo a) (map darr_of_coo r)).
  Proof. exact (coo_concat_none_proof V veqb veqb_eq vzero vadd). Qed.

  (* ------------------------------------------------------------ stack (COO joiner) *)
  Theorem coo_stack_den :
    forall (a : coo V) (r : list (coo V)) (axis : Z) (k : nat),
      np_norm_axis axis (ndim_of V a + 1) = Some k ->
      Forall (cwf V) (a :: r) ->
      Forall (fun x => c_shape x = c_shape a) r ->
      Forall (fun x => c_fill x = c_fill a) r ->
      exists c, coo_stack_src V veqb vzero vadd axis (a :: r) = Ok c
        /\ join_result V c a (np_stack k (darr_of_coo a) (map darr_of_coo r)).
  Proof. exact (coo_stack_den_proof V veqb veqb_eq vzero vadd). Qed.

  Theorem coo_stack_canonical :
    forall (a : coo V) (r : list (coo V)) (axis : Z) (k : nat),
      np_norm_axis axis (ndim_of V a + 1) = Some k ->
      Forall (cwf V) (a :: r) ->
      Forall (fun x => c_shape x = c_shape a) r ->
      Forall (fun x => c_fill x = c_fill a) r ->
      exists c, coo_stack_src V veqb vzero vadd axis (a :: r) = Ok c /\ canonical V c.
  Proof. exact (coo_stack_canonical_proof V veqb veqb_eq vzero vadd). Qed.

  (* members with different fill values are rejected with ValueError, whatever the axis *)
  Theorem coo_join_mixed_fill_rejected :
    forall (a : coo V) (r : list (coo V)),
      (exists x, In x r /\ c_fill x <> c_fill a) ->
      (forall axis, coo_concatenate_src V veqb vzero vadd axis (a :: r) = Raise ValueError)
      /\ (forall axis, coo_stack_src V veqb vzero vadd axis (a :: r) = Raise ValueError).
  Proof. exact (coo_join_mixed_fill_rejected_proof V veqb veqb_eq vzero vadd). Qed.

  (* an axis NumPy rejects is rejected with ValueError *)
  Theorem coo_concat_bad_axis_rejected :
    forall (a : coo V) (r : list (coo V)) (axis : Z),
      np_norm_axis axis (ndim_of V a) = None ->
      Forall (fun x => c_fill x = c_fill a) r ->
      coo_concatenate_src V veqb vzero vadd (Some axis) (a :: r) = Raise ValueError.
  Proof. exact (coo_concat_src_bad_axis V veqb veqb_eq vzero vadd). Qed.

  (* members whose shapes do not fit are rejected with ValueError, like NumPy: an off-axis extent or the
     number of dimensions differs (concatenate), any shape differs (stack) *)
  Theorem coo_join_shape_mismatch_rejected :
    forall (a : coo V) (r : list (coo V)) (axis : Z),
      Forall (fun x => c_fill x = c_fill a) r ->
      (forall k, np_norm_axis axis (ndim_of V a) = Some k ->
                 (exists x, In x r /\ same_off_axis k (c_shape a) (c_shape x) = false) ->
                 coo_concatenate_src V veqb vzero vadd (Some axis) (a :: r) = Raise ValueError)
      /\ ((exists x, In x r /\ c_shape x <> c_shape a) ->
          coo_stack_src V veqb vzero vadd axis (a :: r) = Raise ValueError).
  Proof.
    intros a r axis Hfl. split.
    - intros k Hax Hbad. exact (coo_concat_src_mismatch V veqb veqb_eq vzero vadd a r axis k Hax Hfl Hbad).
    - intros Hbad. exact (coo_stack_src_mismatch V veqb veqb_eq vzero vadd a r axis Hfl Hbad).
  Qed.

  (* ------------------------------------------------------------ triu / tril (every k)
     (inputs of any format are converted with asCOO first — Gen/S_join.v: site_triu_converts_input —;
     the conversion is C05's, the theorems are about the converted COO) *)
  Theorem triu_tril_den :
    forall (x : coo V) (k : Z),
      cwf V x -> (2 <= length (c_shape x))%nat -> c_fill x = vzero ->
      (exists c, coo_triu_src V veqb vzero vadd x k = Ok c
                 /\ extract_result V c x (np_triu vzero k (darr_of_coo x)))
      /\ (exists c, coo_tril_src V veqb vzero vadd x k = Ok c
                    /\ extract_result V c x (np_tril vzero k (darr_of_coo x))).
  Proof. exact (triu_tril_den_proof V veqb veqb_eq vzero vadd). Qed.

  (* documented restriction: a non-zero fill value raises ValueError *)
  Theorem triu_tril_nonzero_fill_rejected :
    forall (x : coo V) (k : Z),
      c_fill x <> vzero ->
      coo_triu_src V veqb vzero vadd x k = Raise ValueError /\ coo_tril_src V veqb vzero vadd x k = Raise ValueError.
  Proof. exact (triu_src_nonzero_fill V veqb veqb_eq vzero vadd). Qed.

  (* ------------------------------------------------------------ diagonal
     Full statement (every pair of distinct in-range axes, any extents):
       forall x offset axis1 axis2 a1 a2, cwf V x ->
         np_norm_axis axis1 n = Some a1 -> np_norm_axis axis2 n = Some a2 -> a1 <> a2 ->
         exists c, coo_diagonal_src ... x offset axis1 axis2 = Ok c
                   /\ extract_result V c x (np_diagonal offset a1 a2 (darr_of_coo x)).
     It is FALSE of the code as it stands, see diagonal_den_refuted (extents of the two axes differ: the
     documented ValueError where NumPy returns the shorter diagonal; diagonal_nonsquare_rejected says this
     is all that happens there).  Inside the named clause it holds for EVERY offset (negative and beyond
     the extent included), every fill value and every spelling of the axes (negative included): *)
  Theorem diagonal_den_partial :
    forall (x : coo V) (offset axis1 axis2 : Z) (a1 a2 : nat),
      cwf V x ->
      np_norm_axis axis1 (ndim_of V x) = Some a1 -> np_norm_axis axis2 (ndim_of V x) = Some a2 -> a1 <> a2 ->
      diagonal_nonsquare (c_shape x) a1 a2 = true ->
      exists c, coo_diagonal_src V veqb vzero vadd x offset axis1 axis2 = Ok c
        /\ extract_result V c x (np_diagonal offset a1 a2 (darr_of_coo x)).
  Proof. exact (diagonal_den_partial_proof V veqb vzero vadd). Qed.

  Theorem diagonal_nonsquare_rejected :
    forall (x : coo V) (offset axis1 axis2 : Z) (a1 a2 : nat),
      np_norm_axis axis1 (ndim_of V x) = Some a1 -> np_norm_axis axis2 (ndim_of V x) = Some a2 -> a1 <> a2 ->
      diagonal_nonsquare (c_shape x) a1 a2 = false ->
      coo_diagonal_src V veqb vzero vadd x offset axis1 axis2 = Raise ValueError.
  Proof. exact (diagonal_nonsquare_rejected_proof V veqb vzero vadd). Qed.

  (* equal axes are rejected with ValueError, like NumPy *)
  Theorem diagonal_same_axis_rejected :
    forall (x : coo V) (offset axis1 axis2 : Z) (a : nat),
      np_norm_axis axis1 (ndim_of V x) = Some a -> np_norm_axis axis2 (ndim_of V x) = Some a ->
      coo_diagonal_src V veqb vzero vadd x offset axis1 axis2 = Raise ValueError.
  Proof. exact (diagonal_src_same_axis V veqb vzero vadd). Qed.

  (* ------------------------------------------------------------ diagonalize (zero fill; non-zero fill is rejected) *)
  Theorem diagonalize_den :
    forall (x : coo V) (axis : Z) (k : nat),
      cwf V x -> np_norm_axis axis (ndim_of V x) = Some k -> 0 <= axis -> c_fill x = vzero ->
      exists c, coo_diagonalize_src V veqb vzero vadd x axis = Ok c
        /\ extract_result V c x (np_diagonalize vzero k (darr_of_coo x)).
  Proof. exact (diagonalize_den_proof V veqb veqb_eq vzero vadd). Qed.

  Theorem diagonalize_nonzero_fill_rejected :
    forall (x : coo V) (axis : Z),
      c_fill x <> vzero -> coo_diagonalize_src V veqb vzero vadd x axis = Raise ValueError.
  Proof. exact (diagonalize_src_nonzero_fill V veqb veqb_eq vzero vadd). Qed.
  (* ------------------------------------------------------------ take on the REAL getitem path
     coo_take_getitem = normalize_axis, then COO.__getitem__ (Model/CooIndex.v, property C02) on
     (slice(None),) * axis + (indices, ...).  Proved from C02's coo_getitem_den /
     coo_getitem_one_array_partial plus: NumPy's meaning of that index is np.take's (Proofs/TakeG.v).
     kf is the getitem model's mask-strategy choice (any).  A 1-d input with an integer index gives a scalar. *)
  Theorem take_int_getitem_den :
    forall (kf : nat -> nat) (x : coo V) (i axis : Z) (k : nat),
      cwf V x -> np_norm_axis axis (ndim_of V x) = Some k ->
      - nth k (c_shape x) 0 <= i < nth k (c_shape x) 0 ->
      match coo_take_getitem V kf x (IInt i) axis with
      | Ok (GArr y) => take_result V y x (np_take_int k i (darr_of_coo x))
      | Ok (GScalar v) => length (c_shape x) = 1%nat /\ v = den x [NpJoin.wrap (nth k (c_shape x) 0) i]
      | Raise _ => False
      end.
  Proof. exact (take_int_getitem_proof V). Qed.

  Theorem take_list_getitem_den :
    forall (kf : nat -> nat) (x : coo V) (l : list Z) (axis : Z) (k : nat),
      cwf V x -> np_norm_axis axis (ndim_of V x) = Some k ->
      Forall (fun i => - nth k (c_shape x) 0 <= i < nth k (c_shape x) 0) l ->
      match coo_take_getitem V kf x (IArr l) axis with
      | Ok (GArr y) => take_result V y x (np_take_list k l (darr_of_coo x))
      | _ => False
      end.
  Proof. exact (take_list_getitem_proof V). Qed.

  (* ------------------------------------------------------------ take, result-level model (kept: the model
     the correspondence compares coordinate by coordinate; same Spec) *)
  Theorem take_int_den :
    forall (x : coo V) (i axis : Z) (k : nat),
      cwf V x -> np_norm_axis axis (ndim_of V x) = Some k ->
      - nth k (c_shape x) 0 <= i < nth k (c_shape x) 0 ->
      exists c, coo_take_int V x i axis = Ok c
        /\ extract_result V c x (np_take_int k i (darr_of_coo x)).
  Proof. exact (take_int_correct V). Qed.

  Theorem take_list_den :
    forall (x : coo V) (indices : list Z) (axis : Z) (k : nat),
      cwf V x -> np_norm_axis axis (ndim_of V x) = Some k ->
      Forall (fun i => - nth k (c_shape x) 0 <= i < nth k (c_shape x) 0) indices ->
      exists c, coo_take_list V x indices axis = Ok c
        /\ extract_result V c x (np_take_list k indices (darr_of_coo x)).
  Proof. exact (take_list_correct V). Qed.
End C09.

(* ------------------------------------------------------------ GCXS joiners (all members GCXS, ndim >= 2) *)
Section C09_gcxs.
  Variable V : Type.
  Variable veqb : V -> V -> bool.
  Hypothesis veqb_eq : forall a b, veqb a b = true <-> a = b.
  Variable vzero : V.
  Variable vadd : V -> V -> V.

  (* members (c_j, ca_j) stand for the GCXS arrays gcxs_from_coo c_j ca_j; `caxes` is the compressed_axes
     argument (None = (axis,)); gjoin_result: gcxs_wfb g, shape, fill, compressed axes and dense meaning *)
  Theorem gcxs_concat_den :
    forall (a : coo V) (ca_a : list Z) (r : list (coo V * list Z)) (axis : Z) (k : nat) (caxes : option (list Z)),
      let n := Z.of_nat (length (c_shape a)) in
      (2 <= length (c_shape a))%nat ->
      np_norm_axis axis (ndim_of V a) = Some k ->
      Forall (cwf V) (a :: map fst r) ->
      Forall (fun x => same_off k (c_shape a) (c_shape x)) (map fst r) ->
      Forall (fun x => c_fill x = c_fill a) (map fst r) ->
      Forall (fun p => caxes_okb n (snd p) = true) ((a, ca_a) :: r) ->
      caxes_okb n (final_axes caxes k) = true ->
      exists g,
        gcxs_concatenate_src V veqb vzero axis caxes
          (map (fun p => gcxs_from_coo (fst p) (snd p)) ((a, ca_a) :: r)) = Ok g
        /\ gjoin_result V g a (final_axes caxes k)
             (np_concatenate k (darr_of_coo a) (map darr_of_coo (map fst r))).
  Proof. exact (gcxs_concat_correct V veqb veqb_eq vzero). Qed.

  (* axis=None: the members are flattened and handed to the COO joiner *)
  Theorem gcxs_concat_none_den :
    forall (a : coo V) (ca_a : list Z) (r : list (coo V * list Z)),
      Forall (cwf V) (a :: map fst r) ->
      Forall (fun x => c_fill x = c_fill a) (map fst r) ->
      Forall (fun p => axes_ok (c_shape (fst p)) (snd p)) ((a, ca_a) :: r) ->
      exists c, gcxs_concatenate_none_src V veqb vzero vadd
                  (map (fun p => gcxs_from_coo (fst p) (snd p)) ((a, ca_a) :: r)) = Ok c
        /\ canonical V c
        /\ join_result V c a (np_concatenate_none (darr_of_coo a) (map darr_of_coo (map fst r))).
  Proof. exact (gcxs_concat_none_correct V veqb veqb_eq vzero vadd). Qed.

  (* stack: `arrays[i].reshape(shape with a 1 at axis).change_compressed_axes((axis,))` is modelled by its
     meaning (the member's COO with a 0 coordinate inserted, compressed along the new axis); the reshape
     kernel itself is compared by correspondence only *)
  Theorem gcxs_stack_den :
    forall (a : coo V) (ca_a : list Z) (r : list (coo V * list Z)) (axis : Z) (k : nat) (caxes : option (list Z)),
      let n := Z.of_nat (length (c_shape a)) in
      (2 <= length (c_shape a))%nat ->
      np_norm_axis axis (ndim_of V a + 1) = Some k ->
      Forall (cwf V) (a :: map fst r) ->
      Forall (fun x => c_shape x = c_shape a) (map fst r) ->
      Forall (fun x => c_fill x = c_fill a) (map fst r) ->
      Forall (fun p => caxes_okb n (snd p) = true) ((a, ca_a) :: r) ->
      caxes_okb (n + 1) (final_axes caxes k) = true ->
      exists g,
        gcxs_stack_src V veqb vzero vadd axis caxes
          (map (fun p => gcxs_from_coo (fst p) (snd p)) ((a, ca_a) :: r)) = Ok g
        /\ gjoin_result V g a (final_axes caxes k)
             (np_stack k (darr_of_coo a) (map darr_of_coo (map fst r))).
  Proof. exact (gcxs_stack_correct V veqb veqb_eq vzero vadd). Qed.
End C09_gcxs.

(* ------------------------------------------------------------ GCXS joiners: the indptr splice *)
(* the suffix-add loop  `for i in 1..n-1: indptr[ptr_len:] += nnz_{i-1}; ptr_len += len(indptr_i) - 1`
   computes, for member j, its pointers shifted by the total nnz of the members before it *)
Theorem indptr_splice_spec :
  forall members : list (list Z * Z), splice members = splice_spec members.
Proof. exact indptr_splice_spec_proof. Qed.

(* ... and, when every member's pointer is valid (starts at 0, non-decreasing, ends at its nnz), so is
   the spliced one for the total nnz, with (total rows + 1) entries: the index-pointer conjuncts of
   GCXS.gcxs_wfb (JoinP.indptr_ok_wfb) are re-established *)
Theorem indptr_splice_wf :
  forall members : list (list Z * Z),
    members <> [] -> Forall (fun m => indptr_ok (fst m) (snd m)) members ->
    indptr_ok (splice members) (zsum (map snd members))
    /\ length (splice members) = S (fold_right (fun m s => (length (fst m) - 1 + s)%nat) 0%nat members).
Proof. exact indptr_splice_wf_proof. Qed.

(* the dtype rule of the GCXS joiners (`needed = max(total_nnz, indptr.shape[0] - 1)`, generated): the
   number the index pointer is widened for bounds all its entries and all row numbers, so neither can wrap *)
Theorem indptr_needed_bounds :
  forall members : list (list Z * Z),
    members <> [] -> Forall (fun m => indptr_ok (fst m) (snd m)) members ->
    exists needed,
      indptr_needed site_gcxs_concatenate_indptr_needed members = Ok needed
      /\ indptr_needed site_gcxs_stack_indptr_needed members = Ok needed
      /\ Forall (fun v => 0 <= v <= needed) (splice members)
      /\ Z.of_nat (length (splice members)) - 1 <= needed.
Proof. exact indptr_needed_bounds_proof. Qed.

Theorem diagonal_den_refuted :
  exists (x : coo Z) (offset axis1 axis2 : Z) (a1 a2 : nat),
    cwf Z x /\ np_norm_axis axis1 (ndim_of Z x) = Some a1 /\ np_norm_axis axis2 (ndim_of Z x) = Some a2 /\ a1 <> a2
    /\ diagonal_nonsquare (c_shape x) a1 a2 = false
    /\ ~ (exists c, coo_diagonal_src Z Z.eqb 0 Z.add x offset axis1 axis2 = Ok c
                    /\ c_shape c = da_shape (np_diagonal offset a1 a2 (darr_of_coo x))).
Proof. exact diagonal_den_refuted_proof. Qed.

(* GCXS stack's member preparation `arrays[i].reshape(shape with a 1 inserted at axis).change_compressed_axes((axis,))`
   is modelled in gcxs_stack by its meaning (gcxs_from_coo (gcxs_expand k g) [axis]).  Proofs/JoinReshapeP.v ties that
   shortcut to the transcribed kernels: C08's model of GCXS.reshape (ShapeOpsG.gcxs_reshape: _transpose/_convert_coords)
   followed by C05's change_compressed_axes returns exactly that record, for EVERY well-formed member of ndim >= 2
   (1-d members go through the COO joiner) — through C05's surjectivity theorem (every gcxs_strictb record is the
   compressed form of its tocoo()) and C08's representation theorem gcxs_reshape_repr. *)
Theorem coo_reshape_inserts_axis :
  forall (V : Type) (c : coo V) (k : nat),
    canonical V c ->
    shape_ok (c_shape c) ->
    (k <= length (c_shape c))%nat -> coo_reshape c (ins k 1 (c_shape c)) = Ok (coo_expand V k c).
Proof. exact coo_reshape_ins. Qed.

Theorem gcxs_stack_member_is_reshape :
  forall (V : Type) (veqb : V -> V -> bool) (add : V -> V -> V) (g : gcxs V) (k : nat),
    gcxs_strictb V g = true ->
    (2 <= length (g_shape g))%nat ->
    (k <= length (g_shape g))%nat ->
    exists r : gcxs V,
      gcxs_reshape veqb add g (ins k 1 (g_shape g)) = Some (Ok r) /\
      change_compressed_axes V (Z.of_nat k :: nil) r =
      gcxs_from_coo (gcxs_expand V veqb add k g) (Z.of_nat k :: nil).
Proof. exact gcxs_stack_member_is_reshape_proof. Qed.

Print Assumptions coo_concat_den.
Print Assumptions coo_concat_canonical.
Print Assumptions coo_concat_none_den.
Print Assumptions coo_stack_den.
Print Assumptions coo_stack_canonical.
Print Assumptions coo_join_mixed_fill_rejected.
Print Assumptions coo_concat_bad_axis_rejected.
Print Assumptions coo_join_shape_mismatch_rejected.
Print Assumptions triu_tril_den.
Print Assumptions triu_tril_nonzero_fill_rejected.
Print Assumptions diagonal_den_partial.
Print Assumptions diagonal_nonsquare_rejected.
Print Assumptions diagonal_same_axis_rejected.
Print Assumptions diagonalize_den.
Print Assumptions diagonalize_nonzero_fill_rejected.
Print Assumptions take_int_getitem_den.
Print Assumptions take_list_getitem_den.
Print Assumptions take_int_den.
Print Assumptions take_list_den.
Print Assumptions gcxs_concat_den.
Print Assumptions gcxs_concat_none_den.
Print Assumptions gcxs_stack_den.
Print Assumptions indptr_splice_spec.
Print Assumptions indptr_splice_wf.
Print Assumptions indptr_needed_bounds.
Print Assumptions diagonal_den_refuted.
Print Assumptions coo_reshape_inserts_axis.
Print Assumptions gcxs_stack_member_is_reshape.
