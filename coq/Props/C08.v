(* Props/C08.v — property-level statements for C08 (shape manipulation agrees with NumPy).  Only statements,
   each closed by [exact] of a lemma proved in Proofs/ShapeOpsP.v, with Print Assumptions beneath.

   Models: Model/ShapeOps.v (COO code paths, over the GENERATED fragments Gen/G_shapeops.v); Spec: Spec/NpShapeOps.v.
   Every statement quantifies over ALL shapes, axes, patterns and an arbitrary element type V.
   `canonical` = coordinates in range, strictly increasing lexicographically, one datum per coordinate.

   Every finding of this property except one was repaired in /repo (D7, D12, and in round 7: squeeze, flip, moveaxis,
   broadcast_to, pad, reshape with several -1, 0-d GCXS/DOK); the corresponding statements are now the positive, full
   ones (accepted exactly when NumPy accepts, same result, ValueError otherwise).  The single `_refuted` statement left
   is the documented restriction of sparse.roll (a tuple of shifts against one axis). *)
From Coq Require Import ZArith List Bool Sorting.Sorted.
From Verif Require Import Py Shape COO COOP GCXS Convert ConvertG ConvertU G_shapeops ShapeOps NpShapeOps ShapeOpsP ShapeOpsG ShapeOpsGP ShapeOpsGA.
Import ListNotations.
Open Scope Z_scope.

(* F3: the GENERATED integer branch of _utils.normalize_axis accepts exactly -ndim <= a < ndim and returns a mod ndim,
   else raises ValueError (np_normalize_axis). *)
Theorem normalize_axis_spec :
  forall nd a : Z, 0 <= nd -> norm_axis nd a = np_normalize_axis nd a.
Proof. exact normalize_axis_spec_proof. Qed.
Print Assumptions normalize_axis_spec.

(* transpose / permute_dims: shape, fill and every element are NumPy's (np_transpose on the dense meaning), for every
   accepted axes argument (None = reversed; negative axis numbers normalised). *)
Theorem transpose_den :
  forall (V : Type) (x : coo V),
    canonical V x ->
    forall (axes : option (list Z)) (r : coo V),
    coo_transpose x axes = Ok r ->
    let perm := tr_perm (ndim x) axes in
    tr_valid (ndim x) axes /\
    c_shape r = np_transpose_shape (c_shape x) perm /\
    c_fill r = c_fill x /\
    (forall ix : idx, in_range (c_shape r) ix -> den r ix = np_transpose perm (den x) ix).
Proof. exact transpose_den_proof. Qed.
Print Assumptions transpose_den.

(* ... and the result is canonical (in range, strictly sorted, no duplicates); pruned-ness is preserved. *)
Theorem transpose_canonical :
  forall (V : Type) (veqb : V -> V -> bool) (x : coo V),
    canonical V x ->
    forall (axes : option (list Z)) (r : coo V),
    coo_transpose x axes = Ok r -> canonical V r /\ (prunedb veqb x = true -> prunedb veqb r = true).
Proof. exact transpose_canonical_proof. Qed.
Print Assumptions transpose_canonical.

(* accepted exactly when the axes are in range and a permutation (as NumPy) ... *)
Theorem transpose_accepts_iff :
  forall (V : Type) (x : coo V) (axes : option (list Z)),
    (exists r : coo V, coo_transpose x axes = Ok r) <-> tr_valid (ndim x) axes.
Proof. exact transpose_accepts_iff_proof. Qed.
Print Assumptions transpose_accepts_iff.

(* ... and every rejection is a ValueError. *)
Theorem transpose_rejects :
  forall (V : Type) (x : coo V) (axes : option (list Z)) (e : exc),
    coo_transpose x axes = Raise e -> e = ValueError /\ ~ tr_valid (ndim x) axes.
Proof. exact transpose_rejects_proof. Qed.
Print Assumptions transpose_rejects.

(* x.T *)
Theorem T_den :
  forall (V : Type) (veqb : V -> V -> bool) (x : coo V),
    canonical V x ->
    exists r : coo V,
      coo_T x = Ok r /\
      (let perm := rev (zrange (Z.of_nat (length (c_shape x)))) in
       c_shape r = np_transpose_shape (c_shape x) perm /\
       c_fill r = c_fill x /\
       canonical V r /\
       (prunedb veqb x = true -> prunedb veqb r = true) /\
       (forall ix : idx, in_range (c_shape r) ix -> den r ix = np_transpose perm (den x) ix)).
Proof. exact T_den_proof. Qed.
Print Assumptions T_den.

(* x.mT / matrix_transpose: ValueError below 2-d, else the last two axes swapped. *)
Theorem mT_den :
  forall (V : Type) (veqb : V -> V -> bool) (x : coo V),
    canonical V x ->
    let n := length (c_shape x) in
    ((n < 2)%nat -> coo_mT x = Raise ValueError) /\
    ((2 <= n)%nat ->
     exists r : coo V,
       coo_mT x = Ok r /\
       (let perm := swap_perm (Z.of_nat n) (Z.of_nat n - 2) (Z.of_nat n - 1) in
        c_shape r = np_transpose_shape (c_shape x) perm /\
        c_fill r = c_fill x /\
        canonical V r /\
        (prunedb veqb x = true -> prunedb veqb r = true) /\
        (forall ix : idx, in_range (c_shape r) ix -> den r ix = np_transpose perm (den x) ix))).
Proof. exact mT_den_proof. Qed.
Print Assumptions mT_den.

(* swapaxes(a1, a2), negative axis numbers included. *)
Theorem swapaxes_den :
  forall (V : Type) (veqb : V -> V -> bool) (x : coo V),
    canonical V x ->
    forall (a1 a2 : Z) (r : coo V),
    coo_swapaxes x a1 a2 = Ok r ->
    let b1 := a1 mod Z.of_nat (length (c_shape x)) in
    let b2 := a2 mod Z.of_nat (length (c_shape x)) in
    let perm := swap_perm (Z.of_nat (length (c_shape x))) b1 b2 in
    axis_ok (Z.of_nat (length (c_shape x))) a1 /\
    axis_ok (Z.of_nat (length (c_shape x))) a2 /\
    c_shape r = np_transpose_shape (c_shape x) perm /\
    c_fill r = c_fill x /\
    canonical V r /\
    (prunedb veqb x = true -> prunedb veqb r = true) /\
    (forall ix : idx, in_range (c_shape r) ix -> den r ix = np_transpose perm (den x) ix).
Proof. exact swapaxes_den_proof. Qed.
Print Assumptions swapaxes_den.

(* moveaxis: the transposition by the axis order computed by NumPy's own insertion algorithm (moveaxis_order), which
   equals the declarative np_moveaxis_perm (moveaxis_order_spec_upto_5d); the destination axes are distinct. *)
Theorem moveaxis_den :
  forall (V : Type) (veqb : V -> V -> bool) (x : coo V),
    canonical V x ->
    forall (source destination : axarg) (r : coo V),
    coo_moveaxis x source destination = Ok r ->
    let src := map (fun a : Z => a mod Z.of_nat (length (c_shape x))) (ax_list source) in
    let dst := map (fun a : Z => a mod Z.of_nat (length (c_shape x))) (ax_list destination) in
    let perm := moveaxis_order (Z.of_nat (length (c_shape x))) src dst in
    Forall (axis_ok (Z.of_nat (length (c_shape x)))) (ax_list source) /\
    Forall (axis_ok (Z.of_nat (length (c_shape x)))) (ax_list destination) /\
    length src = length dst /\
    NoDup dst /\
    is_perm (Z.of_nat (length (c_shape x))) perm = true /\
    c_shape r = np_transpose_shape (c_shape x) perm /\
    c_fill r = c_fill x /\
    canonical V r /\
    (prunedb veqb x = true -> prunedb veqb r = true) /\
    (forall ix : idx, in_range (c_shape r) ix -> den r ix = np_transpose perm (den x) ix).
Proof. exact moveaxis_den_proof. Qed.
Print Assumptions moveaxis_den.

(* repeated destination axes are rejected as NumPy does (commit 1529999); every rejection is a ValueError. *)
Theorem moveaxis_rejects :
  forall (V : Type) (x : coo V) (source destination : axarg),
    (Forall (axis_ok (Z.of_nat (length (c_shape x)))) (ax_list destination) ->
     Forall (axis_ok (Z.of_nat (length (c_shape x)))) (ax_list source) ->
     ~ NoDup (map (fun a : Z => a mod Z.of_nat (length (c_shape x))) (ax_list destination)) ->
     coo_moveaxis x source destination = Raise ValueError) /\
    (forall e : exc, coo_moveaxis x source destination = Raise e -> e = ValueError).
Proof. exact moveaxis_rejects_proof. Qed.
Print Assumptions moveaxis_rejects.

(* F10 (GENERATED `-1` inference + size test): the target the code computes is NumPy's for EVERY requested shape, errors
   included (several -1 are rejected since commit dbf0c20; integer arithmetic since ac7b716: no size bound). *)
Theorem reshape_minus1_spec :
  forall (sh : shape) (new : list Z), shape_ok sh -> coo_reshape_shape sh new = np_reshape_target sh new.
Proof. exact reshape_minus1_spec_proof. Qed.
Print Assumptions reshape_minus1_spec.

(* the same for GCXS.reshape's own copy of the inference and size test. *)
Theorem gcxs_reshape_minus1_spec :
  forall (sh : shape) (new : list Z),
    shape_ok sh -> gcxs_reshape_shape sh new = np_reshape_target sh new.
Proof. exact gcxs_reshape_minus1_spec_proof. Qed.
Print Assumptions gcxs_reshape_minus1_spec.

(* reshape: same row-major sequence of elements (np_reshape = unravel o ravel), fill unchanged. *)
Theorem reshape_den :
  forall (V : Type) (x : coo V),
    canonical V x ->
    shape_ok (c_shape x) ->
    forall (new : list Z) (r : coo V),
    coo_reshape x new = Ok r ->
    shape_ok (c_shape r) /\
    size (c_shape r) = size (c_shape x) /\
    c_fill r = c_fill x /\
    np_reshape_target (c_shape x) new = Ok (c_shape r) /\
    (forall ix : idx, in_range (c_shape r) ix -> den r ix = np_reshape (c_shape x) (c_shape r) (den x) ix).
Proof. exact reshape_den_proof. Qed.
Print Assumptions reshape_den.

(* reshape passes sorted=True to the constructor: the recomputed coordinates ARE sorted (ravel/unravel are monotone). *)
Theorem reshape_canonical :
  forall (V : Type) (veqb : V -> V -> bool) (x : coo V),
    canonical V x ->
    shape_ok (c_shape x) ->
    forall (new : list Z) (r : coo V),
    coo_reshape x new = Ok r -> canonical V r /\ (prunedb veqb x = true -> prunedb veqb r = true).
Proof. exact reshape_canonical_proof. Qed.
Print Assumptions reshape_canonical.

(* every target NumPy accepts is accepted, with NumPy's result shape. *)
Theorem reshape_accepts :
  forall (V : Type) (x : coo V),
    canonical V x ->
    shape_ok (c_shape x) ->
    forall (new : list Z) (t : shape),
    np_reshape_target (c_shape x) new = Ok t ->
    exists r : coo V, coo_reshape x new = Ok r /\ c_shape r = t.
Proof. exact reshape_accepts_proof. Qed.
Print Assumptions reshape_accepts.

(* every target NumPy rejects raises ValueError (full statement since commit dbf0c20). *)
Theorem reshape_rejects :
  forall (V : Type) (x : coo V),
    canonical V x ->
    shape_ok (c_shape x) ->
    forall (new : list Z) (e : exc),
    np_reshape_target (c_shape x) new = Raise e -> coo_reshape x new = Raise ValueError.
Proof. exact reshape_rejects_proof. Qed.
Print Assumptions reshape_rejects.

(* flatten = reshape(-1). *)
Theorem flatten_den :
  forall (V : Type) (x : coo V),
    canonical V x ->
    shape_ok (c_shape x) ->
    forall r : coo V,
    coo_flatten x = Ok r ->
    c_shape r = [size (c_shape x)] /\
    c_fill r = c_fill x /\
    (forall i : Z, 0 <= i < size (c_shape x) -> den r [i] = den x (unravel (c_shape x) i)).
Proof. exact flatten_den_proof. Qed.
Print Assumptions flatten_den.

(* flip: result, canonical form and pruned-ness; axes None / int / tuple, negative numbers. *)
Theorem flip_den :
  forall (V : Type) (veqb : V -> V -> bool) (x : coo V),
    canonical V x ->
    forall (axis : axarg) (r : coo V),
    coo_flip x axis = Ok r ->
    let ax := map (fun a : Z => a mod Z.of_nat (length (c_shape x))) (flip_axes V x axis) in
    Forall (axis_ok (Z.of_nat (length (c_shape x)))) (flip_axes V x axis) /\
    NoDup ax /\
    c_shape r = c_shape x /\
    c_fill r = c_fill x /\
    canonical V r /\
    (prunedb veqb x = true -> prunedb veqb r = true) /\
    (forall ix : idx, in_range (c_shape x) ix -> den r ix = np_flip (c_shape x) ax (den x) ix).
Proof. exact flip_den_proof. Qed.
Print Assumptions flip_den.

(* flip is accepted exactly when NumPy accepts: every axis in range and, once normalised, distinct (commit 7be2e09);
   every rejection is a ValueError. *)
Theorem flip_accepts_iff :
  forall (V : Type) (x : coo V) (axis : axarg),
    ((exists r : coo V, coo_flip x axis = Ok r) <->
     Forall (axis_ok (Z.of_nat (length (c_shape x)))) (flip_axes V x axis) /\
     NoDup (map (fun a : Z => a mod Z.of_nat (length (c_shape x))) (flip_axes V x axis))) /\
    (forall e : exc, coo_flip x axis = Raise e -> e = ValueError).
Proof. exact flip_accepts_iff_proof. Qed.
Print Assumptions flip_accepts_iff.

(* roll along axes: any shift (negative, larger than the extent), scalar shift broadcast over the axes, repeated axes
   accumulate.  Full statement since the repair of D7 (the guard is per axis and always passes on intp). *)
Theorem roll_axes_den :
  forall (V : Type) (veqb : V -> V -> bool) (x : coo V),
    canonical V x ->
    forall (shift : shiftarg) (axis : list Z) (r : coo V),
    coo_roll_axes x shift axis = Ok r ->
    let ax := map (fun a : Z => a mod Z.of_nat (length (c_shape x))) axis in
    let shifts := roll_shifts shift (length axis) in
    Forall (axis_ok (Z.of_nat (length (c_shape x)))) axis /\
    length shifts = length axis /\
    c_shape r = c_shape x /\
    c_fill r = c_fill x /\
    canonical V r /\
    (prunedb veqb x = true -> prunedb veqb r = true) /\
    (forall ix : idx,
     in_range (c_shape x) ix -> den r ix = np_roll (c_shape x) (combine shifts ax) (den x) ix).
Proof. exact roll_axes_den_proof. Qed.
Print Assumptions roll_axes_den.

(* roll is accepted exactly when the axes are in range and (one shift, or as many shifts as axes).  NumPy also
   broadcasts several shifts against ONE axis: roll_tuple_shift_single_axis_refuted (the one open, documented finding). *)
Theorem roll_axes_accepts_iff :
  forall (V : Type) (x : coo V) (shift : shiftarg) (axis : list Z),
    (exists r : coo V, coo_roll_axes x shift axis = Ok r) <->
    Forall (axis_ok (Z.of_nat (length (c_shape x)))) axis /\
    length (roll_shifts shift (length axis)) = length axis.
Proof. exact roll_axes_accepts_iff_proof. Qed.
Print Assumptions roll_axes_accepts_iff.

(* finding: roll(x, (1, 2), axis=0) raises ValueError; NumPy rolls by 3. *)
Theorem roll_tuple_shift_single_axis_refuted :
  exists x : coo Z, canonical Z x /\ coo_roll_axes x (ShTup [1; 2]) [0] = Raise ValueError.
Proof. exact roll_tuple_shift_single_axis_refuted_proof. Qed.
Print Assumptions roll_tuple_shift_single_axis_refuted.

(* roll without axis: flatten, roll, restore the shape (as the code composes reshape/roll/reshape). *)
Theorem roll_flat_den :
  forall (V : Type) (veqb : V -> V -> bool) (x : coo V),
    canonical V x ->
    shape_ok (c_shape x) ->
    forall (s : Z) (r : coo V),
    coo_roll x (ShInt s) AxNone = Ok r ->
    c_shape r = c_shape x /\
    c_fill r = c_fill x /\
    canonical V r /\
    (prunedb veqb x = true -> prunedb veqb r = true) /\
    (forall ix : idx, in_range (c_shape x) ix -> den r ix = np_roll_flat (c_shape x) s (den x) ix).
Proof. exact roll_flat_den_proof. Qed.
Print Assumptions roll_flat_den.

(* expand_dims *)
Theorem expand_dims_den :
  forall (V : Type) (veqb : V -> V -> bool) (x : coo V),
    canonical V x ->
    forall (axis : Z) (r : coo V),
    coo_expand_dims x axis = Ok r ->
    let a := axis mod (Z.of_nat (length (c_shape x)) + 1) in
    axis_ok (Z.of_nat (length (c_shape x)) + 1) axis /\
    c_shape r = np_expand_dims_shape (c_shape x) a /\
    c_fill r = c_fill x /\
    canonical V r /\
    (prunedb veqb x = true -> prunedb veqb r = true) /\
    (forall ix : idx, in_range (c_shape r) ix -> den r ix = np_expand_dims a (den x) ix).
Proof. exact expand_dims_den_proof. Qed.
Print Assumptions expand_dims_den.

(* accepted exactly for -(ndim+1) <= axis <= ndim. *)
Theorem expand_dims_accepts_iff :
  forall (V : Type) (x : coo V) (axis : Z),
    (exists r : coo V, coo_expand_dims x axis = Ok r) <-> axis_ok (Z.of_nat (length (c_shape x)) + 1) axis.
Proof. exact expand_dims_accepts_iff_proof. Qed.
Print Assumptions expand_dims_accepts_iff.

(* squeeze (None / int / tuple, negative axis numbers counted from the end since commit 71cae31): passes sorted=True —
   dropping length-1 axes keeps the order (proved). *)
Theorem squeeze_den :
  forall (V : Type) (veqb : V -> V -> bool) (x : coo V),
    canonical V x ->
    forall (axis : axarg) (r : coo V),
    coo_squeeze x axis = Ok r ->
    let ax := squeeze_axes V x axis in
    NoDup ax /\
    Forall (fun d : Z => In d (squeezable V x)) ax /\
    c_shape r = np_squeeze_shape (c_shape x) ax /\
    c_fill r = c_fill x /\
    canonical V r /\
    (prunedb veqb x = true -> prunedb veqb r = true) /\
    (forall ix : idx, in_range (c_shape r) ix -> den r ix = np_squeeze (c_shape x) ax (den x) ix).
Proof. exact squeeze_den_proof. Qed.
Print Assumptions squeeze_den.

(* squeeze is accepted exactly when the normalised axes are distinct axes of length 1, as NumPy (commit 71cae31). *)
Theorem squeeze_accepts_iff :
  forall (V : Type) (x : coo V) (axis : axarg),
    (exists r : coo V, coo_squeeze x axis = Ok r) <->
    NoDup (squeeze_axes V x axis) /\ Forall (fun d : Z => In d (squeezable V x)) (squeeze_axes V x axis).
Proof. exact squeeze_accepts_iff_proof. Qed.
Print Assumptions squeeze_accepts_iff.

(* constant pad with non-negative widths (scalar / pair / per-axis pairs, as np.broadcast_to(pad_width, (ndim, 2))),
   constant_values equal to the fill value; the coordinate and extent expressions are GENERATED (Gen/S_shapeops.v). *)
Theorem pad_den :
  forall (V : Type) (veqb : V -> V -> bool),
    (forall a b : V, veqb a b = true <-> a = b) ->
    forall x : coo V,
    canonical V x ->
    shape_ok (c_shape x) ->
    forall (pw : padw) (cv : V) (prs : list (Z * Z)),
    veqb cv (c_fill x) = true ->
    padw_neg pw = false ->
    pad_pairs (length (c_shape x)) pw = Ok prs ->
    exists r : coo V,
      coo_pad veqb x pw cv = Ok r /\
      c_shape r = np_pad_shape (c_shape x) prs /\
      c_fill r = c_fill x /\
      canonical V r /\
      (prunedb veqb x = true -> prunedb veqb r = true) /\
      (forall ix : idx, in_range (c_shape r) ix -> den r ix = np_pad (c_shape x) prs cv (den x) ix).
Proof. exact pad_den_proof. Qed.
Print Assumptions pad_den.

(* a constant different from the fill value, a negative width (as NumPy, commit d798d44) or a pad_width that does not
   broadcast is rejected. *)
Theorem pad_rejects :
  forall (V : Type) (veqb : V -> V -> bool) (x : coo V) (pw : padw) (cv : V),
    (veqb cv (c_fill x) = false -> coo_pad veqb x pw cv = Raise ValueError) /\
    (veqb cv (c_fill x) = true -> padw_neg pw = true -> coo_pad veqb x pw cv = Raise ValueError) /\
    (forall e : exc,
     veqb cv (c_fill x) = true ->
     padw_neg pw = false -> pad_pairs (length (c_shape x)) pw = Raise e -> coo_pad veqb x pw cv = Raise e).
Proof. exact pad_rejects_proof. Qed.
Print Assumptions pad_rejects.

(* broadcast_to (and each output of broadcast_arrays): for every target NumPy accepts — new leading axes, length-1 axes
   stretched, length-0 extents — result, canonical form (sorted flag included) and pruned-ness. *)
Theorem broadcast_to_den :
  forall (V : Type) (veqb : V -> V -> bool) (x : coo V),
    canonical V x ->
    forall target : shape,
    np_broadcast_ok (c_shape x) target = true ->
    exists r : coo V,
      coo_broadcast_to x target = Ok r /\
      c_shape r = target /\
      c_fill r = c_fill x /\
      canonical V r /\
      (prunedb veqb x = true -> prunedb veqb r = true) /\
      (forall ix : idx, in_range target ix -> den r ix = np_broadcast_to (c_shape x) target (den x) ix).
Proof. exact broadcast_to_den_proof. Qed.
Print Assumptions broadcast_to_den.

(* the `sorted=` promise of broadcast_to ("all the non-broadcast axes are next to each other") is sound: the
   expanded coordinates are then already in lexicographic order. *)
Theorem broadcast_to_sorted_rule_sound :
  forall (V : Type) (x : coo V),
    canonical V x ->
    forall (params : list (option bool)) (bs : shape),
    aligned params (c_shape x) bs ->
    adjacent (true_positions params 0) = true ->
    StronglySorted lex_lt (map fst (expand_entries params bs (entries x))).
Proof. exact broadcast_to_sorted_rule_sound_proof. Qed.
Print Assumptions broadcast_to_sorted_rule_sound.

(* every target NumPy rejects raises ValueError (fewer axes than the input included, commit 7dd4784). *)
Theorem broadcast_to_rejects :
  forall (V : Type) (x : coo V) (target : shape),
    shape_ok (c_shape x) ->
    np_broadcast_ok (c_shape x) target = false -> coo_broadcast_to x target = Raise ValueError.
Proof. exact broadcast_to_rejects_proof. Qed.
Print Assumptions broadcast_to_rejects.

(* ------------------------------------------------------------------------------------------------------------
   GCXS (Model/ShapeOpsG.v over the generated call-site functions Gen/S_shapeops.v).  A GCXS array is taken in the
   form property C05 establishes for every array the library builds: g = _from_coo c ca for a canonical COO array c
   (C05: gcxs_from_coo_wf / gcxs_from_coo_den).  `axes_ok sh ca`: fewer than 2 axes, or ca is a valid choice of
   compressed axes.  The representation theorems say that GCXS.transpose / reshape return EXACTLY (data, indices,
   indptr, compressed axes) the compressed form of what COO.transpose / reshape return, and raise when they raise.  `veqb`/`add` only parameterise C05's model of GCXS.tocoo. *)


(* GCXS.transpose: identity (return self), _2d_transpose (2-d: the same three arrays reinterpreted), and the n-d
   path through _transpose/_convert_coords(transpose=True) with compressed_axes=(argmin(shape),) *)
Theorem gcxs_transpose_repr :
  forall (V : Type) (c : coo V) (ca : list Z) (axes : option (list Z)),
    canonical V c ->
    shape_ok (c_shape c) ->
    axes_ok (c_shape c) ca ->
    (forall c' : coo V,
     coo_transpose c axes = Ok c' ->
     exists ca' : list Z,
       gcxs_transpose (gcxs_from_coo c ca) axes = Ok (gcxs_from_coo c' ca') /\ axes_ok (c_shape c') ca') /\
    (forall e : exc, coo_transpose c axes = Raise e -> gcxs_transpose (gcxs_from_coo c ca) axes = Raise e).
Proof. exact gcxs_transpose_repr_proof. Qed.
Print Assumptions gcxs_transpose_repr.

(* ... hence well-formed (gcxs_wfb) with NumPy's dense meaning *)
Theorem gcxs_transpose_den :
  forall V : Type,
    (V -> V -> bool) ->
    (V -> V -> V) ->
    forall (c : coo V) (ca : list Z) (axes : option (list Z)) (r : gcxs V),
    canonical V c ->
    shape_ok (c_shape c) ->
    axes_ok (c_shape c) ca ->
    gcxs_transpose (gcxs_from_coo c ca) axes = Ok r ->
    let perm := tr_perm (ndim c) axes in
    tr_valid (ndim c) axes /\
    gcxs_wfb r = true /\
    g_shape r = np_transpose_shape (c_shape c) perm /\
    g_fill r = c_fill c /\
    (forall ix : idx,
     in_range (g_shape r) ix -> gden r ix = np_transpose perm (gden (gcxs_from_coo c ca)) ix).
Proof. exact gcxs_transpose_den_proof. Qed.
Print Assumptions gcxs_transpose_den.

(* GCXS.reshape / flatten: return self; n-d -> n-d through _transpose/_convert_coords(transpose=False); n-d -> 1-d
   through _c_ordering; 1-d -> n-d through _1d_reshape/_linearize; 0-d source or target through COO (commits 19766c5,
   ad29c3b); compressed axes kept when ndim is kept, else (argmin(shape),) *)
Theorem gcxs_reshape_repr :
  forall (V : Type) (veqb : V -> V -> bool) (add : V -> V -> V) (c : coo V) (ca new : list Z),
    canonical V c ->
    shape_ok (c_shape c) ->
    axes_ok (c_shape c) ca ->
    (forall c' : coo V,
     coo_reshape c new = Ok c' ->
     exists ca' : list Z,
       gcxs_reshape veqb add (gcxs_from_coo c ca) new = Some (Ok (gcxs_from_coo c' ca')) /\
       axes_ok (c_shape c') ca') /\
    (forall e : exc,
     coo_reshape c new = Raise e -> gcxs_reshape veqb add (gcxs_from_coo c ca) new = Some (Raise e)).
Proof. exact gcxs_reshape_repr_proof. Qed.
Print Assumptions gcxs_reshape_repr.

(* ... hence well-formed with NumPy's dense meaning, for every source and target (0-d included). *)
Theorem gcxs_reshape_den :
  forall (V : Type) (veqb : V -> V -> bool) (add : V -> V -> V) (c : coo V) 
      (ca new : list Z) (r : gcxs V),
    canonical V c ->
    shape_ok (c_shape c) ->
    axes_ok (c_shape c) ca ->
    gcxs_reshape veqb add (gcxs_from_coo c ca) new = Some (Ok r) ->
    gcxs_wfb r = true /\
    size (g_shape r) = size (c_shape c) /\
    g_fill r = c_fill c /\
    np_reshape_target (c_shape c) new = Ok (g_shape r) /\
    (forall ix : idx,
     in_range (g_shape r) ix ->
     gden r ix = np_reshape (c_shape c) (g_shape r) (gden (gcxs_from_coo c ca)) ix).
Proof. exact gcxs_reshape_den_proof. Qed.
Print Assumptions gcxs_reshape_den.

(* GCXS.squeeze / GCXS.broadcast_to (commit f52a14b) and the 0-d reshape detour: x.tocoo().<COO function>().asformat("gcxs") is
   the COO function applied to c, recompressed (so squeeze_den / broadcast_to_den carry over through C05's gcxs_from_coo_den). *)
Theorem gcxs_via_coo_repr :
  forall (V : Type) (veqb : V -> V -> bool) (add : V -> V -> V) (c : coo V) 
      (ca : list Z) (f : coo V -> res (coo V)),
    canonical V c ->
    shape_ok (c_shape c) ->
    axes_ok (c_shape c) ca ->
    via_coo veqb add (gcxs_from_coo c ca) f =
    match f c with
    | Ok c' => Ok (gcxs_from_coo c' (default_caxes (c_shape c')))
    | Raise e => Raise e
    end.
Proof. exact gcxs_via_coo_repr_proof. Qed.
Print Assumptions gcxs_via_coo_repr.

(* ------------------------------------------------------------------------------------------------------------
   The same for EVERY well-formed GCXS record, however it was built (Proofs/ShapeOpsGA.v).  C05's surjectivity theorem
   (from_coo_tocoo / Proofs/ConvertU.gcxs_image) shows that a record accepted by gcxs_strictb — gcxs_wfb, and for
   ndim < 2 the unused compressed_axes / indptr fields empty, as GCXS.__init__ keeps them — is the compressed form of
   its own tocoo(), which is canonical; so the hypothesis "g = _from_coo c ca" of the theorems above is discharged and
   the statements speak about g alone. *)

Theorem gcxs_transpose_den_any :
  forall V : Type,
    (V -> V -> bool) ->
    (V -> V -> V) ->
    forall (g : gcxs V) (axes : option (list Z)) (r : gcxs V),
    gcxs_strictb V g = true ->
    gcxs_transpose g axes = Ok r ->
    let n := zlen (g_shape g) in
    let perm := tr_perm n axes in
    tr_valid n axes /\
    gcxs_wfb r = true /\
    g_shape r = np_transpose_shape (g_shape g) perm /\
    g_fill r = g_fill g /\
    (forall ix : idx, in_range (g_shape r) ix -> gden r ix = np_transpose perm (gden g) ix).
Proof. exact gcxs_transpose_den_any_proof. Qed.
Print Assumptions gcxs_transpose_den_any.

Theorem gcxs_transpose_raises_any :
  forall (V : Type) (veqb : V -> V -> bool) (add : V -> V -> V) (g : gcxs V) (axes : option (list Z)) (e : exc),
    gcxs_strictb V g = true ->
    coo_transpose (gcxs_tocoo veqb add g) axes = Raise e -> gcxs_transpose g axes = Raise e.
Proof. exact gcxs_transpose_raises_any_proof. Qed.
Print Assumptions gcxs_transpose_raises_any.

Theorem gcxs_reshape_den_any :
  forall (V : Type) (veqb : V -> V -> bool) (add : V -> V -> V) (g : gcxs V) (new : list Z) (r : gcxs V),
    gcxs_strictb V g = true ->
    gcxs_reshape veqb add g new = Some (Ok r) ->
    gcxs_wfb r = true /\
    size (g_shape r) = size (g_shape g) /\
    g_fill r = g_fill g /\
    np_reshape_target (g_shape g) new = Ok (g_shape r) /\
    (forall ix : idx, in_range (g_shape r) ix -> gden r ix = np_reshape (g_shape g) (g_shape r) (gden g) ix).
Proof. exact gcxs_reshape_den_any_proof. Qed.
Print Assumptions gcxs_reshape_den_any.

Theorem gcxs_reshape_raises_any :
  forall (V : Type) (veqb : V -> V -> bool) (add : V -> V -> V) (g : gcxs V) (new : list Z) (e : exc),
    gcxs_strictb V g = true ->
    coo_reshape (gcxs_tocoo veqb add g) new = Raise e -> gcxs_reshape veqb add g new = Some (Raise e).
Proof. exact gcxs_reshape_raises_any_proof. Qed.
Print Assumptions gcxs_reshape_raises_any.

Theorem gcxs_via_coo_any :
  forall (V : Type) (veqb : V -> V -> bool) (add : V -> V -> V) (g : gcxs V) (f : coo V -> res (coo V)),
    gcxs_strictb V g = true ->
    via_coo veqb add g f =
    match f (gcxs_tocoo veqb add g) with
    | Ok c' => Ok (gcxs_from_coo c' (default_caxes (c_shape c')))
    | Raise e => Raise e
    end.
Proof. exact gcxs_via_coo_any_proof. Qed.
Print Assumptions gcxs_via_coo_any.

(* broadcast_arrays: np.broadcast_shapes of the operands' shapes is a target every operand broadcasts to, so each
   output is covered by broadcast_to_den *)
Theorem broadcast_arrays_link :
  forall (shapes : list shape) (t : shape),
    Forall shape_ok shapes ->
    np_broadcast_shapes shapes = Some t -> Forall (fun s : shape => np_broadcast_ok s t = true) shapes.
Proof. exact broadcast_arrays_link_proof. Qed.
Print Assumptions broadcast_arrays_link.

(* moveaxis: NumPy's insertion algorithm (moveaxis_order, which moveaxis_den is stated about) computes the declarative
   permutation np_moveaxis_perm — for every array of at most 5 axes, the scope of the property (the bound is in the
   statement: the proof evaluates all 32,827 (source, destination) pairs) *)
Theorem moveaxis_order_spec_upto_5d :
  forall (nd : Z) (src dst : list Z),
    0 <= nd <= 5 ->
    NoDup src ->
    NoDup dst ->
    length src = length dst ->
    (forall a : Z, In a src -> 0 <= a < nd) ->
    (forall a : Z, In a dst -> 0 <= a < nd) -> moveaxis_order nd src dst = np_moveaxis_perm nd src dst.
Proof. exact moveaxis_order_spec_upto_5d_proof. Qed.
Print Assumptions moveaxis_order_spec_upto_5d.
