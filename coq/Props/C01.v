(* Props/C01.v — property-level statements for C01 (element-wise operations and broadcasting).
   Only statements, each closed by [exact] of a lemma proved in Proofs/ElemwiseP.v, with
   Print Assumptions beneath. *)
From Coq Require Import ZArith List Bool Sorting.Sorted.
From Verif Require Import Py Shape COO COOP NpElemwise Elemwise ElemwiseP.
Import ListNotations.
Open Scope Z_scope.

(* (1) the broadcast rule generated from _get_broadcast_shape, folded n-ary as
   _get_nary_broadcast_shape does, IS NumPy's rule: it returns r exactly when r is the NumPy broadcast
   of the shapes, and raises ValueError (never anything else) exactly when no broadcast exists. *)
Theorem broadcast_shape_spec (shapes : list shape) :
  (forall r, nary_broadcast_shape shapes = Ok r <-> np_broadcast_rel shapes r) /\
  (nary_broadcast_shape shapes = Raise ValueError <-> ~ exists r, np_broadcast_rel shapes r) /\
  (forall e, nary_broadcast_shape shapes = Raise e -> e = ValueError).
Proof. exact (broadcast_shape_spec_proof shapes). Qed.
Print Assumptions broadcast_shape_spec.

(* (2) the two-pointer merge of _match_arrays: for sorted inputs the output is exactly the list of all
   index pairs (i, j) with a[i] = b[j], in lexicographic order (repeated keys included). *)
Theorem match_arrays_spec (a b : list Z) :
  StronglySorted Z.le a -> StronglySorted Z.le b ->
  match_arrays a b =
  filter (fun ij => nthZ a (fst ij) =? nthZ b (snd ij)) (list_prod (seq 0 (length a)) (seq 0 (length b))).
Proof. exact (match_arrays_spec_proof a b). Qed.
Print Assumptions match_arrays_spec.
