(* Props/C01.v — property-level statements for C01 (element-wise operations and broadcasting).
   Only statements, each closed by [exact] of a lemma proved in Proofs/Elemwise*.v, with
   Print Assumptions beneath.

   Reading guide.  Model/Elemwise.v transcribes sparse/numba_backend/_umath.py; the broadcast rule inside
   it is the Gallina text regenerated from /repo on every run (Gen/G_umath.v, Gen/S_umath.v).
   Spec/NpElemwise.v is NumPy's meaning: [np_broadcast_rel shapes r] (r is the broadcast of the shapes),
   [bcast_idx s q] (the index at which an operand of shape s is read for result index q).
   [F V vzero f args q] = f applied to the operands' values at q = numpy's f(densified operands)[q]. *)
From Coq Require Import ZArith List Bool Sorting.Sorted.
From Verif Require Import Py Shape COO COOP NpElemwise S_umath Elemwise ElemwiseP ElemwiseBcastP ElemwiseGenP.
From Verif Require Import Alias Convert ConvertP ElemwiseApi ElemwiseApiP.
Import ListNotations.
Open Scope Z_scope.

(* (1) the broadcast rule generated from _get_broadcast_shape, folded n-ary as
   _get_nary_broadcast_shape does, IS NumPy's rule: it returns r exactly when r is the NumPy broadcast
   of the shapes, and raises ValueError (never anything else) exactly when no broadcast exists. *)
Theorem broadcast_shape_spec (shapes : list shape) :
  (forall r, nary_broadcast_shape shapes = Ok r <-> np_broadcast_rel shapes r) /\
  (nary_broadcast_shape shapes = Raise ValueError <-> ~ exists r, np_broadcast_rel shapes r) /\
  (forall e, nary_broadcast_shape shapes = Raise e -> e = ValueError).
Proof. exact (broadcast_shape_spec_proof shapes). Qed.
Print Assumptions broadcast_shape_spec.

(* (2) the two-pointer merge of _match_arrays: for sorted inputs the output is exactly the list of all
   index pairs (i, j) with a[i] = b[j], in lexicographic order (repeated keys included). *)
Theorem match_arrays_spec (a b : list Z) :
  StronglySorted Z.le a -> StronglySorted Z.le b ->
  match_arrays a b =
  filter (fun ij => nthZ a (fst ij) =? nthZ b (snd ij)) (list_prod (seq 0 (length a)) (seq 0 (length b))).
Proof. exact (match_arrays_spec_proof a b). Qed.
Print Assumptions match_arrays_spec.

(* (3) same-shape binary case, written out through the three masks (both / only a / only b):
   shape, fill = f(fills), canonical, pruned, and every element = f of the operands' elements. *)
Theorem elemwise2_den (V : Type) (veqb : V -> V -> bool) (vzero : V) (f : list V -> V) :
  (forall x y, veqb x y = true <-> x = y) ->
  forall a b : coo V, canonical V a -> canonical V b -> c_shape a = c_shape b ->
  let r := elemwise2 V veqb vzero f a b in
  c_shape r = c_shape a /\ c_fill r = f [c_fill a; c_fill b] /\ canonical V r /\ prunedb veqb r = true /\
  forall ix, in_range (c_shape a) ix -> den r ix = f [den a ix; den b ix].
Proof. exact (elemwise2_den_proof V veqb vzero f). Qed.
Print Assumptions elemwise2_den.

(* the mask enumeration partitions the stored positions: the piece computed for mask m holds exactly
   the positions q of the result shape whose set of storing operands IS m (mask_of args q), with
   NumPy's value there, unless that value equals the result's fill value; and holds each once.  Hence
   the concatenation of the pieces has no duplicates (the promise has_duplicates=False). *)
Theorem mask_partition (V : Type) (veqb : V -> V -> bool) (vzero : V) (f : list V -> V)
        (srt : list Z -> list nat) (srt_ok : is_argsort srt)
        (args : list (operand V)) (sh : shape) (fill : V) :
  Forall (op_ok V) args -> np_broadcast_rel (map (op_shape V) args) sh -> shape_ok sh ->
  forall m, In m (masks V args) -> existsb is_true m = true ->
  exists o, func_coords_data V veqb vzero f srt args sh fill m = Ok o /\
    NoDup (map fst (piece_of V o)) /\
    forall q v, In (q, v) (piece_of V o) <->
      (in_range sh q /\ m = mask_of V args q /\ v = F V vzero f args q /\ veqb v fill = false).
Proof. exact (mask_partition_proof V veqb vzero f srt srt_ok args sh fill). Qed.
Print Assumptions mask_partition.

(* (4) the general case: any number of operands, each a canonical COO array of any shape (0-d
   included), a scalar / 0-d array or an ndarray, mutually broadcastable or not.  [elemwise_post] says,
   for what get_result returns:
   - OutSparse r: the shapes have the NumPy broadcast sh, func(fill values, ndarrays) is a constant
     array, and r has shape sh, fill value = that constant (= f(fill values) when the dense operands are
     scalars), is canonical and pruned, and  den r q = f(operands' values at q)  at EVERY index q of sh;
   - OutDense d: func(fills, ndarrays) is not constant, the ndarrays already have the full shape, and d
     is exactly NumPy's dense result;
   - OutErr e: e = ValueError, and either the shapes are not broadcastable or func(fills, ndarrays) is not
     constant while the ndarrays do not have the full shape.  (dense_mix_rule) *)
Theorem elemwise_den (V : Type) (veqb : V -> V -> bool) (vzero : V) (f : list V -> V)
        (scal : nat -> bool) (srt : list Z -> list nat) :
  is_argsort srt -> (forall x y, veqb x y = true <-> x = y) ->
  forall args : list (operand V),
  Forall (op_ok V) args -> existsb (is_sparse V) args = true ->
  elemwise_post V veqb vzero f args (elemwise_sc V veqb vzero f scal srt args).
Proof. intros Hs. exact (elemwise_sc_den_proof V veqb vzero scal srt Hs f). Qed.
Print Assumptions elemwise_den.

(* (5) programs: for every expression tree over canonical sparse arrays and scalars (unary, binary,
   ternary nodes, each with its own function) that NumPy can evaluate on the densified leaves
   ([dense_eval e sh d]: shape sh, value function d), the step-by-step sparse evaluation succeeds and
   yields a value of shape sh, canonical, whose dense meaning is d everywhere. *)
Theorem programs_den (V : Type) (veqb : V -> V -> bool) (vzero : V) (srt : list Z -> list nat) :
  is_argsort srt -> (forall x y, veqb x y = true <-> x = y) ->
  forall e : expr V, wf_expr V e -> forall sh d, dense_eval V e sh d ->
  exists a, eval V veqb vzero srt e = Some a /\ op_shape V a = sh /\ val_ok V a /\
            forall q, in_range sh q -> operand_at V vzero a q = d q.
Proof. intros Hs. exact (programs_proof V veqb vzero srt Hs). Qed.
Print Assumptions programs_den.

(* (6) objects: SparseArray.astype (early-return condition regenerated from the source) returns the
   operand ITSELF exactly when the dtype is unchanged and copy=False — NumPy's rule — and therefore a
   fresh object whenever copy is true (also by default), so in-place updates of the result cannot reach
   the operand in a multi-step program. *)
Theorem astype_object_spec (self fresh : nat) (same_dtype copy : bool) :
  astype_object self fresh same_dtype copy = if same_dtype && negb copy then self else fresh.
Proof. exact (astype_object_spec_proof self fresh same_dtype copy). Qed.
Print Assumptions astype_object_spec.

Theorem astype_copy_fresh (self fresh : nat) (same_dtype : bool) :
  fresh <> self -> astype_object self fresh same_dtype s_astype_copy_default <> self /\
                   astype_object self fresh same_dtype true <> self.
Proof. exact (astype_copy_fresh_proof self fresh same_dtype). Qed.
Print Assumptions astype_copy_fresh.

(* (7) np.argsort inside _match_coo is called without kind= (unstable): the order of equal keys is
   unspecified.  [is_argsort srt]: srt returns, for every key list, SOME permutation of the positions that
   sorts the keys.  Every theorem above is stated for an arbitrary such srt; and the result does not depend
   on the choice at all (the stable [argsort] used by the correspondence is one instance). *)
Theorem argsort_irrelevant (V : Type) (veqb : V -> V -> bool) (vzero : V) (f : list V -> V) (scal : nat -> bool)
        (s1 s2 : list Z -> list nat) (args : list (operand V)) :
  (forall x y, veqb x y = true <-> x = y) ->
  is_argsort s1 -> is_argsort s2 -> Forall (op_ok V) args ->
  elemwise_sc V veqb vzero f scal s1 args = elemwise_sc V veqb vzero f scal s2 args.
Proof. intros He. exact (elemwise_sort_irrelevant_proof V veqb vzero scal f He s1 s2 args). Qed.
Print Assumptions argsort_irrelevant.

Theorem stable_argsort_is_argsort : is_argsort argsort.
Proof. exact argsort_is_argsort. Qed.
Print Assumptions stable_argsort_is_argsort.

(* (8) the written-out same-shape binary model of theorem (3) IS the general model on [a; b]
   (operands with at least one axis; 0-d sparse operands are densified first by the general code). *)
Theorem elemwise2_is_elemwise (V : Type) (veqb : V -> V -> bool) (vzero : V) (f : list V -> V) (scal : nat -> bool)
        (srt : list Z -> list nat) (a b : coo V) :
  (forall x y, veqb x y = true <-> x = y) ->
  is_argsort srt -> canonical V a -> canonical V b -> shape_ok (c_shape a) ->
  c_shape a = c_shape b -> c_shape a <> [] ->
  elemwise_sc V veqb vzero f scal srt [OSp a; OSp b] = OutSparse (elemwise2 V veqb vzero f a b).
Proof. intros He. exact (elemwise2_is_elemwise_proof V veqb vzero scal f He srt a b). Qed.
Print Assumptions elemwise2_is_elemwise.

(* (9) operands in any sparse format and the final asformat(out_type): every sparse operand is ANY
   representation (COO, GCXS with any valid compressed axes, DOK) reachable by conversions from a
   canonical COO array (C05's chain invariant [inv]; 0-d DOKs included since round 7);
   the output format is chosen by the chain regenerated from _Elemwise.__init__ (Gen/S_umath.v) and the
   result converted by C05's [convert].  Under the domain clause of that conversion ([api_hop_ok]:
   asformat accepts the hop for the result's shape) the returned array, in its
   final format, is well-formed, has the broadcast shape, and its dense meaning is f of the operands' dense
   meanings at every index; dense results are NumPy's; errors are ValueError from the core or no sparse
   operand. *)
Theorem elemwise_api_den (V : Type) (veqb : V -> V -> bool) (add : V -> V -> V) (vzero : V) (f : list V -> V)
        (scal : nat -> bool) (srt : list Z -> list nat) :
  (forall x y, veqb x y = true <-> x = y) -> is_argsort srt ->
  forall args : list (api_arg V),
  Forall (arg_ok V veqb) args -> api_hop_ok V veqb add vzero f scal srt args ->
  api_post V veqb add vzero f scal srt args (elemwise_api V veqb add vzero f scal srt args).
Proof. exact (elemwise_api_den_proof V veqb add vzero f scal srt). Qed.
Print Assumptions elemwise_api_den.

(* (10) programs with in-place operators / out= / astype over a store of objects.  [np_exec]: NumPy's
   execution of the statements on dense arrays (a result is a new array; an in-place form overwrites the
   target's buffer; astype returns its operand iff nothing changes and copy=False).  [exec]: the library's
   execution (results through the element-wise core; in-place forms by _make_shallow_copy_of, which
   re-binds exactly the target object — C11's out_swap_only_target; astype's object by the condition
   regenerated from the source).  If the two stores are related object by object (same shape, same
   value everywhere) before, the library's execution succeeds and they are related after: every variable —
   including earlier operands that are re-used later — has NumPy's value. *)
Theorem store_programs_den (V : Type) (veqb : V -> V -> bool) (vzero : V) (srt : list Z -> list nat) :
  (forall x y, veqb x y = true <-> x = y) -> is_argsort srt ->
  forall (st : state V) (dst : dstate V) (p : list (stmt V)) (dst' : dstate V),
  R V vzero st dst -> np_exec V dst p dst' ->
  exists st', exec V veqb vzero srt st p = Some st' /\ R V vzero st' dst'.
Proof. exact (store_programs_proof V veqb vzero srt). Qed.
Print Assumptions store_programs_den.

(* (11) _get_expanded_coords_data writes the coordinates along the broadcast axes into an intp matrix
   from intp aranges (both dtypes regenerated from the source): the model's expansion, exact in Z, is the
   code's whatever (narrow) index dtype the operand has; and that expansion puts value v at position q of
   the broadcast shape T exactly when the operand holds v at its pre-image of q, each position once. *)
Theorem expanded_coords_exact (D : Type) (coords : list idx) (data : list D) (params : list (option bool)) (bsh : shape) :
  expand_index_exact = true /\
  expand_coords_data coords data params bsh = expand_coords_data_Z coords data params bsh.
Proof. split; [reflexivity|exact (expand_coords_data_exact coords data params bsh)]. Qed.
Print Assumptions expanded_coords_exact.

Theorem expanded_coords_den (D : Type) (s T : shape) (rows : list (idx * D)) :
  BT s T -> shape_ok T -> Forall (fun r => in_range s (fst r)) rows -> NoDup (map fst rows) ->
  NoDup (map fst (expand_rows rows (bcast_params s T) T)) /\
  forall q v, In (q, v) (expand_rows rows (bcast_params s T) T) <-> in_range T q /\ In (bcast_idx s q, v) rows.
Proof. exact (expand_rows_spec s T rows). Qed.
Print Assumptions expanded_coords_den.
