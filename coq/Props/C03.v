(* Props/C03.v — property-level statements for C03 (reductions).  Only statements, each closed by
   [exact] of a lemma proved in Proofs/Reduce*.v, with Print Assumptions beneath.

   Reading guide.  [reduce_coo V veqb op cast sup ident] (Model/Reduce.v) is SparseArray.reduce on a COO
   array for the ufunc [op] (operand cast [cast], identity [ident], super-ufunc [sup] for add /
   multiply); [reduce_coo_z m] is the same pipeline whose scalar pieces (axis normalisation,
   admissibility test, three-way fill correction) are the definitions GENERATED from /repo for the
   ufunc with code m (0 add, 1 multiply, 2 minimum, 3 maximum, 4 logical_or, 5 logical_and,
   6 bitwise_or, 7 bitwise_and, 8 bitwise_xor).  [np_reduce] (Spec/NpReduce.v) is NumPy's
   ufunc.reduce on the dense meaning [den x]. *)
From Coq Require Import ZArith List Bool Permutation Sorting.Sorted QArith Qcanon.
From Verif Require Import Py PyReduce S_reduce Shape COO COOP GCXS Convert NpReduce Reduce ReduceExt ReduceGcxs
  ReduceLemmas ReduceKernelP ReduceP ReduceGcxsP ReduceExtP ReduceIndptrP ConvertU ReduceGcxsA.
Import ListNotations.
Open Scope Z_scope.

(* _calc_counts_invidx returns the starts (prefix sums) and the lengths of the maximal runs of equal
   adjacent group numbers ([runlens] is the run-length encoding, see runlens_decodes/_maximal) *)
Theorem counts_invidx_spec : forall gs : list Z,
  calc_counts_invidx gs = (psums 0 (map snd (runlens gs)), map snd (runlens gs)).
Proof. exact counts_invidx_spec_proof. Qed.
Print Assumptions counts_invidx_spec.

Theorem runlens_is_run_length_encoding : forall gs : list Z,
  flat_map (fun p => repeat (fst p) (Z.to_nat (snd p))) (runlens gs) = gs
  /\ Forall (fun c => 0 < c) (map snd (runlens gs))
  /\ forall i, (S i < length (runlens gs))%nat ->
       fst (nth i (runlens gs) (0, 0)) <> fst (nth (S i) (runlens gs) (0, 0)).
Proof. exact (fun gs => conj (runlens_decodes gs) (conj (runlens_pos gs) (runlens_maximal gs))). Qed.
Print Assumptions runlens_is_run_length_encoding.

(* _grouped_reduce on a non-decreasing group list: one result per distinct group number, the
   fold of the (cast) data carrying that number, found at the group's first position *)
Theorem grouped_reduce_sorted_spec :
  forall (V : Type) (op : V -> V -> V) (cast : V -> V) (d : V) (ds : list V) (gs : list Z),
    length ds = length gs -> Sorting.Sorted.Sorted Z.le gs ->
    grouped_reduce V op cast d ds gs =
      Ok (map (fun g => fold1 V op d (map cast (vals_of V gs ds g))) (keys gs),
          psums 0 (map snd (runlens gs)),
          map (fun g => zlen (vals_of V gs ds g)) (keys gs)).
Proof. exact grouped_reduce_sorted. Qed.
Print Assumptions grouped_reduce_sorted_spec.

(* grouped_reduce_row: for an output cell whose dense row consists of the stored values [stored]
   and m copies of the fill value f (complete: m = 0; deficient; absent: stored = []), the
   corrected value the code computes is NumPy's fold over the whole dense row, in any order.
   Hypotheses: op associative and commutative; the code's admissibility test passed; the
   super-ufunc, if any, iterates op (s f k = f op ... op f, k >= 1 times). *)
Theorem grouped_reduce_row :
  forall (V : Type) (veqb : V -> V -> bool), (forall a b, veqb a b = true <-> a = b) ->
  forall (op : V -> V -> V), (forall a b c, op a (op b c) = op (op a b) c) -> (forall a b, op a b = op b a) ->
  forall (cast : V -> V), (forall a b, cast (op (cast a) (cast b)) = op (cast a) (cast b)) ->
  forall (sup : option (V -> Z -> V)) (ident : option V),
    (forall s f, sup = Some s -> s f 1 = cast f) ->
    (forall s f k, sup = Some s -> 1 <= k -> s f (k + 1) = op (s f k) (cast f)) ->
  forall (f : V) (ncols : Z) (stored : list V) (m : nat) (dense_row : list V) (dflt : V),
    admissible V veqb op cast sup f = true ->
    Permutation dense_row (stored ++ repeat f m) ->
    zlen stored + Z.of_nat m = ncols ->
    np_fold V op cast ident dense_row =
      match stored with
      | [] => result_fill V sup ident f ncols
      | _ => Ok (fix_cell V op cast sup f ncols (fold1 V op dflt (map cast stored)) (zlen stored))
      end.
Proof. exact row_value. Qed.
Print Assumptions grouped_reduce_row.

(* reduce_den: for every canonical COO array, every axis argument (None, int, tuple in any order,
   negative entries, empty, repeated or out of range) and keepdims:
   if the model returns r, NumPy's reduction of the dense array is defined, has the shape of r
   and the values of r at every index, and r is canonical, pruned (or a scalar for a 0-d result);
   if the model raises, it raises ValueError, and either NumPy raises too (bad axis, or nothing
   to reduce and no identity) or the code's admissibility test rejected the reduction. *)
Theorem reduce_den :
  forall (V : Type) (veqb : V -> V -> bool), (forall a b, veqb a b = true <-> a = b) ->
  forall (op : V -> V -> V), (forall a b c, op a (op b c) = op (op a b) c) -> (forall a b, op a b = op b a) ->
  forall (cast : V -> V), (forall a b, cast (op (cast a) (cast b)) = op (cast a) (cast b)) ->
  forall (sup : option (V -> Z -> V)) (ident : option V),
    (forall s f, sup = Some s -> s f 1 = cast f) ->
    (forall s f k, sup = Some s -> 1 <= k -> s f (k + 1) = op (s f k) (cast f)) ->
  forall (x : coo V) (ax : axis_arg) (keepdims : bool),
    canonical V x -> shape_ok (c_shape x) ->
    match reduce_coo V veqb op cast sup ident ax keepdims x with
    | Ok r =>
      exists osh g, np_reduce V op cast ident ax keepdims (c_shape x) (den x) = Ok (osh, g) /\
        rres_shape r = osh /\ (forall oix, in_range osh oix -> g oix = Ok (rres_den r oix)) /\
        rres_wf V veqb r
    | Raise e =>
      e = ValueError /\
      (np_reduce V op cast ident ax keepdims (c_shape x) (den x) = Raise ValueError
       \/ admissible V veqb op cast sup (c_fill x) = false)
    end.
Proof. exact reduce_den_proof. Qed.
Print Assumptions reduce_den.

(* the pipeline built from the definitions generated from /repo is the transcribed one *)
Theorem reduce_generated_is_model : forall m, valid_code m -> forall ax kd x,
  reduce_coo_z m ax kd x =
  reduce_coo Z Z.eqb (op_z m) (ufunc_cast m) (sup_z m) (ufunc_ident m) ax kd x.
Proof. exact reduce_coo_z_eq. Qed.
Print Assumptions reduce_generated_is_model.

(* reduce_den at Z for sum, prod, min, max, any, all, bitwise_or/and/xor.reduce, stated for the
   pipeline that calls the generated definitions *)
Theorem reduce_den_z : forall m, valid_code m -> forall (x : coo Z) ax kd,
  canonical Z x -> shape_ok (c_shape x) ->
  match reduce_coo_z m ax kd x with
  | Ok r =>
    exists osh g,
      np_reduce Z (op_z m) (ufunc_cast m) (ufunc_ident m) ax kd (c_shape x) (den x) = Ok (osh, g) /\
      rres_shape r = osh /\ (forall oix, in_range osh oix -> g oix = Ok (rres_den r oix)) /\
      rres_wf Z Z.eqb r
  | Raise e =>
    e = ValueError /\
    (np_reduce Z (op_z m) (ufunc_cast m) (ufunc_ident m) ax kd (c_shape x) (den x) = Raise ValueError
     \/ adm_z m (c_fill x) = false)
  end.
Proof. exact reduce_den_z_proof. Qed.
Print Assumptions reduce_den_z.

(* GCXS: reduce_den with gcxs_reduce and the dense meaning gden g, for EVERY axis argument (a repeated
   axis raises ValueError, the empty tuple goes through COO, every ordering of all axes takes the
   flatten path, anything else re-compresses).  [gcxs_ok g]: the entries of g denote distinct in-range
   positions (executable form gcxs_okb, checked on every generated case; it follows from gcxs_wfb). *)
Theorem gcxs_reduce_den :
  forall (V : Type) (veqb : V -> V -> bool), (forall a b, veqb a b = true <-> a = b) ->
  forall (op : V -> V -> V), (forall a b c, op a (op b c) = op (op a b) c) -> (forall a b, op a b = op b a) ->
  forall (cast : V -> V), (forall a b, cast (op (cast a) (cast b)) = op (cast a) (cast b)) ->
  forall (sup : option (V -> Z -> V)) (ident : option V),
    (forall s f, sup = Some s -> s f 1 = cast f) ->
    (forall s f k, sup = Some s -> 1 <= k -> s f (k + 1) = op (s f k) (cast f)) ->
  forall (g : gcxs V) (ax : axis_arg) (keepdims : bool),
    gcxs_ok V g -> shape_ok (g_shape g) -> g_shape g <> [] ->
    match gcxs_reduce V veqb op cast sup ident ax keepdims g with
    | Ok r =>
      exists osh gg, np_reduce V op cast ident ax keepdims (g_shape g) (gden g) = Ok (osh, gg) /\
        rres_shape r = osh /\ (forall oix, in_range osh oix -> gg oix = Ok (rres_den r oix)) /\
        rres_wf V veqb r
    | Raise e =>
      e = ValueError /\
      (np_reduce V op cast ident ax keepdims (g_shape g) (gden g) = Raise ValueError
       \/ admissible V veqb op cast sup (g_fill g) = false)
    end.
Proof. exact gcxs_reduce_den_proof. Qed.
Print Assumptions gcxs_reduce_den.

Theorem gcxs_generated_is_model : forall m, valid_code m -> forall ax kd g,
  gcxs_reduce_z m ax kd g =
  gcxs_reduce Z Z.eqb (op_z m) (ufunc_cast m) (sup_z m) (ufunc_ident m) ax kd g.
Proof. exact gcxs_reduce_z_eq. Qed.
Print Assumptions gcxs_generated_is_model.

Theorem gcxs_reduce_den_z : forall m, valid_code m -> forall (g : gcxs Z) ax (kd : bool),
  gcxs_ok Z g -> shape_ok (g_shape g) -> g_shape g <> [] ->
  match gcxs_reduce_z m ax kd g with
  | Ok r =>
    exists osh gg,
      np_reduce Z (op_z m) (ufunc_cast m) (ufunc_ident m) ax kd (g_shape g) (gden g) = Ok (osh, gg) /\
      rres_shape r = osh /\ (forall oix, in_range osh oix -> gg oix = Ok (rres_den r oix)) /\
      rres_wf Z Z.eqb r
  | Raise e =>
    e = ValueError /\
    (np_reduce Z (op_z m) (ufunc_cast m) (ufunc_ident m) ax kd (g_shape g) (gden g) = Raise ValueError
     \/ adm_z m (g_fill g) = false)
  end.
Proof. exact gcxs_reduce_den_z_proof. Qed.
Print Assumptions gcxs_reduce_den_z.

Theorem gcxs_okb_sound : forall (g : gcxs Z), gcxs_okb g = true -> gcxs_ok Z g.
Proof. exact (@gcxs_okb_spec Z). Qed.
Print Assumptions gcxs_okb_sound.



(* dtype promotion of mean / var (decision GENERATED from SparseArray.mean / SparseArray.var; dtype codes:
   0 bool, 1..4 int8..int64, 5..8 uint8..uint64, 9 float16, 10 float32, 11 float64, 12/13 complex):
   integer and bool inputs are accumulated and returned in float64, float16 is accumulated in float32,
   the other floating dtypes are kept, an explicit dtype= is used for both.  Values and result dtypes of
   mean/var/std for every data dtype are compared with NumPy by the campaign (differential). *)
Theorem mean_dtype_promotion :
  (forall k, In k int_or_bool_dtypes -> mean_dtypes k None = Ok (11, 11)) /\
  mean_dtypes 9 None = Ok (9, 10) /\
  (forall k, In k [10; 11; 12; 13] -> mean_dtypes k None = Ok (k, k)) /\
  (forall k d, In k [0; 1; 2; 3; 4; 5; 6; 7; 8; 9; 10; 11; 12; 13] -> mean_dtypes k (Some d) = Ok (d, d)).
Proof. exact mean_dtype_promotion_proof. Qed.
Print Assumptions mean_dtype_promotion.

(* the fill correction of sum / prod (fill * missing, fill ** missing and the result fill value) is computed
   with the fill value cast to the accumulation dtype of the grouped reduction, not in the data dtype
   (flag GENERATED from SparseArray.reduce; values for narrow integers: directed differential cases) *)
Theorem fill_correction_in_accumulation_dtype : s_fix_fill_in_acc_dtype = 1.
Proof. exact fill_correction_in_accumulation_dtype_proof. Qed.
Print Assumptions fill_correction_in_accumulation_dtype.

(* sparse.nanmean returns its result in the dtype of the sum (the input's or the requested dtype): flag
   GENERATED from `_coo/common.py: nanmean` (1: `out.astype(num.dtype) if out.dtype != num.dtype else out`) *)
Theorem nanmean_result_in_sum_dtype : s_nanmean_keeps_sum_dtype = 1.
Proof. exact nanmean_result_in_sum_dtype_proof. Qed.
Print Assumptions nanmean_result_in_sum_dtype.

Theorem var_dtype_promotion :
  (forall k, In k int_or_bool_dtypes -> var_dtype k None = Ok (Some 11)) /\
  (forall k, In k [9; 10; 11; 12; 13] -> var_dtype k None = Ok None) /\
  (forall k d, In k [0; 1; 2; 3; 4; 5; 6; 7; 8; 9; 10; 11; 12; 13] -> var_dtype k (Some d) = Ok (Some d)).
Proof. exact var_dtype_promotion_proof. Qed.
Print Assumptions var_dtype_promotion.

(* ------------------------------------------------------------------ GCXS: the index-pointer arithmetic
   gcxs_ip_calc (Model/ReduceGcxs.v) transcribes `idx = diff(indptr) != 0; indptr[:-1][idx];
   arange(rows)[idx]; reduceat(x.data, ...); indptr[1:][idx] - indptr[:-1][idx]; n_cols`.
   (1) On any array whose index pointer is the compression of a sorted row list it is _grouped_reduce on
   those rows.  (2) On the GCXS image of a canonical COO array, the whole re-compression path
   (Convert.gcxs_change_axes to the kept axes, then gcxs_ip_calc) returns the data, counts, row numbers
   and n_cols of COO._reduce_calc for the complementary axes in increasing order — the function the GCXS
   model of gcxs_reduce_den uses. *)
Theorem gcxs_ip_calc_is_grouped_reduce :
  forall (V : Type) (op : V -> V -> V) (cast : V -> V) (x : gcxs V) rows m,
    g_indptr x = indptr_of rows m ->
    StronglySorted Z.le rows -> Forall (fun r => 0 <= r < m) rows ->
    gcxs_ip_calc V op cast x =
      (g <- grouped_reduce V op cast (g_fill x) (g_data x) rows ;;
       let '(data, inv, counts) := g in
       Ok (data, counts, map (fun i => nth (Z.to_nat i) rows 0) inv, col_size (g_shape x) (g_caxes x))).
Proof. exact gcxs_ip_calc_eq_proof. Qed.
Print Assumptions gcxs_ip_calc_is_grouped_reduce.

Theorem gcxs_recompress_is_coo_calc :
  forall (V : Type) (op : V -> V -> V) (cast : V -> V) (c : coo V) (ca axes : list Z),
    canonical V c -> shape_ok (c_shape c) -> (2 <= length (c_shape c))%nat ->
    let n := zlen (c_shape c) in
    caxes_okb n ca = true -> caxes_okb n (kept_axes n axes) = true ->
    gcxs_recompress_calc V op cast (gcxs_from_coo c ca) axes =
      (k <- coo_reduce_calc V op cast (Some (kept_axes n (kept_axes n axes))) c ;;
       Ok (k_data V k, k_counts V k, map (fun i => nth (Z.to_nat i) (k_rows V k) 0) (k_inv V k), k_ncols V k)).
Proof. exact gcxs_recompress_eq_proof. Qed.
Print Assumptions gcxs_recompress_is_coo_calc.

(* The same for EVERY well-formed GCXS record of ndim >= 2, however it was built (Proofs/ReduceGcxsA.v): C05's surjectivity
   theorem (ConvertU.gcxs_image / from_coo_tocoo) shows that it is the compressed form of its own tocoo(), which is
   canonical, so the hypothesis "x = _from_coo c ca" above is discharged. *)
Theorem gcxs_recompress_is_coo_calc_any :
  forall (V : Type) (veqb : V -> V -> bool) (add : V -> V -> V) (op : V -> V -> V) (cast : V -> V)
         (g : gcxs V) (axes : list Z),
    gcxs_wfb g = true -> (2 <= length (g_shape g))%nat ->
    let n := zlen (g_shape g) in
    caxes_okb n (kept_axes n axes) = true ->
    gcxs_recompress_calc V op cast g axes =
      (k <- coo_reduce_calc V op cast (Some (kept_axes n (kept_axes n axes))) (gcxs_tocoo veqb add g) ;;
       Ok (k_data V k, k_counts V k, map (fun i => nth (Z.to_nat i) (k_rows V k) 0) (k_inv V k), k_ncols V k)).
Proof. exact gcxs_recompress_eq_any_proof. Qed.
Print Assumptions gcxs_recompress_is_coo_calc_any.

(* ------------------------------------------------------------------ nan-reductions
   nanreduce (Model/ReduceExt.v) = `_replace_nan(x, identity)` then reduce, for any value type with a
   NaN test: it is NumPy's reduction of where(isnan(a), identity, a) — NumPy's own definition of
   nansum / nanprod.  Instance: option Z with None = NaN (nansum_den_optz). *)
Theorem nanreduce_den :
  forall (V : Type) (veqb : V -> V -> bool), (forall a b, veqb a b = true <-> a = b) ->
  forall (isnan : V -> bool) (op : V -> V -> V),
    (forall a b c, op a (op b c) = op (op a b) c) -> (forall a b, op a b = op b a) ->
  forall (cast : V -> V), (forall a b, cast (op (cast a) (cast b)) = op (cast a) (cast b)) ->
  forall (sup : option (V -> Z -> V)) (ident : option V),
    (forall s f, sup = Some s -> s f 1 = cast f) ->
    (forall s f k, sup = Some s -> 1 <= k -> s f (k + 1) = op (s f k) (cast f)) ->
  forall (x : coo V) (value : V) ax (kd : bool),
    canonical V x -> shape_ok (c_shape x) ->
    let repl := fun v => if isnan v then value else v in
    match nanreduce V veqb isnan op cast sup ident (Some value) ax kd x with
    | Ok r =>
      exists osh g, np_reduce V op cast ident ax kd (c_shape x) (fun ix => repl (den x ix)) = Ok (osh, g) /\
        rres_shape r = osh /\ (forall oix, in_range osh oix -> g oix = Ok (rres_den r oix)) /\
        rres_wf V veqb r
    | Raise e =>
      e = ValueError /\
      (np_reduce V op cast ident ax kd (c_shape x) (fun ix => repl (den x ix)) = Raise ValueError
       \/ admissible V veqb op cast sup (repl (c_fill x)) = false)
    end.
Proof. exact nanreduce_den_proof. Qed.
Print Assumptions nanreduce_den.

Theorem nansum_den_optz : forall (x : coo (option Z)) ax (kd : bool),
  canonical (option Z) x -> shape_ok (c_shape x) ->
  let repl := fun v => if oz_isnan v then Some 0 else v in
  match nanreduce (option Z) oz_eqb oz_isnan oz_add (fun v => v) (Some oz_scale) (Some (Some 0)) None ax kd x with
  | Ok r =>
    exists osh g, np_reduce (option Z) oz_add (fun v => v) (Some (Some 0)) ax kd (c_shape x) (fun ix => repl (den x ix)) = Ok (osh, g) /\
      rres_shape r = osh /\ (forall oix, in_range osh oix -> g oix = Ok (rres_den r oix)) /\
      rres_wf (option Z) oz_eqb r
  | Raise e => e = ValueError /\
      np_reduce (option Z) oz_add (fun v => v) (Some (Some 0)) ax kd (c_shape x) (fun ix => repl (den x ix)) = Raise ValueError
  end.
Proof. exact nansum_den_optz_proof. Qed.
Print Assumptions nansum_den_optz.

(* ------------------------------------------------------------------ mean_var_den over exact rationals (Qc)
   mean_coo / var_coo (Model/ReduceExt.v) are SparseArray.mean / var as compositions over the reduce
   pipeline: sum, division by the reduced count, the two-pass variance with ddof.  np_mean / np_var
   (Spec/NpReduce.v) are NumPy's definitions in exact arithmetic.  std = sqrt(var) is not rational: the
   sqrt step is not modelled.  A zero reduced count (NumPy: nan with a warning) is outside exact
   arithmetic: both sides then divide by 0 in Qc (x / 0 = 0), which says nothing about the code. *)
Theorem mean_den : forall (x : coo Qc) ax (kd : bool),
  canonical Qc x -> shape_ok (c_shape x) ->
  match mean_coo Qc qc_eqb Qcplus 0%Qc qc_scale qc_divn ax kd x with
  | Ok r => exists osh g, np_mean Qc Qcplus 0%Qc qc_divn ax kd (c_shape x) (den x) = Ok (osh, g) /\
      rres_shape r = osh /\ (forall oix, in_range osh oix -> g oix = Ok (rres_den r oix)) /\ rres_wf Qc qc_eqb r
  | Raise e => np_mean Qc Qcplus 0%Qc qc_divn ax kd (c_shape x) (den x) = Raise ValueError
  end.
Proof. exact mean_den_proof. Qed.
Print Assumptions mean_den.

Theorem var_den : forall (x : coo Qc) (ddof : Z) ax (kd : bool),
  canonical Qc x -> shape_ok (c_shape x) -> c_shape x <> [] ->
  match var_coo Qc qc_eqb Qcplus Qcminus Qcmult 0%Qc qc_scale qc_divn ddof ax kd x with
  | Ok r => exists osh g, np_var Qc Qcplus Qcminus Qcmult 0%Qc qc_divn ddof ax kd (c_shape x) (den x) = Ok (osh, g) /\
      rres_shape r = osh /\ (forall oix, in_range osh oix -> g oix = Ok (rres_den r oix)) /\ rres_wf Qc qc_eqb r
  | Raise e => np_var Qc Qcplus Qcminus Qcmult 0%Qc qc_divn ddof ax kd (c_shape x) (den x) = Raise ValueError
  end.
Proof. exact var_den_proof. Qed.
Print Assumptions var_den.

(* ------------------------------------------------------------------ examples: the hypotheses are satisfiable *)
Example ex_mean_var :
  canonical Qc ex_q /\
  match mean_coo Qc qc_eqb Qcplus (qz 0) qc_scale qc_divn (AxInt (-1)) false ex_q,
        var_coo Qc qc_eqb Qcplus Qcminus Qcmult (qz 0) qc_scale qc_divn 1 (AxInt 1) false ex_q with
  | Ok m, Ok v =>
    qc_eqb (rres_den m [0]) (qz 1) && qc_eqb (rres_den m [1]) (Q2Qc (4 # 3))
    && qc_eqb (rres_den v [0]) (qz 1) && qc_eqb (rres_den v [1]) (Q2Qc (16 # 3))
  | _, _ => false
  end = true.
Proof. exact ex_mean_var_proof. Qed.

Example ex_nansum :
  nanreduce (option Z) oz_eqb oz_isnan oz_add (fun v => v) (Some oz_scale) (Some (Some 0)) None (AxInt 1) false
            (mkCOO [2; 2] [[0; 0]] [Some 1] None)
  = Ok (RArr (mkCOO [2] [[0]] [Some 1] (Some 0))).
Proof. exact ex_nansum_proof. Qed.

Example ex_input_canonical : canonical Z ex_x /\ shape_ok (c_shape ex_x).
Proof. exact ex_x_canonical. Qed.

Example ex_gcxs :
  gcxs_ok Z ex_g2 /\ shape_ok (g_shape ex_g2) /\
  gcxs_reduce_z 0 (AxTuple [1; 0]) true ex_g2 = Ok (RArr (mkCOO [1; 1] [[0; 0]] [8] 0)) /\
  gcxs_reduce_z 3 (AxInt (-1)) false ex_g2 = Ok (RArr (mkCOO [2] [[0]; [1]] [1; 5] 0)).
Proof. exact ex_gcxs_proof. Qed.

Example ex_sum : reduce_coo_z 0 (AxTuple [-1; 0]) false ex_x = Ok (RArr (mkCOO [3] [[0]; [1]; [2]] [11; 13; 14] 12)).
Proof. exact ex_sum_proof. Qed.
Example ex_prod :
  reduce_coo_z 1 (AxInt 1) true ex_x
  = Ok (RArr (mkCOO [2; 1; 2] [[0; 0; 0]; [0; 0; 1]; [1; 0; 0]; [1; 0; 1]] [-18; 45; 21; 48] 27)).
Proof. exact ex_prod_proof. Qed.
Example ex_min : reduce_coo_z 2 AxNone false ex_x = Ok (RScalar (-2)).
Proof. exact ex_min_proof. Qed.
Example ex_max : reduce_coo_z 3 (AxTuple [0; 2]) false ex_x = Ok (RArr (mkCOO [3] [[0]; [1]; [2]] [5; 4; 7] 3)).
Proof. exact ex_max_proof. Qed.
Example ex_inadmissible : reduce_coo_z 4 AxNone false ex_x = Raise ValueError.
Proof. exact ex_inadmissible_proof. Qed.
Example ex_zero_extent :
  reduce_coo_z 0 (AxInt 1) false ex_empty = Ok (RArr (mkCOO [3] [] [] 0))
  /\ reduce_coo_z 2 (AxInt (-1)) false ex_empty = Raise ValueError
  /\ reduce_coo_z 5 (AxInt 1) false (mkCOO [3; 0] [] [] 1) = Ok (RArr (mkCOO [3] [] [] 1)).
Proof. exact ex_zero_extent_proof. Qed.
Example ex_kernel :
  calc_counts_invidx [0; 0; 2; 2; 2; 5] = ([0; 2; 5], [2; 3; 1])
  /\ grouped_reduce Z Z.add (fun v => v) 0 [1; 2; 3; 4; 5; 6] [0; 0; 2; 2; 2; 5] = Ok ([3; 12; 6], [0; 2; 5], [2; 3; 1]).
Proof. exact ex_kernel_proof. Qed.
Example ex_row :
  np_fold Z Z.add (fun v => v) (Some 0) [3; 5; 3; 3; -2; 3]
  = Ok (fix_cell Z Z.add (fun v => v) (Some Z.mul) 3 6 (fold1 Z Z.add 0 [5; -2]) 2).
Proof. exact ex_row_proof. Qed.
