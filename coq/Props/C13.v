(* Props/C13.v — property-level statements for C13 (results do not depend on thread interleaving).
   Only statements, each closed by [exact] of a lemma proved in Proofs/ThreadsP.v, with
   Print Assumptions beneath.  [run cfg f conv sched (init ops progs)] is the interleaved execution
   (Model/Threads.v) of the thread programs [progs] (ANY number of threads, ANY calls) under the
   schedule [sched] (ANY list of thread ids); [f key] is the value the call returns when run alone.

   The cache protocol's variant (does the lookup loop of COO.transpose / COO.reshape iterate the
   deque object or a snapshot of it?), the deque bound and the shape of tocsc's last stage are NOT
   fixed here: [src_config] is regenerated from /repo's AST on every run (Gen/S_threads.v).
   [cache_schedule_independent] is the FULL statement for the source as it is now (since the repair
   of finding D13 both loops iterate tuple(deque)); its proof needs [all_snapshot src_config = true]
   by computation, so a revert to direct iteration flips the generated parameter and breaks it.
   [cache_race_refuted] / [cache_only_failure_is_deque_race] are statements about the protocol
   VARIANT that iterates the deque itself (what a revert would re-introduce). *)
From Coq Require Import ZArith List Bool.
From Verif Require Import Py S_threads Threads ThreadsP.
Import ListNotations.
Open Scope Z_scope.

(* the dict memo of _memoize_dtype, the _csr/_csc attribute memos and every operation without
   shared mutable state: every call returns its sequential value under every schedule, whatever
   the cache variant (duplicated work, never a wrong or failed call) *)
Theorem memo_schedule_independent :
  forall cfg f conv, conv_correct f conv -> memo_clear_bound cfg = None -> buffers_fresh cfg = true ->
  forall sched ops progs c r,
    In (c, r) (all_outputs (run cfg f conv sched (init ops progs))) ->
    is_cache_call c = false -> r = Ok (f (ckey c)).
Proof. exact memo_sound. Qed.
Print Assumptions memo_schedule_independent.

(* THE PROPERTY for the code as it is now: under every schedule of any number of threads running
   any read-only calls (cached transpose/reshape, tocsr/tocsc, kernel factories, everything else),
   every call returns the value it returns when run alone and none fails *)
Theorem cache_schedule_independent :
  forall f conv, conv_correct f conv ->
  forall ops progs sched c r,
    In (c, r) (all_outputs (run src_config f conv sched (init ops progs))) -> r = Ok (f (ckey c)).
Proof. exact source_schedule_independent. Qed.
Print Assumptions cache_schedule_independent.

(* the same for ANY configuration whose lookup loops iterate a snapshot (one C call) *)
Theorem cache_snapshot_schedule_independent :
  forall cfg f conv, conv_correct f conv -> memo_clear_bound cfg = None -> buffers_fresh cfg = true ->
  forall sched ops progs c r,
    all_snapshot cfg = true ->
    In (c, r) (all_outputs (run cfg f conv sched (init ops progs))) -> r = Ok (f (ckey c)).
Proof. exact snapshot_sound. Qed.
Print Assumptions cache_snapshot_schedule_independent.

(* any variant, including direct iteration: the ONLY deviation any schedule can produce is a
   RuntimeError raised by a transpose/reshape lookup on a cache-enabled array — never a wrong value,
   never another error *)
Theorem cache_only_failure_is_deque_race :
  forall cfg f conv, conv_correct f conv -> memo_clear_bound cfg = None -> buffers_fresh cfg = true ->
  forall sched ops progs c r,
    In (c, r) (all_outputs (run cfg f conv sched (init ops progs))) ->
    r = Ok (f (ckey c)) \/
    (r = Raise RuntimeError /\ exists s n k, c = CCache s n k /\ snap cfg s = false).
Proof. exact outputs_sound. Qed.
Print Assumptions cache_only_failure_is_deque_race.

(* the refutation: whenever a lookup loop iterates the deque itself, two threads and one schedule
   make a call fail although it succeeds when run alone *)
Theorem cache_race_refuted :
  forall cfg f conv s, snap cfg s = false ->
  exists progs sched c,
    In (c, Raise RuntimeError) (all_outputs (run cfg f conv sched (init [] progs))).
Proof. exact race_fine. Qed.
Print Assumptions cache_race_refuted.

(* the extracted fact the memo theorems depend on: the wrapper of _memoize_dtype never removes an entry.
   With deletion (here: a miss clears the dict once it holds two entries) a hit can fail: *)
Theorem memo_no_deletion :
  memo_clear_bound src_config = None /\
  forall cfg f conv, memo_clear_bound cfg = Some 2%nat ->
    exists progs sched c, In (c, Raise OtherError) (all_outputs (run cfg f conv sched (init [] progs))).
Proof. exact (conj (proj1 (proj2 (proj2 (proj2 src_shapes_modelled)))) memo_deletion_race). Qed.
Print Assumptions memo_no_deletion.

(* what holds of the source as it is now (the configuration is generated from /repo) *)
Theorem cache_source_verdict :
  if all_snapshot src_config
  then forall f conv, conv_correct f conv ->
       forall ops progs sched c r,
         In (c, r) (all_outputs (run src_config f conv sched (init ops progs))) -> r = Ok (f (ckey c))
  else forall f conv, exists progs csched c,
         In (c, Raise RuntimeError) (all_outputs (run_coarse src_config f conv csched (init [] progs))).
Proof. exact source_verdict. Qed.
Print Assumptions cache_source_verdict.

(* schedules at CPython 3.12's real switching granularity (what tools/sched.py can drive) are
   schedules of the model, so everything above covers them *)
Theorem coarse_schedules_are_schedules :
  forall cfg f conv csched st, exists sched, run_coarse cfg f conv csched st = run cfg f conv sched st.
Proof. exact coarse_is_run. Qed.
Print Assumptions coarse_schedules_are_schedules.

(* the shared operands are left unchanged under every schedule — including programs in which callers write
   in place into the dense results they were handed: those results are private buffers.  (That the kernels
   themselves only read their operands is C11's theorem.) *)
Theorem operands_unchanged_any_schedule :
  forall cfg f conv, conv_correct f conv -> memo_clear_bound cfg = None -> buffers_fresh cfg = true ->
  forall sched ops progs, operands (fst (run cfg f conv sched (init ops progs))) = ops.
Proof. exact run_operands. Qed.
Print Assumptions operands_unchanged_any_schedule.

(* the extracted fact this depends on: COO.todense returns a fresh allocation and has no other return, and
   maybe_densify / __array__ return what todense returns.  With a todense that may return a view of the
   operand's data, a thread's in-place write to ITS OWN result reaches the shared operand: *)
Theorem results_are_private :
  buffers_fresh src_config = true /\
  forall cfg f conv, buffers_fresh cfg = false ->
    exists progs sched, operands (fst (run cfg f conv sched (init [7] progs))) <> [7].
Proof. exact (conj (proj1 (proj2 (proj2 (proj2 (proj2 src_shapes_modelled))))) view_write_reaches_operands). Qed.
Print Assumptions results_are_private.

(* once all threads have finished, each thread has one outcome per call, in program order *)
Theorem outcomes_follow_program_order :
  forall cfg f conv sched ops progs,
    all_finished (run cfg f conv sched (init ops progs)) = true ->
    map (map fst) (outputs (run cfg f conv sched (init ops progs))) = progs.
Proof. exact finished_outputs. Qed.
Print Assumptions outcomes_follow_program_order.

(* no protocol loops or blocks: after ANY schedule prefix, letting the threads run to their end
   terminates with every thread finished ... *)
Theorem calls_terminate :
  forall cfg f conv sched ops progs,
    all_finished (drain cfg f conv (run cfg f conv sched (init ops progs))) = true.
Proof. exact drain_finishes. Qed.
Print Assumptions calls_terminate.

(* ... and every call of every thread has then produced exactly one outcome, in program order *)
Theorem every_call_returns :
  forall cfg f conv sched ops progs,
    map (map fst) (outputs (drain cfg f conv (run cfg f conv sched (init ops progs)))) = progs.
Proof. exact every_call_has_outcome. Qed.
Print Assumptions every_call_returns.
