(* Props/C02.v — property-level statements for C02 (indexing).  Only statements, each closed
   by [exact] of a lemma proved elsewhere, with Print Assumptions beneath. *)
From Coq Require Import ZArith List.
From Verif Require Import Py PyExt G_slicing PySlice Slicing SlicingP.
Import ListNotations.
Open Scope Z_scope.

(* For every slice (any start/stop/step incl. None, negative, out of range; step <> 0) and
   every extent, the normalisation the code performs (regenerated from _slicing.py:
   replace_none, posify_index, clip_slice) selects exactly the positions CPython's slice
   semantics select, in the same order.  (Before fix f6512bb this was false: finding D1.) *)
Theorem slice_norm_correct :
  forall (a b c : option Z) (dim : Z),
    0 <= dim -> c <> Some 0 ->
    selects (normalize_slice (VSlice (oz a) (oz b) (oz c)) dim) = slice_selects a b c dim.
Proof. exact slice_norm_correct_proof. Qed.
Print Assumptions slice_norm_correct.

(* ------------------------------------------------------------------------------------------
   Part 2: x[index] on COO (Model/CooIndex.v = _slicing.normalize_index + _coo/indexing.getitem,
   scalar decisions regenerated from /repo: Gen/G_slicing.v, Gen/S_indexing.v) against NumPy's
   meaning of an index (Spec/NpIndex.v). *)
From Coq Require Import Bool Sorting.Sorted Sorting.Permutation.
From Verif Require Import Shape COO COOP NpIndex CooIndex CooIndexMaskP CooIndexNormP CooIndexP.

(* (1) The cost heuristic of _compute_mask (when to stop narrowing start/stop pairs by binary search
   and start filtering linearly) cannot matter: for lexicographically sorted coordinates and EVERY
   cut-over position k the mask holds exactly the positions whose coordinates match every row
   [start, stop, step] — as a set of positions always; as the same list when the rows that were
   narrowed have positive steps (a negative step makes _get_mask_pairs visit the pairs backwards,
   which is why getitem passes sorted=False to the constructor then). *)
Theorem mask_strategy_irrelevant :
  forall (pts : points) (inds : list triple),
    StronglySorted lex_lt pts -> Forall row_ok inds -> points_long pts (length inds) ->
    forall k,
      Permutation (mask_positions (compute_mask k pts inds)) (mask_spec pts inds)
      /\ (Forall (fun t => 0 < step_of t) (firstn k inds) ->
          mask_positions (compute_mask k pts inds) = mask_spec pts inds).
Proof. exact mask_strategy_irrelevant_perm. Qed.
Print Assumptions mask_strategy_irrelevant.

(* (2) Basic indices (integers, slices with any start/stop/step <> 0, None, Ellipsis), any canonical
   COO array of any element type, whatever cut-overs kf the heuristic picks: NumPy rejects the index
   with IndexError iff the code does; otherwise the result has NumPy's shape, keeps the fill value,
   is canonical (the `sorted` flag getitem hands to the constructor is justified) and
   x[ix][j] = x[NumPy's source index of j]; a scalar result is that element. *)
Theorem coo_getitem_den :
  forall (V : Type) (kf : nat -> nat) (x : coo V) (ix : index),
    canonical V x -> shape_okb (c_shape x) = true -> no_zero_step ix = true -> basic ix = true ->
    match np_index (c_shape x) ix with
    | Raise e => getitem kf x ix = Raise e /\ e = IndexError
    | Ok (sh', g) =>
      match getitem kf x ix with
      | Ok (GArr y) => c_shape y = sh' /\ c_fill y = c_fill x /\ canonical V y
                       /\ forall j, in_range sh' j -> den y j = den x (g j)
      | Ok (GScalar v) => sh' = [] /\ v = den x (g [])
      | Raise _ => False
      end
    end.
Proof. exact coo_getitem_basic_proof. Qed.
Print Assumptions coo_getitem_den.

(* (4) normalize_index raises IndexError exactly when NumPy rejects the index (out-of-range integer
   or array entry, boolean array of the wrong length, too many indices, two ellipses), and raises
   nothing else.  Full statement: without the hypothesis d29_clause.  It is FALSE of the code as it
   stands (finding D29: NumPy lets a boolean index array of size 0 through on any axis, check_index
   raises), see check_index_refuted; the proved part excludes exactly that. *)
Theorem check_index_spec_partial :
  forall (sh : shape) (ix : index),
    shape_okb sh = true -> no_zero_step ix = true -> d29_clause sh ix = true ->
    (normalize_index ix sh = Raise IndexError <-> resolve_all sh ix = Raise IndexError)
    /\ (forall e, normalize_index ix sh = Raise e -> e = IndexError)
    /\ (forall e, resolve_all sh ix = Raise e -> e = IndexError).
Proof. exact check_index_spec_proof. Qed.
Print Assumptions check_index_spec_partial.

Theorem check_index_refuted :
  exists sh ix, shape_okb sh = true /\ no_zero_step ix = true /\
    normalize_index ix sh = Raise IndexError /\ resolve_all sh ix <> Raise IndexError.
Proof. exact check_index_refuted_proof. Qed.
Print Assumptions check_index_refuted.

(* (3) ONE 1-D index array (integer: repeated, unsorted, negative entries; or boolean), the other
   entries basic: _compute_multi_mask runs _compute_mask once per array entry (each call with its own
   cut-over kf i); the array's result axis stays in place; the result is canonical (sorted=True is
   passed only when the array sits on the first axis and no slice runs backwards, otherwise the
   constructor sorts) and x[ix][j] = x[NumPy's source index of j].
   Full statement: without d29_clause — FALSE of the code (finding D29), see
   coo_getitem_one_array_refuted. *)
From Verif Require Import CooIndexArrP.
Theorem coo_getitem_one_array_partial :
  forall (V : Type) (kf : nat -> nat) (x : coo V) (ix : index),
    canonical V x -> shape_okb (c_shape x) = true -> no_zero_step ix = true ->
    one_array ix = true -> d29_clause (c_shape x) ix = true ->
    match np_index (c_shape x) ix with
    | Raise e => getitem kf x ix = Raise e /\ e = IndexError
    | Ok (sh', g) =>
      match getitem kf x ix with
      | Ok (GArr y) => c_shape y = sh' /\ c_fill y = c_fill x /\ canonical V y
                       /\ forall j, in_range sh' j -> den y j = den x (g j)
      | Ok (GScalar v) => sh' = [] /\ v = den x (g [])
      | Raise _ => False
      end
    end.
Proof. exact coo_getitem_one_array_proof. Qed.
Print Assumptions coo_getitem_one_array_partial.

Theorem coo_getitem_one_array_refuted :
  exists (x : coo Z) (ix : index),
    canonical Z x /\ shape_okb (c_shape x) = true /\ no_zero_step ix = true /\ one_array ix = true
    /\ (exists sh' g, np_index (c_shape x) ix = Ok (sh', g))
    /\ forall kf, getitem kf x ix = Raise IndexError.
Proof. exact coo_getitem_one_array_refuted_proof. Qed.
Print Assumptions coo_getitem_one_array_refuted.

(* (5) GCXS: the selection kernels of _compressed/indexing.py (Model/GcxsIndex.v).  For rows of strictly
   increasing column indices (which gcxs_wf guarantees, gcxs_rows_sorted) and a strictly increasing
   list of requested columns, get_slicing_selection — whichever of the linear two-pointer filter and the
   binary-search walk it takes for each row (any choice `path` that never sends an empty row into the
   binary walk while columns are requested; the code's size test is such a choice) — and
   get_array_selection both return exactly the filter spec (for every requested column, in order, the
   position of that value in the row) and the matching indptr; no loop runs out of fuel and no
   unchecked read leaves its array (the result is SOk). *)
From Verif Require Import GCXS GcxsIndex GcxsIndexP.
Theorem gcxs_selection_spec :
  forall (path : nat -> bool) (arr_indices : list Z) (rows : list (nat * nat)) (col : list Z),
    rows_sorted arr_indices rows -> sincr col -> path_safe path arr_indices rows col ->
    slicing_selection path arr_indices rows col = SOk (selection_spec arr_indices rows col)
    /\ array_selection arr_indices rows col = SOk (selection_spec arr_indices rows col).
Proof. exact gcxs_selection_spec_proof. Qed.
Print Assumptions gcxs_selection_spec.

Theorem gcxs_code_path_safe :
  forall (arr_indices : list Z) (rows : list (nat * nat)) (col : list Z),
    path_safe (code_path arr_indices rows col) arr_indices rows col.
Proof. exact code_path_safe. Qed.
Print Assumptions gcxs_code_path_safe.

Theorem gcxs_rows_sorted :
  forall (V : Type) (g : gcxs V) (r : nat),
    gcxs_wfb g = true -> (2 <= length (g_shape g))%nat -> (S r < length (g_indptr g))%nat ->
    sincr (seg (g_indices g) (Z.to_nat (nth r (g_indptr g) 0)) (Z.to_nat (nth (S r) (g_indptr g) 0))).
Proof. exact gcxs_wf_row_sorted. Qed.
Print Assumptions gcxs_rows_sorted.

(* The scalar-vs-0-d rule (basic indices): getitem returns a scalar exactly when NumPy does.
   Full statement: without d26_clause — FALSE of the code (finding D26: with an Ellipsis that is not
   the last entry and swallows no axis, e.g. x[..., 1, 2], the code returns a scalar, NumPy a 0-d
   array), see coo_scalar_rule_refuted. *)
From Verif Require Import CooIndexScalarP.
Theorem coo_scalar_rule_partial :
  forall (V : Type) (kf : nat -> nat) (x : coo V) (ix : index) (r : gres V),
    shape_okb (c_shape x) = true -> no_zero_step ix = true -> basic ix = true ->
    d26_clause (c_shape x) ix = true ->
    getitem kf x ix = Ok r -> is_gscalar r = np_scalar (c_shape x) ix.
Proof. exact coo_scalar_rule_proof. Qed.
Print Assumptions coo_scalar_rule_partial.

Theorem coo_scalar_rule_refuted :
  exists (kf : nat -> nat) (x : coo Z) (ix : index) (r : gres Z),
    shape_okb (c_shape x) = true /\ no_zero_step ix = true /\ basic ix = true
    /\ getitem kf x ix = Ok r /\ is_gscalar r <> np_scalar (c_shape x) ix.
Proof. exact coo_scalar_rule_refuted_proof. Qed.
Print Assumptions coo_scalar_rule_refuted.

(* (2') SEVERAL 1-D integer index arrays of one length (integers and slices anywhere else): one call of
   _compute_mask per position of the arrays (each with its own cut-over), the arrays share one result axis
   placed where the first array stands, the constructor sorts; same conclusion as above.
   Full statement: without d30_clause — the kernel then reads indices[ixx] and writes full_idx[ix] out of
   bounds (finding D30; the model reports the access as RuntimeError), see coo_getitem_multi_array_refuted. *)
From Verif Require Import CooIndexMultiP.
Theorem coo_getitem_multi_array_partial :
  forall (V : Type) (kf : nat -> nat) (x : coo V) (ix : index),
    canonical V x -> shape_okb (c_shape x) = true -> no_zero_step ix = true ->
    multi_array ix = true -> d30_clause (c_shape x) ix = true ->
    match np_index (c_shape x) ix with
    | Raise e => getitem kf x ix = Raise e /\ e = IndexError
    | Ok (sh', g) =>
      match getitem kf x ix with
      | Ok (GArr y) => c_shape y = sh' /\ c_fill y = c_fill x /\ canonical V y
                       /\ forall j, in_range sh' j -> den y j = den x (g j)
      | Ok (GScalar v) => sh' = [] /\ v = den x (g [])
      | Raise _ => False
      end
    end.
Proof. exact coo_getitem_multi_array_proof. Qed.
Print Assumptions coo_getitem_multi_array_partial.

Theorem coo_getitem_multi_array_refuted :
  exists (x : coo Z) (ix : index),
    canonical Z x /\ shape_okb (c_shape x) = true /\ no_zero_step ix = true /\ multi_array ix = true
    /\ (exists sh' g, np_index (c_shape x) ix = Ok (sh', g))
    /\ getitem (fun _ => 0%nat) x ix = Raise RuntimeError.
Proof. exact coo_getitem_multi_array_refuted_proof. Qed.
Print Assumptions coo_getitem_multi_array_refuted.

(* (3') DOK.__getitem__ (Model/DokGetitem.v, the code after fixes e6d97fc / e0a1c30 / b72190a).  A key that is
   not a non-empty tuple of index sequences is handed, unchanged, to self.asformat("coo")[key] and the result
   converted back: for a valid DOK (distinct in-range keys; ANY ndim, 0-d included) and every index the COO
   theorems cover (basic — the empty key included; one array; several arrays), the result has NumPy's shape, the
   same fill value, distinct in-range keys, and the dense meaning NumPy prescribes.  (The former clauses
   D22_dok_empty_key, D22_dok_0d are repaired: they are part of this statement now.) *)
From Verif Require Import Convert DokGetitem DokGetitemP.
Theorem dok_getitem_den_partial :
  forall (V : Type) (veqb : V -> V -> bool) (add : V -> V -> V) (kf : nat -> nat)
         (sh : shape) (items : list (idx * V)) (fill : V) (ix : index),
    dok_ok V sh items -> shape_okb sh = true -> no_zero_step ix = true -> coo_ix_ok sh ix ->
    fancy_key ix = false ->
    match np_index sh ix with
    | Raise e => dok_getitem V veqb add kf sh items fill ix = Raise e /\ e = IndexError
    | Ok (sh', g) =>
      match dok_getitem V veqb add kf sh items fill ix with
      | Ok (DArr sh'' it' f') =>
        sh'' = sh' /\ f' = fill /\ NoDup (map fst it') /\ Forall (in_range sh') (map fst it')
        /\ forall j, in_range sh' j -> den (dok_as_coo sh'' it' f') j = den (dok_as_coo sh items fill) (g j)
      | Ok (DScalar v) => sh' = [] /\ v = den (dok_as_coo sh items fill) (g [])
      | Raise _ => False
      end
    end.
Proof. exact dok_getitem_den_proof. Qed.
Print Assumptions dok_getitem_den_partial.

(* A key made of one integer index sequence per axis, all of one length: _fancy_key (check_index, sanitize_index,
   posify_index: entries within [-extent, extent), negatives wrap — the former clause D24 is repaired) and
   _fancy_getitem give NumPy's pointwise result.  Partial: the code still refuses (NotImplementedError) a key of
   index sequences that does not name every axis — see dok_partial_array_key_refuted. *)
Theorem dok_fancy_getitem_den_partial :
  forall (V : Type) (veqb : V -> V -> bool) (add : V -> V -> V) (kf : nat -> nat)
         (sh : shape) (items : list (idx * V)) (fill : V) (ls : list (list Z)) (n : nat),
    dok_ok V sh items -> shape_okb sh = true -> fancy_ok sh ls n ->
    exists g it',
      np_index sh (map IArr ls) = Ok ([Z.of_nat n], g)
      /\ dok_getitem V veqb add kf sh items fill (map IArr ls) = Ok (DArr [Z.of_nat n] it' fill)
      /\ NoDup (map fst it') /\ Forall (in_range [Z.of_nat n]) (map fst it')
      /\ forall j, in_range [Z.of_nat n] j ->
           den (dok_as_coo [Z.of_nat n] it' fill) j = den (dok_as_coo sh items fill) (g j).
Proof. exact dok_fancy_getitem_den_proof. Qed.
Print Assumptions dok_fancy_getitem_den_partial.

Theorem dok_partial_array_key_refuted :
  exists sh (items : list (idx * Z)) fill ix,
    dok_ok Z sh items /\ shape_okb sh = true /\ one_array ix = true /\ d29_clause sh ix = true
    /\ (exists g, np_index sh ix = Ok ([1; 3], g))
    /\ dok_getitem Z Z.eqb Z.add (fun _ => 0%nat) sh items fill ix = Raise NotImplementedError.
Proof. exact dok_partial_array_key_refuted_proof. Qed.
Print Assumptions dok_partial_array_key_refuted.

(* (4') GCXS.__getitem__ = _compressed/indexing.getitem (Model/GcxsGetitem.v, the code after fix a4762ef:
   ndim <= 1 and, for ndim >= 2, every key holding None go through COO — GCXS.from_coo(x.tocoo()[key]) —; every
   other key through the n-d code: normalisation, the full-slice shortcut, get_single_element, the compressed /
   uncompressed bookkeeping, reordering by _axis_order, convert_to_flat, the two selection kernels, the
   re-splitting `uncompressed // size`, shape and compressed-axes bookkeeping), for every WELL-FORMED GCXS array
   of ANY ndim >= 2 with strictly increasing compressed axes (check_compressed_axes enforces that in
   GCXS.__init__) and every index of the class
     gcxs_ix_class:  basic (integers, slices with any start/stop/step, Ellipsis, None anywhere, fewer entries
                     than axes) or exactly ONE index array (integer — repeated, unsorted, negative entries — or
                     boolean; D29 clause: no empty boolean array on a non-empty axis), the rest basic:
   the result has NumPy's shape, the same fill value and the dense meaning NumPy prescribes
   (gcxs_getitem_den) and is again well-formed — sorted rows, consistent indptr, valid compressed axes,
   none for a 1-d result (gcxs_getitem_wf); an all-integer index gives the element; NumPy's IndexError
   cases raise IndexError.  In fact the result is GCXS.from_coo of the COO result (Proofs/GcxsGetitemNdP.v;
   ndim <= 1: gcxs_getitem_1d_partial).  (The former clauses D22_gcxs, D27, D28 — None in the key, 0-d arrays —
   are repaired and part of the statement now.)  Not covered: several index arrays (finding D21), unsigned
   index dtypes (gcxs_getitem_unsigned_indices). *)
From Verif Require Import GCXS GcxsGetitem GcxsGetitem2dP GcxsGetitemNdP.
Theorem gcxs_getitem_den_partial :
  forall (V : Type) (veqb : V -> V -> bool) (add : V -> V -> V) (kf : nat -> nat)
         (g : gcxs V) (ix : index),
    gcxs_wfb g = true -> (2 <= length (g_shape g))%nat -> StronglySorted Z.lt (g_caxes g) ->
    no_zero_step ix = true -> gcxs_ix_class (g_shape g) ix ->
    match np_index (g_shape g) ix with
    | Raise e => gcxs_getitem V veqb add kf g ix = Raise e /\ e = IndexError
    | Ok (sh', gsrc) =>
      match gcxs_getitem V veqb add kf g ix with
      | Ok (GGArr g') => g_shape g' = sh' /\ g_fill g' = g_fill g
                         /\ forall j, in_range sh' j -> gden g' j = gden g (gsrc j)
      | Ok (GGScalar v) => sh' = [] /\ v = gden g (gsrc [])
      | Raise _ => False
      end
    end.
Proof. exact gcxs_getitem_den_proof. Qed.
Print Assumptions gcxs_getitem_den_partial.

Theorem gcxs_getitem_wf_partial :
  forall (V : Type) (veqb : V -> V -> bool) (add : V -> V -> V) (kf : nat -> nat)
         (g : gcxs V) (ix : index) (g' : gcxs V),
    gcxs_wfb g = true -> (2 <= length (g_shape g))%nat -> StronglySorted Z.lt (g_caxes g) ->
    no_zero_step ix = true -> gcxs_ix_class (g_shape g) ix ->
    gcxs_getitem V veqb add kf g ix = Ok (GGArr g') -> gcxs_wfb g' = true.
Proof. exact gcxs_getitem_wf_proof. Qed.
Print Assumptions gcxs_getitem_wf_partial.

(* ndim <= 1: getitem computes x.tocoo()[key] and converts back with GCXS.from_coo: whatever holds of the COO
   result (coo_getitem_den, coo_getitem_one_array_partial, ...: any index class, None included) holds of the
   GCXS result, which is again well-formed.  (0-d arrays included since fix a4762ef.) *)
Theorem gcxs_getitem_1d_partial :
  forall (V : Type) (veqb : V -> V -> bool) (add : V -> V -> V) (kf : nat -> nat)
         (g : gcxs V) (ix : index),
    gcxs_wfb g = true -> (length (g_shape g) <= 1)%nat -> g_caxes g = [] -> g_indptr g = [] ->
    let c := Convert.gcxs_tocoo veqb add g in
    match np_index (g_shape g) ix with
    | Raise e => getitem kf c ix = Raise e
    | Ok (sh', gsrc) =>
      match getitem kf c ix with
      | Ok (GArr y) => c_shape y = sh' /\ c_fill y = c_fill c /\ canonical V y
                       /\ forall j, in_range sh' j -> den y j = den c (gsrc j)
      | Ok (GScalar v) => sh' = [] /\ v = den c (gsrc [])
      | Raise _ => False
      end
    end ->
    match np_index (g_shape g) ix with
    | Raise e => gcxs_getitem V veqb add kf g ix = Raise e
    | Ok (sh', gsrc) =>
      match gcxs_getitem V veqb add kf g ix with
      | Ok (GGArr g') => g_shape g' = sh' /\ g_fill g' = g_fill g /\ gcxs_wfb g' = true
                         /\ forall j, in_range sh' j -> gden g' j = gden g (gsrc j)
      | Ok (GGScalar v) => sh' = [] /\ v = gden g (gsrc [])
      | Raise _ => False
      end
    end.
Proof. exact gcxs_getitem_1d_proof. Qed.
Print Assumptions gcxs_getitem_1d_partial.


(* The scalar-vs-0-d rule for indices with index arrays: never a scalar, on either side (NumPy: np_scalar
   is false as soon as one entry is not an integer; the code: the result shape has the arrays' axis). *)
Theorem coo_scalar_rule_arrays :
  forall (V : Type) (kf : nat -> nat) (x : coo V) (ix : index) (r : gres V),
    shape_okb (c_shape x) = true -> no_zero_step ix = true -> d29_clause (c_shape x) ix = true ->
    0 < countb is_iarr ix ->
    getitem kf x ix = Ok r -> is_gscalar r = false /\ np_scalar (c_shape x) ix = false.
Proof. exact coo_scalar_rule_arrays_proof. Qed.
Print Assumptions coo_scalar_rule_arrays.

(* Is normalize_index idempotent on its own output (after fix f6512bb)?  For one slice entry: yes whenever
   the normalised stop is non-negative (every forward slice; every backwards slice stopping above index 0)
   — for every start/stop/step incl. None and every extent.  In general: NO — a backwards slice that runs
   down to index 0 is normalised to stop = -1, which a second normalisation wraps (x[::-1] on extent 5:
   slice(4, -1, -1), then slice(4, 4, -1), selecting nothing).  Nothing relies on it any more:
   DOK.__getitem__ hands the raw key to COO, GCXS (ndim 1) too. *)
From Verif Require Import SlicingIdemP.
Theorem slice_norm_idempotent_partial :
  forall (a b c : option Z) (dim s e st : Z),
    0 <= dim -> c <> Some 0 ->
    normalize_slice (VSlice (oz a) (oz b) (oz c)) dim = Ok (VSlice (VInt s) (VInt e) (VInt st)) ->
    0 <= e ->
    normalize_slice (VSlice (VInt s) (VInt e) (VInt st)) dim = Ok (VSlice (VInt s) (VInt e) (VInt st)).
Proof. exact slice_norm_idempotent_proof. Qed.
Print Assumptions slice_norm_idempotent_partial.

Theorem normalize_index_not_idempotent :
  exists (sh : shape) (ix : index) (nix nix2 : list nentry),
    normalize_index ix sh = Ok nix
    /\ normalize_index (map index_of_nentry nix) sh = Ok nix2
    /\ nix2 <> nix
    /\ flat_map (fun e => match e with NSlice s e' st => range_list s e' st | _ => [] end) nix = [4; 3; 2; 1; 0]
    /\ flat_map (fun e => match e with NSlice s e' st => range_list s e' st | _ => [] end) nix2 = [].
Proof. exact normalize_index_not_idempotent_proof. Qed.
Print Assumptions normalize_index_not_idempotent.
