(* Props/C02.v — property-level statements for C02 (indexing).  Only statements, each closed
   by [exact] of a lemma proved elsewhere, with Print Assumptions beneath. *)
From Coq Require Import ZArith List.
From Verif Require Import Py PyExt G_slicing PySlice Slicing SlicingP.
Import ListNotations.
Open Scope Z_scope.

(* For every slice (any start/stop/step incl. None, negative, out of range; step <> 0) and
   every extent, the normalisation the code performs (regenerated from _slicing.py:
   replace_none, posify_index, clip_slice) selects exactly the positions CPython's slice
   semantics select, in the same order.  (Before fix f6512bb this was false: finding D1.) *)
Theorem slice_norm_correct :
  forall (a b c : option Z) (dim : Z),
    0 <= dim -> c <> Some 0 ->
    selects (normalize_slice (VSlice (oz a) (oz b) (oz c)) dim) = slice_selects a b c dim.
Proof. exact slice_norm_correct_proof. Qed.
Print Assumptions slice_norm_correct.
