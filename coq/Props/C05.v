(* Props/C05.v — property-level statements for C05 (construction and format conversion are lossless
   and representation-independent).  Only statements, each closed by [exact] of a lemma proved in
   Proofs/{COOP,ConvertM,ConvertG,ConvertP}.v, with Print Assumptions beneath.

   V is an arbitrary element type with a decidable equality veqb (the code's `equivalent`: bitwise on
   floats, so NaN, inf and -0.0 are just values); add is an arbitrary binary operation (np.add on the
   data dtype) — the stable sort keeps duplicates in their given order, so no algebraic law is needed. *)
From Coq Require Import ZArith List Bool.
From Verif Require Import Py Shape COO GCXS COOP S_convert S_scipyconv Convert ScipyConv ConvertL ConvertM ConvertG ConvertP ConvertU ScipyP.
Import ListNotations.
Open Scope Z_scope.

(* ---------------------------------------------------------------- COO(coords, data, shape) *)
(* unsorted, duplicated, in-range input: the result is canonical and every element is the
   left-to-right sum of the values given for its index, the fill value where none is given *)
Theorem coo_make_den :
  forall (V : Type) (veqb : V -> V -> bool) (add : V -> V -> V)
         (sh : shape) (coords : list idx) (data : list V) (fill : V),
    Forall (in_range sh) coords -> length data = length coords ->
    let r := coo_make veqb add false true false sh coords data fill in
    canonical V r /\ c_shape r = sh /\ c_fill r = fill /\
    forall ix, in_range sh ix ->
      den r ix = match sum_list V add (dup_vals V (combine coords data) ix) with Some s => s | None => fill end.
Proof. exact coo_make_den_proof. Qed.
Print Assumptions coo_make_den.

Example coo_make_den_nonvacuous :
  Forall (in_range [2; 3]) [[1; 2]; [0; 1]; [1; 2]; [1; 0]] /\
  coo_make Z.eqb Z.add false true false [2; 3] [[1; 2]; [0; 1]; [1; 2]; [1; 0]] [4; 5; 5; 7] 0 = ex_c.
Proof. exact ex_coo_make. Qed.

(* prune=True removes the stored fill values and changes no element *)
Theorem coo_make_prune :
  forall (V : Type) (veqb : V -> V -> bool) (add : V -> V -> V),
    (forall a b, veqb a b = true <-> a = b) ->
    forall (sh : shape) (coords : list idx) (data : list V) (fill : V),
    Forall (in_range sh) coords -> length data = length coords ->
    let r := coo_make veqb add false true true sh coords data fill in
    canonical V r /\ prunedb veqb r = true /\
    forall ix, den r ix = den (coo_make veqb add false true false sh coords data fill) ix.
Proof. exact coo_make_prune_proof. Qed.
Print Assumptions coo_make_prune.

(* the hand-written kernels of _compressed/convert.py and the strided loop of COO.reshape are
   Shape.unravel / Shape.ravel on their domain *)
Theorem unravel_kernel_spec :
  forall (sh : shape) (n : Z) (ix : idx),
    sh <> [] -> shape_ok sh ->
    (0 <= n < size sh -> unravel_k n sh = unravel sh n /\ unravel_strided sh n = unravel sh n)
    /\ (in_range sh ix -> ravel_k ix sh = ravel sh ix).
Proof. exact unravel_kernel_spec_proof. Qed.
Print Assumptions unravel_kernel_spec.

(* ---------------------------------------------------------------- dense <-> COO *)
Theorem from_dense_roundtrip :
  forall (V : Type) (veqb : V -> V -> bool),
    (forall a b, veqb a b = true <-> a = b) ->
    forall (d : dense V) (fill : V),
    dense_wf d ->
    todense (from_dense veqb d fill) = d
    /\ canonicalb (from_dense veqb d fill) = true /\ prunedb veqb (from_dense veqb d fill) = true.
Proof. exact from_dense_roundtrip_proof. Qed.
Print Assumptions from_dense_roundtrip.

(* ---------------------------------------------------------------- COO <-> GCXS *)
(* valid compressed axes: for ndim < 2 there are none to choose; for ndim >= 2 any non-empty
   repetition-free list of in-range axes that leaves at least one axis uncompressed (the code
   additionally demands that the list is sorted: a special case) *)
Theorem gcxs_from_coo_wf :
  forall (V : Type) (veqb : V -> V -> bool) (add : V -> V -> V) (c : coo V) (ca : list Z),
    canonical V c -> shape_ok (c_shape c) -> axes_ok (c_shape c) ca ->
    gcxs_wfb (gcxs_from_coo c ca) = true.
Proof. exact gcxs_from_coo_wf_proof. Qed.
Print Assumptions gcxs_from_coo_wf.

Theorem gcxs_from_coo_den :
  forall (V : Type) (veqb : V -> V -> bool) (add : V -> V -> V) (c : coo V) (ca : list Z) (ix : idx),
    canonical V c -> shape_ok (c_shape c) -> axes_ok (c_shape c) ca ->
    gden (gcxs_from_coo c ca) ix = den c ix.
Proof. exact gcxs_from_coo_den_proof. Qed.
Print Assumptions gcxs_from_coo_den.

(* tocoo inverts _from_coo: every ndim (0 and 1 included), every valid compressed-axes choice *)
Theorem tocoo_from_coo :
  forall (V : Type) (veqb : V -> V -> bool) (add : V -> V -> V) (c : coo V) (ca : list Z),
    canonical V c -> shape_ok (c_shape c) -> axes_ok (c_shape c) ca ->
    gcxs_tocoo veqb add (gcxs_from_coo c ca) = c.
Proof. exact tocoo_from_coo_proof. Qed.
Print Assumptions tocoo_from_coo.

Example gcxs_nonvacuous :
  caxes_okb 2 [1] = true /\
  gcxs_from_coo ex_c [1] = mkGCXS [2; 3] [1] [7; 5; 9] [1; 0; 1] [0; 1; 2; 3] 0 /\
  gcxs_wfb (gcxs_from_coo ex_c [1]) = true /\
  gcxs_tocoo Z.eqb Z.add (gcxs_from_coo ex_c [1]) = ex_c /\
  gcxs_change_axes (gcxs_from_coo ex_c [1]) [0] = gcxs_from_coo ex_c [0].
Proof. exact ex_gcxs. Qed.

(* change_compressed_axes (through _transpose/_convert_coords) of the compressed form of a
   canonical COO: same elements, well-formed *)
Theorem change_axes_den :
  forall (V : Type) (veqb : V -> V -> bool) (add : V -> V -> V) (c : coo V) (ca ca' : list Z) (ix : idx),
    canonical V c -> shape_ok (c_shape c) -> (2 <= length (c_shape c))%nat ->
    caxes_okb (Z.of_nat (length (c_shape c))) ca = true ->
    caxes_okb (Z.of_nat (length (c_shape c))) ca' = true ->
    gden (gcxs_change_axes (gcxs_from_coo c ca) ca') ix = den c ix.
Proof. exact change_axes_den_proof. Qed.
Print Assumptions change_axes_den.

Theorem change_axes_wf :
  forall (V : Type) (veqb : V -> V -> bool) (add : V -> V -> V) (c : coo V) (ca ca' : list Z),
    canonical V c -> shape_ok (c_shape c) -> (2 <= length (c_shape c))%nat ->
    caxes_okb (Z.of_nat (length (c_shape c))) ca = true ->
    caxes_okb (Z.of_nat (length (c_shape c))) ca' = true ->
    gcxs_wfb (gcxs_change_axes (gcxs_from_coo c ca) ca') = true.
Proof. exact change_axes_wf_proof. Qed.
Print Assumptions change_axes_wf.

(* the index dtype: _from_coo and _transpose store row numbers, column numbers and pointers by plain
   array assignment into arrays of the dtype they choose (values that do not fit would wrap silently).
   The capacities are built from the bound expressions extracted from the source on every run
   (tools/sitegen/convert.py -> Gen/S_convert.v): everything stored is within the capacity, so nothing
   wraps whatever the coordinate dtype of the operand is. *)
Theorem gcxs_from_coo_fits :
  forall (V : Type) (c : coo V) (ca : list Z),
    canonical V c -> shape_ok (c_shape c) -> (2 <= length (c_shape c))%nat ->
    caxes_okb (Z.of_nat (length (c_shape c))) ca = true ->
    let g := gcxs_from_coo c ca in
    let cap := from_coo_capacity (c_shape c) ca (Z.of_nat (length (c_data c))) in
    fitsb cap (g_indices g) = true /\ fitsb cap (row_numbers (g_indptr g)) = true /\ fitsb cap (g_indptr g) = true.
Proof. exact gcxs_from_coo_fits_proof. Qed.
Print Assumptions gcxs_from_coo_fits.

Theorem change_axes_fits :
  forall (V : Type) (c : coo V) (ca ca' : list Z),
    canonical V c -> shape_ok (c_shape c) -> (2 <= length (c_shape c))%nat ->
    caxes_okb (Z.of_nat (length (c_shape c))) ca = true ->
    caxes_okb (Z.of_nat (length (c_shape c))) ca' = true -> ca' <> ca ->
    let g := gcxs_change_axes (gcxs_from_coo c ca) ca' in
    let cap := transpose_capacity (c_shape c) ca' (Z.of_nat (length (c_data c))) in
    fitsb cap (g_indices g) = true /\ fitsb cap (row_numbers (g_indptr g)) = true /\ fitsb cap (g_indptr g) = true.
Proof. exact change_axes_fits_proof. Qed.
Print Assumptions change_axes_fits.

(* ---------------------------------------------------------------- DOK <-> COO *)
(* DOK.from_coo then asformat("coo") (COO.from_iter on the dict) returns the same COO, 0-d included *)
Theorem dok_roundtrip :
  forall (V : Type) (veqb : V -> V -> bool) (add : V -> V -> V) (c : coo V),
    canonical V c ->
    from_iter_pairs veqb add (c_shape c) (dok_items_of_coo c) (c_fill c) = Ok c
    /\ forall ix, den (dok_as_coo (c_shape c) (dok_items_of_coo c) (c_fill c)) ix = den c ix.
Proof. exact dok_roundtrip_proof. Qed.
Print Assumptions dok_roundtrip.

Example dok_roundtrip_nonvacuous :
  from_iter_pairs Z.eqb Z.add (c_shape ex_c) (dok_items_of_coo ex_c) (c_fill ex_c) = Ok ex_c.
Proof. exact ex_dok. Qed.

(* ---------------------------------------------------------------- uniqueness of the canonical form *)
Theorem canonical_unique :
  forall (V : Type) (veqb : V -> V -> bool),
    (forall a b, veqb a b = true <-> a = b) ->
    forall c1 c2 : coo V,
    canonical V c1 -> canonical V c2 -> prunedb veqb c1 = true -> prunedb veqb c2 = true ->
    c_shape c1 = c_shape c2 -> c_fill c1 = c_fill c2 ->
    (forall ix, in_range (c_shape c1) ix -> den c1 ix = den c2 ix) ->
    c1 = c2.
Proof. exact COOP.canonical_unique. Qed.
Print Assumptions canonical_unique.

(* ---------------------------------------------------------------- chains (histories) *)
(* for EVERY finite history of valid conversions starting from a canonical COO (any ndim, 0-d included):
   the run succeeds, the result is in canonical form, and shape, fill value and every element are those
   of the starting array *)
Theorem conversion_chain_den :
  forall (V : Type) (veqb : V -> V -> bool) (add : V -> V -> V),
    (forall a b, veqb a b = true <-> a = b) ->
    forall (c0 : coo V) (hops : list fmt),
    canonical V c0 -> shape_ok (c_shape c0) ->
    forallb (hop_okb (c_shape c0)) hops = true ->
    exists r, run_chain veqb add (RCoo c0) hops = Ok r
              /\ wf_r r = true /\ shape_r r = c_shape c0 /\ fill_r r = c_fill c0
              /\ forall ix, in_range (c_shape c0) ix -> den_r r ix = den c0 ix.
Proof. exact conversion_chain_den_proof. Qed.
Print Assumptions conversion_chain_den.

Example conversion_chain_nonvacuous :
  forallb (hop_okb (c_shape ex_c)) ex_hops = true /\
  run_chain Z.eqb Z.add (RCoo ex_c) ex_hops = Ok (RCoo ex_c).
Proof. exact ex_chain. Qed.

Example conversion_chain_0d :
  canonical Z ex_c0 /\ run_chain Z.eqb Z.add (RCoo ex_c0) [FDok; FCoo; FGcxs None; FDok; FDense; FCoo] = Ok (RCoo ex_c0).
Proof. exact ex_chain_0d. Qed.

(* representation independence: whatever representations a pruned canonical array has been held in,
   converting back to COO yields the identical record — so the value of any operation computed from
   it cannot depend on the history (corollary of canonical_unique and the chain invariant) *)
Theorem representation_independence :
  forall (V : Type) (veqb : V -> V -> bool) (add : V -> V -> V),
    (forall a b, veqb a b = true <-> a = b) ->
    forall (c0 : coo V) (hops : list fmt),
    canonical V c0 -> prunedb veqb c0 = true -> shape_ok (c_shape c0) ->
    forallb (hop_okb (c_shape c0)) hops = true ->
    run_chain veqb add (RCoo c0) (hops ++ [FCoo]) = Ok (RCoo c0).
Proof. exact representation_independence_proof. Qed.
Print Assumptions representation_independence.

(* ---------------------------------------------------------------- every well-formed GCXS is a compressed form *)
(* gcxs_strictb = gcxs_wfb, plus: a 0-d / 1-d GCXS keeps compressed_axes and indptr empty (gcxs_wfb does
   not look at those unused fields).  Surjectivity of _from_coo: *)
Theorem from_coo_tocoo :
  forall (V : Type) (veqb : V -> V -> bool) (add : V -> V -> V) (g : gcxs V),
    gcxs_strictb V g = true -> gcxs_from_coo (gcxs_tocoo veqb add g) (g_caxes g) = g.
Proof. exact from_coo_tocoo_proof. Qed.
Print Assumptions from_coo_tocoo.

(* the well-formed pruned GCXS record with given shape, compressed axes and fill value is determined
   by its elements *)
Theorem gcxs_unique :
  forall (V : Type) (veqb : V -> V -> bool) (add : V -> V -> V),
    (forall a b, veqb a b = true <-> a = b) ->
    forall g1 g2 : gcxs V,
    gcxs_strictb V g1 = true -> gcxs_strictb V g2 = true ->
    g_shape g1 = g_shape g2 -> g_caxes g1 = g_caxes g2 -> g_fill g1 = g_fill g2 ->
    forallb (fun v => negb (veqb v (g_fill g1))) (g_data g1) = true ->
    forallb (fun v => negb (veqb v (g_fill g2))) (g_data g2) = true ->
    (forall ix, in_range (g_shape g1) ix -> gden g1 ix = gden g2 ix) ->
    g1 = g2.
Proof. exact gcxs_unique_proof. Qed.
Print Assumptions gcxs_unique.

(* change_compressed_axes of an ARBITRARY well-formed GCXS (ndim >= 2): well-formed, same elements,
   and equal to compressing its COO form directly *)
Theorem change_axes_any :
  forall (V : Type) (veqb : V -> V -> bool) (add : V -> V -> V) (g : gcxs V) (ca' : list Z),
    gcxs_wfb g = true -> (2 <= length (g_shape g))%nat ->
    caxes_okb (Z.of_nat (length (g_shape g))) ca' = true ->
    gcxs_wfb (gcxs_change_axes g ca') = true
    /\ (forall ix, gden (gcxs_change_axes g ca') ix = gden g ix)
    /\ gcxs_change_axes g ca' = gcxs_from_coo (gcxs_tocoo veqb add g) ca'.
Proof. exact change_axes_any_proof. Qed.
Print Assumptions change_axes_any.

(* ---------------------------------------------------------------- the scipy.sparse hops (Model/ScipyConv.v) *)
(* GCXS / CSR / CSC from a csr/csc matrix, canonical or not (unsorted indices, repeated positions): the
   result is well-formed and every element is the sum of the values stored for its position — the
   re-canonicalisation condition, the axis choice and the constructor flags are those extracted from
   the source (Gen/S_scipyconv.v) *)
Theorem from_scipy_correct :
  forall (V : Type) (veqb : V -> V -> bool) (add : V -> V -> V) (zero : V) (m : scs V),
    sc_structb m = true ->
    let g := gcxs_from_scipy veqb add zero m in
    gcxs_wfb g = true /\ g_shape g = sc_shape m /\ g_caxes g = [sc_axis m] /\ g_fill g = zero
    /\ forall ix, in_range (sc_shape m) ix -> gden g ix = sc_meaning V add zero m ix.
Proof. exact from_scipy_correct_proof. Qed.
Print Assumptions from_scipy_correct.

(* the caller's scipy matrix is left as it was: _canonical_scipy copies before scipy's in-place
   sum_duplicates() (site fact s_canonical_scipy_copies_first of Gen/S_scipyconv.v) *)
Theorem scipy_operand_unchanged :
  forall (V : Type) (veqb : V -> V -> bool) (add : V -> V -> V) (zero : V) (m : scs V),
    scipy_operand_after veqb add zero m = m.
Proof. exact scipy_operand_unchanged_proof. Qed.
Print Assumptions scipy_operand_unchanged.

Theorem gcxs_scipy_roundtrip :
  forall (V : Type) (veqb : V -> V -> bool) (add : V -> V -> V) (zero : V),
    (forall a b, veqb a b = true <-> a = b) ->
    forall (g : gcxs V) (d0 d1 a : Z),
    gcxs_wfb g = true -> g_shape g = [d0; d1] -> g_caxes g = [a] -> (a = 0 \/ a = 1) -> g_fill g = zero ->
    exists m, gcxs_to_scipy veqb zero g = Ok m /\ sc_structb m = true /\ gcxs_from_scipy veqb add zero m = g.
Proof. exact gcxs_scipy_roundtrip_proof. Qed.
Print Assumptions gcxs_scipy_roundtrip.

Theorem coo_scipy_roundtrip :
  forall (V : Type) (veqb : V -> V -> bool) (add : V -> V -> V) (zero : V),
    (forall a b, veqb a b = true <-> a = b) ->
    forall (c : coo V) (d0 d1 : Z),
    canonical V c -> c_shape c = [d0; d1] -> c_fill c = zero ->
    exists flag sh coords data,
      coo_to_scipy veqb zero c = Ok (flag, sh, coords, data) /\ coo_from_scipy veqb add zero flag sh coords data = c.
Proof. exact coo_scipy_roundtrip_proof. Qed.
Print Assumptions coo_scipy_roundtrip.

Theorem coo_from_scipy_den :
  forall (V : Type) (veqb : V -> V -> bool) (add : V -> V -> V) (zero : V)
         (sh : shape) (coords : list idx) (data : list V),
    Forall (in_range sh) coords -> length data = length coords ->
    let r := coo_from_scipy veqb add zero false sh coords data in
    canonical V r /\ c_shape r = sh /\ c_fill r = zero /\
    forall ix, in_range sh ix ->
      den r ix = match sum_list V add (dup_vals V (combine coords data) ix) with Some s => s | None => zero end.
Proof. exact coo_from_scipy_den_proof. Qed.
Print Assumptions coo_from_scipy_den.

Example scipy_nonvacuous :
  sc_structb ex_m = true /\ sc_canonicalb ex_m = false /\
  gcxs_from_scipy Z.eqb Z.add 0 ex_m = mkGCXS [2; 3] [0] [2; 4; 4] [0; 2; 1] [0; 2; 3] 0 /\
  gcxs_strictb Z (gcxs_from_scipy Z.eqb Z.add 0 ex_m) = true /\
  gcxs_to_scipy Z.eqb 0 (gcxs_from_coo ex_c [1]) = Ok (mkSCS true [2; 3] [7; 5; 9] [1; 0; 1] [0; 1; 2; 3]) /\
  gcxs_from_scipy Z.eqb Z.add 0 (mkSCS true [2; 3] [7; 5; 9] [1; 0; 1] [0; 1; 2; 3]) = gcxs_from_coo ex_c [1].
Proof. exact ex_scipy. Qed.
